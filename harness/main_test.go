package harness

import (
	"encoding/json"
	"flag"
	"fmt"
	"hash/fnv"
	"os"
	"runtime"
	"strings"
	"testing"
	"testing/synctest"
	"time"

	"verifharness/drivers"
	"verifharness/sched"
	"verifharness/trace"
)

var (
	fDriver = flag.String("driver", "", "driver name")
	fOut    = flag.String("out", "", "ndjson trace output")
	fStats  = flag.String("stats", "", "stats json output")
	fN      = flag.Int("n", 0, "number of seeded random executions")
	fSeed   = flag.Int64("seed", 1, "base seed")
	fSched  = flag.String("sched", "", "schedule file (json list of {scenario, labels})")
	fFrom   = flag.Int("from", 0, "first schedule index")
	fTo     = flag.Int("to", -1, "last schedule index (exclusive, -1 = all)")
	fRun0   = flag.Int("run0", 0, "first run number")
	fProcs  = flag.Int("procs", 1, "GOMAXPROCS for controlled executions")
	fOpt    = flag.String("opt", "", "driver option string")
	fSteps  = flag.Bool("logsteps", false, "log controller steps as events (X-level trace validation)")
)

// Schedule is one TLC-generated schedule.
type Schedule struct {
	Scenario json.RawMessage `json:"scenario"`
	Labels   []string        `json:"labels"`
	Name     string          `json:"name"`
}

type stats struct {
	Driver     string           `json:"driver"`
	Executions int              `json:"executions"`
	Events     int              `json:"events"`
	Schedules  int              `json:"schedules"`
	Followed   int              `json:"schedules_followed"`
	Distinct   int              `json:"distinct_label_sequences"`
	Steps      int              `json:"steps"`
	Deadlocks  int              `json:"bubble_deadlocks"`
	Samples    []map[string]any `json:"samples"`
	WallS      float64          `json:"wall_s"`
	Seed       int64            `json:"seed"`
	FirstRun   int              `json:"first_run"`
	LastRun    int              `json:"last_run"`
	RunIndex   map[string]any   `json:"-"`
}

// watchdogLimit: see the watchdog in TestRun.
var watchdogLimit = 60 * time.Second

func TestRun(t *testing.T) {
	if *fDriver == "" {
		t.Skip("no -driver")
	}
	drivers.Opt = *fOpt
	runtime.GOMAXPROCS(*fProcs)
	sched.Install()
	tw, err := trace.New(*fOut)
	if err != nil {
		t.Fatal(err)
	}
	defer tw.Close()
	var scheds []Schedule
	if *fSched != "" {
		b, err := os.ReadFile(*fSched)
		if err != nil {
			t.Fatal(err)
		}
		if err := json.Unmarshal(b, &scheds); err != nil {
			t.Fatal(err)
		}
		if *fTo >= 0 && *fTo < len(scheds) {
			scheds = scheds[:*fTo]
		}
		if *fFrom > 0 {
			if *fFrom > len(scheds) {
				*fFrom = len(scheds)
			}
			scheds = scheds[*fFrom:]
		}
	}
	st := stats{Driver: *fDriver, Seed: *fSeed, FirstRun: *fRun0}
	seen := map[uint64]bool{}
	t0 := time.Now()
	run := *fRun0
	one := func(sc *Schedule, seed int64) {
		run++
		var x *sched.Exec
		var used json.RawMessage
		// Watchdog (real time, outside the bubble): an execution takes milliseconds; one that is still
		// going after a minute has a goroutine spinning on the CPU without ever reaching a hook (the
		// bubble cannot settle). All stacks are dumped and the process ends; the pipeline reads the
		// dump: a spinning goroutine whose innermost non-runtime frame is library code is an observation.
		done := make(chan struct{})
		go func(run int) {
			select {
			case <-done:
			case <-time.After(watchdogLimit):
				buf := make([]byte, 1<<22)
				n := runtime.Stack(buf, true)
				fmt.Fprintf(os.Stderr, "fatal error: livelock: execution %d still running after %v\n\n%s\n", run, watchdogLimit, buf[:n])
				os.Exit(3)
			}
		}(run)
		defer close(done)
		func() {
			defer func() {
				if r := recover(); r != nil {
					msg := fmt.Sprint(r)
					if strings.Contains(msg, "deadlock") {
						st.Deadlocks++
						if st.Deadlocks <= 1 && os.Getenv("VERIF_DEBUG") != "" {
							fmt.Fprintln(os.Stderr, msg)
						}
						tw.Log(trace.E{"ev": "leak", "msg": "bubble deadlock: goroutines left blocked at the end of the execution"})
						return
					}
					tw.Flush()
					panic(r)
				}
			}()
			synctest.Test(t, func(t *testing.T) {
				x = sched.NewExec(tw, seed)
				x.LogSteps = *fSteps
				defer x.Detach()
				name := ""
				if sc != nil {
					x.Sched = sc.Labels
					name = sc.Name
				}
				tw.Reset(run, trace.E{"driver": *fDriver, "seed": seed, "sched": name})
				d := drivers.Get(*fDriver)
				if d == nil {
					t.Fatalf("unknown driver %q (have %v)", *fDriver, drivers.Names())
				}
				var raw json.RawMessage
				if sc != nil {
					raw = sc.Scenario
				}
				used = d.Run(x, raw)
				stuck := x.StopClients()
				if os.Getenv("VERIF_DEBUG") == "2" {
					buf := make([]byte, 1<<20)
					fmt.Fprintf(os.Stderr, "=== run %d goroutines\n%s\n", run, buf[:runtime.Stack(buf, true)])
				}
				tw.Log(trace.E{"ev": "end", "steps": x.Steps, "stuck": append([]string{}, stuck...), "labels": append([]string{}, x.Labels...), "scenario": used, "followed": x.SchedDone()})
			})
		}()
		st.Executions++
		if x != nil {
			st.Steps += x.Steps
			if sc != nil {
				st.Schedules++
				if x.SchedDone() {
					st.Followed++
				}
			}
			h := fnv.New64a()
			h.Write(used)
			for _, l := range x.Labels {
				h.Write([]byte(l))
				h.Write([]byte{0})
			}
			k := h.Sum64()
			if !seen[k] {
				seen[k] = true
			}
			if len(st.Samples) < 3 {
				st.Samples = append(st.Samples, map[string]any{"run": run, "scenario": used, "labels": x.Labels, "from_schedule": sc != nil})
			}
		}
	}
	for i := range scheds {
		one(&scheds[i], *fSeed*1000003+int64(i))
	}
	// "v<k>" in the option string selects another family of seeded executions (extra thorough runs)
	var variant int64
	for _, o := range strings.Split(*fOpt, ",") {
		var v int64
		if n, _ := fmt.Sscanf(o, "v%d", &v); n == 1 {
			variant = v
		}
	}
	for i := 0; i < *fN; i++ {
		// (shards get consecutive base seeds: the stride must exceed any shard's number of executions)
		one(nil, *fSeed*1000003+500000+int64(i)+variant*1000000007000)
	}
	st.Distinct = len(seen)
	st.Events = tw.Events()
	st.WallS = time.Since(t0).Seconds()
	st.LastRun = run
	if *fStats != "" {
		b, _ := json.MarshalIndent(st, "", " ")
		os.WriteFile(*fStats, b, 0o644)
	}
}
