module verifharness

go 1.26.8

require (
	github.com/aperturerobotics/util v0.0.0
	github.com/cenkalti/backoff/v4 v4.3.0
)

require github.com/pkg/errors v0.9.1 // indirect

replace github.com/aperturerobotics/util => /repo
