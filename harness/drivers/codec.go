//go:build drv_codec || drv_all

package drivers

import (
	"bufio"
	"encoding/json"
	"fmt"
	"io"
	"math/rand"
	randv2 "math/rand/v2"
	"os"
	"strings"
	"sync"

	"verifharness/sched"
	"verifharness/trace"

	"github.com/aperturerobotics/util/commonprefix"
	"github.com/aperturerobotics/util/padding"
	"github.com/aperturerobotics/util/prng"
)

// Driver of the codec family (C19): evaluates the real padding / commonprefix / prng functions
// on input vectors and logs (input, output | error | panic) events for the CodecP monitor.
//
// One execution is a batch of vectors:
//
//	{"kind":"vec","from":a,"to":b}   vectors a..b-1 of the TLC-generated file named by -opt vec=<path>
//	{"kind":"rand","rseed":s,"n":k}  k seeded random inputs beyond the enumerated box
//
// The functions are pure and sequential; the controller is not involved.

type codecScenario struct {
	Kind  string `json:"kind"`
	From  int    `json:"from"`
	To    int    `json:"to"`
	RSeed int64  `json:"rseed"`
	N     int    `json:"n"`
}

type codecVec struct {
	K     string  `json:"k"` // pad | unpad | cp | prng
	X     []int   `json:"x"`
	Slack int     `json:"slack"`
	Strs  [][]int `json:"strs"`
	Seed  [][]int `json:"seed"`
	Reads []int   `json:"reads"`
}

var (
	codecVecOnce sync.Once
	codecVecs    [][]byte
	codecVecErr  error
)

func codecLoadVecs() ([][]byte, error) {
	codecVecOnce.Do(func() {
		path := ""
		for _, kv := range strings.Split(Opt, ",") {
			if strings.HasPrefix(kv, "vec=") {
				path = kv[4:]
			}
		}
		if path == "" {
			codecVecErr = fmt.Errorf("codec: no vec=<path> in -opt %q", Opt)
			return
		}
		f, err := os.Open(path)
		if err != nil {
			codecVecErr = err
			return
		}
		defer f.Close()
		sc := bufio.NewScanner(f)
		sc.Buffer(make([]byte, 1<<20), 1<<26)
		for sc.Scan() {
			codecVecs = append(codecVecs, append([]byte(nil), sc.Bytes()...))
		}
		codecVecErr = sc.Err()
	})
	return codecVecs, codecVecErr
}

type codecDriver struct {
	x *sched.Exec
}

func init() { Register("codec", func() Driver { return &codecDriver{} }) }

func cInts(b []byte) []int {
	out := make([]int, len(b))
	for i, v := range b {
		out[i] = int(v)
	}
	return out
}

func cBytes(v []int) []byte {
	out := make([]byte, len(v))
	for i, x := range v {
		out[i] = byte(x)
	}
	return out
}

func cIntss(ss []string) [][]int {
	out := make([][]int, len(ss))
	for i, s := range ss {
		out[i] = cInts([]byte(s))
	}
	return out
}

// cCatch runs f and reports a panic as a string ("" = none).
func cCatch(f func()) (msg string) {
	defer func() {
		if r := recover(); r != nil {
			msg = fmt.Sprint(r)
			if len(msg) > 120 {
				msg = msg[:120]
			}
			if msg == "" {
				msg = "panic"
			}
		}
	}()
	f()
	return ""
}

const codecSentinel = 0xEE

// cSlice returns a slice with contents x and exactly `slack` bytes of spare capacity that hold garbage.
func cSlice(x []byte, slack int) []byte {
	if slack < 0 {
		slack = 0
	}
	buf := make([]byte, len(x)+slack)
	copy(buf, x)
	for i := len(x); i < len(buf); i++ {
		buf[i] = codecSentinel
	}
	return buf[:len(x):len(buf)]
}

func (d *codecDriver) doPad(x []byte, slack int) {
	in := cSlice(x, slack)
	var out []byte
	msg := cCatch(func() { out = padding.PadInPlace(in) })
	res := "ok"
	if msg != "" {
		res, out = "panic", nil
	}
	d.x.Log(trace.E{"ev": "pad", "x": cInts(x), "slack": slack, "res": res, "out": cInts(out), "msg": msg})
	if msg != "" {
		return
	}
	var un []byte
	var err error
	msg = cCatch(func() { un, err = padding.UnpadInPlace(out) })
	res = "ok"
	switch {
	case msg != "":
		res, un = "panic", nil
	case err != nil:
		res, un, msg = "err", nil, err.Error()
	}
	d.x.Log(trace.E{"ev": "unpadrt", "res": res, "out": cInts(un), "msg": msg})
}

func (d *codecDriver) doUnpad(x []byte, slack int, useNil bool) {
	in := cSlice(x, slack)
	if useNil {
		in = nil
	}
	var un []byte
	var err error
	msg := cCatch(func() { un, err = padding.UnpadInPlace(in) })
	res := "ok"
	switch {
	case msg != "":
		res, un = "panic", nil
	case err != nil:
		res, un, msg = "err", nil, err.Error()
	}
	d.x.Log(trace.E{"ev": "unpad", "x": cInts(x), "res": res, "out": cInts(un), "msg": msg, "nil": useNil})
}

func (d *codecDriver) doCommon(strs []string) {
	a := append([]string{}, strs...)
	var pre string
	pmsg := cCatch(func() { pre = commonprefix.Prefix(a...) })
	pres := "ok"
	if pmsg != "" {
		pres, pre = "panic", ""
	}
	b := append([]string{}, strs...)
	tmsg := cCatch(func() { commonprefix.TrimPrefix(b...) })
	tres := "ok"
	if tmsg != "" {
		tres = "panic"
	}
	d.x.Log(trace.E{"ev": "cp", "strs": cIntss(strs), "pres": pres, "pre": cInts([]byte(pre)), "tres": tres, "trim": cIntss(b), "msg": pmsg + tmsg})
}

func cLimbs(w uint64) []int {
	return []int{int(w & 0xffff), int((w >> 16) & 0xffff), int((w >> 32) & 0xffff), int((w >> 48) & 0xffff)}
}

func (d *codecDriver) prngRead(id int, r io.Reader, n int) {
	p := make([]byte, n)
	var cnt int
	var err error
	msg := cCatch(func() { cnt, err = r.Read(p) })
	res := "ok"
	switch {
	case msg != "":
		res, cnt = "panic", 0
	case err != nil:
		res, msg = "err", err.Error()
	}
	if cnt < 0 || cnt > n {
		cnt = 0
		res = "panic"
		msg = "count out of range"
	}
	d.x.Log(trace.E{"ev": "prngread", "id": id, "n": n, "res": res, "got": cInts(p[:cnt]), "msg": msg})
}

func (d *codecDriver) prngSrc(id int, seed [][]byte, seedI [][]int, nw int) {
	words := make([][]int, 0, nw)
	msg := cCatch(func() {
		var s randv2.Source = prng.BuildSeededRand(seed...)
		for i := 0; i < nw; i++ {
			words = append(words, cLimbs(s.Uint64()))
		}
	})
	res := "ok"
	if msg != "" {
		res = "panic"
	}
	d.x.Log(trace.E{"ev": "prngsrc", "id": id, "seed": seedI, "res": res, "words": words, "msg": msg})
}

// resplit returns the same seed bytes split differently across the byte strings.
func cResplit(seed [][]byte) [][]byte {
	var flat []byte
	for _, s := range seed {
		flat = append(flat, s...)
	}
	if len(seed) == 1 && len(flat) >= 2 {
		return [][]byte{flat[:1], flat[1:]}
	}
	return [][]byte{append([]byte{}, flat...)}
}

func (d *codecDriver) doPrng(seedI [][]int, reads []int) {
	seed := make([][]byte, len(seedI))
	if seedI == nil {
		seedI = [][]int{}
	}
	for i, s := range seedI {
		seed[i] = cBytes(s)
		if seedI[i] == nil {
			seedI[i] = []int{}
		}
	}
	total := 0
	for _, n := range reads {
		total += n
	}
	ref := total + 9
	nw := ref/8 + 2
	var rdA, rdB, rdC io.Reader
	d.x.Log(trace.E{"ev": "prngbegin"})
	mk := func(id int, sd [][]byte, f func() io.Reader) io.Reader {
		var r io.Reader
		msg := cCatch(func() { r = f() })
		si := make([][]int, len(sd))
		for i := range sd {
			si[i] = cInts(sd[i])
		}
		d.x.Log(trace.E{"ev": "prngnew", "id": id, "seed": si, "msg": msg})
		return r
	}
	rdA = mk(1, seed, func() io.Reader { return prng.BuildSeededReader(seed...) })
	rdB = mk(2, seed, func() io.Reader { return prng.SourceToReader(prng.BuildSeededRand(seed...)) })
	alt := cResplit(seed)
	rdC = mk(3, alt, func() io.Reader { return prng.BuildSeededReader(alt...) })
	d.prngSrc(1, seed, seedI, nw)
	d.prngSrc(2, seed, seedI, nw/2+1)
	if rdB != nil {
		d.prngRead(2, rdB, ref)
	}
	if rdA != nil {
		for _, n := range reads {
			d.prngRead(1, rdA, n)
		}
	}
	if rdC != nil {
		// third reader: byte-wise for the first bytes, then the rest
		k := total
		if k > 11 {
			k = 11
		}
		for i := 0; i < k; i++ {
			d.prngRead(3, rdC, 1)
		}
		d.prngRead(3, rdC, total-k)
	}
}

func (d *codecDriver) doVec(v *codecVec) {
	switch v.K {
	case "pad":
		d.doPad(cBytes(v.X), v.Slack)
	case "unpad":
		d.doUnpad(cBytes(v.X), v.Slack, false)
		if len(v.X) == 0 {
			d.doUnpad(nil, 0, true)
		}
	case "cp":
		strs := make([]string, len(v.Strs))
		for i, s := range v.Strs {
			strs[i] = string(cBytes(s))
		}
		d.doCommon(strs)
	case "prng":
		d.doPrng(v.Seed, v.Reads)
	default:
		d.x.Log(trace.E{"ev": "badvector", "k": v.K})
	}
}

// ---------------------------------------------------------------- seeded random inputs

func cRandBytes(r *rand.Rand, n int) []byte {
	b := make([]byte, n)
	switch r.Intn(4) {
	case 0: // arbitrary
		r.Read(b)
	case 1: // high bytes and UTF-8 fragments
		al := []byte{0x80, 0xC3, 0xA9, 0xFF, 0xC2, 0xE2, 0x82, 0xAC, 0xF0, 0x61}
		for i := range b {
			b[i] = al[r.Intn(len(al))]
		}
	case 2: // small values (look like padding lengths)
		for i := range b {
			b[i] = byte(r.Intn(40))
		}
	default:
		for i := range b {
			b[i] = byte(r.Intn(256))
		}
	}
	return b
}

func cRandLen(r *rand.Rand) int {
	switch r.Intn(10) {
	case 0, 1, 2, 3: // around a 32-byte boundary
		n := 32*r.Intn(9) + r.Intn(5) - 2
		if n < 0 {
			n = 0
		}
		return n
	case 4:
		return 32*r.Intn(128) + r.Intn(5) - 2 + 2
	case 5:
		return r.Intn(4097)
	default:
		return r.Intn(300)
	}
}

func (d *codecDriver) doRandom(r *rand.Rand) {
	switch r.Intn(8) {
	case 0, 1:
		n := cRandLen(r)
		x := cRandBytes(r, n)
		need := 32 - (n+1)%32
		var slack int
		switch r.Intn(6) {
		case 0:
			slack = 0
		case 1:
			slack = 1
		case 2:
			slack = need - 1
		case 3:
			slack = need % 32
		case 4:
			slack = need + r.Intn(64)
		default:
			slack = r.Intn(80)
		}
		d.doPad(x, slack)
	case 2, 3, 4:
		n := cRandLen(r)
		x := cRandBytes(r, n)
		if n > 0 {
			switch r.Intn(4) {
			case 0:
				x[n-1] = byte(r.Intn(33))
			case 1:
				x[n-1] = byte((n - 1 + r.Intn(3) - 1) & 0xff)
			case 2:
				x[n-1] = byte(r.Intn(256))
			}
		}
		d.doUnpad(x, r.Intn(40), false)
	case 5, 6:
		k := 1 + r.Intn(5)
		pl := r.Intn(40)
		if r.Intn(12) == 0 {
			pl = r.Intn(4097)
		}
		pre := cRandBytes(r, pl)
		strs := make([]string, k)
		for i := range strs {
			tail := cRandBytes(r, r.Intn(6))
			strs[i] = string(pre) + string(tail)
		}
		if r.Intn(6) == 0 {
			strs[r.Intn(k)] = string(pre[:r.Intn(pl+1)])
		}
		if r.Intn(10) == 0 {
			strs[r.Intn(k)] = strs[0]
		}
		d.doCommon(strs)
	default:
		ns := r.Intn(4)
		seed := make([][]int, ns)
		for i := range seed {
			seed[i] = cInts(cRandBytes(r, r.Intn(40)))
		}
		nr := 1 + r.Intn(12)
		reads := make([]int, nr)
		for i := range reads {
			switch r.Intn(8) {
			case 0:
				reads[i] = 0
			case 1:
				reads[i] = 8 * (1 + r.Intn(4))
			case 2:
				reads[i] = r.Intn(600)
			default:
				reads[i] = r.Intn(20)
			}
		}
		d.doPrng(seed, reads)
	}
}

func (d *codecDriver) Run(x *sched.Exec, raw json.RawMessage) json.RawMessage {
	d.x = x
	var sc codecScenario
	if raw != nil {
		if err := json.Unmarshal(raw, &sc); err != nil {
			panic(err)
		}
	} else {
		sc = codecScenario{Kind: "rand", RSeed: x.Rng.Int63(), N: 24}
	}
	out, _ := json.Marshal(sc)
	switch sc.Kind {
	case "vec":
		vecs, err := codecLoadVecs()
		if err != nil {
			x.Log(trace.E{"ev": "badvector", "msg": err.Error()})
			return out
		}
		for i := sc.From; i < sc.To && i < len(vecs); i++ {
			var v codecVec
			if err := json.Unmarshal(vecs[i], &v); err != nil {
				x.Log(trace.E{"ev": "badvector", "msg": err.Error()})
				continue
			}
			d.doVec(&v)
		}
	case "rand":
		r := rand.New(rand.NewSource(sc.RSeed))
		for i := 0; i < sc.N; i++ {
			d.doRandom(r)
		}
	default:
		x.Log(trace.E{"ev": "badvector", "msg": "unknown scenario kind " + sc.Kind})
	}
	return out
}
