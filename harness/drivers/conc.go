//go:build drv_conc || drv_all

package drivers

import (
	"context"
	"encoding/json"
	"errors"
	"fmt"
	"runtime"
	"sort"
	"strconv"
	"strings"
	"sync"
	"testing/synctest"

	"verifharness/sched"
	"verifharness/trace"

	"github.com/aperturerobotics/util/conc"
)

// cqWait configures the WaitIdle caller.
//
//	errch : none (nil channel) | err (an error is sent) | nil (a nil error is sent) | close
//	cancel: the environment may cancel its context
type cqWait struct {
	On     bool   `json:"on"`
	ErrCh  string `json:"errch"`
	Cancel bool   `json:"cancel"`
}

// cqWatch configures the WatchState caller: script[k] is the callback's k-th answer:
// true (continue) | false (stop, nil) | err (stop with an error); after the script: false.
type cqWatch struct {
	On     bool     `json:"on"`
	Script []string `json:"script"`
	Cancel bool     `json:"cancel"`
}

// cqScenario: a queue with limit lim and initial jobs init; prods[p] is the list of batches
// producer p enqueues (one Enqueue call per batch); jobs are small distinct integers.
// nils lists the jobs that are handed over as a nil func (a legal job: the worker skips the call,
// queue.go `if job != nil`); such a job keeps its id in init / prods, but it has no body, so it is
// never seen entering or leaving.
type cqScenario struct {
	Lim   int       `json:"lim"`
	Init  []int     `json:"init"`
	Prods [][][]int `json:"prods"`
	Nils  []int     `json:"nils"`
	Wic   cqWait    `json:"wic"`
	Wsc   cqWatch   `json:"wsc"`
	Burst bool      `json:"burst,omitempty"` // M2: producers and the WaitIdle caller run freely in parallel
	// XK is set by the X-level trace validation only (fam_conc.x_conformance): the 1-based index of this
	// scenario in the Scens constant of the X spec; it is logged (event "scen") so that
	// ConcQueueXTrace.tla knows which Choose(k) the run corresponds to.
	XK int `json:"xk,omitempty"`
}

var cqE1 = errors.New("E1")

type cqWaiter struct {
	c        *sched.Client
	cancel   context.CancelFunc
	canc     bool
	inflight bool
}

type cqDriver struct {
	x        *sched.Exec
	sc       cqScenario
	q        *conc.ConcurrentQueue
	mu       sync.Mutex
	building bool
	actorJob map[string]int // worker actor -> job it ran last (no entry: it was given a nil job, or none yet)
	isNil    map[int]bool
	clients  map[*sched.Actor]bool
	wi, ws   cqWaiter
	errCh    chan error
	fired    bool
	wsk      int
	lastQ    string
}

func init() { Register("conc", func() Driver { return &cqDriver{} }) }

func genConc(x *sched.Exec) cqScenario {
	r := x.Rng
	sc := cqScenario{Init: []int{}, Nils: []int{}}
	switch k := r.Intn(10); {
	case k < 2:
		sc.Lim = 0
	case k < 3:
		sc.Lim = -1
	case k < 6:
		sc.Lim = 1
	case k < 9:
		sc.Lim = 2
	default:
		sc.Lim = 3
	}
	next := 1
	total := 3 + r.Intn(4) // 3..6 jobs
	for i := r.Intn(3); i > 0 && next <= total; i-- {
		sc.Init = append(sc.Init, next)
		next++
	}
	np := 2
	if r.Intn(6) == 0 {
		np = 1
	}
	sc.Prods = make([][][]int, np)
	for p := range sc.Prods {
		sc.Prods[p] = [][]int{}
	}
	for next <= total {
		p := r.Intn(np)
		n := 1 + r.Intn(3)
		var b []int
		for ; n > 0 && next <= total; n-- {
			b = append(b, next)
			next++
		}
		sc.Prods[p] = append(sc.Prods[p], b)
	}
	if r.Intn(12) == 0 {
		p := r.Intn(np)
		sc.Prods[p] = append(sc.Prods[p], []int{}) // Enqueue() with no jobs
	}
	// nil jobs.  One scenario in seven has the shape "a nil job in the backlog with jobs behind it":
	// limit 1 or 2, the slots are taken by the initial jobs (or, half of the time, by whatever comes
	// first), and one Enqueue call hands over 3..4 jobs with a nil that is not the last one.
	// Two scenarios in seven mark every job as nil with probability 1/4 (any position: started
	// directly, in the constructor's list, head / middle / tail of the backlog, several in a row).
	switch k := r.Intn(7); {
	case k == 0:
		sc.Lim = 1 + r.Intn(2)
		sc.Init = []int{}
		next = 1
		if r.Intn(2) == 0 {
			for ; next <= sc.Lim; next++ {
				sc.Init = append(sc.Init, next)
			}
		}
		sc.Prods = [][][]int{{}, {}}
		if next == 1 && r.Intn(2) == 0 {
			sc.Prods[1] = append(sc.Prods[1], []int{next})
			next++
		}
		n := 3 + r.Intn(2)
		b := []int{}
		for i := 0; i < n; i++ {
			b = append(b, next+i)
		}
		sc.Nils = append(sc.Nils, next+r.Intn(n-1))
		if r.Intn(3) == 0 {
			if j := next + r.Intn(n); j != sc.Nils[0] {
				sc.Nils = append(sc.Nils, j)
			}
		}
		next += n
		sc.Prods[0] = append(sc.Prods[0], b)
		for ; next <= 6 && r.Intn(2) == 0; next++ {
			p := r.Intn(2)
			sc.Prods[p] = append(sc.Prods[p], []int{next})
		}
		sort.Ints(sc.Nils)
	case k < 3:
		for j := 1; j <= total; j++ {
			if r.Intn(4) == 0 {
				sc.Nils = append(sc.Nils, j)
			}
		}
	}
	sc.Wic = cqWait{On: r.Intn(5) != 0, ErrCh: []string{"none", "none", "err", "nil", "close"}[r.Intn(5)], Cancel: r.Intn(2) == 0}
	sc.Wsc = cqWatch{On: r.Intn(4) != 0, Script: []string{}, Cancel: r.Intn(2) == 0}
	for n := r.Intn(5); n > 0; n-- {
		sc.Wsc.Script = append(sc.Wsc.Script, "true")
	}
	if r.Intn(3) == 0 {
		sc.Wsc.Script = append(sc.Wsc.Script, "err")
	}
	if strings.Contains(Opt, "burst") {
		// free-running burst: three producers with many one-job batches (lock contention), one plain WaitIdle
		sc.Burst = true
		sc.Init = []int{}
		sc.Prods = [][][]int{{}, {}, {}}
		sc.Nils = []int{}
		for j := 1; j <= 9+r.Intn(6); j++ {
			p := r.Intn(3)
			sc.Prods[p] = append(sc.Prods[p], []int{j})
			if r.Intn(6) == 0 {
				sc.Nils = append(sc.Nils, j) // a nil func among the jobs
			}
		}
		sc.Wic = cqWait{On: true, ErrCh: "none"}
		sc.Wsc = cqWatch{On: false, Script: []string{}}
	}
	return sc
}

// fn is what is handed to the library for job j: the harness-owned function, or a nil func.
func (d *cqDriver) fn(j int) func() {
	if d.isNil[j] {
		return nil
	}
	return d.job(j)
}

// nilsOf lists the nil jobs among b (in the order of b).
func (d *cqDriver) nilsOf(b []int) []int {
	out := []int{}
	for _, j := range b {
		if d.isNil[j] {
			out = append(out, j)
		}
	}
	return out
}

// job builds harness-owned job j. The worker goroutine parks before anything observable happens
// ("entry": stands for the start of the goroutine / the hand-over of the next job; the library's own
// go-hook is switched off because it cannot tell which job the goroutine holds), logs enter, parks
// again ("body") until the controller lets the job finish.
func (d *cqDriver) job(j int) func() {
	x := d.x
	return func() {
		self := x.Self()
		d.mu.Lock()
		d.actorJob[self.Name] = j
		d.mu.Unlock()
		if d.sc.Burst {
			x.Log(trace.E{"ev": "enter", "job": j})
			for i := 0; i < j%4; i++ {
				runtime.Gosched()
			}
			x.Log(trace.E{"ev": "leave", "job": j})
			return
		}
		x.ParkUser("entry:"+strconv.Itoa(j), nil)
		x.Log(trace.E{"ev": "enter", "job": j})
		x.ParkUser("body:"+strconv.Itoa(j), nil)
		x.Log(trace.E{"ev": "leave", "job": j})
	}
}

func cqErrName(err error) string {
	switch err {
	case nil:
		return "nil"
	case cqE1:
		return "E1"
	case context.Canceled:
		return "canceled"
	}
	return "other:" + err.Error()
}

func (d *cqDriver) Run(x *sched.Exec, raw json.RawMessage) json.RawMessage {
	d.x = x
	if raw != nil {
		if err := json.Unmarshal(raw, &d.sc); err != nil {
			panic(err)
		}
	} else {
		d.sc = genConc(x)
	}
	if d.sc.Init == nil {
		d.sc.Init = []int{}
	}
	if d.sc.Wsc.Script == nil {
		d.sc.Wsc.Script = []string{}
	}
	if d.sc.Nils == nil {
		d.sc.Nils = []int{}
	}
	d.isNil = map[int]bool{}
	for _, j := range d.sc.Nils {
		d.isNil[j] = true
	}
	used, _ := json.Marshal(d.sc)
	if x.LogSteps && !d.sc.Burst {
		x.Log(trace.E{"ev": "scen", "k": d.sc.XK})
	}
	d.actorJob = map[string]int{}
	d.clients = map[*sched.Actor]bool{}

	// Every critical section of a client or worker is a step; goroutine start is represented by
	// the entry park of the job; the constructor runs alone (nothing else has the queue yet).
	x.Policy = func(a *sched.Actor, kind, site string, obj any) bool {
		if d.building || kind == "go" || kind == "unlocked" {
			return false
		}
		return true
	}

	var initJobs []func()
	for _, j := range d.sc.Init {
		initJobs = append(initJobs, d.fn(j))
	}
	d.building = true
	d.q = conc.NewConcurrentQueue(d.sc.Lim, initJobs...)
	d.building = false
	x.Log(trace.E{"ev": "new", "limit": d.sc.Lim, "jobs": d.sc.Init, "nils": d.nilsOf(d.sc.Init)})

	for p, batches := range d.sc.Prods {
		name := fmt.Sprintf("p%d", p+1)
		c := x.NewClient(name)
		d.clients[c.Actor()] = true
		for _, b := range batches {
			b := append([]int{}, b...)
			c.Prog = append(c.Prog, sched.Op{Label: "call:" + name, Do: func() {
				var fns []func()
				for _, j := range b {
					fns = append(fns, d.fn(j))
				}
				x.Log(trace.E{"ev": "call", "op": "enq", "c": name, "jobs": b, "nils": d.nilsOf(b)})
				q, r := d.q.Enqueue(fns...)
				x.Log(trace.E{"ev": "ret", "op": "enq", "c": name, "q": q, "r": r})
			}})
		}
	}
	if d.sc.Wic.On {
		w := &d.wi
		w.c = x.NewClient("wi")
		d.clients[w.c.Actor()] = true
		var ctx context.Context
		ctx, w.cancel = context.WithCancel(context.Background())
		var errCh <-chan error
		if d.sc.Wic.ErrCh != "none" {
			d.errCh = make(chan error, 1)
			errCh = d.errCh
		}
		w.c.Prog = []sched.Op{{Label: "call:wi", Do: func() {
			x.Log(trace.E{"ev": "call", "op": "waitidle"})
			w.inflight = true
			err := d.q.WaitIdle(ctx, errCh)
			w.inflight = false
			x.Log(trace.E{"ev": "ret", "op": "waitidle", "res": cqErrName(err)})
		}}}
	}
	if d.sc.Wsc.On {
		w := &d.ws
		w.c = x.NewClient("ws")
		d.clients[w.c.Actor()] = true
		var ctx context.Context
		ctx, w.cancel = context.WithCancel(context.Background())
		cb := func(queued, running int) (bool, error) {
			x.Log(trace.E{"ev": "watch", "q": queued, "r": running})
			ans := "false"
			if d.wsk < len(d.sc.Wsc.Script) {
				ans = d.sc.Wsc.Script[d.wsk]
			}
			d.wsk++
			switch ans {
			case "true":
				return true, nil
			case "err":
				return false, cqE1
			}
			return false, nil
		}
		w.c.Prog = []sched.Op{{Label: "call:ws", Do: func() {
			x.Log(trace.E{"ev": "call", "op": "watch"})
			w.inflight = true
			err := d.q.WatchState(ctx, nil, cb)
			w.inflight = false
			x.Log(trace.E{"ev": "ret", "op": "watch", "res": cqErrName(err)})
		}}}
	}

	doCancel := func(w *cqWaiter, who string) {
		w.canc = true
		x.Log(trace.E{"ev": "cancel", "who": who})
		w.cancel()
	}
	moves := func() []sched.Move {
		var ms []sched.Move
		nilWorkers := 0
		for _, a := range x.ParkedActors() {
			a := a
			label := "grant:" + a.Name
			worker := !d.clients[a]
			if worker {
				// a worker at the lock: named after the job it has just run. A worker that reaches the
				// lock without having run a job since its last critical section (or at all) was given a
				// nil job; which one cannot be known here and makes no difference: "wcs:nil", and
				// "wcs:nil#2".. for further ones (registration order), so that labels stay unique.
				d.mu.Lock()
				j := d.actorJob[a.Name]
				d.mu.Unlock()
				if j != 0 {
					label = fmt.Sprintf("wcs:j%d", j)
				} else if nilWorkers++; nilWorkers == 1 {
					label = "wcs:nil"
				} else {
					label = fmt.Sprintf("wcs:nil#%d", nilWorkers)
				}
			}
			ms = append(ms, sched.Move{Label: label, Actor: a.Name, Do: func() {
				if worker {
					d.mu.Lock()
					delete(d.actorJob, a.Name) // through with that job: whatever it runs next registers itself
					d.mu.Unlock()
				}
				x.Grant(a)
			}})
		}
		ms = append(ms, x.ClientMoves()...)
		for _, p := range x.UserParks() {
			p := p
			label := ""
			if s, ok := strings.CutPrefix(p.Site, "entry:"); ok {
				label = "enter:j" + s
			} else if s, ok := strings.CutPrefix(p.Site, "body:"); ok {
				label = "fin:j" + s
			} else {
				continue
			}
			ms = append(ms, sched.Move{Label: label, Actor: p.Actor().Name, Do: func() { x.Resume(p, true) }})
		}
		if d.wi.inflight && d.sc.Wic.Cancel && !d.wi.canc {
			ms = append(ms, sched.Move{Label: "cancel:wi", Do: func() { doCancel(&d.wi, "wi") }})
		}
		if d.wi.inflight && d.errCh != nil && !d.fired {
			ms = append(ms, sched.Move{Label: "errch", Do: func() {
				d.fired = true
				x.Log(trace.E{"ev": "fire", "what": d.sc.Wic.ErrCh})
				switch d.sc.Wic.ErrCh {
				case "err":
					d.errCh <- cqE1
				case "nil":
					d.errCh <- nil
				default:
					close(d.errCh)
				}
			}})
		}
		if d.ws.inflight && d.sc.Wsc.Cancel && !d.ws.canc {
			ms = append(ms, sched.Move{Label: "cancel:ws", Do: func() { doCancel(&d.ws, "ws") }})
		}
		return ms
	}
	ready := func() []int {
		out := []int{}
		for _, p := range x.UserParks() {
			if s, ok := strings.CutPrefix(p.Site, "entry:"); ok {
				j, _ := strconv.Atoi(s)
				out = append(out, j)
			}
		}
		sort.Ints(out)
		return out
	}
	observe := func() {
		if len(x.ParkedActors()) != 0 {
			return
		}
		rd := ready()
		key := fmt.Sprint(rd, x.T.Seq())
		if key == d.lastQ {
			return
		}
		x.Log(trace.E{"ev": "quiet", "ready": rd})
		d.lastQ = fmt.Sprint(rd, x.T.Seq())
	}
	if d.sc.Burst {
		// M2: no parking at all; every client runs its whole program at once, in parallel
		x.Policy = func(*sched.Actor, string, string, any) bool { return false }
		for _, c := range x.Clients {
			prog := c.Prog
			c.Prog = nil
			x.Issue(c, func() {
				for _, op := range prog {
					op.Do()
					runtime.Gosched()
				}
			})
		}
		x.Labels = append(x.Labels, "burst")
		synctest.Wait()
	} else {
		const maxSteps = 150
		x.Loop(moves, observe, maxSteps)
		if x.LogSteps {
			// exhausted: the loop ended because no move was left (not because of the step bound)
			x.Log(trace.E{"ev": "teardown", "exhausted": x.Steps < maxSteps})
		}
	}

	// teardown: everything runs freely from here on; every job finishes as soon as it is invoked
	for _, c := range x.Clients {
		c.Prog = nil
	}
	x.Drain()
	for i := 0; i < 100; i++ {
		ps := x.UserParks()
		if len(ps) == 0 {
			break
		}
		for _, p := range ps {
			x.Resume(p, true)
		}
		synctest.Wait()
	}
	if d.wi.inflight && !d.wi.canc {
		doCancel(&d.wi, "wi")
	}
	if d.ws.inflight && !d.ws.canc {
		doCancel(&d.ws, "ws")
	}
	synctest.Wait()
	idle := true
	for _, c := range x.Clients {
		if c.Busy() {
			idle = false
		}
	}
	if idle {
		x.Log(trace.E{"ev": "final"})
	}
	return used
}
