//go:build drv_csync || drv_all

package drivers

import (
	"context"
	"encoding/json"
	"errors"
	"fmt"
	"sort"
	"strings"
	"sync"
	"testing/synctest"

	"verifharness/sched"
	"verifharness/trace"

	"github.com/aperturerobotics/util/csync"
)

// csOp is one client operation of a csync scenario.
//
//	lock / trylock / llock : acquisition (w: write mode, c: cancellable context)
//	rel                     : call the release function of acquisition k (index into this
//	                          client's program); lunlock: Locker.Unlock
type csOp struct {
	Op string `json:"op"`
	W  bool   `json:"w"`
	C  bool   `json:"c"`
	K  int    `json:"k"`
}

type csScenario struct {
	Kind    string   `json:"kind"` // mutex | rw
	Clients [][]csOp `json:"clients"`
	// M2: the clients run their programs (acquire/release pairs only) freely in parallel on several Ps,
	// no park points: the only way to contend the mutexes' INTERNAL state lock (a TryHoldLock there
	// fails only then). Judged with the interval reading of CsyncP (cfg fine) plus the final probe.
	Burst bool `json:"burst,omitempty"`
}

type csLock interface {
	Lock(ctx context.Context, w bool) (func(), error)
	TryLock(w bool) (func(), bool)
	Locker(w bool) sync.Locker
}

type csMutex struct{ m csync.Mutex }

func (m *csMutex) Lock(ctx context.Context, w bool) (func(), error) { return m.m.Lock(ctx) }
func (m *csMutex) TryLock(w bool) (func(), bool)                    { return m.m.TryLock() }
func (m *csMutex) Locker(w bool) sync.Locker                        { return m.m.Locker() }

type csRW struct{ m csync.RWMutex }

func (m *csRW) Lock(ctx context.Context, w bool) (func(), error) { return m.m.Lock(ctx, w) }
func (m *csRW) TryLock(w bool) (func(), bool)                    { return m.m.TryLock(w) }
func (m *csRW) Locker(w bool) sync.Locker {
	if w {
		return m.m.Locker()
	}
	return m.m.RLocker()
}

type csHold struct {
	xid      int // id of the acquisition in the X specs: (client index+1)*100 + program index+1
	id       int
	w        bool
	rel      func()
	released bool
}

type csClient struct {
	c        *sched.Client
	idx      int
	inflight int // call id in flight, 0 if none
	pi       int // program index of the call in flight
	cancel   context.CancelFunc
	canc     bool
	holds    map[int]*csHold // by program index
}

type csDriver struct {
	x      *sched.Exec
	lk     csLock
	mu     sync.Mutex
	nr, nw int
	nextID int
	cl     []*csClient
	lockW  sync.Locker
	lockR  sync.Locker
	stackW []*csHold
	stackR []*csHold
	all    []*csHold
	burst  bool
	lastQ  string
}

var errCsCause = errors.New("cause given to the cancel function")

func init() { Register("csync", func() Driver { return &csDriver{} }) }

func genCsync(x *sched.Exec) csScenario {
	r := x.Rng
	sc := csScenario{Kind: "rw"}
	if r.Intn(3) == 0 {
		sc.Kind = "mutex"
	}
	if strings.Contains(Opt, "burst") {
		sc.Burst = true
		if r.Intn(3) == 0 {
			sc.Kind = "mutex" // (half of the bursts in all)
		}
		for i, n := 0, 3+r.Intn(3); i < n; i++ {
			var prog []csOp
			for a, na := 0, 10+r.Intn(16); a < na; a++ {
				w := sc.Kind == "mutex" || r.Intn(2) == 0
				op := csOp{Op: "trylock", W: w}
				if r.Intn(3) == 0 {
					op.Op, op.C = "lock", true // (cancelled at teardown if still blocked, so that the final probe runs)
				}
				prog = append(prog, op, csOp{Op: "rel", K: len(prog)})
			}
			sc.Clients = append(sc.Clients, prog)
		}
		return sc
	}
	if sc.Kind == "rw" && r.Intn(60) == 0 {
		// "any number of read holders": one client takes 2^16 (+ a few) read holds in one go (op bulkr: to the
		// monitor ONE read acquisition, held until all of them are released), others try to write and read
		sc.Clients = [][]csOp{
			{{Op: "bulkr", K: 65536 + []int{0, 0, 0, 1, 256}[r.Intn(5)]}, {Op: "rel", K: 0}},
			{{Op: "trylock", W: true}, {Op: "rel", K: 0}, {Op: "trylock", W: true}, {Op: "rel", K: 2}},
			{{Op: "trylock", W: r.Intn(2) == 0}, {Op: "rel", K: 0}},
		}
		if r.Intn(2) == 0 {
			sc.Clients[1][0] = csOp{Op: "lock", W: true, C: true}
		}
		return sc
	}
	n := 2 + r.Intn(3)
	if r.Intn(8) == 0 {
		// the sync.Locker adaptor shared by all clients: Lock/Unlock pairs only (a Locker's Unlock may be
		// overtaken by the next holder's Lock: hand-over inside the adaptor)
		for i := 0; i < n; i++ {
			var prog []csOp
			for a, na := 0, 1+r.Intn(2); a < na; a++ {
				w := sc.Kind == "mutex" || r.Intn(2) == 0
				prog = append(prog, csOp{Op: "llock", W: w}, csOp{Op: "lunlock", W: w})
			}
			sc.Clients = append(sc.Clients, prog)
		}
		return sc
	}
	for i := 0; i < n; i++ {
		var prog []csOp
		nacq := 1 + r.Intn(3)
		var pendingRel []int
		for a := 0; a < nacq; a++ {
			op := csOp{W: r.Intn(2) == 0}
			if sc.Kind == "mutex" {
				op.W = true
			}
			switch k := r.Intn(10); {
			case k < 6:
				op.Op = "lock"
				op.C = r.Intn(2) == 0
			case k < 9:
				op.Op = "trylock"
			default:
				op.Op = "llock"
			}
			prog = append(prog, op)
			idx := len(prog) - 1
			if op.Op == "llock" {
				if r.Intn(5) != 0 {
					prog = append(prog, csOp{Op: "lunlock", W: op.W})
				}
				continue
			}
			if r.Intn(5) != 0 {
				pendingRel = append(pendingRel, idx)
			}
			// maybe release some now
			for len(pendingRel) > 0 && r.Intn(2) == 0 {
				j := r.Intn(len(pendingRel))
				prog = append(prog, csOp{Op: "rel", K: pendingRel[j]})
				if r.Intn(4) == 0 {
					prog = append(prog, csOp{Op: "rel", K: pendingRel[j]})
				}
				pendingRel = append(pendingRel[:j], pendingRel[j+1:]...)
			}
		}
		for _, k := range pendingRel {
			if r.Intn(3) != 0 {
				prog = append(prog, csOp{Op: "rel", K: k})
			}
		}
		sc.Clients = append(sc.Clients, prog)
	}
	return sc
}

func (d *csDriver) blockedIDs() []int {
	out := []int{}
	if d.burst {
		return out
	}
	for _, c := range d.cl {
		if c.inflight != 0 && d.x.Blocked(c.c) {
			out = append(out, c.inflight)
		}
	}
	sort.Ints(out)
	return out
}

func (d *csDriver) blockedXIDs() []int {
	out := []int{}
	for _, c := range d.cl {
		if c.inflight != 0 && d.x.Blocked(c.c) {
			out = append(out, (c.idx+1)*100+c.pi+1)
		}
	}
	sort.Ints(out)
	return out
}

func mode(w bool) string {
	if w {
		return "w"
	}
	return "r"
}

func (d *csDriver) acquired(c *csClient, pi int, id int, w bool, rel func()) *csHold {
	h := &csHold{id: id, w: w, rel: rel, xid: (c.idx+1)*100 + pi + 1}
	d.mu.Lock()
	if w {
		d.nw++
	} else {
		d.nr++
	}
	nr, nw := d.nr, d.nw
	d.all = append(d.all, h)
	// (logged under the same lock: in a free-running burst the counters then follow the log order)
	d.x.Log(trace.E{"ev": "ret", "id": id, "xid": h.xid, "res": "ok", "nr": nr, "nw": nw, "actor": c.c.Name})
	d.mu.Unlock()
	c.holds[pi] = h
	return h
}

func (d *csDriver) release(h *csHold, who string) {
	d.mu.Lock()
	first := !h.released
	if first {
		h.released = true
		if h.w {
			d.nw--
		} else {
			d.nr--
		}
	}
	d.x.Log(trace.E{"ev": "relcall", "id": h.id, "xid": h.xid, "first": first, "actor": who})
	d.mu.Unlock()
	h.rel()
	d.x.Log(trace.E{"ev": "relret", "id": h.id, "actor": who})
}

func (d *csDriver) opFunc(c *csClient, pi int, op csOp, rw bool) sched.Op {
	x := d.x
	w := op.W || !rw
	label := fmt.Sprintf("call:%s", c.c.Name)
	switch op.Op {
	case "lock":
		return sched.Op{Label: label, Do: func() {
			d.mu.Lock()
			d.nextID++
			id := d.nextID
			d.mu.Unlock()
			ctx := context.Background()
			c.canc = false
			c.cancel = nil
			if op.C {
				if id%2 == 0 {
					ctx, c.cancel = context.WithCancel(ctx)
				} else {
					// cancelled with a cause: Lock must still report context.Canceled
					var cc context.CancelCauseFunc
					ctx, cc = context.WithCancelCause(ctx)
					c.cancel = func() { cc(errCsCause) }
				}
			}
			x.Log(trace.E{"ev": "call", "id": id, "op": "lock", "mode": mode(w), "blk": d.blockedIDs(), "actor": c.c.Name})
			c.inflight, c.pi = id, pi
			rel, err := d.lk.Lock(ctx, w)
			c.inflight = 0
			if err != nil {
				res := "canceled"
				if err != context.Canceled {
					res = "err:" + err.Error()
				}
				x.Log(trace.E{"ev": "ret", "id": id, "xid": (c.idx+1)*100 + pi + 1, "res": res, "nr": 0, "nw": 0, "actor": c.c.Name})
				return
			}
			d.acquired(c, pi, id, w, rel)
		}}
	case "trylock":
		return sched.Op{Label: label, Do: func() {
			d.mu.Lock()
			d.nextID++
			id := d.nextID
			d.mu.Unlock()
			c.cancel = nil
			x.Log(trace.E{"ev": "call", "id": id, "op": "trylock", "mode": mode(w), "blk": d.blockedIDs(), "actor": c.c.Name})
			c.inflight, c.pi = id, pi
			rel, ok := d.lk.TryLock(w)
			c.inflight = 0
			if !ok {
				x.Log(trace.E{"ev": "ret", "id": id, "xid": (c.idx+1)*100 + pi + 1, "res": "false", "nr": 0, "nw": 0, "actor": c.c.Name})
				return
			}
			d.acquired(c, pi, id, w, rel)
		}}
	case "bulkr":
		return sched.Op{Label: label, Do: func() {
			d.mu.Lock()
			d.nextID++
			id := d.nextID
			d.mu.Unlock()
			c.cancel = nil
			x.Log(trace.E{"ev": "call", "id": id, "op": "trylock", "mode": "r", "blk": d.blockedIDs(), "actor": c.c.Name})
			c.inflight, c.pi = id, pi
			// one controller step: the hooks are bypassed while this goroutine (the only one running) works
			x.Bypass.Store(true)
			rels, ok := make([]func(), 0, op.K), true
			for i := 0; i < op.K && ok; i++ {
				var rel func()
				if rel, ok = d.lk.TryLock(false); ok {
					rels = append(rels, rel)
				}
			}
			if !ok {
				for _, rel := range rels {
					rel()
				}
			}
			x.Bypass.Store(false)
			c.inflight = 0
			if !ok {
				x.Log(trace.E{"ev": "ret", "id": id, "xid": (c.idx+1)*100 + pi + 1, "res": "false", "nr": 0, "nw": 0, "actor": c.c.Name})
				return
			}
			d.acquired(c, pi, id, false, func() {
				x.Bypass.Store(true)
				for _, rel := range rels {
					rel()
				}
				x.Bypass.Store(false)
			})
		}}
	case "llock":
		return sched.Op{Label: label, Do: func() {
			d.mu.Lock()
			d.nextID++
			id := d.nextID
			d.mu.Unlock()
			c.cancel = nil
			x.Log(trace.E{"ev": "call", "id": id, "op": "llock", "mode": mode(w), "blk": d.blockedIDs(), "actor": c.c.Name})
			c.inflight, c.pi = id, pi
			lk := d.lockR
			if w {
				lk = d.lockW
			}
			lk.Lock()
			c.inflight = 0
			h := d.acquired(c, pi, id, w, func() { lk.Unlock() })
			d.mu.Lock()
			if w {
				d.stackW = append(d.stackW, h)
			} else {
				d.stackR = append(d.stackR, h)
			}
			d.mu.Unlock()
		}}
	case "lunlock":
		return sched.Op{Label: label, Do: func() {
			d.mu.Lock()
			var h *csHold
			if w && len(d.stackW) > 0 {
				h = d.stackW[len(d.stackW)-1]
				d.stackW = d.stackW[:len(d.stackW)-1]
			} else if !w && len(d.stackR) > 0 {
				h = d.stackR[len(d.stackR)-1]
				d.stackR = d.stackR[:len(d.stackR)-1]
			}
			d.mu.Unlock()
			if h != nil {
				d.release(h, c.c.Name)
			}
		}}
	case "rel":
		return sched.Op{Label: label, Do: func() {
			if h := c.holds[op.K]; h != nil {
				d.release(h, c.c.Name)
			}
		}}
	}
	panic("bad op " + op.Op)
}

func (d *csDriver) Run(x *sched.Exec, raw json.RawMessage) json.RawMessage {
	d.x = x
	// CsyncP reads the logged events as bounds on the critical sections (CsyncP.tla, B1-B4) and is told
	// the granularity of each execution, so the scheduler refinements are sound here: combined
	// grant+cancel steps (sched.Exec.Double) and park points at the END of critical sections (ParkUnl).
	x.OptDouble, x.OptParkUnl = true, true
	// fine: verifhook.Unlocked parks in this execution, i.e. a call's decisive critical section and its
	// logged return may lie in different controller steps (mirrors sched.Exec.parkUnlActive; erring
	// towards true only weakens the monitor)
	fine := x.OptParkUnl && !x.LogSteps && x.ParkUnl
	if len(x.Sched) > 0 {
		fine = x.OptParkUnl && !x.LogSteps && x.Sched[0] == "!parkunl"
	}
	var sc csScenario
	if raw != nil {
		if err := json.Unmarshal(raw, &sc); err != nil {
			panic(err)
		}
	} else {
		sc = genCsync(x)
	}
	d.burst = sc.Burst
	bulk := len(sc.Clients) > 0 && len(sc.Clients[0]) > 0 && sc.Clients[0][0].Op == "bulkr"
	// (a bulk release runs with the hooks bypassed: waiters it wakes pass their sections in the same step)
	x.Log(trace.E{"ev": "cfg", "fine": fine || sc.Burst || bulk})
	out, _ := json.Marshal(sc)
	rw := sc.Kind == "rw"
	if rw {
		d.lk = &csRW{}
	} else {
		d.lk = &csMutex{}
	}
	d.lockW, d.lockR = d.lk.Locker(true), d.lk.Locker(false)
	for i, prog := range sc.Clients {
		c := &csClient{c: x.NewClient(fmt.Sprintf("c%d", i+1)), idx: i, holds: map[int]*csHold{}}
		for pi, op := range prog {
			c.c.Prog = append(c.c.Prog, d.opFunc(c, pi, op, rw))
		}
		d.cl = append(d.cl, c)
	}

	moves := func() []sched.Move {
		ms := x.GrantMoves()
		ms = append(ms, x.ClientMoves()...)
		for _, c := range d.cl {
			c := c
			if c.inflight != 0 && c.cancel != nil && !c.canc {
				ms = append(ms, sched.Move{Label: "cancel:" + c.c.Name, Do: func() {
					c.canc = true
					x.Log(trace.E{"ev": "cancel", "id": c.inflight})
					c.cancel()
				}})
			}
		}
		return ms
	}
	observe := func() {
		if len(x.ParkedActors()) != 0 {
			return
		}
		blk := d.blockedIDs()
		key := fmt.Sprint(blk, x.T.Seq())
		if key == d.lastQ {
			return
		}
		x.Log(trace.E{"ev": "quiet", "blk": blk, "xblk": d.blockedXIDs()})
		d.lastQ = fmt.Sprint(blk, x.T.Seq())
	}
	if sc.Burst {
		x.Policy = func(*sched.Actor, string, string, any) bool { return false } // hooks never park
		x.Bypass.Store(true)                                                     // ... and do not serialize the clients either
		for _, c := range x.Clients {
			prog := c.Prog
			c.Prog = nil
			x.Issue(c, func() {
				for _, op := range prog {
					op.Do()
				}
			})
		}
		x.Labels = append(x.Labels, "burst")
		synctest.Wait()
		x.Bypass.Store(false)
		// everything has returned or is durably blocked: an exact quiescent observation
		d.burst = false
		x.Log(trace.E{"ev": "quiet", "blk": d.blockedIDs(), "xblk": d.blockedXIDs()})
	} else {
		x.Loop(moves, observe, 80)
	}

	x.Log(trace.E{"ev": "teardown"})
	// teardown: everything runs freely from here on
	for _, c := range d.cl {
		if c.inflight != 0 && c.cancel != nil && !c.canc {
			c.canc = true
			x.Log(trace.E{"ev": "cancel", "id": c.inflight})
			c.cancel()
		}
	}
	x.Drain()
	for i := 0; i < 4; i++ {
		d.mu.Lock()
		hs := append([]*csHold(nil), d.all...)
		d.mu.Unlock()
		for _, h := range hs {
			if !h.released {
				h := h
				x.Safe("ctl", func() { d.release(h, "ctl") })
			}
		}
		x.Drain()
		// clients may still have program left (acquisitions after a block): run it out
		for _, c := range d.cl {
			c.c.Prog = nil
		}
	}
	idle := true
	for _, c := range d.cl {
		if c.c.Busy() {
			idle = false
		}
	}
	d.mu.Lock()
	for _, h := range d.all {
		if !h.released {
			idle = false
		}
	}
	d.mu.Unlock()
	if idle {
		for _, w := range []bool{true, false} {
			rel, ok := d.lk.TryLock(w)
			x.Log(trace.E{"ev": "probe", "mode": mode(w), "ok": ok})
			if ok {
				rel()
			}
		}
	}
	return out
}
