//go:build drv_backoff || drv_all

package drivers

import (
	"context"
	"encoding/json"
	"errors"
	"io"
	"math/rand"
	"strconv"
	"strings"
	"sync/atomic"
	"testing/synctest"
	"time"

	"verifharness/sched"
	"verifharness/trace"

	ubackoff "github.com/aperturerobotics/util/backoff"
	"github.com/aperturerobotics/util/retry"
	cbackoff "github.com/cenkalti/backoff/v4"
	"github.com/sirupsen/logrus"
)

// Driver of the backoff family (X01): backoff.Backoff.{Construct,Validate,GetEmpty} and retry.Retry.
//
// Everything runs inside the synctest bubble: time.Now / time.After / time.Sleep are virtual, so the
// elapsed time cenkalti's ExponentialBackOff measures (Clock = time.Now) and the waits of retry.Retry are
// exact and free.  No library hook is involved; the operation sequence travels in the scenario.
//
//	kind "bo":    cfg + ops [[0]=NextBackOff | [1]=Reset | [2,d]=advance the clock by d ms |
//	              [3,allow]=Validate(allow) | [4]=GetEmpty]
//	kind "retry": cfg / bo ("cfg": Construct() wrapped by a logging BackOff, "script": scripted intervals
//	              in us (-1 = Stop), "nil": Retry's own default), outs [[code,dur_ms]] per invocation of f
//	              (0 err, 1 nil, 2 success() then err, 3 cancel ctx then err, 4 cancel ctx then nil,
//	              5 success() then nil; f takes dur_ms of virtual time), cancelat ms (0 = never).
//
// Durations and time stamps are logged as u (whole microseconds) + n (0..999 ns on top); results of
// NextBackOff as res = val | stop | neg.  The virtual clock stays below boBudget so that the monitor's
// 32-bit integers do not overflow.
type boCfg struct {
	Kind   int  `json:"kind"`
	Ini    int  `json:"ini"`
	Num    int  `json:"num"`
	Den    int  `json:"den"`
	Max    int  `json:"max"`
	Rnum   int  `json:"rnum"`
	Rden   int  `json:"rden"`
	Mel    int  `json:"mel"`
	Civ    int  `json:"civ"`
	NilSub bool `json:"nilsub,omitempty"` // leave the Exponential / Constant sub-messages nil (all fields 0)
}

type boScenario struct {
	Kind     string  `json:"kind"`
	Cfg      boCfg   `json:"cfg"`
	Ops      [][]int `json:"ops,omitempty"`
	Bo       string  `json:"bo,omitempty"`
	Script   []int   `json:"script,omitempty"`
	Outs     [][]int `json:"outs,omitempty"`
	CancelAt int     `json:"cancelat,omitempty"`
}

const (
	boBudget   = 1900 * time.Second // bound on the virtual clock of one execution
	boMaxIvMs  = 60000              // largest interval / max_interval a scenario may configure
	boClampUs  = 200000000          // logged intervals saturate here (200 s: beyond anything expected)
	boMaxInvok = 60
)

type boDriver struct {
	x  *sched.Exec
	t0 time.Time
}

func init() { Register("backoff", func() Driver { return &boDriver{} }) }

var errBoFail = errors.New("scripted failure")

func (d *boDriver) log(e trace.E) {
	ns := time.Since(d.t0).Nanoseconds()
	e["tu"] = int(ns / 1000)
	e["tn"] = int(ns % 1000)
	d.x.Log(e)
}

func boDurFields(e trace.E, v time.Duration) trace.E {
	switch {
	case v == cbackoff.Stop:
		e["res"], e["u"], e["n"] = "stop", 0, 0
	case v < 0:
		e["res"], e["u"], e["n"] = "neg", 0, 0
	default:
		us := int64(v) / 1000
		if us > boClampUs {
			e["res"], e["u"], e["n"] = "val", boClampUs, 0
		} else {
			e["res"], e["u"], e["n"] = "val", int(us), int(int64(v)%1000)
		}
	}
	return e
}

func (c *boCfg) normalize() {
	clamp := func(v *int, lo, hi int) {
		if *v < lo {
			*v = lo
		}
		if *v > hi {
			*v = hi
		}
	}
	if c.NilSub {
		*c = boCfg{Kind: c.Kind, NilSub: true}
		return
	}
	clamp(&c.Ini, 0, boMaxIvMs)
	clamp(&c.Max, 0, boMaxIvMs)
	clamp(&c.Civ, 0, boMaxIvMs)
	clamp(&c.Mel, 0, 1800000)
	clamp(&c.Num, 0, 30)
	clamp(&c.Den, 0, 10)
	clamp(&c.Rnum, 0, 10)
	clamp(&c.Rden, 0, 10)
	if c.Num == 0 || c.Den == 0 || c.Num < c.Den { // multipliers below 1 are not exercised
		c.Num, c.Den = 0, 0
	}
	if c.Rnum == 0 || c.Rden == 0 || c.Rnum > c.Rden {
		c.Rnum, c.Rden = 0, 0
	}
}

func (c *boCfg) build() *ubackoff.Backoff {
	b := &ubackoff.Backoff{BackoffKind: ubackoff.BackoffKind(c.Kind)}
	if c.NilSub {
		return b
	}
	var mult, rnd float32
	if c.Num != 0 {
		mult = float32(c.Num) / float32(c.Den)
	}
	if c.Rnum != 0 {
		rnd = float32(c.Rnum) / float32(c.Rden)
	}
	b.Exponential = &ubackoff.Exponential{
		InitialInterval:     uint32(c.Ini),
		Multiplier:          mult,
		MaxInterval:         uint32(c.Max),
		RandomizationFactor: rnd,
		MaxElapsedTime:      uint32(c.Mel),
	}
	b.Constant = &ubackoff.Constant{Interval: uint32(c.Civ)}
	return b
}

func (c *boCfg) event(h string) trace.E {
	return trace.E{"ev": "new", "h": h, "kind": c.Kind, "ini": c.Ini, "num": c.Num, "den": c.Den, "max": c.Max,
		"rnum": c.Rnum, "rden": c.Rden, "mel": c.Mel, "civ": c.Civ}
}

// ------------------------------------------------------------------------------------ "bo"

func (d *boDriver) runBo(sc *boScenario) {
	conf := sc.Cfg.build()
	d.log(sc.Cfg.event("bo"))
	known := sc.Cfg.Kind >= 0 && sc.Cfg.Kind <= 2
	var b cbackoff.BackOff
	if known {
		b = conf.Construct()
	}
	for _, op := range sc.Ops {
		if len(op) == 0 {
			continue
		}
		switch op[0] {
		case 0:
			if b != nil {
				d.log(boDurFields(trace.E{"ev": "next"}, b.NextBackOff()))
			}
		case 1:
			if b != nil {
				b.Reset()
				d.log(trace.E{"ev": "boreset"})
			}
		case 2:
			if len(op) < 2 || op[1] <= 0 {
				continue
			}
			dd := time.Duration(op[1]) * time.Millisecond
			if time.Since(d.t0)+dd > boBudget {
				continue
			}
			d.x.Tick(dd)
			d.log(trace.E{"ev": "advance", "d": op[1]})
		case 3:
			allow := len(op) > 1 && op[1] != 0
			err := conf.Validate(allow)
			d.log(trace.E{"ev": "validate", "allow": allow, "err": err != nil})
		case 4:
			d.log(trace.E{"ev": "empty", "res": conf.GetEmpty()})
		}
	}
}

// ------------------------------------------------------------------------------------ "retry"

// boWrap is the BackOff handed to retry.Retry: it logs every call and either forwards to the
// constructed backoff or plays the script.
type boWrap struct {
	d      *boDriver
	in     cbackoff.BackOff
	script []int
	pos    int
}

func (w *boWrap) NextBackOff() time.Duration {
	var v time.Duration
	if w.in != nil {
		v = w.in.NextBackOff()
	} else {
		us := w.script[w.pos%len(w.script)]
		w.pos++
		if us < 0 {
			v = cbackoff.Stop
		} else {
			v = time.Duration(us) * time.Microsecond
		}
	}
	w.d.log(boDurFields(trace.E{"ev": "next"}, v))
	return v
}

func (w *boWrap) Reset() {
	if w.in != nil {
		w.in.Reset()
	} else {
		w.pos = 0
	}
	w.d.log(trace.E{"ev": "boreset"})
}

func boErrClass(err error) string {
	switch {
	case err == nil:
		return ""
	case errors.Is(err, context.Canceled):
		return "canceled"
	}
	s := err.Error()
	if len(s) > 60 {
		s = s[:60]
	}
	if s == "" || s == "canceled" {
		s = "err:" + s
	}
	return s
}

func (d *boDriver) runRetry(sc *boScenario) {
	ev := sc.Cfg.event("retry")
	ev["bo"] = sc.Bo
	d.log(ev)
	var bo cbackoff.BackOff
	switch sc.Bo {
	case "cfg":
		bo = &boWrap{d: d, in: retry.NewBackOff(sc.Cfg.build())}
	case "script":
		bo = &boWrap{d: d, script: sc.Script}
	}
	lg := logrus.New()
	lg.SetOutput(io.Discard)
	lg.SetLevel(logrus.DebugLevel)
	le := logrus.NewEntry(lg)
	ctx, cancel := context.WithCancel(context.Background())
	defer cancel()
	var done atomic.Bool
	inv := 0
	f := func(ctx context.Context, success func()) error {
		if inv >= boMaxInvok {
			// a Retry that keeps invoking f without end (f returns nil once its script is exhausted, so the
			// unchanged code never gets here): stop feeding it, the monitor has seen enough
			d.x.Log(trace.E{"ev": "note", "msg": "invocation limit reached: f now blocks until the context is cancelled"})
			<-ctx.Done()
			return ctx.Err()
		}
		inv++
		i := inv
		d.log(trace.E{"ev": "inv", "i": i})
		code, dur := 1, 0
		if i <= len(sc.Outs) {
			code, dur = sc.Outs[i-1][0], sc.Outs[i-1][1]
		}
		if dur > 0 {
			time.Sleep(time.Duration(dur) * time.Millisecond)
		}
		var err error = errBoFail
		switch code {
		case 1:
			err = nil
		case 2, 5:
			d.log(trace.E{"ev": "succ"})
			success()
			d.log(trace.E{"ev": "succret"})
			if code == 5 {
				err = nil
			}
		case 3, 4:
			d.log(trace.E{"ev": "cancel"})
			cancel()
			if code == 4 {
				err = nil
			}
		}
		out := "err"
		if err == nil {
			out = "nil"
		}
		d.log(trace.E{"ev": "invret", "i": i, "out": out})
		return err
	}
	go func() {
		var err error
		if bo == nil {
			err = retry.Retry(ctx, le, f, nil)
		} else {
			err = retry.Retry(ctx, le, f, bo)
		}
		d.log(trace.E{"ev": "ret", "err": boErrClass(err)})
		done.Store(true)
	}()
	synctest.Wait()
	if sc.CancelAt > 0 {
		d.x.Tick(time.Duration(sc.CancelAt) * time.Millisecond)
		if !done.Load() {
			d.log(trace.E{"ev": "cancel"})
			cancel()
			synctest.Wait()
		}
	}
	for !done.Load() && time.Since(d.t0) < boBudget-150*time.Second {
		d.x.Tick(20 * time.Second)
	}
	d.log(trace.E{"ev": "final", "returned": done.Load(), "invocations": inv})
	if !done.Load() {
		cancel()
		synctest.Wait()
	}
}

func (sc *boScenario) normalize() {
	sc.Cfg.normalize()
	if sc.Kind != "retry" {
		sc.Kind = "bo"
		return
	}
	if sc.Bo != "nil" && sc.Bo != "script" {
		sc.Bo = "cfg"
	}
	if sc.Bo == "script" && len(sc.Script) == 0 {
		sc.Script = []int{1000}
	}
	for i, v := range sc.Script {
		if v > boMaxIvMs*1000 {
			sc.Script[i] = boMaxIvMs * 1000
		}
		if v < -1 {
			sc.Script[i] = -1
		}
	}
	if sc.Bo == "cfg" && (sc.Cfg.Kind < 0 || sc.Cfg.Kind > 2) {
		sc.Cfg.Kind = 0
	}
	if len(sc.Outs) > 12 {
		sc.Outs = sc.Outs[:12]
	}
	for i, o := range sc.Outs {
		if len(o) < 2 {
			sc.Outs[i] = []int{1, 0}
			continue
		}
		if o[0] < 0 || o[0] > 5 {
			o[0] = 0
		}
		if o[1] < 0 || o[1] > 5000 {
			o[1] = 0
		}
	}
	if sc.CancelAt < 0 {
		sc.CancelAt = 0
	}
}

// ------------------------------------------------------------------------------------ seeded scenarios

func boPick(r *rand.Rand, vs ...int) int { return vs[r.Intn(len(vs))] }

func genBoCfg(r *rand.Rand) boCfg {
	c := boCfg{}
	switch r.Intn(10) {
	case 0, 1:
		c.Kind = 0
	case 2:
		c.Kind = 2
	default:
		c.Kind = 1
	}
	if r.Intn(12) == 0 {
		c.NilSub = true
		return c
	}
	c.Ini = boPick(r, 0, 0, 1, 5, 100, 250, 800, 1000, 2500, 7000)
	mults := [][2]int{{0, 0}, {0, 0}, {1, 1}, {2, 1}, {9, 5}, {3, 2}, {5, 4}, {5, 2}, {3, 1}, {11, 10}, {7, 5}}
	m := mults[r.Intn(len(mults))]
	c.Num, c.Den = m[0], m[1]
	c.Max = boPick(r, 0, 0, 50, 1000, 5000, 20000, 30000, 60000)
	if r.Intn(3) == 0 {
		rs := [][2]int{{1, 2}, {1, 4}, {1, 10}, {1, 1}, {3, 10}}
		q := rs[r.Intn(len(rs))]
		c.Rnum, c.Rden = q[0], q[1]
	}
	if r.Intn(2) == 0 {
		c.Mel = boPick(r, 1000, 5000, 60000, 900000, 1200000, 1500000)
	}
	c.Civ = boPick(r, 0, 1, 250, 5000, 30000)
	effIni, effMax := c.Ini, c.Max
	if effIni == 0 {
		effIni = 800
	}
	if effMax == 0 {
		effMax = 20000
	}
	if effIni > effMax {
		c.Ini = boPick(r, 1, 5, 40)
	}
	if r.Intn(25) == 0 { // initial above max: see B1 [weak]
		c.Ini, c.Max, c.Mel = boPick(r, 30000, 6000), boPick(r, 1000, 5000), 0
	}
	return c
}

func genBackoff(r *rand.Rand) boScenario {
	sc := boScenario{Kind: "bo", Cfg: genBoCfg(r)}
	if r.Intn(10) < 3 {
		sc.Kind = "retry"
		sc.Bo = []string{"cfg", "cfg", "cfg", "script", "script", "nil"}[r.Intn(6)]
		if sc.Bo == "script" {
			n := 1 + r.Intn(4)
			for i := 0; i < n; i++ {
				sc.Script = append(sc.Script, boPick(r, 0, 1, 999, 1000, 1500000, 20000000, -1, -1, 333333))
			}
		}
		if sc.Cfg.Kind > 2 {
			sc.Cfg.Kind = 1
		}
		n := r.Intn(8)
		for i := 0; i < n; i++ {
			code := boPick(r, 0, 0, 0, 0, 2, 2, 1, 3, 4, 5)
			sc.Outs = append(sc.Outs, []int{code, boPick(r, 0, 0, 0, 700, 3000)})
		}
		if r.Intn(4) == 0 {
			sc.CancelAt = boPick(r, 1, 1237, 4999, 12011, 61003)
		}
		return sc
	}
	if r.Intn(15) == 0 {
		sc.Cfg.Kind = boPick(r, 3, 7, 100, -1)
	}
	n := 1 + r.Intn(24)
	for i := 0; i < n; i++ {
		switch k := r.Intn(20); {
		case k < 11:
			sc.Ops = append(sc.Ops, []int{0})
		case k < 13:
			sc.Ops = append(sc.Ops, []int{1})
		case k < 18:
			sc.Ops = append(sc.Ops, []int{2, boPick(r, 1, 500, 999, 7000, 61000, 900000, 1200000)})
		case k < 19:
			sc.Ops = append(sc.Ops, []int{3, r.Intn(2)})
		default:
			sc.Ops = append(sc.Ops, []int{4})
		}
	}
	return sc
}

// boSalt is taken from -opt salt=<n>: extra harness runs of the thorough tier draw different scenarios.
func boSalt() int64 {
	for _, kv := range strings.Split(Opt, ",") {
		if strings.HasPrefix(kv, "salt=") {
			n, _ := strconv.ParseInt(kv[5:], 10, 64)
			return n * 0x9e3779b97f4a7c
		}
	}
	return 0
}

func (d *boDriver) Run(x *sched.Exec, raw json.RawMessage) json.RawMessage {
	d.x = x
	d.t0 = time.Now()
	var sc boScenario
	if raw != nil {
		if err := json.Unmarshal(raw, &sc); err != nil {
			panic(err)
		}
	} else {
		sc = genBackoff(rand.New(rand.NewSource(x.Rng.Int63() ^ boSalt())))
	}
	sc.normalize()
	out, _ := json.Marshal(sc)
	if sc.Kind == "retry" {
		d.runRetry(&sc)
	} else {
		d.runBo(&sc)
	}
	return out
}
