//go:build drv_keyed || drv_all

package drivers

import (
	"context"
	"encoding/json"
	"fmt"
	"math/rand"
	"reflect"
	"runtime"
	"sort"
	"strings"
	"sync"
	"testing/synctest"
	"time"

	"verifharness/sched"
	"verifharness/trace"

	ubackoff "github.com/aperturerobotics/util/backoff"
	"github.com/aperturerobotics/util/keyed"
	cbackoff "github.com/cenkalti/backoff/v4"
)

// kdOp is one entry of the operation alphabet of a keyed scenario.
//
//	setkey{k,s} removekey{k} synckeys{ks,r} getkey{k} getkeys getkeysdata       (Keyed)
//	addref{k} release{ref} rcremove{k}                                           (KeyedRefCount; ref = n-th AddKeyRef)
//	setctx{c,r} (c = 0: nil) clearctx restart{k} reset{k}
//	tick{d}  advance the virtual clock by d units (1 unit = 1 ms; delay and backoff are 10 units)
//	out{k,out} (sequential mode) let the live running instance of key k return ok / err
type kdOp struct {
	Op  string `json:"op"`
	K   int    `json:"k"`
	S   bool   `json:"s"`
	Ks  []int  `json:"ks"`
	R   bool   `json:"r"`
	Ref int    `json:"ref"`
	C   int    `json:"c"`
	D   int    `json:"d"`
	Out string `json:"out"`
}

// kdScenario: the controller (or TLC's schedule) picks up to MaxOps operations from Alphabet.
type kdScenario struct {
	Mode     string   `json:"mode"` // seq: settle the library after every operation (C06) | m1: every library step is a move (C07)
	RC       bool     `json:"rc"`
	Delay    int      `json:"delay"`
	Retry    bool     `json:"retry"`
	NegDelay bool     `json:"negdelay,omitempty"` // the release delay is passed as a negative duration
	SlowExit bool     `json:"slowexit,omitempty"` // instances return only once the operations are used up (long exit latency)
	BoZero   bool     `json:"bozero,omitempty"`   // the harness's backoff policy returns 0 ("retry at once"), a legal interval
	BoExp    bool     `json:"boexp,omitempty"`    // retry with the library's own exponential backoff (WithRetry) instead of the harness's constant one
	NK       int      `json:"nk"`
	NCtx     int      `json:"nctx"`
	MaxOps   int      `json:"maxops"`
	Outs     []string `json:"outs"` // m1: outcomes offered for a running instance (ctxret is always offered once cancelled)
	Alphabet []kdOp   `json:"alphabet"`
}

const kdUnit = time.Millisecond

type kdCtxKey struct{}

type kdInst struct {
	id, tok, key int
	ctx          context.Context
	park         *sched.Park
	left         bool
}

type kdBackoff struct {
	d *kdDriver
	k int
}

func (b *kdBackoff) NextBackOff() time.Duration {
	b.d.x.Log(trace.E{"ev": "bo", "k": b.k, "op": "next"})
	if b.d.sc.BoZero {
		return 0 // the monitor's retry deadline is an upper bound (quiescence + BackoffUnit): earlier is fine
	}
	return 10 * kdUnit
}
func (b *kdBackoff) Reset() { b.d.x.Log(trace.E{"ev": "bo", "k": b.k, "op": "reset"}) }

var _ cbackoff.BackOff = (*kdBackoff)(nil)

// kdAPI is what Keyed and KeyedRefCount have in common.
type kdAPI interface {
	SetContext(ctx context.Context, restart bool)
	ClearContext()
	GetKeys() []int
	GetKeysWithData() []keyed.KeyWithData[int, int]
	GetKey(key int) (int, bool)
	ResetRoutine(key int, conds ...func(int, int) bool) (bool, bool)
	RestartRoutine(key int, conds ...func(int, int) bool) (bool, bool)
}

type kdDriver struct {
	flush    int // end-of-run ticks taken
	x        *sched.Exec
	sc       kdScenario
	mu       sync.Mutex
	api      kdAPI
	kd       *keyed.Keyed[int, int]
	rc       *keyed.KeyedRefCount[int, int]
	ctxs     map[int]context.Context
	cancels  []context.CancelFunc
	ntok     int
	insts    []*kdInst
	instOf   map[string]int // actor name -> instance id (tok*100 + ordinal of the execute goroutine for that token)
	tokOf    map[string]int // actor name -> constructor token of the record it works for
	cnt      map[int]int
	nfall    int
	refs     []*keyed.KeyedRef[int, int]
	nops     int
	lastSnap string
	lastQ    int
}

func init() { Register("keyed", func() Driver { return &kdDriver{} }) }

func ints(a []int) []int {
	if a == nil {
		return []int{}
	}
	return a
}

// tokOfObj reads the data token of the *runningRoutine passed to a Go hook (0 if the layout changed).
func tokOfObj(obj any) (tok int) {
	defer func() {
		if recover() != nil {
			tok = 0
		}
	}()
	v := reflect.ValueOf(obj)
	if v.Kind() == reflect.Pointer {
		v = v.Elem()
	}
	f := v.FieldByName("data")
	if f.IsValid() && f.CanInt() {
		return int(f.Int())
	}
	return 0
}

// body is the harness-owned routine function of the record made by constructor call tok.
func (d *kdDriver) body(key, tok int) keyed.Routine {
	return func(ctx context.Context) error {
		x := d.x
		name := x.Self().Name
		d.mu.Lock()
		id := d.instOf[name]
		if id == 0 || d.tokOf[name] != tok {
			d.nfall++
			id = 90000 + d.nfall
		}
		in := &kdInst{id: id, tok: tok, key: key, ctx: ctx}
		d.insts = append(d.insts, in)
		d.mu.Unlock()
		tag, _ := ctx.Value(kdCtxKey{}).(int)
		x.Log(trace.E{"ev": "enter", "inst": id, "k": key, "tok": tok, "tag": tag, "dead": ctx.Err() != nil})
		v := x.ParkUser(fmt.Sprintf("inst%d", id), func(p *sched.Park) { in.park = p })
		out, _ := v.(string)
		var err error
		switch out {
		case "ok":
		case "err":
			err = fmt.Errorf("E%d", id)
		default: // "ctxret" or teardown: return what the context says
			out = "ctxret"
			if err = ctx.Err(); err == nil {
				out = "ok"
			}
		}
		dead := ctx.Err() != nil
		d.mu.Lock()
		in.left = true
		d.mu.Unlock()
		x.Log(trace.E{"ev": "leave", "inst": id, "k": key, "out": out, "dead": dead})
		return err
	}
}

// ctor is the harness-owned constructor (runs under the Keyed mutex: only logs).
func (d *kdDriver) ctor(key int) (keyed.Routine, int) {
	d.ntok++
	tok := d.ntok
	d.x.Log(trace.E{"ev": "ctor", "k": key, "tok": tok})
	return d.body(key, tok), tok
}

func (d *kdDriver) running() (active, live []int) {
	d.mu.Lock()
	defer d.mu.Unlock()
	active, live = []int{}, []int{}
	for _, in := range d.insts {
		if !in.left {
			active = append(active, in.id)
			if in.ctx.Err() == nil {
				live = append(live, in.id)
			}
		}
	}
	return
}

// snap logs the observed key set and the instances inside the function (force: even if unchanged).
func (d *kdDriver) snap(force bool) {
	keys := ints(d.api.GetKeys())
	sort.Ints(keys)
	active, live := d.running()
	s := fmt.Sprint(keys, active, live)
	if !force && s == d.lastSnap {
		return
	}
	d.lastSnap = s
	d.x.Log(trace.E{"ev": "snap", "keys": keys, "active": active, "live": live})
}

// observe logs what changed after a step: snapshot, and quiet if nothing is parked at a library hook.
func (d *kdDriver) observe() {
	d.snap(false)
	if strings.Contains(Opt, "debug") {
		var ls []string
		for _, m := range d.grantMoves() {
			ls = append(ls, m.Label+"="+m.Actor)
		}
		d.x.Log(trace.E{"ev": "note", "parked": fmt.Sprint(ls)})
	}
	if len(d.x.ParkedActors()) != 0 || d.x.T.Seq() == d.lastQ {
		return
	}
	d.x.Log(trace.E{"ev": "quiet"})
	d.lastQ = d.x.T.Seq()
}

// settle (sequential histories) runs the library to its next quiescent point inside the move of
// the operation: parked library steps are granted in arrival order, a cancelled instance returns
// at once. An operation of a sequential history is therefore exactly one controller move.
func (d *kdDriver) settle() {
	for n := 0; n < 200; n++ {
		synctest.Wait()
		d.observe()
		ms := d.grantMoves()
		if len(ms) == 0 {
			ms = d.outMoves(true)
		}
		if len(ms) == 0 {
			return
		}
		ms[0].Do()
	}
}

func (d *kdDriver) apiEv(op string, o kdOp) trace.E {
	return trace.E{"ev": "api", "op": op, "k": o.K, "s": o.S, "r": o.R, "ref": o.Ref, "c": o.C, "data": 0, "existed": false,
		"ks": ints(o.Ks), "added": []int{}, "removed": []int{}, "keys": []int{}, "nkeys": 0, "kd": [][]int{}, "reset": false}
}

// liveInst returns the running instance of key k whose context is live (nil if none).
func (d *kdDriver) liveInst(k int) *kdInst {
	d.mu.Lock()
	defer d.mu.Unlock()
	for i := len(d.insts) - 1; i >= 0; i-- {
		in := d.insts[i]
		if in.key == k && !in.left && in.park != nil && in.park.Active() && in.ctx.Err() == nil {
			return in
		}
	}
	return nil
}

// applicable reports whether the operation exists on the container kind of the scenario.
func (d *kdDriver) applicable(o kdOp) bool {
	switch o.Op {
	case "setkey", "removekey", "synckeys":
		return !d.sc.RC
	case "addref", "release", "rcremove":
		return d.sc.RC
	}
	return true
}

// doOp performs one operation of the alphabet on the controller goroutine (every keyed API
// call is a single critical section, so a call is one step) and logs its result.
func (d *kdDriver) doOp(o kdOp) {
	x := d.x
	e := d.apiEv(o.Op, o)
	switch o.Op {
	case "setkey":
		data, existed := d.kd.SetKey(o.K, o.S)
		e["data"], e["existed"] = data, existed
	case "removekey":
		e["existed"] = d.kd.RemoveKey(o.K)
	case "synckeys":
		added, removed := d.kd.SyncKeys(append([]int{}, o.Ks...), o.R)
		e["added"], e["removed"] = ints(added), ints(removed)
	case "getkey":
		data, existed := d.api.GetKey(o.K)
		e["data"], e["existed"] = data, existed
	case "getkeys":
		keys := ints(d.api.GetKeys())
		e["keys"], e["nkeys"] = keys, len(keys)
	case "getkeysdata":
		kd := [][]int{}
		for _, p := range d.api.GetKeysWithData() {
			kd = append(kd, []int{p.Key, p.Data})
		}
		e["kd"], e["nkeys"] = kd, len(kd)
	case "addref":
		ref, data, existed := d.rc.AddKeyRef(o.K)
		d.refs = append(d.refs, ref)
		e["ref"], e["data"], e["existed"] = len(d.refs), data, existed
	case "release":
		if o.Ref < 1 || o.Ref > len(d.refs) {
			e["op"] = "noop"
		} else {
			d.refs[o.Ref-1].Release()
		}
	case "rcremove":
		e["existed"] = d.rc.RemoveKey(o.K)
	case "setctx":
		var ctx context.Context
		if o.C != 0 {
			ctx = d.ctxs[o.C]
		}
		d.api.SetContext(ctx, o.R)
	case "clearctx":
		e["c"] = 0
		d.api.ClearContext()
	case "restart":
		existed, reset := d.api.RestartRoutine(o.K)
		e["existed"], e["reset"] = existed, reset
	case "reset":
		existed, reset := d.api.ResetRoutine(o.K)
		e["existed"], e["reset"] = existed, reset
	case "tick":
		x.Log(trace.E{"ev": "tick", "d": o.D})
		x.Tick(time.Duration(o.D) * kdUnit)
		return
	case "ctxcancel":
		// the application cancels context C itself ("in place"): if it is the container's context the
		// container keeps it; running instances see their context end but may be slow to return
		x.Log(trace.E{"ev": "ctxcancel", "c": o.C})
		d.cancels[o.C-1]()
		d.snap(true)
		return
	case "out":
		if in := d.liveInst(o.K); in != nil {
			x.Resume(in.park, o.Out)
			return
		}
		e["op"] = "noop"
	default:
		panic("bad op " + o.Op)
	}
	x.Log(e)
	d.snap(true)
}

func genKeyed(x *sched.Exec) kdScenario {
	r := x.Rng
	sc := kdScenario{Mode: "m1", NK: 2 + r.Intn(2), NCtx: 2, Outs: []string{"ok", "err"}}
	for _, o := range strings.Split(Opt, ",") {
		if o == "seq" || o == "m1" {
			sc.Mode = o
		}
	}
	sc.RC = r.Intn(3) == 0
	if r.Intn(3) != 0 {
		sc.Delay = 10
	}
	sc.Retry = r.Intn(2) == 0
	sc.BoExp = sc.Retry && r.Intn(3) == 0
	sc.NegDelay = sc.Delay != 0 && r.Intn(3) == 0
	sc.BoZero = sc.Retry && !sc.BoExp && r.Intn(4) == 0
	seq := sc.Mode == "seq"
	if seq {
		sc.MaxOps = 8 + r.Intn(8)
	} else {
		sc.MaxOps = 6 + r.Intn(6)
	}
	key := func() int { return 1 + r.Intn(sc.NK) }
	keys := func() []int {
		ks := []int{}
		for k := 1; k <= sc.NK; k++ {
			if r.Intn(2) == 0 {
				ks = append(ks, k)
			}
		}
		if len(ks) > 0 && r.Intn(6) == 0 {
			ks = append(ks, ks[0]) // duplicate entry
		}
		return ks
	}
	type w struct {
		n  int
		mk func() kdOp
	}
	tick := func() kdOp { return kdOp{Op: "tick", D: []int{4, 7}[r.Intn(2)]} }
	ws := []w{
		{2, func() kdOp { return kdOp{Op: "setctx", C: r.Intn(sc.NCtx + 1), R: r.Intn(2) == 0} }},
		{1, func() kdOp { return kdOp{Op: "clearctx"} }},
		{2, func() kdOp { return kdOp{Op: "restart", K: key()} }},
	}
	if sc.Delay != 0 || sc.Retry {
		ws = append(ws, w{4, tick})
	}
	// the application cancels a context itself ("in place": the container keeps it).
	// (not with a zero backoff: a retry under a context that has ended fails without entering the
	// routine, so "retry at once" is then a loop that needs no time to pass;
	// without a release delay only: whether a routine that returned because its context ended
	// "has failed" -- removal at once or after the delay -- is not something the statement settles)
	focus := strings.Contains(Opt, "ctxc") // mode "ctxc": every scenario is of this kind
	if focus {
		sc.Delay, sc.NegDelay, sc.BoZero = 0, false, false
	}
	ctxc := sc.Delay == 0 && !sc.BoZero && (focus || r.Intn(2) == 0)
	sc.SlowExit = !seq && r.Intn(3) == 0
	if ctxc {
		ws = append(ws, w{2, func() kdOp { return kdOp{Op: "ctxcancel", C: 1 + r.Intn(sc.NCtx)} }})
	}
	if sc.RC {
		ws = append(ws, w{4, func() kdOp { return kdOp{Op: "addref", K: key()} }},
			w{4, func() kdOp { return kdOp{Op: "release", Ref: 1 + r.Intn(4)} }},
			w{1, func() kdOp { return kdOp{Op: "rcremove", K: key()} }})
	} else {
		ws = append(ws, w{3, func() kdOp { return kdOp{Op: "setkey", K: key(), S: r.Intn(2) == 0} }},
			w{3, func() kdOp { return kdOp{Op: "removekey", K: key()} }},
			w{3, func() kdOp { return kdOp{Op: "synckeys", Ks: keys(), R: r.Intn(2) == 0} }})
	}
	if seq {
		ws = append(ws, w{1, func() kdOp { return kdOp{Op: "getkey", K: key()} }},
			w{2, func() kdOp { return kdOp{Op: "getkeys"} }},
			w{1, func() kdOp { return kdOp{Op: "getkeysdata"} }},
			w{3, func() kdOp { return kdOp{Op: "out", K: key(), Out: []string{"ok", "err", "err"}[r.Intn(3)]} }})
	} else {
		ws = append(ws, w{1, func() kdOp { return kdOp{Op: "reset", K: key()} }})
	}
	tot := 0
	for _, e := range ws {
		tot += e.n
	}
	sc.Alphabet = append(sc.Alphabet, kdOp{Op: "setctx", C: 1})
	if sc.RC {
		sc.Alphabet = append(sc.Alphabet, kdOp{Op: "addref", K: 1}, kdOp{Op: "release", Ref: 1})
	} else {
		sc.Alphabet = append(sc.Alphabet, kdOp{Op: "setkey", K: 1, S: true}, kdOp{Op: "removekey", K: 1})
	}
	nrand := 7 + r.Intn(6)
	if ctxc && (focus || r.Intn(2) == 0) {
		// a small alphabet around one key whose context ends while its instance is slow to return
		sc.Alphabet = append(sc.Alphabet, kdOp{Op: "ctxcancel", C: 1}, kdOp{Op: "setctx", C: 2, R: true},
			kdOp{Op: "setctx", C: 2}, kdOp{Op: "restart", K: 1})
		nrand = r.Intn(3)
	}
	for n := nrand; n > 0; n-- {
		p := r.Intn(tot)
		for _, e := range ws {
			if p < e.n {
				sc.Alphabet = append(sc.Alphabet, e.mk())
				break
			}
			p -= e.n
		}
	}
	return sc
}

func (d *kdDriver) grantMoves() []sched.Move {
	x := d.x
	var ms []sched.Move
	for _, a := range x.ParkedActors() {
		a := a
		p := a.Parked()
		d.mu.Lock()
		inst, tok := d.instOf[a.Name], d.tokOf[a.Name]
		d.mu.Unlock()
		label := "grant:" + a.Name
		switch {
		case strings.HasPrefix(a.Name, "keyed.execute") && p.Kind == "go":
			label = fmt.Sprintf("start:%d", inst)
		case strings.HasPrefix(a.Name, "keyed.execute"):
			label = fmt.Sprintf("book:%d", inst)
		case strings.HasPrefix(a.Name, "keyed.removetimer"):
			label = fmt.Sprintf("remcb:%d", tok)
		case strings.HasPrefix(a.Name, "keyed.retrytimer"):
			label = fmt.Sprintf("retcb:%d", tok)
		}
		ms = append(ms, sched.Move{Label: label, Actor: a.Name, Do: func() { x.Grant(a) }})
	}
	return ms
}

// outMoves: outcomes of the instances inside the function. seq: only the forced return of a
// cancelled instance (it returns promptly in sequential histories).
func (d *kdDriver) outMoves(seq bool) []sched.Move {
	x := d.x
	var ms []sched.Move
	d.mu.Lock()
	defer d.mu.Unlock()
	for _, in := range d.insts {
		in := in
		if in.left || in.park == nil || !in.park.Active() {
			continue
		}
		name := in.park.Actor().Name
		if in.ctx.Err() != nil {
			ms = append(ms, sched.Move{Label: fmt.Sprintf("out:%d:ctxret", in.id), Actor: name, Do: func() { x.Resume(in.park, "ctxret") }})
		}
		if seq {
			continue
		}
		for _, o := range d.sc.Outs {
			o := o
			ms = append(ms, sched.Move{Label: fmt.Sprintf("out:%d:%s", in.id, o), Actor: name, Do: func() { x.Resume(in.park, o) }})
		}
	}
	return ms
}

// runBurst is mode M2 for the reference-counted variant: clients add and release references freely
// in parallel (no parking); only the order-insensitive claim "a key is present while at least one
// unreleased reference exists" is judged, once, at the final exact quiescent point.
func (d *kdDriver) runBurst(x *sched.Exec) json.RawMessage {
	rc := keyed.NewKeyedRefCount(func(key int) (keyed.Routine, int) {
		return func(ctx context.Context) error { <-ctx.Done(); return nil }, key
	})
	ctx, cancel := context.WithCancel(context.Background())
	rc.SetContext(ctx, false)
	x.Policy = func(*sched.Actor, string, string, any) bool { return false }
	x.Log(trace.E{"ev": "rcburst"})
	type held struct {
		ref *keyed.KeyedRef[int, int]
		key int
	}
	var mu sync.Mutex
	var kept []held
	ncl := 2 + x.Rng.Intn(3)
	nkeys := 1 + x.Rng.Intn(2)
	for i := 0; i < ncl; i++ {
		c := x.NewClient(fmt.Sprintf("c%d", i+1))
		r := rand.New(rand.NewSource(x.Seed*977 + int64(i)))
		x.Issue(c, func() {
			var mine []held
			for n := 0; n < 80+r.Intn(80); n++ {
				if len(mine) == 0 || (len(mine) < 2 && r.Intn(3) == 0) {
					k := 1 + r.Intn(nkeys)
					ref, _, _ := rc.AddKeyRef(k)
					mine = append(mine, held{ref, k})
				} else {
					j := r.Intn(len(mine))
					mine[j].ref.Release()
					if r.Intn(4) == 0 {
						mine[j].ref.Release()
					}
					mine = append(mine[:j], mine[j+1:]...)
				}
				// while this client holds an unreleased reference the key must be present
				for _, h := range mine {
					if _, ok := rc.GetKey(h.key); !ok {
						x.Log(trace.E{"ev": "rcfinal", "held": []int{h.key}, "keys": []int{}})
					}
				}
				if r.Intn(3) == 0 {
					runtime.Gosched()
				}
			}
			for len(mine) > 1 {
				mine[len(mine)-1].ref.Release()
				mine = mine[:len(mine)-1]
			}
			mu.Lock()
			kept = append(kept, mine...)
			mu.Unlock()
		})
	}
	x.Labels = append(x.Labels, "burst")
	synctest.Wait()
	hk := map[int]bool{}
	for _, h := range kept {
		hk[h.key] = true
	}
	var hks []int
	for k := range hk {
		hks = append(hks, k)
	}
	sort.Ints(hks)
	keys := ints(rc.GetKeys())
	sort.Ints(keys)
	x.Log(trace.E{"ev": "rcfinal", "held": ints(hks), "keys": keys})
	for _, h := range kept {
		h.ref.Release()
	}
	cancel()
	rc.ClearContext()
	synctest.Wait()
	return json.RawMessage(`{"mode":"rcburst"}`)
}

func (d *kdDriver) Run(x *sched.Exec, raw json.RawMessage) json.RawMessage {
	d.x = x
	if raw == nil && strings.Contains(Opt, "rcburst") {
		return d.runBurst(x)
	}
	if raw != nil {
		if err := json.Unmarshal(raw, &d.sc); err != nil {
			panic(err)
		}
	} else {
		// "v<n>" in the option string selects a different family of seeded scenarios (extra random runs)
		for _, o := range strings.Split(Opt, ",") {
			var v int64
			if n, _ := fmt.Sscanf(o, "v%d", &v); n == 1 {
				x.Rng = rand.New(rand.NewSource(x.Seed*1000003 + v))
			}
		}
		d.sc = genKeyed(x)
	}
	for i := range d.sc.Alphabet {
		d.sc.Alphabet[i].Ks = ints(d.sc.Alphabet[i].Ks) // no JSON null in the trace
	}
	if d.sc.Outs == nil {
		d.sc.Outs = []string{}
	}
	sc := d.sc
	out, _ := json.Marshal(sc)
	seq := sc.Mode == "seq"
	d.ctxs, d.instOf, d.tokOf, d.cnt = map[int]context.Context{}, map[string]int{}, map[string]int{}, map[int]int{}
	for i := 1; i <= sc.NCtx; i++ {
		ctx, cancel := context.WithCancel(context.WithValue(context.Background(), kdCtxKey{}, i))
		d.ctxs[i] = ctx
		d.cancels = append(d.cancels, cancel)
	}
	var opts []keyed.Option[int, int]
	if sc.Delay != 0 {
		dl := time.Duration(sc.Delay) * kdUnit
		if sc.NegDelay {
			dl = -dl // WithReleaseDelay documents nothing about the sign; the library takes the absolute value
		}
		opts = append(opts, keyed.WithReleaseDelay[int, int](dl))
	}
	if sc.Retry && sc.BoExp {
		// the library's own exponential backoff: 10, 20, 40, 80, 80, ... (one per key)
		opts = append(opts, keyed.WithRetry[int, int](&ubackoff.Backoff{BackoffKind: ubackoff.BackoffKind_BackoffKind_EXPONENTIAL,
			Exponential: &ubackoff.Exponential{InitialInterval: 10, Multiplier: 2, MaxInterval: 80}}))
	} else if sc.Retry {
		opts = append(opts, keyed.WithBackoff[int, int](func(k int) cbackoff.BackOff { return &kdBackoff{d: d, k: k} }))
	}
	if sc.RC {
		d.rc = keyed.NewKeyedRefCount(d.ctor, opts...)
		d.api = d.rc
	} else {
		d.kd = keyed.NewKeyed(d.ctor, opts...)
		d.api = d.kd
	}
	// execute goroutines park at their Go hook and before their bookkeeping section; timer
	// callbacks park once, before their critical section. The Go hooks identify the record.
	x.Policy = func(a *sched.Actor, kind, site string, obj any) bool {
		switch kind {
		case "go":
			tok := tokOfObj(obj)
			d.mu.Lock()
			d.tokOf[a.Name] = tok
			if site == "keyed.execute" {
				d.cnt[tok]++
				d.instOf[a.Name] = tok*100 + d.cnt[tok]
			}
			d.mu.Unlock()
			return site == "keyed.execute"
		case "unlocked":
			return false
		}
		return true
	}
	x.Log(trace.E{"ev": "config", "seqmode": seq, "delay": sc.Delay, "retry": sc.Retry, "rc": sc.RC, "boexp": sc.Retry && sc.BoExp})

	libBusy := func() bool { return len(x.ParkedActors()) != 0 }
	guided := func() bool { return len(x.Sched) > 0 && !x.Diverged && !x.SchedDone() }
	opMove := func(i int) sched.Move {
		o := sc.Alphabet[i]
		return sched.Move{Label: fmt.Sprintf("op:%d", i+1), Do: func() {
			d.nops++
			d.doOp(o)
			if seq {
				d.settle()
			}
		}}
	}
	moves := func() []sched.Move {
		ms := d.grantMoves()
		if !seq && !(sc.SlowExit && d.nops < sc.MaxOps) {
			ms = append(ms, d.outMoves(false)...)
		}
		if d.nops >= sc.MaxOps {
			// the operations are used up: when nothing else is left to do let time run on a little (in
			// steps of 7), so that retries that are owed -- or timers that should have been stopped -- show
			if len(ms) == 0 && !guided() && sc.Retry && sc.Mode != "seq" && d.flush < 4 {
				ms = append(ms, sched.Move{Label: "tick", Do: func() {
					d.flush++
					x.Log(trace.E{"ev": "tick", "d": 7})
					x.Tick(7 * kdUnit)
				}})
			}
			return ms
		}
		var cand []int
		for i, o := range sc.Alphabet {
			if d.applicable(o) && !(o.Op == "tick" && libBusy()) {
				cand = append(cand, i)
			}
		}
		if len(cand) == 0 {
			return ms
		}
		if guided() {
			for _, i := range cand {
				ms = append(ms, opMove(i))
			}
			return ms
		}
		// seeded choice: one operation competes with the library steps
		i := cand[x.Rng.Intn(len(cand))]
		if d.nops == 0 && x.Rng.Intn(4) != 0 {
			i = cand[0]
		}
		return append(ms, opMove(i))
	}
	x.Loop(moves, d.observe, 140)

	// teardown: nothing is judged from here on
	x.Log(trace.E{"ev": "teardown"})
	x.Drain()
	d.api.ClearContext()
	for _, cancel := range d.cancels {
		cancel()
	}
	for round := 0; round < 3; round++ {
		for i := 0; i < 20; i++ {
			ps := x.UserParks()
			if len(ps) == 0 {
				break
			}
			for _, p := range ps {
				x.Resume(p, "ctxret")
			}
			x.Drain()
		}
		x.Tick(time.Second)
		x.Drain()
	}
	return out
}
