//go:build drv_promise || drv_all

package drivers

import (
	"context"
	"encoding/json"
	"errors"
	"fmt"
	"sort"
	"strings"
	"sync"
	"testing/synctest"

	"verifharness/sched"
	"verifharness/trace"

	"github.com/aperturerobotics/util/promise"
)

// prOp is one client operation of a promise scenario (C11).
//
//	set   : promise q .SetResult(v, e)            (hooks: promise.set, promise.close)
//	cset  : container.SetResult(v, e)             (creates the resolved promise q; one HoldLock)
//	setp  : container.SetPromise(promise q | nil) (q = 0: nil; one HoldLock)
//	await : kind await|errch|cancelch on promise q, or on the container if q = 0
//	        c: the scenario may cancel the context; f: how the channel may fire
//	        (errch: val|nil|close, cancelch: close|send)
//
// e is "nil" | "E" | "C" (context.Canceled). Result values are >= 1 and unique.
//
// tc / tf (set, cset, setp; generated scenarios only, absent in the scenario files shared with the X
// spec): right after the call has returned the SAME client goroutine cancels the context / fires the
// channel of the await that client tc / tf has in flight ("p.SetResult(v, nil); cancel()"). The awaiter
// was already woken through the done / replacement channel and runs only afterwards: it comes out of
// its select through the result (or wait) channel with its context already cancelled. No controller
// move can order the two that way (a combined "grant & cancel" step cancels before the granted
// goroutine runs, so the awaiter is woken by ctx.Done first).
type prOp struct {
	Op   string `json:"op"`
	Q    int    `json:"q"`
	V    int    `json:"v"`
	E    string `json:"e"`
	Kind string `json:"kind"`
	C    bool   `json:"c"`
	F    string `json:"f"`
	Tc   int    `json:"tc,omitempty"`
	Tf   int    `json:"tf,omitempty"`
}

type prProm struct {
	R bool   `json:"r"` // created resolved with (v, e)
	V int    `json:"v"`
	E string `json:"e"`
}

type prScenario struct {
	Proms   []prProm `json:"proms"`
	Cur     int      `json:"cur"`
	Clients [][]prOp `json:"clients"`
	// mode M2: every client runs its whole program free-running and in parallel (no controller steps);
	// then, at quiescence, one more Await on the container (a result is then certainly current)
	Burst bool `json:"burst,omitempty"`
}

var (
	prErrE = fmt.Errorf("E: %w", context.Canceled) // an ordinary error value that happens to wrap the sentinel
	prErrX = errors.New("X")
)

func prErr(s string) error {
	switch s {
	case "nil", "":
		return nil
	case "E":
		return prErrE
	case "C":
		return context.Canceled
	case "X":
		return prErrX
	}
	panic("bad error name " + s)
}

func prErrName(err error) string {
	switch err {
	case nil:
		return "nil"
	case prErrE:
		return "E"
	case context.Canceled:
		return "C"
	case prErrX:
		return "X"
	}
	return "other"
}

type prClient struct {
	c        *sched.Client
	idx      int  // client index (X spec process idx+1)
	xid      int  // id of the call in flight in the X spec: (idx+1)*100 + program index+1
	inflight int  // call id in flight, 0 if none
	await    bool // the call in flight is an await
	op       prOp
	cancel   context.CancelFunc
	canc     bool
	fired    bool
	errCh    chan error
	cancelCh chan struct{}
}

type prDriver struct {
	x      *sched.Exec
	proms  []*promise.Promise[int]
	cont   *promise.PromiseContainer[int]
	cl     []*prClient
	nextID int
	lastQ  string
	mu     sync.Mutex // burst mode: guards nextID
}

func init() { Register("promise", func() Driver { return &prDriver{} }) }

// genPromiseBurst: setters that each replace the container's result several times in a row (so the
// real-time order of one client's calls bounds what may be current afterwards: PromiseP B2), next to
// awaiters that sample it meanwhile.
func genPromiseBurst(x *sched.Exec) prScenario {
	r := x.Rng
	errs := []string{"nil", "nil", "E", "C"}
	kinds := []string{"await", "errch", "cancelch"}
	sc := prScenario{Burst: true}
	nv := 0
	for i, n := 0, 3+r.Intn(4); i < n; i++ {
		var prog []prOp
		for j, m := 0, 2+r.Intn(3); j < m; j++ {
			sc.Proms = append(sc.Proms, prProm{})
			nv++
			prog = append(prog, prOp{Op: "cset", Q: len(sc.Proms), V: nv, E: errs[r.Intn(len(errs))]})
		}
		sc.Clients = append(sc.Clients, prog)
	}
	for i, n := 0, 1+r.Intn(2); i < n; i++ {
		var prog []prOp
		for j, m := 0, 1+r.Intn(3); j < m; j++ {
			prog = append(prog, prOp{Op: "await", Kind: kinds[r.Intn(3)]})
		}
		sc.Clients = append(sc.Clients, prog)
	}
	return sc
}

func genPromise(x *sched.Exec) prScenario {
	r := x.Rng
	errs := []string{"nil", "E", "C", "C"}
	container := r.Intn(4) != 0
	sc := prScenario{}
	np := 1 + r.Intn(2)
	if container {
		np = 1 + r.Intn(3)
	}
	nextV := 0
	val := func() int { nextV++; return nextV }
	for i := 0; i < np; i++ {
		p := prProm{}
		if r.Intn(5) == 0 {
			p = prProm{R: true, V: val(), E: errs[r.Intn(len(errs))]}
		}
		sc.Proms = append(sc.Proms, p)
	}
	if container {
		sc.Cur = r.Intn(np + 1)
	}
	kinds := []string{"await", "errch", "cancelch"}
	ncl := 3 + r.Intn(3)
	nAw := 0
	for i := 0; i < ncl; i++ {
		var prog []prOp
		nops := 1 + r.Intn(2)
		for j := 0; j < nops; j++ {
			k := r.Intn(10)
			if i == ncl-1 && nAw == 0 {
				k = 9 // at least one awaiter
			}
			switch {
			case k < 3:
				prog = append(prog, prOp{Op: "set", Q: 1 + r.Intn(np), V: val(), E: errs[r.Intn(len(errs))]})
			case k < 4 && container:
				// reserve a fresh promise id for the promise that container.SetResult creates
				sc.Proms = append(sc.Proms, prProm{})
				prog = append(prog, prOp{Op: "cset", Q: len(sc.Proms), V: val(), E: errs[r.Intn(len(errs))]})
			case k < 6 && container:
				prog = append(prog, prOp{Op: "setp", Q: r.Intn(np + 1)})
			default:
				o := prOp{Op: "await", Kind: kinds[r.Intn(3)], C: r.Intn(3) == 0}
				if !container {
					o.Q = 1 + r.Intn(np)
				}
				if r.Intn(2) == 0 {
					switch o.Kind {
					case "errch":
						o.F = []string{"val", "nil", "close"}[r.Intn(3)]
					case "cancelch":
						o.F = []string{"close", "send"}[r.Intn(2)]
					}
				}
				nAw++
				prog = append(prog, o)
			}
		}
		sc.Clients = append(sc.Clients, prog)
	}
	// a third of the scenarios: some set / cset / setp calls are followed at once (same goroutine) by the
	// cancellation / channel firing of another client's await (see prOp)
	if r.Intn(3) == 0 {
		var aw []int // clients that await at all
		for i, prog := range sc.Clients {
			for _, o := range prog {
				if o.Op == "await" {
					aw = append(aw, i+1)
					break
				}
			}
		}
		for i, prog := range sc.Clients {
			for j := range prog {
				if prog[j].Op == "await" || len(aw) == 0 || r.Intn(2) == 0 {
					continue
				}
				t := aw[r.Intn(len(aw))]
				if t == i+1 {
					continue
				}
				if r.Intn(3) == 0 {
					prog[j].Tf = t
				} else {
					prog[j].Tc = t
				}
			}
		}
	}
	return sc
}

func (d *prDriver) newID() int {
	d.mu.Lock()
	defer d.mu.Unlock()
	d.nextID++
	return d.nextID
}

func (d *prDriver) blockedIDs() []int {
	out := []int{}
	for _, c := range d.cl {
		if c.inflight != 0 && c.await && d.x.Blocked(c.c) {
			out = append(out, c.inflight)
		}
	}
	sort.Ints(out)
	return out
}

// blockedXIDs: the same set under the X spec's ids (X-level trace validation).
func (d *prDriver) blockedXIDs() []int {
	out := []int{}
	for _, c := range d.cl {
		if c.inflight != 0 && c.await && d.x.Blocked(c.c) {
			out = append(out, c.xid)
		}
	}
	sort.Ints(out)
	return out
}

// guard runs one library call; a panic is logged as the outcome of call id.
func (d *prDriver) guard(c *prClient, id int, f func()) (ok bool) {
	defer func() {
		if r := recover(); r != nil {
			c.inflight = 0
			d.x.Log(trace.E{"ev": "panic", "id": id, "xid": c.xid, "msg": fmt.Sprint(r), "actor": c.c.Name})
			ok = false
		}
	}()
	f()
	return true
}

// then performs op's tc / tf action (see prOp); called on the client goroutine right after its
// set / cset / setp call has returned, before anything it woke has run.
func (d *prDriver) then(op prOp) {
	if op.Tc > 0 && op.Tc <= len(d.cl) {
		if t := d.cl[op.Tc-1]; t.inflight != 0 && t.await && !t.canc {
			d.doCancel(t)
		}
	}
	if op.Tf > 0 && op.Tf <= len(d.cl) {
		if t := d.cl[op.Tf-1]; t.inflight != 0 && t.await && t.op.Kind != "await" && t.op.F != "" && !t.fired {
			d.doFire(t)
		}
	}
}

func (d *prDriver) opFunc(c *prClient, pi int, op prOp) sched.Op {
	x := d.x
	label := "call:" + c.c.Name
	xid := (c.idx+1)*100 + pi + 1
	call := func(id int) trace.E {
		c.xid = xid
		return trace.E{"ev": "call", "id": id, "xid": xid, "op": op.Op, "q": op.Q, "v": op.V, "e": op.E, "kind": op.Kind, "actor": c.c.Name}
	}
	switch op.Op {
	case "set":
		return sched.Op{Label: label, Do: func() {
			id := d.newID()
			x.Log(call(id))
			c.inflight, c.await = id, false
			var ok bool
			if !d.guard(c, id, func() { ok = d.proms[op.Q-1].SetResult(op.V, prErr(op.E)) }) {
				return
			}
			d.then(op)
			c.inflight = 0
			x.Log(trace.E{"ev": "ret", "id": id, "xid": xid, "op": "set", "ok": ok, "actor": c.c.Name})
		}}
	case "cset":
		return sched.Op{Label: label, Do: func() {
			id := d.newID()
			x.Log(call(id))
			c.inflight, c.await = id, false
			var ok bool
			if !d.guard(c, id, func() { ok = d.cont.SetResult(op.V, prErr(op.E)) }) {
				return
			}
			d.then(op)
			c.inflight = 0
			x.Log(trace.E{"ev": "ret", "id": id, "xid": xid, "op": "cset", "ok": ok, "actor": c.c.Name})
		}}
	case "setp":
		return sched.Op{Label: label, Do: func() {
			id := d.newID()
			x.Log(call(id))
			c.inflight, c.await = id, false
			var pl promise.PromiseLike[int] // a nil interface, not a typed nil pointer
			if op.Q != 0 {
				pl = d.proms[op.Q-1]
			}
			if !d.guard(c, id, func() { d.cont.SetPromise(pl) }) {
				return
			}
			d.then(op)
			c.inflight = 0
			x.Log(trace.E{"ev": "ret", "id": id, "xid": xid, "op": "setp", "ok": true, "actor": c.c.Name})
		}}
	case "await":
		return sched.Op{Label: label, Do: func() {
			id := d.newID()
			var ctx context.Context
			ctx, c.cancel = context.WithCancel(context.Background())
			c.canc, c.fired, c.op = false, false, op
			c.errCh = make(chan error, 1)
			c.cancelCh = make(chan struct{}, 1)
			var tgt promise.PromiseLike[int] = d.cont
			if op.Q != 0 {
				tgt = d.proms[op.Q-1]
			}
			x.Log(call(id))
			c.inflight, c.await = id, true
			v, es := 0, ""
			if !d.guard(c, id, func() {
				var err error
				switch op.Kind {
				case "await":
					v, err = tgt.Await(ctx)
				case "errch":
					v, err = tgt.AwaitWithErrCh(ctx, c.errCh)
				case "cancelch":
					v, err = tgt.AwaitWithCancelCh(ctx, c.cancelCh)
				default:
					panic("bad await kind " + op.Kind)
				}
				es = prErrName(err)
			}) {
				return
			}
			c.inflight = 0
			x.Log(trace.E{"ev": "ret", "id": id, "xid": xid, "op": "await", "v": v, "e": es, "actor": c.c.Name})
		}}
	}
	panic("bad op " + op.Op)
}

func (d *prDriver) doCancel(c *prClient) {
	c.canc = true
	d.x.Log(trace.E{"ev": "cancel", "id": c.inflight, "xid": c.xid})
	c.cancel()
}

func (d *prDriver) doFire(c *prClient) {
	c.fired = true
	d.x.Log(trace.E{"ev": "fire", "id": c.inflight, "xid": c.xid, "how": c.op.F})
	switch c.op.Kind + ":" + c.op.F {
	case "errch:val":
		c.errCh <- prErrX
	case "errch:nil":
		c.errCh <- nil
	case "errch:close":
		close(c.errCh)
	case "cancelch:close":
		close(c.cancelCh)
	case "cancelch:send":
		c.cancelCh <- struct{}{}
	default:
		panic("bad fire " + c.op.Kind + ":" + c.op.F)
	}
}

func (d *prDriver) Run(x *sched.Exec, raw json.RawMessage) json.RawMessage {
	d.x = x
	// PromiseP reads the logged calls and returns as bounds on the atomic steps / critical sections
	// (PromiseP.tla, B1-B5) and is told the granularity of each execution, so the scheduler refinements
	// are sound here: combined grant+cancel/fire steps (sched.Exec.Double: the only way a plain
	// Promise.Await* is WOKEN with result and cancellation both ready) and park points at the END of
	// critical sections (ParkUnl: a container awaiter stops between its sampling section and its
	// select). "-opt coarse" switches both off (to compare detection with and without them).
	if !strings.Contains(Opt, "coarse") {
		x.OptDouble, x.OptParkUnl = true, true
	}
	// fine: verifhook.Unlocked parks in this execution (mirrors sched.Exec.parkUnlActive; erring towards
	// true only weakens the monitor: `late` is then not applied)
	fine := x.OptParkUnl && !x.LogSteps && x.ParkUnl
	if len(x.Sched) > 0 {
		fine = x.OptParkUnl && !x.LogSteps && x.Sched[0] == "!parkunl"
	}
	var sc prScenario
	if raw != nil {
		if err := json.Unmarshal(raw, &sc); err != nil {
			panic(err)
		}
	} else if strings.Contains(Opt, "burst") {
		sc = genPromiseBurst(x)
	} else {
		sc = genPromise(x)
	}
	if sc.Burst {
		fine = true
	}
	out, _ := json.Marshal(sc)

	pl := []map[string]any{}
	for _, p := range sc.Proms {
		if p.R {
			d.proms = append(d.proms, promise.NewPromiseWithResult(p.V, prErr(p.E)))
		} else {
			d.proms = append(d.proms, promise.NewPromise[int]())
		}
		pl = append(pl, map[string]any{"r": p.R, "v": p.V, "e": p.E})
	}
	d.cont = promise.NewPromiseContainer[int]()
	x.Log(trace.E{"ev": "init", "proms": pl, "cur": sc.Cur})
	x.Log(trace.E{"ev": "cfg", "fine": fine})
	if sc.Cur != 0 {
		// before any client exists: not a step of the execution (hooks pass through)
		x.Policy = func(*sched.Actor, string, string, any) bool { return false }
		d.cont.SetPromise(d.proms[sc.Cur-1])
		x.Policy = nil
	}
	for i, prog := range sc.Clients {
		c := &prClient{c: x.NewClient(fmt.Sprintf("c%d", i+1)), idx: i}
		for pi, op := range prog {
			c.c.Prog = append(c.c.Prog, d.opFunc(c, pi, op))
		}
		d.cl = append(d.cl, c)
	}

	moves := func() []sched.Move {
		ms := x.GrantMoves()
		ms = append(ms, x.ClientMoves()...)
		for _, c := range d.cl {
			c := c
			if c.inflight == 0 || !c.await {
				continue
			}
			if c.op.C && !c.canc {
				ms = append(ms, sched.Move{Label: "cancel:" + c.c.Name, Do: func() { d.doCancel(c) }})
			}
			if c.op.Kind != "await" && c.op.F != "" && !c.fired {
				ms = append(ms, sched.Move{Label: "fire:" + c.c.Name, Do: func() { d.doFire(c) }})
			}
		}
		return ms
	}
	observe := func() {
		if len(x.ParkedActors()) != 0 {
			return
		}
		blk := d.blockedIDs()
		key := fmt.Sprint(blk, x.T.Seq())
		if key == d.lastQ {
			return
		}
		x.Log(trace.E{"ev": "quiet", "blk": blk, "xblk": d.blockedXIDs()})
		d.lastQ = fmt.Sprint(blk, x.T.Seq())
	}
	if sc.Burst {
		x.Policy = func(*sched.Actor, string, string, any) bool { return false }
		for _, c := range x.Clients {
			prog := c.Prog
			c.Prog = nil
			x.Issue(c, func() {
				for _, op := range prog {
					op.Do()
				}
			})
		}
		x.Labels = append(x.Labels, "burst")
		synctest.Wait()
		x.Log(trace.E{"ev": "quiet", "blk": d.blockedIDs()})
		fc := &prClient{c: x.NewClient("cF"), idx: len(d.cl)}
		d.cl = append(d.cl, fc)
		x.Issue(fc.c, d.opFunc(fc, 0, prOp{Op: "await", Kind: "await"}).Do)
		synctest.Wait()
	} else {
		x.Loop(moves, observe, 90+len(x.Sched))
	}

	// teardown: cancel every await still in flight (a spinning awaiter must see a cancelled
	// context before the hooks become pass-through, or it would spin for real), then let
	// everything run freely
	if x.LogSteps {
		x.Log(trace.E{"ev": "teardown"}) // X-level trace validation stops here
	}
	for _, c := range d.cl {
		if c.inflight != 0 && c.await && !c.canc {
			d.doCancel(c)
		}
		c.c.Prog = nil
	}
	x.Drain()
	x.Log(trace.E{"ev": "quiet", "blk": d.blockedIDs()})
	return out
}
