//go:build drv_ccontainer || drv_all

package drivers

import (
	"context"
	"encoding/json"
	"errors"
	"fmt"
	"sort"
	"sync"

	"verifharness/sched"
	"verifharness/trace"

	"github.com/aperturerobotics/util/ccontainer"
)

// ccOp is one client operation of a ccontainer scenario (see specs/ccontainer/CContainer.tla).
//
//	set v | swap d (callback x -> x+d) | swapnil (SwapValue(nil)) | get
//	swap d long: the callback stays inside the critical section (the cell's mutex is really
//	           held) until the "unhold:<client>" move
//	wait kind: value | change (old) | empty | valid (validator: x == ve -> error, x >= k -> true)
//	           | validnil (WaitValueWithValidator with a nil validator)
//	     c: the cancel move is offered; fires: what the environment may deliver on the call's
//	     error channel (err | nil | close), once each
type ccOp struct {
	Op    string   `json:"op"`
	V     int      `json:"v,omitempty"`
	D     int      `json:"d,omitempty"`
	Long  bool     `json:"long,omitempty"`
	Kind  string   `json:"kind,omitempty"`
	Old   int      `json:"old,omitempty"`
	K     int      `json:"k,omitempty"`
	Ve    *int     `json:"ve,omitempty"`
	C     bool     `json:"c,omitempty"`
	Fires []string `json:"fires,omitempty"`
}

type ccScenario struct {
	Init    int      `json:"init"`
	M       int      `json:"m"` // equality modulus; 0: NewCContainer (plain ==)
	Clients [][]ccOp `json:"clients"`
}

type ccClient struct {
	c        *sched.Client
	idx      int // client index (0-based): process idx+1 of the X spec
	waitID   int
	waitX    int // the X spec's id of the wait in flight: (idx+1)*100 + (op index+1)  (X-level trace validation)
	op       ccOp
	cancel   context.CancelFunc
	canc     bool
	errCh    chan error
	errVal   error
	fired    map[string]bool
	closed   bool
	longCh   chan struct{} // non-nil while inside a long SwapValue callback
	released bool
}

type ccDriver struct {
	x       *sched.Exec
	ctr     *ccontainer.CContainer[int]
	mu      sync.Mutex
	nextID  int
	cl      []*ccClient
	long    *ccClient // the client whose long SwapValue callback is inside the critical section
	noLong  bool      // teardown: long callbacks return at once
	lastObs int
}

func init() { Register("ccontainer", func() Driver { return &ccDriver{} }) }

func genCContainer(x *sched.Exec) ccScenario {
	r := x.Rng
	sc := ccScenario{}
	if r.Intn(2) == 0 {
		sc.M = 2 + r.Intn(2)
		if r.Intn(3) == 0 {
			sc.M = -sc.M // nil-guard comparator: false whenever an argument is the zero value
		}
	}
	sc.Init = r.Intn(3)
	n := 2 + r.Intn(4)
	fireSets := [][]string{nil, nil, {"err"}, {"nil"}, {"close"}, {"nil", "err"}, {"nil", "close"}, {"err", "close"}, {"nil", "err", "close"}}
	for i := 0; i < n; i++ {
		var prog []ccOp
		nops := 1 + r.Intn(3)
		for j := 0; j < nops; j++ {
			var op ccOp
			switch k := r.Intn(20); {
			case k < 4:
				op = ccOp{Op: "set", V: r.Intn(5)}
			case k < 9:
				op = ccOp{Op: "swap", D: 1 + r.Intn(2)}
				if r.Intn(4) == 0 && sc.M != 0 {
					op.D = sc.M // result equal under the custom equality: not stored
					if op.D < 0 {
						op.D = -op.D
					}
				}
				op.Long = r.Intn(5) < 2
			case k < 10:
				op = ccOp{Op: "swapnil"}
				if r.Intn(3) == 0 {
					op = ccOp{Op: "swappanic"}
				}
			case k < 11:
				op = ccOp{Op: "get"}
			default:
				op = ccOp{Op: "wait", C: r.Intn(2) == 0, Fires: fireSets[r.Intn(len(fireSets))]}
				switch r.Intn(6) {
				case 0:
					op.Kind = "value"
				case 1, 2:
					op.Kind, op.Old = "change", r.Intn(4)
				case 3:
					op.Kind = "empty"
				case 4:
					op.Kind, op.K = "valid", 1+r.Intn(5)
					if r.Intn(2) == 0 {
						ve := r.Intn(5)
						op.Ve = &ve
					}
				default:
					op.Kind = "validnil"
				}
			}
			prog = append(prog, op)
		}
		sc.Clients = append(sc.Clients, prog)
	}
	return sc
}

func (d *ccDriver) newID() int {
	d.mu.Lock()
	defer d.mu.Unlock()
	d.nextID++
	return d.nextID
}

func (d *ccDriver) opFunc(c *ccClient, pi int, op ccOp) sched.Op {
	x := d.x
	name := c.c.Name
	xid := (c.idx+1)*100 + pi + 1 // the X spec's id of this call
	label := "call:" + name
	ve := -1
	if op.Ve != nil {
		ve = *op.Ve
	}
	switch op.Op {
	case "set":
		return sched.Op{Label: label, Do: func() {
			id := d.newID()
			x.Log(trace.E{"ev": "call", "id": id, "xid": xid, "op": "set", "v": op.V, "actor": name})
			d.ctr.SetValue(op.V)
			x.Log(trace.E{"ev": "ret", "id": id, "xid": xid, "res": "ok", "val": -1, "actor": name})
		}}
	case "swap":
		return sched.Op{Label: label, Do: func() {
			id := d.newID()
			x.Log(trace.E{"ev": "call", "id": id, "xid": xid, "op": "swap", "d": op.D, "actor": name})
			val := d.ctr.SwapValue(func(v int) int {
				// runs under the container's lock: only compute and log
				if op.Long && !d.isNoLong() {
					// stays inside the critical section until the "unhold" move
					lc := make(chan struct{})
					d.mu.Lock()
					c.longCh, d.long = lc, c
					d.mu.Unlock()
					x.Log(trace.E{"ev": "swapin", "id": id, "xid": xid, "in": v})
					<-lc
					d.mu.Lock()
					c.longCh, d.long = nil, nil
					d.mu.Unlock()
				}
				out := v + op.D
				x.Log(trace.E{"ev": "swapcb", "id": id, "xid": xid, "in": v, "out": out})
				return out
			})
			x.Log(trace.E{"ev": "ret", "id": id, "xid": xid, "res": "ok", "val": val, "actor": name})
		}}
	case "swappanic":
		// a SwapValue whose callback panics (the application recovers): the cell keeps its value and stays
		// usable -- to the monitor nothing happened
		return sched.Op{Label: label, Do: func() {
			x.Log(trace.E{"ev": "note", "what": "swap callback panics", "actor": name})
			defer func() { _ = recover() }()
			d.ctr.SwapValue(func(v int) int { panic("harness: this SwapValue callback panics") })
		}}
	case "swapnil", "get":
		return sched.Op{Label: label, Do: func() {
			id := d.newID()
			x.Log(trace.E{"ev": "call", "id": id, "xid": xid, "op": op.Op, "actor": name})
			var val int
			if op.Op == "get" {
				val = d.ctr.GetValue()
			} else {
				val = d.ctr.SwapValue(nil)
			}
			x.Log(trace.E{"ev": "ret", "id": id, "xid": xid, "res": "ok", "val": val, "actor": name})
		}}
	case "wait":
		return sched.Op{Label: label, Do: func() {
			id := d.newID()
			ctx, cancel := context.WithCancel(context.Background())
			defer cancel()
			c.cancel, c.canc, c.op = cancel, false, op
			c.fired, c.closed = map[string]bool{}, false
			c.errVal = errors.New("error sent on errCh")
			verr := errors.New("validator error")
			var errCh <-chan error
			c.errCh = nil
			if len(op.Fires) != 0 {
				c.errCh = make(chan error, 4)
				errCh = c.errCh
			}
			x.Log(trace.E{"ev": "call", "id": id, "xid": xid, "op": "wait", "kind": op.Kind, "old": op.Old, "k": op.K, "ve": ve, "actor": name})
			c.waitID, c.waitX = id, xid
			var val int
			var err error
			hasVal := true
			switch op.Kind {
			case "value":
				val, err = d.ctr.WaitValue(ctx, errCh)
			case "change":
				val, err = d.ctr.WaitValueChange(ctx, op.Old, errCh)
			case "empty":
				err = d.ctr.WaitValueEmpty(ctx, errCh)
				hasVal = false
			case "valid":
				val, err = d.ctr.WaitValueWithValidator(ctx, func(v int) (bool, error) {
					// runs on the waiter's goroutine outside the lock: only compute and log
					res := "f"
					var ok bool
					var e error
					switch {
					case v == ve:
						res, e = "e", verr
					case v >= op.K:
						res, ok = "t", true
					}
					x.Log(trace.E{"ev": "valid", "id": id, "xid": xid, "v": v, "res": res})
					return ok, e
				}, errCh)
			case "validnil":
				val, err = d.ctr.WaitValueWithValidator(ctx, nil, errCh)
			default:
				panic("bad wait kind " + op.Kind)
			}
			c.waitID, c.waitX = 0, 0
			res := ""
			switch {
			case err == nil:
				res = "ok"
				if !hasVal {
					val = -1
				}
			case err == context.Canceled:
				res, val = "canceled", -1
			case err == c.errVal:
				res, val = "errch", -1
			case err == verr:
				res, val = "verr", -1
			default:
				res, val = "other:"+err.Error(), -1
			}
			x.Log(trace.E{"ev": "ret", "id": id, "xid": xid, "res": res, "val": val, "actor": name})
		}}
	}
	panic("bad op " + op.Op)
}

func (d *ccDriver) isNoLong() bool {
	d.mu.Lock()
	defer d.mu.Unlock()
	return d.noLong
}

// held: a long SwapValue callback is inside the critical section (the cell's mutex is held).
func (d *ccDriver) held() bool {
	d.mu.Lock()
	defer d.mu.Unlock()
	return d.long != nil
}

// probe reads the cell from the controller at a quiescent point (an ordinary GetValue call for
// the monitor, actor "ctl"): it tells the monitor what the cell holds where the statement leaves
// it open (a stored value equal under the custom equality, the order in which concurrent calls
// took effect), so that "blocked while the content satisfies the condition" is judged on the real
// content. Not possible while a long callback holds the mutex or a non-wait call is in flight.
func (d *ccDriver) probe() {
	if d.held() {
		return
	}
	for _, c := range d.cl {
		if c.c.Busy() && c.waitID == 0 {
			return
		}
	}
	id := d.newID()
	d.x.Log(trace.E{"ev": "call", "id": id, "xid": 0, "op": "get", "actor": "ctl"})
	d.x.Log(trace.E{"ev": "ret", "id": id, "xid": 0, "res": "ok", "val": d.ctr.GetValue(), "actor": "ctl"})
}

func (d *ccDriver) blockedIDs() []int {
	out := []int{}
	for _, c := range d.cl {
		if c.waitID != 0 && d.x.Blocked(c.c) {
			out = append(out, c.waitID)
		}
	}
	sort.Ints(out)
	return out
}

// blockedXIDs is blockedIDs in the X spec's ids.
func (d *ccDriver) blockedXIDs() []int {
	out := []int{}
	for _, c := range d.cl {
		if c.waitID != 0 && d.x.Blocked(c.c) {
			out = append(out, c.waitX)
		}
	}
	sort.Ints(out)
	return out
}

func (d *ccDriver) Run(x *sched.Exec, raw json.RawMessage) json.RawMessage {
	d.x = x
	// CContainerP judges GetValue / SetValue / SwapValue by call/return order and by the swapcb event
	// logged inside the critical section (linearizability over all placements of the instants of
	// effect), waiters by monotone facts: finer park points and combined steps are sound
	// (see sched.Exec.Double / ParkUnl and W2 in specs/ccontainer/CContainerP.tla)
	x.OptDouble, x.OptParkUnl = true, true
	var sc ccScenario
	if raw != nil {
		if err := json.Unmarshal(raw, &sc); err != nil {
			panic(err)
		}
	} else {
		sc = genCContainer(x)
	}
	out, _ := json.Marshal(sc)
	if sc.M > 0 {
		m := sc.M
		d.ctr = ccontainer.NewCContainerWithEqual(sc.Init, func(a, b int) bool { return a%m == b%m })
	} else if sc.M < 0 {
		m := -sc.M
		d.ctr = ccontainer.NewCContainerWithEqual(sc.Init, func(a, b int) bool { return a != 0 && b != 0 && a%m == b%m })
	} else {
		d.ctr = ccontainer.NewCContainer(sc.Init)
	}
	x.Log(trace.E{"ev": "init", "val": sc.Init, "m": sc.M})
	for i, prog := range sc.Clients {
		c := &ccClient{c: x.NewClient(fmt.Sprintf("c%d", i+1)), idx: i}
		for pi, op := range prog {
			c.c.Prog = append(c.c.Prog, d.opFunc(c, pi, op))
		}
		d.cl = append(d.cl, c)
	}

	// While a long callback is inside the critical section the mutex is really held: an actor
	// released into a blocking Lock would wait on a sync.Mutex, which synctest does not regard as
	// durably blocked. Only TryLock sites (the attempt fails), goroutine starts and end-of-section
	// parks may be granted then.
	grants := func() []sched.Move {
		held := d.held()
		var ms []sched.Move
		for _, a := range x.ParkedActors() {
			a := a
			if held {
				p := a.Parked()
				if p == nil || p.Kind == "lock" { // (TryLock sites park with Kind "trylock")
					continue
				}
			}
			ms = append(ms, sched.Move{Label: "grant:" + a.Name, Actor: a.Name, Do: func() { x.Grant(a) }})
		}
		return ms
	}
	envMoves := func(calls bool) []sched.Move {
		var ms []sched.Move
		for _, c := range d.cl {
			c := c
			d.mu.Lock()
			lc := c.longCh
			d.mu.Unlock()
			if lc != nil && !c.released {
				ms = append(ms, sched.Move{Label: "unhold:" + c.c.Name, Do: func() {
					c.released = true
					close(lc)
				}})
			}
			if c.waitID == 0 || !calls {
				continue
			}
			if c.op.C && !c.canc {
				ms = append(ms, sched.Move{Label: "cancel:" + c.c.Name, Do: func() {
					c.canc = true
					x.Log(trace.E{"ev": "cancel", "id": c.waitID, "xid": c.waitX})
					c.cancel()
				}})
			}
			if c.errCh == nil || c.closed {
				continue
			}
			for _, what := range c.op.Fires {
				what := what
				if c.fired[what] {
					continue
				}
				ms = append(ms, sched.Move{Label: "fire:" + c.c.Name + ":" + what, Do: func() {
					c.fired[what] = true
					x.Log(trace.E{"ev": "fire", "id": c.waitID, "xid": c.waitX, "what": what})
					switch what {
					case "err":
						c.errCh <- c.errVal
					case "nil":
						c.errCh <- nil
					case "close":
						c.closed = true
						close(c.errCh)
					}
				}})
			}
		}
		return ms
	}
	moves := func() []sched.Move {
		ms := grants()
		ms = append(ms, x.ClientMoves()...)
		return append(ms, envMoves(true)...)
	}
	observe := func() {
		for _, c := range d.cl {
			if c.longCh == nil {
				c.released = false
			}
		}
		// library-quiescent (nothing parked at a hook): report who is blocked, once per change
		if len(x.ParkedActors()) == 0 && x.T.Events() != d.lastObs {
			if !x.LogSteps {
				d.probe()
			}
			x.Log(trace.E{"ev": "quiet", "blk": d.blockedIDs(), "xblk": d.blockedXIDs()})
		}
		d.lastObs = x.T.Events()
	}
	x.Loop(moves, observe, 90)

	if x.LogSteps {
		// X-level trace validation ends here: the cancellations of the teardown are not controller steps
		x.Log(trace.E{"ev": "teardown"})
	}
	// teardown, still one critical section per step: no new calls, leave long callbacks, cancel
	// every waiter in flight, grant until nothing is parked; then read the final value
	for _, c := range d.cl {
		c.c.Prog = nil
	}
	for round := 0; round < 3; round++ {
		x.Loop(func() []sched.Move { return append(grants(), envMoves(false)...) }, observe, x.Steps+200)
		for _, c := range d.cl {
			if c.waitID != 0 && !c.canc {
				c.canc = true
				x.Log(trace.E{"ev": "cancel", "id": c.waitID, "xid": c.waitX})
				c.cancel()
			}
		}
	}
	d.mu.Lock()
	d.noLong = true
	d.mu.Unlock()
	x.Drain()
	for _, c := range d.cl {
		// (a long callback entered during the teardown itself)
		d.mu.Lock()
		lc := c.longCh
		d.mu.Unlock()
		if lc != nil && !c.released {
			c.released = true
			close(lc)
			x.Drain()
		}
	}
	idle := true
	for _, c := range d.cl {
		if c.c.Busy() {
			idle = false
		}
	}
	if idle {
		id := d.newID()
		x.Log(trace.E{"ev": "call", "id": id, "xid": 0, "op": "get", "actor": "ctl"})
		x.Log(trace.E{"ev": "ret", "id": id, "xid": 0, "res": "ok", "val": d.ctr.GetValue(), "actor": "ctl"})
	}
	return out
}
