//go:build drv_cqueue || drv_all

package drivers

import (
	"encoding/json"
	"fmt"
	"runtime"
	"sort"
	"strconv"
	"strings"
	"sync"
	"sync/atomic"

	"verifharness/sched"
	"verifharness/trace"

	"github.com/aperturerobotics/util/cqueue"
	"github.com/aperturerobotics/util/linkedlist"
	"github.com/aperturerobotics/util/verifhook"
)

// Driver for C12: cqueue.AtomicLIFO (kind "lifo") and linkedlist.LinkedList (kind "deque").
//
// The recorded history is call(id,op,arg) / ret(id,op,res,ok) stamped by the trace writer's
// global sequence (call logged before the library call, ret after it returned), judged by the
// linearizability monitors LifoP / DequeP.
//
// mode "m1": controlled execution. Clients run programs of operations; on the LIFO the
// verifhook.Atomic park point between the top load and the CAS makes "CAS of client c" a
// schedulable step (move labels call:cN / grant:cN), so every CAS-failure pattern can be forced.
// The LinkedList has no hooks (every method is one RWMutex critical section): a call completes
// within its step and m1 yields sequential histories in every order of the client programs.
//
// mode "par": free-running history. 3-4 goroutines execute their programs concurrently inside
// the bubble; `procs` > 1 raises GOMAXPROCS for the execution so that the operations really run
// in parallel (such executions are not reproducible step by step). Call and return are stamped
// from one atomic counter (stamp before the call, stamp after it returned) and the events are
// written in stamp order once all goroutines are done, so that nothing but the counter sits
// between two library calls. yseed != 0 adds seeded runtime.Gosched() perturbation around the
// stamps and (LIFO) at the hook between load and CAS; yseed == 0 runs tight.
//
// A panic inside a library call is recorded as a "panic" event (no sequential history contains
// a panicking operation).
//
// Values pushed are pairwise distinct and >= 1; 0 is the zero value (Pop on an empty LIFO).
// Every execution ends, once every call has returned, with sequential Pops by the controller
// until the structure reports empty, then a "drained" event (conservation).
//
// Opt (comma separated, only used when the scenario is generated): kind=lifo|deque, par, procs=N.

type cqOp struct {
	Op string `json:"op"` // lifo: push pop; deque: push pushfront pop peek peektail isempty reset
	V  int    `json:"v"`
}

type cqScenario struct {
	Kind    string   `json:"kind"` // lifo | deque
	Mode    string   `json:"mode"` // m1 | par
	Init    []int    `json:"init"` // values pushed (in this order) by the controller before the clients start
	Clients [][]cqOp `json:"clients"`
	Procs   int      `json:"procs"` // par: GOMAXPROCS during the execution (0/1 = leave at 1)
	YSeed   int64    `json:"yseed"` // par: seed of the yield pattern
}

// cqObj is the structure under test.
type cqObj interface {
	do(op cqOp) (res int, ok bool)
	popEmpty() (res int, ok bool, empty bool)
}

type cqLifo struct{ q cqueue.AtomicLIFO[int] }

func (l *cqLifo) do(op cqOp) (int, bool) {
	switch op.Op {
	case "push":
		l.q.Push(op.V)
		return 0, true
	case "pop":
		return l.q.Pop(), true
	}
	panic("cqueue: bad lifo op " + op.Op)
}

func (l *cqLifo) popEmpty() (int, bool, bool) {
	v := l.q.Pop()
	return v, true, v == 0
}

type cqDeque struct{ q *linkedlist.LinkedList[int] }

func b2i(b bool) int {
	if b {
		return 1
	}
	return 0
}

func (l *cqDeque) do(op cqOp) (int, bool) {
	switch op.Op {
	case "push":
		l.q.Push(op.V)
		return 0, true
	case "pushfront":
		l.q.PushFront(op.V)
		return 0, true
	case "pop":
		return l.q.Pop()
	case "peek":
		return l.q.Peek()
	case "peektail":
		return l.q.PeekTail()
	case "isempty":
		return b2i(l.q.IsEmpty()), true
	case "reset":
		l.q.Reset()
		return 0, true
	}
	panic("cqueue: bad deque op " + op.Op)
}

func (l *cqDeque) popEmpty() (int, bool, bool) {
	v, ok := l.q.Pop()
	return v, ok, !ok
}

type cqDriver struct {
	x   *sched.Exec
	obj cqObj
}

func init() { Register("cqueue", func() Driver { return &cqDriver{} }) }

func cqOpts() (kind string, par bool, procs int) {
	for _, f := range strings.Split(Opt, ",") {
		f = strings.TrimSpace(f)
		switch {
		case strings.HasPrefix(f, "kind="):
			kind = f[5:]
		case f == "par":
			par = true
		case strings.HasPrefix(f, "procs="):
			procs, _ = strconv.Atoi(f[6:])
		}
	}
	return
}

func genCqueue(x *sched.Exec) cqScenario {
	r := x.Rng
	kind, par, procs := cqOpts()
	if kind == "" {
		kind = "lifo"
		if r.Intn(5) < 2 {
			kind = "deque"
		}
	}
	sc := cqScenario{Kind: kind, Mode: "m1", Init: []int{}}
	next := 1
	val := func() int { next++; return next - 1 }
	for n := r.Intn(3); n > 0; n-- {
		sc.Init = append(sc.Init, val())
	}
	nc, maxOps := 2+r.Intn(3), 4
	if par {
		// three flavours: one P + seeded yields (interleaving by Gosched only, independent of the
		// machine's load, reproducible); several Ps tight (real parallelism); several Ps + yields
		sc.Mode = "par"
		sc.Procs = procs
		switch r.Intn(10) {
		case 0, 1, 2, 3:
			sc.Procs = 1
			sc.YSeed = 1 + r.Int63n(1<<40)
		case 4, 5, 6:
			// yseed 0: no perturbation
		default:
			sc.YSeed = 1 + r.Int63n(1<<40)
		}
		nc, maxOps = 3+r.Intn(2), 6
	} else if kind == "deque" {
		// sequential histories: fewer, longer programs
		nc, maxOps = 1+r.Intn(3), 8
	}
	pushBias := 3 + r.Intn(5) // out of 10
	// The monitors track every sequential state consistent with the history; concurrent pushes
	// whose order no Pop has observed yet multiply that set (k overlapping pushes: up to k! orders).
	// Concurrent histories therefore contain at most maxPush pushes (the init pushes are sequential).
	maxPush := 6
	if kind == "deque" && !par {
		maxPush = 1 << 30 // sequential histories: one configuration
	}
	npush := 0
	mayPush := func() bool {
		if npush >= maxPush {
			return false
		}
		npush++
		return true
	}
	for i := 0; i < nc; i++ {
		var prog []cqOp
		for n := 1 + r.Intn(maxOps); n > 0; n-- {
			if kind == "lifo" {
				if r.Intn(10) < pushBias && mayPush() {
					prog = append(prog, cqOp{Op: "push", V: val()})
				} else {
					prog = append(prog, cqOp{Op: "pop"})
				}
				continue
			}
			k := r.Intn(26)
			if k < 10 && !mayPush() {
				k = 10 + r.Intn(16)
			}
			switch {
			case k < 6:
				prog = append(prog, cqOp{Op: "push", V: val()})
			case k < 10:
				prog = append(prog, cqOp{Op: "pushfront", V: val()})
			case k < 17:
				prog = append(prog, cqOp{Op: "pop"})
			case k < 19:
				prog = append(prog, cqOp{Op: "peek"})
			case k < 23:
				prog = append(prog, cqOp{Op: "peektail"})
			case k < 25:
				prog = append(prog, cqOp{Op: "isempty"})
			default:
				prog = append(prog, cqOp{Op: "reset"})
			}
		}
		sc.Clients = append(sc.Clients, prog)
	}
	return sc
}

// safeDo runs one library call; a panic inside it is caught and reported.
func (d *cqDriver) safeDo(op cqOp) (res int, ok bool, panicked bool) {
	defer func() {
		if r := recover(); r != nil {
			panicked = true
		}
	}()
	res, ok = d.obj.do(op)
	return
}

func cqArg(op cqOp) int {
	if op.Op == "push" || op.Op == "pushfront" {
		return op.V
	}
	return 0
}

// call performs one operation with its history stamps (controlled mode).
func (d *cqDriver) call(id int, op cqOp, actor string) {
	d.x.Log(trace.E{"ev": "call", "id": id, "op": op.Op, "arg": cqArg(op), "actor": actor})
	res, ok, pk := d.safeDo(op)
	if pk {
		d.x.Log(trace.E{"ev": "panic", "id": id, "op": op.Op, "actor": actor})
		d.x.T.Flush() // a lock may have been left held: whatever follows may hang
		return
	}
	d.x.Log(trace.E{"ev": "ret", "id": id, "op": op.Op, "res": res, "ok": ok, "actor": actor})
}

func cqMix(z uint64) uint64 {
	z += 0x9e3779b97f4a7c15
	z = (z ^ (z >> 30)) * 0xbf58476d1ce4e5b9
	z = (z ^ (z >> 27)) * 0x94d049bb133111eb
	return z ^ (z >> 31)
}

func (d *cqDriver) Run(x *sched.Exec, raw json.RawMessage) json.RawMessage {
	d.x = x
	var sc cqScenario
	if raw != nil {
		if err := json.Unmarshal(raw, &sc); err != nil {
			panic(err)
		}
	} else {
		sc = genCqueue(x)
	}
	if sc.Mode == "" {
		sc.Mode = "m1"
	}
	if sc.Init == nil {
		sc.Init = []int{}
	}
	out, _ := json.Marshal(sc)
	switch sc.Kind {
	case "lifo":
		d.obj = &cqLifo{}
	case "deque":
		d.obj = &cqDeque{q: &linkedlist.LinkedList[int]{}}
	default:
		panic("cqueue: bad kind " + sc.Kind)
	}
	// reject malformed scenarios here, so that a panic caught around a library call is the library's
	okOps := map[string]bool{"push": true, "pop": true}
	if sc.Kind == "deque" {
		okOps = map[string]bool{"push": true, "pushfront": true, "pop": true, "peek": true, "peektail": true, "isempty": true, "reset": true}
	}
	for _, p := range sc.Clients {
		for _, op := range p {
			if !okOps[op.Op] {
				panic("cqueue: bad op " + op.Op + " for kind " + sc.Kind)
			}
		}
	}
	x.Log(trace.E{"ev": "start", "kind": sc.Kind, "mode": sc.Mode})

	// Only client goroutines park (at the load/CAS hook); the controller's own calls pass through.
	names := map[string]bool{}
	x.Policy = func(a *sched.Actor, kind, site string, obj any) bool {
		return kind == "atomic" && names[a.Name]
	}
	npush := 0
	for k, v := range sc.Init {
		op := cqOp{Op: "push", V: v}
		d.call(k+1, op, "ctl")
		npush++
	}
	for _, p := range sc.Clients {
		for _, op := range p {
			if op.Op == "push" || op.Op == "pushfront" {
				npush++
			}
		}
	}

	complete := true
	if sc.Mode == "par" {
		complete = d.runPar(sc)
	} else {
		var cl []*sched.Client
		for i, prog := range sc.Clients {
			name := fmt.Sprintf("c%d", i+1)
			names[name] = true
			c := x.NewClient(name)
			for j, op := range prog {
				id, op := (i+1)*100+j+1, op
				c.Prog = append(c.Prog, sched.Op{Label: "call:" + name, Do: func() { d.call(id, op, name) }})
			}
			cl = append(cl, c)
		}
		x.Loop(func() []sched.Move { return append(x.GrantMoves(), x.ClientMoves()...) }, nil, 400)
		for _, c := range cl {
			c.Prog = nil
		}
		x.Drain()
		for _, c := range cl {
			if c.Busy() {
				complete = false
			}
		}
	}

	// final drain: sequential Pops until the structure says it is empty
	empty := false
	if complete {
		for k := 0; k < npush+2 && !empty; k++ {
			id := 9001 + k
			x.Log(trace.E{"ev": "call", "id": id, "op": "pop", "arg": 0, "actor": "ctl"})
			res, ok, e := d.obj.popEmpty()
			x.Log(trace.E{"ev": "ret", "id": id, "op": "pop", "res": res, "ok": ok, "actor": "ctl"})
			empty = e
		}
	}
	x.Log(trace.E{"ev": "drained", "complete": complete, "empty": empty})
	return out
}

// cqRec is one operation of a free-running history.
type cqRec struct {
	c, r   int64 // call / return stamps
	id     int
	op     cqOp
	res    int
	ok, pk bool
	actor  string
}

// runPar executes the client programs on free-running goroutines.
func (d *cqDriver) runPar(sc cqScenario) bool {
	var ctr, attempts atomic.Uint64
	yield := func() {
		if sc.YSeed != 0 && cqMix(uint64(sc.YSeed)+ctr.Add(1))%3 == 0 {
			runtime.Gosched()
		}
	}
	// the load/CAS hook only perturbs (and counts CAS attempts) in this mode
	verifhook.Set(&verifhook.Handlers{Atomic: func(kind string, obj any) { attempts.Add(1); yield() }})
	defer sched.Install()
	if sc.Procs > 1 {
		defer runtime.GOMAXPROCS(runtime.GOMAXPROCS(sc.Procs))
	}
	var wg sync.WaitGroup
	var ready atomic.Int32
	var stamp atomic.Int64
	var panicked atomic.Bool
	n := int32(len(sc.Clients))
	recs := make([][]cqRec, len(sc.Clients))
	for i, prog := range sc.Clients {
		i, prog := i, prog
		recs[i] = make([]cqRec, 0, len(prog))
		wg.Add(1)
		go func() {
			defer wg.Done()
			name := fmt.Sprintf("g%d", i+1)
			ready.Add(1)
			// start together. With a P per goroutine spin in place for a while: the barrier then
			// opens when all of them are on a processor at the same time (the idle Ps steal the
			// others); on an overloaded machine fall back to yielding.
			for k := 0; ready.Load() < n; k++ {
				if int32(sc.Procs) < n || k > 100_000 {
					runtime.Gosched()
				}
			}
			for j, op := range prog {
				rc := cqRec{id: (i+1)*100 + j + 1, op: op, actor: name}
				yield()
				rc.c = stamp.Add(1)
				yield()
				rc.res, rc.ok, rc.pk = d.safeDo(op)
				rc.r = stamp.Add(1)
				if rc.pk {
					// report at once: a lock may have been left held and the run may never end
					panicked.Store(true)
					d.x.Log(trace.E{"ev": "panic", "id": rc.id, "op": op.Op, "actor": name})
					d.x.T.Flush()
				}
				recs[i] = append(recs[i], rc)
				yield()
			}
		}()
	}
	wg.Wait()
	// write the history in stamp order
	type ev struct {
		at  int64
		ret bool
		rc  *cqRec
	}
	var evs []ev
	nops := 0
	for i := range recs {
		for k := range recs[i] {
			rc := &recs[i][k]
			evs = append(evs, ev{rc.c, false, rc})
			if !rc.pk {
				evs = append(evs, ev{rc.r, true, rc})
			}
			nops++
		}
	}
	sort.Slice(evs, func(a, b int) bool { return evs[a].at < evs[b].at })
	for _, e := range evs {
		rc := e.rc
		if !e.ret {
			d.x.Log(trace.E{"ev": "call", "id": rc.id, "op": rc.op.Op, "arg": cqArg(rc.op), "actor": rc.actor})
		} else {
			d.x.Log(trace.E{"ev": "ret", "id": rc.id, "op": rc.op.Op, "res": rc.res, "ok": rc.ok, "actor": rc.actor})
		}
	}
	if sc.Kind == "lifo" {
		// every Push and every Pop that saw a non-empty stack passes the hook once per CAS attempt
		succ := 0
		for i := range recs {
			for _, rc := range recs[i] {
				if rc.op.Op == "push" || rc.res != 0 {
					succ++
				}
			}
		}
		d.x.Log(trace.E{"ev": "note", "cas_failed": int(attempts.Load()) - succ, "ops": nops})
	}
	return !panicked.Load()
}
