//go:build drv_ccall || drv_all

package drivers

import (
	"context"
	"encoding/json"
	"errors"
	"fmt"
	"strconv"
	"strings"
	"sync"
	"testing/synctest"
	"time"

	"verifharness/sched"
	"verifharness/trace"

	"github.com/aperturerobotics/util/ccall"
)

// ccFn is one entry of the argument list of CallConcurrently.
//
//	isnil : a nil entry
//	out   : scripted outcome of the function: nil | E1 | E2 | canceled | wait
//	        (wait: block until the context is done, then return ctx.Err())
type ccFn struct {
	IsNil bool   `json:"isnil"`
	Out   string `json:"out"`
}

// ccScenario is one call of CallConcurrently; cancel: the environment may cancel the caller's context.
//
// xk is set by the X-level trace validation only (fam_ccall.x_conformance): the 1-based index of this
// scenario in the Scens constant of the X spec; it is logged (event "scen") so that CCallXTrace.tla
// knows which Choose(k) the run corresponds to.
type ccScenario struct {
	Fns    []ccFn `json:"fns"`
	Cancel bool   `json:"cancel"`
	// deadline: the caller's context ends by its deadline (virtual time) instead of its cancel func:
	// ctx.Err() is then context.DeadlineExceeded, an error no function returns
	Deadline bool `json:"deadline,omitempty"`
	XK       int  `json:"xk,omitempty"`
}

var (
	ccE1 = fmt.Errorf("E1: %w", context.Canceled) // (wraps the sentinel: still "an error other than context.Canceled")
	ccE2 = errors.New("E2")
)

type ccFnState struct {
	ctx     context.Context
	actor   string
	waiting bool
}

type ccDriver struct {
	reuse bool  // the second call (same argument slice) is running: functions only count
	cnt   []int // ... invocations per argument position
	x     *sched.Exec
	sc    ccScenario
	c     *sched.Client
	mu    sync.Mutex

	cancel     context.CancelFunc
	canc       bool
	inflight   bool
	returned   bool
	callerInFn int
	unlSeen    bool
	fn         []*ccFnState
	actorFn    map[string]int // worker actor name -> function index (1-based) it ran last
	abort      chan struct{}
	lastQ      string
}

func init() { Register("ccall", func() Driver { return &ccDriver{} }) }

func genCcall(x *sched.Exec) ccScenario {
	r := x.Rng
	var sc ccScenario
	n := 0
	switch k := r.Intn(20); {
	case k < 1:
		n = 0
	case k < 5:
		n = 1
	case k < 12:
		n = 2
	default:
		n = 3
	}
	for i := 0; i < n; i++ {
		f := ccFn{}
		switch k := r.Intn(20); {
		case k < 3:
			f.IsNil = true
		case k < 9:
			f.Out = "nil"
		case k < 13:
			f.Out = "E1"
		case k < 15:
			f.Out = "E2"
		case k < 17:
			f.Out = "canceled"
		default:
			f.Out = "wait"
		}
		sc.Fns = append(sc.Fns, f)
	}
	sc.Cancel = r.Intn(2) == 0
	sc.Deadline = sc.Cancel && r.Intn(3) == 0
	return sc
}

func ccErrName(err error) string {
	switch err {
	case nil:
		return "nil"
	case ccE1:
		return "E1"
	case ccE2:
		return "E2"
	case context.Canceled:
		return "canceled"
	}
	return "other:" + err.Error()
}

func ccErrOf(out string) error {
	switch out {
	case "E1":
		return ccE1
	case "E2":
		return ccE2
	case "canceled":
		return context.Canceled
	}
	return nil
}

// mkFn builds harness-owned function i (1-based). The goroutine that invokes it parks before
// anything observable happens ("entry": stands for the start of the goroutine, the library's own
// go-hook is switched off because it cannot tell which function the goroutine will run), logs
// enter, parks again ("body") until the controller lets it return its scripted outcome.
func (d *ccDriver) mkFn(i int, spec ccFn) ccall.CallConcurrentlyFunc {
	x := d.x
	fs := d.fn[i-1]
	return func(ctx context.Context) error {
		if d.reuse {
			// second, free-running call with the caller's very same argument slice (see Run)
			d.mu.Lock()
			d.cnt[i-1]++
			d.mu.Unlock()
			return nil
		}
		self := x.Self()
		onCaller := self == d.c.Actor()
		d.mu.Lock()
		fs.ctx = ctx
		fs.actor = self.Name
		d.actorFn[self.Name] = i
		if onCaller {
			d.callerInFn++
		}
		d.mu.Unlock()
		defer func() {
			if onCaller {
				d.mu.Lock()
				d.callerInFn--
				d.mu.Unlock()
			}
		}()
		x.ParkUser("entry:"+strconv.Itoa(i), nil)
		x.Log(trace.E{"ev": "enter", "f": i, "ctxdone": ctx.Err() != nil})
		out := spec.Out
		if spec.Out == "wait" {
			d.mu.Lock()
			fs.waiting = true
			d.mu.Unlock()
			select {
			case <-ctx.Done():
			case <-d.abort:
			}
			d.mu.Lock()
			fs.waiting = false
			d.mu.Unlock()
			out = "canceled"
		} else {
			x.ParkUser("body:"+strconv.Itoa(i), nil)
		}
		x.Log(trace.E{"ev": "leave", "f": i, "out": out, "ctxdone": ctx.Err() != nil})
		return ccErrOf(out)
	}
}

func (d *ccDriver) Run(x *sched.Exec, raw json.RawMessage) json.RawMessage {
	d.x = x
	if raw != nil {
		if err := json.Unmarshal(raw, &d.sc); err != nil {
			panic(err)
		}
	} else {
		d.sc = genCcall(x)
	}
	if d.sc.Fns == nil {
		d.sc.Fns = []ccFn{}
	}
	used, _ := json.Marshal(d.sc)
	if x.LogSteps {
		x.Log(trace.E{"ev": "scen", "k": d.sc.XK})
	}
	d.actorFn = map[string]int{}
	d.abort = make(chan struct{})
	d.c = x.NewClient("c1")
	caller := d.c.Actor()

	// The caller parks before each of its critical sections and once more right after the start
	// section released the lock (the unlocked read of `running`). Worker goroutines park before
	// their critical section; their start is represented by the entry park of the function.
	x.Policy = func(a *sched.Actor, kind, site string, obj any) bool {
		switch kind {
		case "go":
			return false
		case "unlocked":
			if a == caller && !d.unlSeen {
				d.unlSeen = true
				return true
			}
			return false
		}
		return true
	}

	kinds := []string{}
	var fns []ccall.CallConcurrentlyFunc
	for i, f := range d.sc.Fns {
		d.fn = append(d.fn, &ccFnState{})
		if f.IsNil {
			kinds = append(kinds, "nil")
			fns = append(fns, nil)
			continue
		}
		kinds = append(kinds, "fn")
		fns = append(fns, d.mkFn(i+1, f))
	}
	ctx, cancel := context.WithCancel(context.Background())
	if d.sc.Deadline {
		ctx, cancel = context.WithDeadline(context.Background(), time.Now().Add(time.Hour))
	}
	d.cancel = cancel
	d.c.Prog = []sched.Op{{Label: "call:c1", Do: func() {
		x.Log(trace.E{"ev": "call", "kinds": kinds})
		d.mu.Lock()
		d.inflight = true
		d.mu.Unlock()
		var err error
		panicked := true
		func() {
			defer func() {
				if panicked {
					x.Log(trace.E{"ev": "panic", "msg": fmt.Sprint(recover())})
				}
			}()
			err = ccall.CallConcurrently(ctx, fns...)
			panicked = false
		}()
		if !panicked {
			x.Log(trace.E{"ev": "ret", "res": ccErrName(err)})
		}
		d.mu.Lock()
		d.inflight = false
		d.returned = !panicked
		d.mu.Unlock()
	}}}

	doCancel := func() {
		d.canc = true
		x.Log(trace.E{"ev": "cancel"})
		if d.sc.Deadline {
			x.Tick(2 * time.Hour)
		} else {
			d.cancel()
		}
	}
	flying := func() bool {
		d.mu.Lock()
		defer d.mu.Unlock()
		return d.inflight
	}
	blocked := func() bool {
		d.mu.Lock()
		in := d.inflight && d.callerInFn == 0
		d.mu.Unlock()
		return in && x.Blocked(d.c)
	}

	moves := func() []sched.Move {
		var ms []sched.Move
		for _, a := range x.ParkedActors() {
			a := a
			label := "grant:" + a.Name
			if a != caller {
				d.mu.Lock()
				label = fmt.Sprintf("wcs:f%d", d.actorFn[a.Name])
				d.mu.Unlock()
			}
			ms = append(ms, sched.Move{Label: label, Actor: a.Name, Do: func() { x.Grant(a) }})
		}
		ms = append(ms, x.ClientMoves()...)
		for _, p := range x.UserParks() {
			p := p
			label := ""
			if s, ok := strings.CutPrefix(p.Site, "entry:"); ok {
				label = "enter:f" + s
			} else if s, ok := strings.CutPrefix(p.Site, "body:"); ok {
				label = "fin:f" + s
			} else {
				continue
			}
			ms = append(ms, sched.Move{Label: label, Actor: p.Actor().Name, Do: func() { x.Resume(p, true) }})
		}
		if d.sc.Cancel && !d.canc && flying() {
			ms = append(ms, sched.Move{Label: "cancel", Do: doCancel})
		}
		return ms
	}
	observe := func() {
		if len(x.ParkedActors()) != 0 || !flying() {
			return
		}
		b := blocked()
		key := fmt.Sprint(b, x.T.Seq())
		if key == d.lastQ {
			return
		}
		x.Log(trace.E{"ev": "quiet", "blocked": b})
		d.lastQ = fmt.Sprint(b, x.T.Seq())
	}
	const maxSteps = 60
	x.Loop(moves, observe, maxSteps)

	// teardown: everything runs freely from here on
	if x.LogSteps {
		// exhausted: the loop ended because no move was left (not because of the step bound)
		x.Log(trace.E{"ev": "teardown", "exhausted": x.Steps < maxSteps})
	}
	x.Drain()
	for i := 0; i < 20; i++ {
		ps := x.UserParks()
		if len(ps) == 0 {
			break
		}
		for _, p := range ps {
			x.Resume(p, true)
		}
		synctest.Wait()
	}
	if flying() && !d.canc {
		// the call waits for functions that wait for their context
		doCancel()
		synctest.Wait()
		for _, p := range x.UserParks() {
			x.Resume(p, true)
		}
		synctest.Wait()
	}
	if flying() && blocked() {
		x.Log(trace.E{"ev": "quiet", "blocked": true})
	}
	d.mu.Lock()
	ret := d.returned
	for i, fs := range d.fn {
		if fs.ctx != nil && ret {
			// the call has returned: the context that was given to this function must be cancelled
			// (whether the function is still running or not)
			x.Log(trace.E{"ev": "ctxobs", "f": i + 1, "done": fs.ctx.Err() != nil})
		}
	}
	d.mu.Unlock()
	close(d.abort)
	synctest.Wait()
	if !flying() {
		x.Log(trace.E{"ev": "final"})
		if ret && !x.LogSteps {
			// The caller's slice is the caller's: a second call with the very same slice must again run
			// every non-nil function exactly once (a call that compacts nil entries in place would not).
			d.reuse, d.cnt = true, make([]int, len(fns))
			var err2 error
			x.Safe("c1", func() { err2 = ccall.CallConcurrently(context.Background(), fns...) })
			synctest.Wait()
			d.mu.Lock()
			cnt := append([]int{}, d.cnt...)
			d.mu.Unlock()
			x.Log(trace.E{"ev": "reuse", "counts": cnt, "res": ccErrName(err2)})
		}
	}
	return used
}
