//go:build drv_refcount || drv_all

package drivers

import (
	"context"
	"encoding/json"
	"fmt"
	"sort"
	"strings"
	"sync"

	"verifharness/sched"
	"verifharness/trace"

	"github.com/aperturerobotics/util/broadcast"
	"github.com/aperturerobotics/util/ccontainer"
	"github.com/aperturerobotics/util/refcount"
)

// Driver for refcount.RefCount (C08, C09, C10).
//
// Values are ints: resolver call n returns the value n (0 is the empty value) or the error e<n>;
// scenario fields make one call return the zero value (`zerocall`) or a value EQUAL to the one of
// the previous value-returning call (`samecall`: a resolver handing out a singleton). The `leave`
// event tells the monitor the raw value of the call (`raw`); every value the library hands out
// (callbacks, Wait/Resolve returns, Access callback argument, target container) is logged RAW,
// as observed: which generation(s) a raw value can stand for is decided by the monitor (RefCountP),
// never guessed here.
// The resolver, the release funcs, the reference callbacks, the released callbacks and the Access
// callbacks are owned by the harness:
//
//   - resolver: logs `enter`, parks for an outcome (val | valnr | err | errrel: value or error, with
//     or without a release func); it can be resumed long after it was superseded.
//   - release func n: runs under RefCount.mtx: only logs `rel{n,tgt}` with tgt = target.GetValue().
//   - reference callbacks: run under RefCount.mtx: only log `cb{ref,res,val,err}`; a callback of
//     kind "rel" additionally calls the released handle of the first result it is given (the
//     under-mutex path of released(): TryLock fails, a goroutine is spawned).
//   - released handles are kept per resolver call; the move `released:<n>` calls handle n from a
//     helper client (outside path: TryLock succeeds).
//   - Access callback: logs `cbenter`, parks for an outcome (nil | err), logs `cbleave`.
//
// Step granularity (Policy): a client call whose first action is a RefCount critical section runs
// that section within the step that issues the call (the call is the step); every later section of
// the same call (PromiseContainer.Await, Access's private Broadcast sections, the final Release)
// parks. refcount.resolve goroutines do not park at their Go hook (they run on to their select /
// into the resolver), they park before their store section. The async released goroutine, the
// WaitWithReleased release goroutine and the Access watcher park at their Go hook only. An Access
// caller additionally parks right after its snapshot section (Unlocked hook of the private
// Broadcast), so that an invalidation can land after Access looked and before the callback is
// entered. Option "f15" (diagnostic, not used by the checks) parks a ResolveWithReleased caller
// between AddRef's unlock and the assignment of `ref` in WaitWithReleased.

// rcOp is one client operation.
//
//	addref   cb: log | nil | rel
//	release  k: index (in this client's program) of the addref / consumer op whose ref is released
//	setctx   k: context id (1..2) ; clearctx
//	wait | resolve | resolvewr (cb: "cb" = with released callback) | access ; c: cancellable ctx
type rcOp struct {
	Op string `json:"op"`
	Cb string `json:"cb"`
	K  int    `json:"k"`
	C  bool   `json:"c"`
}

type rcScenario struct {
	Keep    bool     `json:"keep"`
	Clients [][]rcOp `json:"clients"`
	Outs    []string `json:"outs"`   // resolver outcomes offered
	RelOut  int      `json:"relout"` // outside released() calls offered per handle
	CbOuts  []string `json:"cbouts"` // Access callback outcomes offered
	MaxRes  int      `json:"maxres"` // bound of the X spec (not enforced by the driver)
	// >0: the value of that resolver call (if it resolves to a value) is the zero value of T. A zero
	// value handed to a callback that says "resolved, no error", returned by Wait/Resolve or passed to
	// an Access callback is a resolved value (of a call with raw value 0); the target container cannot
	// tell it from "empty" (the monitor is told through `raw` = 0 / `zero` on the leave event).
	ZeroCall int `json:"zerocall"`
	// >0: that resolver call, if it returns a value, returns the raw value of the latest
	// (highest-numbered) earlier call that has returned a value: a new generation whose value
	// compares equal to an earlier one (equal to the zero value if that was the zero call). Nothing
	// changes if there is no such earlier call. The schedules of the X spec are replayed unchanged
	// (RefCount.tla, constant SameCall).
	SameCall int `json:"samecall"`
	// the RefCount is built without a target / without an error-target container (both are optional)
	NoTgt    bool `json:"notgt,omitempty"`
	NoTgtErr bool `json:"notgterr,omitempty"`
}

type rcErr struct{ n int }

func (e *rcErr) Error() string { return fmt.Sprintf("e%d", e.n) }

type rcCbErr struct{ id, k int }

func (e *rcCbErr) Error() string { return fmt.Sprintf("cberr%d.%d", e.id, e.k) }

type rcRes struct {
	n        int
	park     *sched.Park
	ctx      context.Context
	released func()
	active   bool
	nOut     int
	isVal    bool // the call has returned a value
	raw      int  // ... this one
}

type rcClient struct {
	c           *sched.Client
	skipLock    int // lock hooks of the running op that must not park
	inflight    int // consumer call id in flight
	single      int // single-step API call id in flight
	cancel      context.CancelFunc
	canc        bool
	cancellable bool
	refs        map[int]func() // program index -> release function of the reference obtained there
	refid       map[int]int    // program index -> reference id
	incb        bool
	wrFirst     bool // (opt f15) the next RefCount unlock is the one of AddRef inside WaitWithReleased
	access      bool // an Access call is in flight
	afterCb     bool // the next private-Broadcast section of the Access call is the nonce comparison
	cbctx       context.Context
	cbpark      *sched.Park
}

type rcDriver struct {
	x                  *sched.Exec
	sc                 rcScenario
	mu                 sync.Mutex
	rc                 *refcount.RefCount[int]
	tgt                *ccontainer.CContainer[int]
	tgtErr             *ccontainer.CContainer[*error]
	ctxs               []context.Context
	cancels            []context.CancelFunc
	wantRoot, rootDone bool
	ctl                *sched.Actor
	nres               int
	res                map[int]*rcRes
	nextID             int
	cl                 []*rcClient
	byName             map[string]*rcClient
	helper             *rcClient
	aborted            bool
	phase              int
	held               []func() // release functions of every reference handed out (teardown)
	heldID             []int
	dropped            map[int]bool
	lastQ              int
	curCtx             int
}

// nActive: resolver calls currently inside the resolver (d.mu is held by the caller: moves())
func (d *rcDriver) nActive() int {
	n := 0
	for _, rs := range d.res {
		if rs.active {
			n++
		}
	}
	return n
}

func init() { Register("refcount", func() Driver { return &rcDriver{} }) }

func genRefcount(x *sched.Exec) rcScenario {
	r := x.Rng
	sc := rcScenario{Keep: r.Intn(2) == 0, RelOut: 1 + r.Intn(2), CbOuts: []string{"nil", "err"}}
	sc.Outs = [][]string{{"val", "err"}, {"val", "valnr", "err", "errrel"}, {"val"}, {"val", "errrel"}}[r.Intn(4)]
	if r.Intn(3) == 0 {
		sc.ZeroCall = 1 + r.Intn(3)
	}
	if r.Intn(3) == 0 {
		sc.SameCall = 2 + r.Intn(3)
	}
	if r.Intn(5) == 0 {
		sc.NoTgt, sc.NoTgtErr = r.Intn(2) == 0, r.Intn(2) == 0
	}
	n := 2 + r.Intn(3)
	consumers := r.Intn(3) != 0
	for i := 0; i < n; i++ {
		var prog []rcOp
		var live []int
		nops := 2 + r.Intn(5)
		if i == 0 && r.Intn(4) != 0 {
			prog = append(prog, rcOp{Op: "setctx", K: 1})
		}
		for len(prog) < nops {
			k := r.Intn(20)
			switch {
			case k < 6:
				cb := "log"
				switch r.Intn(8) {
				case 0:
					cb = "nil"
				case 1, 2:
					cb = "rel"
				}
				prog = append(prog, rcOp{Op: "addref", Cb: cb})
				live = append(live, len(prog)-1)
			case k < 10:
				if len(live) == 0 {
					continue
				}
				j := r.Intn(len(live))
				prog = append(prog, rcOp{Op: "release", K: live[j]})
				if r.Intn(5) == 0 {
					prog = append(prog, rcOp{Op: "release", K: live[j]})
				}
				live = append(live[:j], live[j+1:]...)
			case k < 13:
				prog = append(prog, rcOp{Op: "setctx", K: 1 + r.Intn(2)})
			case k < 14:
				prog = append(prog, rcOp{Op: "clearctx"})
			default:
				if !consumers {
					continue
				}
				op := rcOp{C: r.Intn(2) == 0}
				switch r.Intn(6) {
				case 0:
					op.Op = "wait"
				case 1:
					op.Op = "resolve"
				case 2, 3:
					op.Op = "resolvewr"
					if r.Intn(4) != 0 {
						op.Cb = "cb"
					}
				default:
					op.Op = "access"
				}
				prog = append(prog, op)
				if op.Op != "access" {
					live = append(live, len(prog)-1)
				}
			}
		}
		sc.Clients = append(sc.Clients, prog)
	}
	return sc
}

func (d *rcDriver) newID() int {
	d.mu.Lock()
	defer d.mu.Unlock()
	d.nextID++
	return d.nextID
}

func errID(err error) (string, int) {
	switch e := err.(type) {
	case nil:
		return "nil", 0
	case *rcErr:
		return "err", e.n
	case *rcCbErr:
		return "cberr", e.k
	}
	if err == context.Canceled {
		return "canceled", 0
	}
	return "other:" + err.Error(), 0
}

// resolver is the harness-owned RefCountResolver.
func (d *rcDriver) resolver(ctx context.Context, released func()) (int, func(), error) {
	d.mu.Lock()
	d.nres++
	n := d.nres
	rs := &rcRes{n: n, ctx: ctx, released: released, active: true}
	d.res[n] = rs
	d.mu.Unlock()
	d.x.Log(trace.E{"ev": "enter", "n": n, "actor": d.x.Self().Name})
	v := d.x.ParkUser(fmt.Sprintf("res%d", n), func(p *sched.Park) { rs.park = p })
	out, _ := v.(string)
	if out == "" {
		out = "val"
	}
	d.mu.Lock()
	rs.active = false
	rs.park = nil
	d.mu.Unlock()
	// ("valsame": outcome with the effect of `samecall` for this call; not offered by the generators,
	// the X spec does not know it -- experiments only)
	withRel := out == "val" || out == "errrel" || out == "valsame"
	isVal := out == "val" || out == "valnr" || out == "valsame"
	kind := "err"
	if isVal {
		kind = "val"
	}
	rv := 0
	if isVal {
		rv = n
		if n == d.sc.ZeroCall {
			rv = 0
		}
		if n == d.sc.SameCall || out == "valsame" {
			// the raw value of the latest earlier call that has returned a value (RefCount.tla: RawFor)
			d.mu.Lock()
			for m := n - 1; m >= 1; m-- {
				if p := d.res[m]; p != nil && p.isVal {
					rv = p.raw
					break
				}
			}
			d.mu.Unlock()
		}
		d.mu.Lock()
		rs.isVal, rs.raw = true, rv
		d.mu.Unlock()
	}
	d.x.Log(trace.E{"ev": "leave", "n": n, "out": kind, "rel": withRel, "ctxdone": ctx.Err() != nil, "zero": isVal && rv == 0, "raw": rv})
	var rel func()
	if withRel {
		rel = func() {
			d.x.Log(trace.E{"ev": "rel", "n": n, "tgt": d.tgtVal()})
		}
	}
	if isVal {
		return rv, rel, nil
	}
	return 0, rel, &rcErr{n}
}

// genOf picks the resolver call whose released() handle a callback of kind "rel" calls for the raw
// value it was given: the latest call that has returned that value (an input choice of the harness,
// logged as `relcall{n}`: the monitor is told which handle was called, whatever was picked).
func (d *rcDriver) genOf(v int) int {
	d.mu.Lock()
	defer d.mu.Unlock()
	for m := d.nres; m >= 1; m-- {
		if p := d.res[m]; p != nil && p.isVal && p.raw == v {
			return m
		}
	}
	return 0
}

// refCallback builds the callback of a plain reference.
func (d *rcDriver) refCallback(ref int, kind string) func(bool, int, error) {
	if kind == "nil" {
		return nil
	}
	fired := false
	return func(resolved bool, val int, err error) {
		_, en := errID(err)
		if err != nil && en == 0 {
			en = -2
		}
		d.x.Log(trace.E{"ev": "cb", "ref": ref, "res": resolved, "val": val, "err": en})
		if kind == "rel" && resolved && !fired {
			fired = true
			n := en
			if err == nil {
				n = d.genOf(val)
			}
			d.mu.Lock()
			rs := d.res[n]
			d.mu.Unlock()
			if rs != nil {
				d.x.Log(trace.E{"ev": "relcall", "n": n, "inside": true})
				rs.released()
				d.x.Log(trace.E{"ev": "relret", "n": n})
			}
		}
	}
}

func (d *rcDriver) register(c *rcClient, pi, id int, rel func()) {
	d.mu.Lock()
	c.refs[pi] = rel
	c.refid[pi] = id
	d.held = append(d.held, rel)
	d.heldID = append(d.heldID, id)
	d.mu.Unlock()
}

// guarded runs f and turns a panic into a `panic` event; the execution is aborted afterwards
// (the RefCount mutex may be left locked, nothing may touch the container any more).
func (d *rcDriver) guarded(c *rcClient, id int, f func()) {
	defer func() {
		c.skipLock = 0
		if r := recover(); r != nil {
			d.mu.Lock()
			d.aborted = true
			d.mu.Unlock()
			msg := fmt.Sprint(r)
			if len(msg) > 120 {
				msg = msg[:120]
			}
			d.x.Log(trace.E{"ev": "panic", "id": id, "msg": msg, "actor": c.c.Name})
		}
	}()
	f()
}

func (d *rcDriver) callCtx(c *rcClient, op rcOp) context.Context {
	// every caller context can be cancelled; op.C only decides whether the cancel move is
	// offered while the scenario runs (the settle phase cancels whatever is still blocked)
	c.canc = false
	c.cancellable = op.C
	ctx, cancel := context.WithCancel(context.Background())
	c.cancel = cancel
	return ctx
}

func (d *rcDriver) opFunc(c *rcClient, pi int, op rcOp) sched.Op {
	x := d.x
	label := "call:" + c.c.Name
	name := c.c.Name
	switch op.Op {
	case "addref":
		return sched.Op{Label: label, Do: func() {
			id := d.newID()
			x.Log(trace.E{"ev": "call", "id": id, "op": "addref", "cb": op.Cb, "ref": id, "k": 0, "actor": name})
			c.single = id
			d.guarded(c, id, func() {
				c.skipLock = 1
				ref := d.rc.AddRef(d.refCallback(id, op.Cb))
				d.register(c, pi, id, ref.Release)
				c.single = 0
				x.Log(trace.E{"ev": "ret", "id": id, "res": "ok", "val": 0, "err": 0, "actor": name})
			})
		}}
	case "release":
		return sched.Op{Label: label, Do: func() {
			rel := c.refs[op.K]
			if rel == nil {
				return
			}
			id := d.newID()
			x.Log(trace.E{"ev": "call", "id": id, "op": "release", "cb": "", "ref": c.refid[op.K], "k": 0, "actor": name})
			c.single = id
			d.guarded(c, id, func() {
				c.skipLock = 1
				d.mu.Lock()
				d.dropped[c.refid[op.K]] = true
				d.mu.Unlock()
				rel()
				c.single = 0
				x.Log(trace.E{"ev": "ret", "id": id, "res": "ok", "val": 0, "err": 0, "actor": name})
			})
		}}
	case "setctx", "clearctx":
		return sched.Op{Label: label, Do: func() { d.setCtx(c, op.K, op.Op == "clearctx") }}
	case "wait", "resolve", "resolvewr":
		return sched.Op{Label: label, Do: func() {
			id := d.newID()
			ctx := d.callCtx(c, op)
			x.Log(trace.E{"ev": "call", "id": id, "op": op.Op, "cb": op.Cb, "ref": id, "k": 0, "actor": name})
			c.inflight = id
			d.guarded(c, id, func() {
				c.skipLock = 1
				c.wrFirst = op.Op == "resolvewr"
				var val int
				var rel func()
				var err error
				switch op.Op {
				case "wait":
					var ref *refcount.Ref[int]
					val, ref, err = d.rc.Wait(ctx)
					if ref != nil {
						rel = ref.Release
					}
				case "resolve":
					val, rel, err = d.rc.Resolve(ctx)
				default:
					var cb func()
					if op.Cb == "cb" {
						cb = func() { x.Log(trace.E{"ev": "relcb", "id": id}) }
					}
					val, rel, err = d.rc.ResolveWithReleased(ctx, cb)
				}
				c.inflight = 0
				if err != nil {
					res, n := errID(err)
					x.Log(trace.E{"ev": "ret", "id": id, "res": res, "val": 0, "err": n, "actor": name})
					return
				}
				d.register(c, pi, id, rel)
				x.Log(trace.E{"ev": "ret", "id": id, "res": "ok", "val": val, "err": 0, "actor": name})
			})
		}}
	case "access":
		return sched.Op{Label: label, Do: func() {
			id := d.newID()
			ctx := d.callCtx(c, op)
			x.Log(trace.E{"ev": "call", "id": id, "op": "access", "cb": "", "ref": id, "k": 0, "actor": name})
			c.inflight = id
			d.guarded(c, id, func() {
				c.skipLock = 1
				c.access, c.afterCb = true, false
				defer func() { c.access = false }()
				k := 0
				err := d.rc.Access(ctx, func(cctx context.Context, val int) error {
					k++
					kk := k
					x.Log(trace.E{"ev": "cbenter", "id": id, "k": kk, "val": val})
					d.mu.Lock()
					c.incb, c.cbctx = true, cctx
					d.mu.Unlock()
					v := x.ParkUser("cb:"+name, func(p *sched.Park) { c.cbpark = p })
					out, _ := v.(string)
					if out == "" {
						out = "nil"
					}
					d.mu.Lock()
					c.incb, c.cbpark = false, nil
					c.afterCb = ctx.Err() == nil // the comparison section follows unless the caller ctx is done
					d.mu.Unlock()
					x.Log(trace.E{"ev": "cbleave", "id": id, "k": kk, "out": out, "ctxdone": cctx.Err() != nil})
					if out == "err" {
						return &rcCbErr{id, kk}
					}
					return nil
				})
				c.inflight = 0
				res, n := errID(err)
				x.Log(trace.E{"ev": "ret", "id": id, "res": res, "val": 0, "err": n, "actor": name})
			})
		}}
	}
	panic("bad op " + op.Op)
}

func (d *rcDriver) setCtx(c *rcClient, k int, clear bool) {
	x := d.x
	id := d.newID()
	opn := "setctx"
	if clear {
		opn, k = "clearctx", 0
	}
	x.Log(trace.E{"ev": "call", "id": id, "op": opn, "cb": "", "ref": 0, "k": k, "actor": c.c.Name})
	c.single = id
	d.guarded(c, id, func() {
		c.skipLock = 1
		if clear {
			d.rc.ClearContext()
		} else {
			d.rc.SetContext(d.ctxs[k])
		}
		d.curCtx = k
		c.single = 0
		x.Log(trace.E{"ev": "ret", "id": id, "res": "ok", "val": 0, "err": 0, "actor": c.c.Name})
	})
}

func (d *rcDriver) policy(a *sched.Actor, kind, site string, obj any) bool {
	if a == d.ctl {
		return false
	}
	if d.aborted {
		return true
	}
	switch kind {
	case "unlocked":
		// opt "f15" (diagnostic only, never used by the checks): park a ResolveWithReleased caller
		// right after AddRef unlocked the RefCount mutex, before WaitWithReleased assigns `ref`
		if c := d.byName[a.Name]; c != nil && Opt == "f15" && c.wrFirst {
			if _, ok := obj.(*refcount.RefCount[int]); ok {
				c.wrFirst = false
				return true
			}
		}
		// Access: park right after the snapshot section of the private Broadcast, so that an
		// invalidation can land after Access looked and before its callback is entered
		if c := d.byName[a.Name]; c != nil && c.access {
			if _, ok := obj.(*broadcast.Broadcast); ok {
				if c.afterCb {
					c.afterCb = false
					return false
				}
				return true
			}
		}
		return false
	case "go":
		return site != "refcount.resolve"
	case "lock":
		if c := d.byName[a.Name]; c != nil {
			if c.skipLock > 0 {
				c.skipLock--
				return false
			}
			return true
		}
		if strings.HasPrefix(a.Name, "refcount.released#") || strings.HasPrefix(a.Name, "refcount.waitreleased#") {
			return false
		}
	}
	return true
}

// tgtVal reads the target container (0 when the RefCount has none).
func (d *rcDriver) tgtVal() int {
	if d.tgt == nil {
		return 0
	}
	return d.tgt.GetValue()
}

func (d *rcDriver) observe() {
	x := d.x
	if d.aborted || len(x.ParkedActors()) != 0 {
		return
	}
	if x.T.Seq() == d.lastQ {
		return
	}
	act, blk, incb, cbdone, open := []int{}, []int{}, []int{}, []int{}, []int{}
	d.mu.Lock()
	for n, rs := range d.res {
		if rs.active {
			act = append(act, n)
		}
	}
	for _, c := range d.cl {
		if c.single != 0 {
			open = append(open, c.single)
		}
		if c.inflight == 0 {
			continue
		}
		if c.incb {
			incb = append(incb, c.inflight)
			if c.cbctx.Err() != nil {
				cbdone = append(cbdone, c.inflight)
			}
		} else if x.Blocked(c.c) {
			blk = append(blk, c.inflight)
		}
	}
	d.mu.Unlock()
	sort.Ints(act)
	sort.Ints(blk)
	sort.Ints(incb)
	sort.Ints(cbdone)
	te := 0
	if d.tgtErr == nil {
	} else if ep := d.tgtErr.GetValue(); ep != nil && *ep != nil {
		if _, n := errID(*ep); n != 0 {
			te = n
		} else {
			te = -2
		}
	}
	x.Log(trace.E{"ev": "quiet", "tgt": d.tgtVal(), "tgterr": te, "act": act, "blk": blk, "incb": incb, "cbdone": cbdone, "open": open})
	d.lastQ = x.T.Seq()
}

func (d *rcDriver) Run(x *sched.Exec, raw json.RawMessage) json.RawMessage {
	d.x = x
	if raw != nil {
		if err := json.Unmarshal(raw, &d.sc); err != nil {
			panic(err)
		}
	} else {
		d.sc = genRefcount(x)
	}
	sc := d.sc
	if len(sc.Outs) == 0 {
		sc.Outs = []string{"val", "err"}
	}
	if len(sc.CbOuts) == 0 {
		sc.CbOuts = []string{"nil", "err"}
	}
	out, _ := json.Marshal(d.sc)
	d.ctl = x.Self()
	d.res = map[int]*rcRes{}
	d.byName = map[string]*rcClient{}
	d.dropped = map[int]bool{}
	d.ctxs = []context.Context{nil}
	for k := 1; k <= 2; k++ {
		ctx, cancel := context.WithCancel(context.Background())
		d.ctxs = append(d.ctxs, ctx)
		d.cancels = append(d.cancels, cancel)
	}
	x.Policy = d.policy
	d.wantRoot = raw == nil && x.Rng.Intn(4) == 0
	d.tgt, d.tgtErr = nil, nil
	if !sc.NoTgt {
		d.tgt = ccontainer.NewCContainer[int](0)
	}
	if !sc.NoTgtErr {
		d.tgtErr = ccontainer.NewCContainer[*error](nil)
	}
	d.rc = refcount.NewRefCount[int](nil, sc.Keep, d.tgt, d.tgtErr, d.resolver)
	x.Log(trace.E{"ev": "cfg", "keep": sc.Keep, "notgt": sc.NoTgt, "notgterr": sc.NoTgtErr})
	mk := func(name string) *rcClient {
		c := &rcClient{c: x.NewClient(name), refs: map[int]func(){}, refid: map[int]int{}}
		d.byName[name] = c
		d.cl = append(d.cl, c)
		return c
	}
	for i, prog := range sc.Clients {
		c := mk(fmt.Sprintf("c%d", i+1))
		for pi, op := range prog {
			c.c.Prog = append(c.c.Prog, d.opFunc(c, pi, op))
		}
	}
	d.helper = mk("h")

	moves := func() []sched.Move {
		if d.aborted {
			return nil
		}
		ms := x.GrantMoves()
		// The monitor takes the logged start of AddRef / Release / SetContext / released() as the point
		// where the call takes effect. That is exact while such a call is one controller step (its only
		// lock section is not a park point: skipLock); if the code gives it further sections the call
		// stays in flight, and then no other call is issued until it has returned, so that two such
		// calls never overlap (library goroutines still interleave with it: RefCountP's `minv`).
		single := false
		for _, c := range d.cl {
			if c.single != 0 {
				single = true
			}
		}
		single = single || d.helper.c.Busy()
		if d.phase == 0 && !single {
			ms = append(ms, x.ClientMoves()...)
		}
		d.mu.Lock()
		var ns []int
		for n := range d.res {
			ns = append(ns, n)
		}
		sort.Ints(ns)
		for _, n := range ns {
			rs := d.res[n]
			if rs.active && rs.park != nil && rs.park.Active() {
				outs := sc.Outs
				if d.phase != 0 {
					outs = outs[:1]
				}
				for _, o := range outs {
					o, p := o, rs.park
					ms = append(ms, sched.Move{Label: fmt.Sprintf("res:%d:%s", n, o), Do: func() { x.Resume(p, o) }})
				}
			}
			// (random scenarios: no more released() calls once 8 resolver calls were made, so that an
			// execution is not spent on release/resolve cycles; the X scenarios stay far below)
			if d.phase == 0 && !single && rs.nOut < sc.RelOut && d.nres <= 8 && !d.helper.c.Busy() {
				rs := rs
				ms = append(ms, sched.Move{Label: fmt.Sprintf("released:%d", rs.n), Actor: "h", Do: func() {
					rs.nOut++
					x.Issue(d.helper.c, func() {
						d.guarded(d.helper, 0, func() {
							d.helper.skipLock = 1
							x.Log(trace.E{"ev": "relcall", "n": rs.n, "inside": false})
							rs.released()
							x.Log(trace.E{"ev": "relret", "n": rs.n})
						})
					})
				}})
			}
		}
		d.mu.Unlock()
		// (seeded executions only) the client cancels the root context it gave to SetContext while a
		// resolver call is in flight: the call's result must still be stored and delivered
		if d.phase == 0 && !d.rootDone && (d.wantRoot && len(x.Sched) == 0 || x.NextWanted() == "rootcancel") && d.curCtx != 0 && d.nActive() > 0 {
			k := d.curCtx
			ms = append(ms, sched.Move{Label: "rootcancel", Do: func() {
				d.rootDone = true
				x.Log(trace.E{"ev": "rootcancel", "k": k})
				d.cancels[k-1]()
			}})
		}
		for _, c := range d.cl {
			c := c
			if c.incb && c.cbpark != nil && c.cbpark.Active() {
				outs := sc.CbOuts
				if d.phase != 0 {
					outs = outs[:1]
				}
				for _, o := range outs {
					o, p := o, c.cbpark
					ms = append(ms, sched.Move{Label: fmt.Sprintf("cb:%s:%s", c.c.Name, o), Do: func() { x.Resume(p, o) }})
				}
			}
			// a caller context is cancelled only while the call is blocked inside the library or
			// inside the Access callback (elsewhere Go's select could choose among ready cases)
			if d.phase == 0 && c.cancellable && c.inflight != 0 && c.cancel != nil && !c.canc && (c.incb || x.Blocked(c.c)) {
				ms = append(ms, sched.Move{Label: "cancel:" + c.c.Name, Do: func() {
					c.canc = true
					x.Log(trace.E{"ev": "cancel", "id": c.inflight})
					c.cancel()
				}})
			}
		}
		return ms
	}
	x.Loop(moves, d.observe, 70)

	// settle: no new client calls, no released() calls; resolvers and callbacks return, blocked
	// consumers are cancelled, then the controller releases every reference and clears the context.
	d.phase = 1
	for _, c := range d.cl {
		c.c.Prog = nil
	}
	cleanup := func() []sched.Move {
		ms := moves()
		if len(ms) != 0 || d.aborted {
			return ms
		}
		if d.helper.c.Busy() {
			return nil
		}
		for _, c := range d.cl {
			c := c
			if c.inflight != 0 && !c.canc && !c.incb && x.Blocked(c.c) {
				return []sched.Move{{Label: "cancel:" + c.c.Name, Do: func() {
					c.canc = true
					x.Log(trace.E{"ev": "cancel", "id": c.inflight})
					c.cancel()
				}}}
			}
		}
		d.mu.Lock()
		defer d.mu.Unlock()
		for i, rel := range d.held {
			id := d.heldID[i]
			if d.dropped[id] {
				continue
			}
			rel := rel
			return []sched.Move{{Label: fmt.Sprintf("drop:%d", id), Actor: "h", Do: func() {
				d.mu.Lock()
				d.dropped[id] = true
				d.mu.Unlock()
				x.Issue(d.helper.c, func() {
					cid := d.newID()
					x.Log(trace.E{"ev": "call", "id": cid, "op": "release", "cb": "", "ref": id, "k": 0, "actor": "h"})
					d.helper.single = cid
					d.guarded(d.helper, cid, func() {
						d.helper.skipLock = 1
						rel()
						d.helper.single = 0
						x.Log(trace.E{"ev": "ret", "id": cid, "res": "ok", "val": 0, "err": 0, "actor": "h"})
					})
				})
			}}}
		}
		if d.curCtx != 0 {
			return []sched.Move{{Label: "clearctx", Actor: "h", Do: func() {
				x.Issue(d.helper.c, func() { d.setCtx(d.helper, 0, true) })
			}}}
		}
		return nil
	}
	x.Loop(cleanup, d.observe, x.Steps+150)

	if d.aborted {
		// The RefCount mutex may be held by a panicked call: leave everything parked (the hooks
		// keep parking), the bubble ends with the runner's "leak" event.
		return out
	}
	// teardown proper: everything runs freely
	for _, c := range d.cl {
		if c.cancel != nil && !c.canc {
			c.canc = true
			if c.inflight != 0 {
				x.Log(trace.E{"ev": "cancel", "id": c.inflight})
			}
			c.cancel()
		}
	}
	for _, cancel := range d.cancels {
		cancel()
	}
	for i := 0; i < 6; i++ {
		x.Drain()
		for _, p := range x.UserParks() {
			x.Resume(p, nil)
		}
	}
	x.Drain()
	return out
}
