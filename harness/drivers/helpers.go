//go:build drv_helpers || drv_all

package drivers

import (
	"bufio"
	"encoding/json"
	"errors"
	"fmt"
	"io"
	"math/rand"
	"os"
	"strings"
	"sync"

	"verifharness/sched"
	"verifharness/trace"

	util_bufio "github.com/aperturerobotics/util/bufio"
	"github.com/aperturerobotics/util/enabled"
	"github.com/aperturerobotics/util/filter"
	"github.com/aperturerobotics/util/iowriter"
	"github.com/aperturerobotics/util/result"
	"github.com/aperturerobotics/util/scrub"
	"github.com/aperturerobotics/util/vmime"
)

// Driver of the helpers family (check X02): evaluates the real filter.StringFilter, enabled.Enabled,
// iowriter.CallbackWriter, result.Result, scrub.Scrub, util_bufio.SplitOnNul and vmime.IsValidMimeType
// code and logs one event per evaluation (inputs and result) for the HelpersP monitor.
//
// One execution is
//
//	{"kind":"vec","from":a,"to":b}        vectors a..b-1 of the TLC-generated file named by -opt vec=<path>
//	                                      (filter configurations with probe values, SplitOnNul inputs, mime
//	                                      strings, Enabled calls: the initial states of HelpersVec.tla)
//	{"kind":"ops","h":H,"ops":[[...]]}    a call sequence on one object (a path of HelpersOps.tla's graph):
//	     enabled  [0,y] acc = acc.Merge(y) | [1,d] acc.IsEnabled(d != 0) | [2] acc.Validate()
//	     cbw      [0,k,m,p...] Write(p) while the callback is scripted to return (k, error class m)
//	     cbwnil   the same on a writer without callback
//	     result   [0,id,v,e] NewResult | [1,id] GetValue | [2,i,j] Compare
//	     scrub    [0,pat] fill the 4-byte buffer | [1,lo,hi] Scrub(buf[lo:hi])
//	{"kind":"rand","rseed":s,"n":k}       k seeded random evaluations beyond the enumerated boxes
//
// Everything is sequential; the controller is not involved.

type hpCfg struct {
	Empty     bool    `json:"empty"`
	NotEmpty  bool    `json:"not_empty"`
	Value     []int   `json:"value"`
	Values    [][]int `json:"values"`
	Re        int     `json:"re"`
	HasPrefix []int   `json:"has_prefix"`
	HasSuffix []int   `json:"has_suffix"`
	Contains  []int   `json:"contains"`
}

type hpVec struct {
	K      string  `json:"k"` // filter | nul | mime | en
	NilF   bool    `json:"nilf"`
	Cfg    hpCfg   `json:"cfg"`
	Probes [][]int `json:"probes"`
	Data   []int   `json:"data"`
	EOF    bool    `json:"eof"`
	S      []int   `json:"s"`
	Op     string  `json:"op"`
	X      int     `json:"x"`
	Y      int     `json:"y"`
	D      bool    `json:"d"`
}

type hpScenario struct {
	Kind  string  `json:"kind"`
	From  int     `json:"from"`
	To    int     `json:"to"`
	H     string  `json:"h,omitempty"`
	Ops   [][]int `json:"ops,omitempty"`
	RSeed int64   `json:"rseed"`
	N     int     `json:"n"`
}

// hpReSrc is the fixed list of regular expressions (index = id; 0 = not set).  It must agree with
// ReSrc / ReSearch / ReFull of specs/helpers/HelpersP.tla.
var hpReSrc = []string{"", "^a*$", "^(a|b)b$", "^.?$", "^ab", "b$", "ab", "b*", "a(", "[", "*"}

var (
	hpErrA  = errors.New("helpers: error A")
	hpErrB  = errors.New("helpers: error B")
	hpErrA2 = errors.New("helpers: error A") // a distinct value with the message of hpErrA
)

var (
	hpVecOnce sync.Once
	hpVecs    [][]byte
	hpVecErr  error
)

func hpLoadVecs() ([][]byte, error) {
	hpVecOnce.Do(func() {
		path := ""
		for _, kv := range strings.Split(Opt, ",") {
			if strings.HasPrefix(kv, "vec=") {
				path = kv[4:]
			}
		}
		if path == "" {
			hpVecErr = fmt.Errorf("helpers: no vec=<path> in -opt %q", Opt)
			return
		}
		f, err := os.Open(path)
		if err != nil {
			hpVecErr = err
			return
		}
		defer f.Close()
		sc := bufio.NewScanner(f)
		sc.Buffer(make([]byte, 1<<20), 1<<26)
		for sc.Scan() {
			hpVecs = append(hpVecs, append([]byte(nil), sc.Bytes()...))
		}
		hpVecErr = sc.Err()
	})
	return hpVecs, hpVecErr
}

type helpersDriver struct {
	x *sched.Exec
	// the scripted callback of the CallbackWriter under test
	cbK     int
	cbM     int
	cbCalls int
	cbSeen  [][]int
}

func init() { Register("helpers", func() Driver { return &helpersDriver{} }) }

func hpInts(b []byte) []int {
	out := make([]int, len(b))
	for i, v := range b {
		out[i] = int(v)
	}
	return out
}

func hpBytes(v []int) []byte {
	out := make([]byte, len(v))
	for i, x := range v {
		out[i] = byte(x)
	}
	return out
}

func hpStr(v []int) string { return string(hpBytes(v)) }

func hpIntss(ss [][]int) [][]int {
	out := make([][]int, len(ss))
	for i, s := range ss {
		out[i] = append([]int{}, s...)
	}
	return out
}

// hpCatch runs f and reports a panic as a string ("" = none).
func hpCatch(f func()) (msg string) {
	defer func() {
		if r := recover(); r != nil {
			msg = fmt.Sprint(r)
			if len(msg) > 120 {
				msg = msg[:120]
			}
			if msg == "" {
				msg = "panic"
			}
		}
	}()
	f()
	return ""
}

func hpTF(b bool) string {
	if b {
		return "t"
	}
	return "f"
}

func hpErrClass(err error) string {
	switch err {
	case nil:
		return ""
	case hpErrA:
		return "A"
	case hpErrB:
		return "B"
	}
	return "other"
}

func hpErrOf(m int) error {
	switch m {
	case 1:
		return hpErrA
	case 2:
		return hpErrB
	case 3:
		return hpErrA2
	}
	return nil
}

// ---------------------------------------------------------------- H1 filter

func (d *helpersDriver) doFilter(nilf bool, c *hpCfg, probes [][]int) {
	var f *filter.StringFilter
	resrc := ""
	if c.Re >= 0 && c.Re < len(hpReSrc) {
		resrc = hpReSrc[c.Re]
	}
	if !nilf {
		f = &filter.StringFilter{
			Empty: c.Empty, NotEmpty: c.NotEmpty, Value: hpStr(c.Value), Re: resrc,
			HasPrefix: hpStr(c.HasPrefix), HasSuffix: hpStr(c.HasSuffix), Contains: hpStr(c.Contains),
		}
		for _, v := range c.Values {
			f.Values = append(f.Values, hpStr(v))
		}
	}
	vres := "ok"
	msg := hpCatch(func() {
		if err := f.Validate(); err != nil {
			vres = "err"
		}
	})
	if msg != "" {
		vres = "panic"
	}
	got := make([]string, len(probes))
	for i, p := range probes {
		v := hpStr(p)
		r := false
		if m := hpCatch(func() { r = f.CheckMatch(v) }); m != "" {
			got[i] = "p"
			msg += m
			continue
		}
		got[i] = hpTF(r)
	}
	cfg := map[string]any{
		"empty": c.Empty, "not_empty": c.NotEmpty, "value": append([]int{}, c.Value...), "values": hpIntss(c.Values), "re": c.Re,
		"has_prefix": append([]int{}, c.HasPrefix...), "has_suffix": append([]int{}, c.HasSuffix...), "contains": append([]int{}, c.Contains...),
	}
	d.x.Log(trace.E{"ev": "filter", "nilf": nilf, "cfg": cfg, "resrc": resrc, "vres": vres, "probes": hpIntss(probes), "got": got, "msg": msg})
}

// ---------------------------------------------------------------- H2 enabled

// doEn evaluates one Enabled method; for "merge" it returns the merged value.
func (d *helpersDriver) doEn(op string, x, y int, dflt bool) int {
	ex, ey := enabled.Enabled(int32(x)), enabled.Enabled(int32(y))
	r, rv := "ok", -1
	out := x
	msg := hpCatch(func() {
		switch op {
		case "is":
			r = hpTF(ex.IsEnabled(dflt))
		case "validate":
			if err := ex.Validate(); err != nil {
				r = "err"
			}
		case "merge":
			out = int(ex.Merge(ey))
			rv = out
		}
	})
	if msg != "" {
		r, rv, out = "p", -1, x
	}
	d.x.Log(trace.E{"ev": "en", "op": op, "x": x, "y": y, "d": dflt, "r": r, "rv": rv, "msg": msg})
	return out
}

// ---------------------------------------------------------------- H3 iowriter.CallbackWriter

func (d *helpersDriver) callback(q []byte) (int, error) {
	d.cbCalls++
	d.cbSeen = append(d.cbSeen, hpInts(q))
	return d.cbK, hpErrOf(d.cbM)
}

func (d *helpersDriver) newWriter(nilcb bool) *iowriter.CallbackWriter {
	if nilcb {
		return iowriter.NewCallbackWriter(nil)
	}
	return iowriter.NewCallbackWriter(d.callback)
}

// doWrite: one Write(p) while the callback is scripted to return (k, error class m).
func (d *helpersDriver) doWrite(w *iowriter.CallbackWriter, nilcb bool, p []byte, k, m int) {
	d.cbK, d.cbM, d.cbCalls, d.cbSeen = k, m, 0, [][]int{}
	buf := append([]byte{}, p...)
	var n int
	var err error
	res := "ok"
	msg := hpCatch(func() { n, err = w.Write(buf) })
	if msg != "" {
		res, n, err = "panic", -1, nil
	}
	ec := hpErrClass(err)
	if err != nil && msg == "" {
		msg = err.Error()
	}
	d.x.Log(trace.E{"ev": "cbw", "nilcb": nilcb, "p": hpInts(p), "pafter": hpInts(buf), "calls": d.cbCalls, "seen": d.cbSeen,
		"cbn": k, "cberr": hpErrClass(hpErrOf(m)), "n": n, "err": ec, "res": res, "msg": msg})
}

// ---------------------------------------------------------------- H4 result

func hpErrID(err error) int {
	switch err {
	case nil:
		return 0
	case hpErrA:
		return 1
	case hpErrB:
		return 2
	case hpErrA2:
		return 3
	}
	return 9
}

func (d *helpersDriver) resNew(objs map[int]*result.Result[int], id, v, e int) {
	msg := hpCatch(func() { objs[id] = result.NewResult(v, hpErrOf(e)) })
	if msg != "" || objs[id] == nil {
		d.x.Log(trace.E{"ev": "res", "op": "new", "id": id, "j": 0, "v": v, "e": e, "gv": 0, "ge": 0, "r": "p", "msg": msg})
		delete(objs, id)
		return
	}
	d.x.Log(trace.E{"ev": "res", "op": "new", "id": id, "j": 0, "v": v, "e": e, "gv": 0, "ge": 0, "r": "ok"})
}

func (d *helpersDriver) resGet(objs map[int]*result.Result[int], id int) {
	o := objs[id]
	if o == nil {
		return
	}
	var gv int
	var ge error
	r := "ok"
	msg := hpCatch(func() { gv, ge = o.GetValue() })
	if msg != "" {
		r, gv, ge = "p", 0, nil
	}
	d.x.Log(trace.E{"ev": "res", "op": "get", "id": id, "j": 0, "v": 0, "e": 0, "gv": gv, "ge": hpErrID(ge), "r": r, "msg": msg})
}

func (d *helpersDriver) resCmp(objs map[int]*result.Result[int], i, j int) {
	a, b := objs[i], objs[j]
	if a == nil || b == nil {
		return
	}
	r := ""
	msg := hpCatch(func() { r = hpTF(a.Compare(b)) })
	if msg != "" {
		r = "p"
	}
	d.x.Log(trace.E{"ev": "res", "op": "cmp", "id": i, "j": j, "v": 0, "e": 0, "gv": 0, "ge": 0, "r": r, "msg": msg})
}

// ---------------------------------------------------------------- H4 scrub

func (d *helpersDriver) doScrub(parent []byte, lo, hi int) {
	if lo < 0 || hi < lo || hi > len(parent) {
		return
	}
	before := hpInts(parent)
	res := "ok"
	msg := hpCatch(func() { scrub.Scrub(parent[lo:hi]) })
	if msg != "" {
		res = "panic"
	}
	d.x.Log(trace.E{"ev": "scrub", "before": before, "lo": lo, "hi": hi, "after": hpInts(parent), "res": res, "msg": msg})
}

func hpPattern(p, n int) []byte {
	out := make([]byte, n)
	for i := range out {
		out[i] = byte(((i+1)*p)%251 + 1)
	}
	return out
}

// ---------------------------------------------------------------- H4 bufio.SplitOnNul

func (d *helpersDriver) doNul(data []byte, eof bool) {
	in := append([]byte{}, data...)
	var adv int
	var tok []byte
	var err error
	res := "ok"
	msg := hpCatch(func() { adv, tok, err = util_bufio.SplitOnNul(in, eof) })
	if msg != "" {
		res, adv, tok, err = "panic", -1, nil, nil
	}
	ec := ""
	if err != nil {
		ec, msg = "other", err.Error()
	}
	d.x.Log(trace.E{"ev": "nul", "data": hpInts(data), "eof": eof, "adv": adv, "tok": hpInts(tok), "toknil": tok == nil, "err": ec, "res": res, "msg": msg})
}

// hpChunkReader delivers data at most n bytes per Read.
type hpChunkReader struct {
	data []byte
	n    int
}

func (r *hpChunkReader) Read(p []byte) (int, error) {
	if len(r.data) == 0 {
		return 0, io.EOF
	}
	k := r.n
	if k > len(r.data) {
		k = len(r.data)
	}
	if k > len(p) {
		k = len(p)
	}
	copy(p, r.data[:k])
	r.data = r.data[k:]
	return k, nil
}

// doNulScan reads data to the end with a bufio.Scanner that uses SplitOnNul.
func (d *helpersDriver) doNulScan(data []byte, chunk int) {
	if chunk < 1 {
		chunk = 1
	}
	toks := [][]int{}
	var err error
	res := "ok"
	msg := hpCatch(func() {
		sc := bufio.NewScanner(&hpChunkReader{data: append([]byte{}, data...), n: chunk})
		sc.Split(util_bufio.SplitOnNul)
		for len(toks) <= len(data)+2 && sc.Scan() {
			toks = append(toks, hpInts(sc.Bytes()))
		}
		err = sc.Err()
	})
	if msg != "" {
		res = "panic"
	}
	ec := ""
	if err != nil {
		ec, msg = "other", err.Error()
	}
	d.x.Log(trace.E{"ev": "nulscan", "data": hpInts(data), "chunk": chunk, "toks": toks, "err": ec, "res": res, "msg": msg})
}

// ---------------------------------------------------------------- H4 vmime

func (d *helpersDriver) doMime(s []byte) {
	r := ""
	msg := hpCatch(func() { r = hpTF(vmime.IsValidMimeType(string(s))) })
	if msg != "" {
		r = "p"
	}
	d.x.Log(trace.E{"ev": "mime", "s": hpInts(s), "r": r, "msg": msg})
}

// ---------------------------------------------------------------- vectors and call sequences

func (d *helpersDriver) doVec(v *hpVec) {
	switch v.K {
	case "filter":
		d.doFilter(v.NilF, &v.Cfg, v.Probes)
	case "nul":
		d.doNul(hpBytes(v.Data), v.EOF)
		if v.EOF {
			d.doNulScan(hpBytes(v.Data), 1+len(v.Data)%3)
		}
	case "mime":
		d.doMime(hpBytes(v.S))
	case "en":
		d.doEn(v.Op, v.X, v.Y, v.D)
	default:
		d.x.Log(trace.E{"ev": "badvector", "k": v.K})
	}
}

func (d *helpersDriver) doOps(h string, ops [][]int) {
	arg := func(o []int, i int) int {
		if i < len(o) {
			return o[i]
		}
		return 0
	}
	switch h {
	case "enabled":
		acc := 0
		for _, o := range ops {
			switch arg(o, 0) {
			case 0:
				acc = d.doEn("merge", acc, arg(o, 1), false)
			case 1:
				d.doEn("is", acc, 0, arg(o, 1) != 0)
			default:
				d.doEn("validate", acc, 0, false)
			}
		}
	case "cbw", "cbwnil":
		w := d.newWriter(h == "cbwnil")
		for _, o := range ops {
			var p []int
			if len(o) > 3 {
				p = o[3:]
			}
			d.doWrite(w, h == "cbwnil", hpBytes(p), arg(o, 1), arg(o, 2))
		}
	case "result":
		objs := map[int]*result.Result[int]{}
		for _, o := range ops {
			switch arg(o, 0) {
			case 0:
				d.resNew(objs, arg(o, 1), arg(o, 2), arg(o, 3))
			case 1:
				d.resGet(objs, arg(o, 1))
			default:
				d.resCmp(objs, arg(o, 1), arg(o, 2))
			}
		}
	case "scrub":
		parent := hpPattern(1, 4)
		for _, o := range ops {
			if arg(o, 0) == 0 {
				copy(parent, hpPattern(arg(o, 1), 4))
			} else {
				d.doScrub(parent, arg(o, 1), arg(o, 2))
			}
		}
	default:
		d.x.Log(trace.E{"ev": "badvector", "msg": "unknown object kind " + h})
	}
}

// ---------------------------------------------------------------- seeded random inputs

func hpRandStr(r *rand.Rand, max int) []int {
	n := r.Intn(max + 1)
	out := make([]int, n)
	for i := range out {
		out[i] = 97 + r.Intn(3)
		if r.Intn(9) == 0 {
			out[i] = 65 // 'A': a differently cased twin of 'a'
		}
	}
	return out
}

func hpCat(parts ...[]int) []int {
	out := []int{}
	for _, p := range parts {
		out = append(out, p...)
	}
	return out
}

func (d *helpersDriver) randFilter(r *rand.Rand) {
	c := hpCfg{Value: []int{}, Values: [][]int{}, HasPrefix: []int{}, HasSuffix: []int{}, Contains: []int{}}
	nilf := r.Intn(25) == 0
	set := func() bool { return !nilf && r.Intn(10) < 3 }
	c.Empty = !nilf && r.Intn(12) == 0
	c.NotEmpty = !nilf && r.Intn(8) == 0
	if set() {
		c.Value = hpRandStr(r, 4)
	}
	if set() {
		for i, n := 0, 1+r.Intn(3); i < n; i++ {
			c.Values = append(c.Values, hpRandStr(r, 3))
		}
	}
	if set() {
		c.Re = 1 + r.Intn(len(hpReSrc)-1)
	}
	if set() {
		c.HasPrefix = hpRandStr(r, 3)
	}
	if set() {
		c.HasSuffix = hpRandStr(r, 3)
	}
	if set() {
		c.Contains = hpRandStr(r, 3)
	}
	probes := [][]int{{}, c.Value, hpCat(c.HasPrefix, c.Contains, c.HasSuffix), hpCat(c.HasPrefix, c.HasSuffix), hpCat(c.HasSuffix, c.Contains, c.HasPrefix)}
	for _, v := range c.Values {
		probes = append(probes, v)
	}
	for _, s := range []string{"ab", "a", "b", "aab", "abb", "bb"} {
		if r.Intn(3) == 0 {
			probes = append(probes, hpInts([]byte(s)))
		}
	}
	for i := 0; i < 5; i++ {
		probes = append(probes, hpCat(c.HasPrefix, hpRandStr(r, 3), c.HasSuffix))
		probes = append(probes, hpRandStr(r, 6))
	}
	d.doFilter(nilf, &c, probes)
}

const hpMimeAlpha = "abz09AZ_-./+ \n\t;=\x80\xc3\xa9"

func (d *helpersDriver) randMime(r *rand.Rand) {
	word := func(n int) []byte {
		const w = "abzAZ09_-."
		out := make([]byte, n)
		for i := range out {
			out[i] = w[r.Intn(len(w))]
		}
		return out
	}
	var s []byte
	if r.Intn(2) == 0 {
		s = append(append(word(r.Intn(5)), '/'), word(r.Intn(5))...)
		if len(s) > 0 && r.Intn(3) == 0 {
			s[r.Intn(len(s))] = hpMimeAlpha[r.Intn(len(hpMimeAlpha))]
		}
		if r.Intn(6) == 0 {
			s = append(s, hpMimeAlpha[r.Intn(len(hpMimeAlpha))])
		}
	} else {
		s = make([]byte, r.Intn(9))
		for i := range s {
			s[i] = hpMimeAlpha[r.Intn(len(hpMimeAlpha))]
		}
	}
	d.doMime(s)
}

func (d *helpersDriver) doRandom(r *rand.Rand) {
	switch r.Intn(12) {
	case 0, 1, 2, 3:
		d.randFilter(r)
	case 4:
		ops := []string{"is", "validate", "merge"}
		d.doEn(ops[r.Intn(3)], r.Intn(8)-2, r.Intn(8)-2, r.Intn(2) == 0)
	case 5, 6:
		nilcb := r.Intn(5) == 0
		w := d.newWriter(nilcb)
		for i, n := 0, 1+r.Intn(3); i < n; i++ {
			p := make([]byte, r.Intn(21))
			r.Read(p)
			d.doWrite(w, nilcb, p, r.Intn(len(p)+7)-3, r.Intn(3))
		}
	case 7:
		d.x.Log(trace.E{"ev": "begin"})
		vals := []int{0, 1, -7, 1 << 20}
		objs := map[int]*result.Result[int]{}
		for i := 0; i < 8; i++ {
			switch k := r.Intn(6); {
			case k < 2 || len(objs) == 0:
				d.resNew(objs, 1+r.Intn(3), vals[r.Intn(len(vals))], r.Intn(4))
			case k == 2:
				d.resGet(objs, 1+r.Intn(3))
			default:
				d.resCmp(objs, 1+r.Intn(3), 1+r.Intn(3))
			}
		}
	case 8:
		parent := make([]byte, r.Intn(41))
		r.Read(parent)
		lo := r.Intn(len(parent) + 1)
		hi := lo + r.Intn(len(parent)-lo+1)
		d.doScrub(parent, lo, hi)
	case 9, 10:
		al := []byte{0, 0, 97, 98, 255, 10}
		data := make([]byte, r.Intn(31))
		for i := range data {
			data[i] = al[r.Intn(len(al))]
		}
		d.doNul(data, r.Intn(2) == 0)
		d.doNulScan(data, 1+r.Intn(7))
	default:
		d.randMime(r)
	}
}

func (d *helpersDriver) Run(x *sched.Exec, raw json.RawMessage) json.RawMessage {
	d.x = x
	var sc hpScenario
	if raw != nil {
		if err := json.Unmarshal(raw, &sc); err != nil {
			panic(err)
		}
	} else {
		sc = hpScenario{Kind: "rand", RSeed: x.Rng.Int63(), N: 16}
	}
	out, _ := json.Marshal(sc)
	switch sc.Kind {
	case "vec":
		vecs, err := hpLoadVecs()
		if err != nil {
			x.Log(trace.E{"ev": "badvector", "msg": err.Error()})
			return out
		}
		for i := sc.From; i < sc.To && i < len(vecs); i++ {
			var v hpVec
			if err := json.Unmarshal(vecs[i], &v); err != nil {
				x.Log(trace.E{"ev": "badvector", "msg": err.Error()})
				continue
			}
			d.doVec(&v)
		}
	case "ops":
		d.doOps(sc.H, sc.Ops)
	case "rand":
		r := rand.New(rand.NewSource(sc.RSeed))
		for i := 0; i < sc.N; i++ {
			d.doRandom(r)
		}
	default:
		x.Log(trace.E{"ev": "badvector", "msg": "unknown scenario kind " + sc.Kind})
	}
	return out
}
