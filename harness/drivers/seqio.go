//go:build drv_seqio || drv_all

package drivers

import (
	"encoding/json"
	"errors"
	"fmt"
	"io"
	"math/rand"
	"sort"
	"strconv"
	"strings"
	"sync"

	"verifharness/sched"
	"verifharness/trace"

	"github.com/aperturerobotics/util/iocloser"
	"github.com/aperturerobotics/util/ioproxy"
	"github.com/aperturerobotics/util/ioseek"
	"github.com/aperturerobotics/util/iosizer"
	"github.com/aperturerobotics/util/unique"
)

// Driver of the seqio family (C20).  One execution exercises one object:
//
//	seek     ioseek.ReaderAtSeeker      ops [[0,offset,whence] | [1,len,mode]]            (sequential)
//	sizer    iosizer.SizeReadWriter     ops [[0|1,len,k,e] | [2,0,0,0]]                   (sequential)
//	klist    unique.KeyedList           uops [{op,vals|keys}]                             (sequential)
//	kmap     unique.KeyedMap
//	rcloser  iocloser.ReadCloser        prog per client [[0,len] | [1,0]], schedule labels call:cN / grant:cN
//	wcloser  iocloser.WriteCloser
//	proxy    ioproxy.ProxyStreams       feed / wscript, schedule labels feed:S / io:P:read|write|close
//
// Wrapped streams are harness-owned and scripted; every call that reaches them is logged.

type sqItem struct {
	D []int `json:"d"`
	E int   `json:"e"`
}

type sqUop struct {
	Op   string  `json:"op"`
	Vals [][]int `json:"vals"`
	Keys []int   `json:"keys"`
}

type sqScenario struct {
	Kind      string    `json:"kind"`
	Data      []int     `json:"data,omitempty"`
	Ops       [][]int   `json:"ops,omitempty"`
	NilR      bool      `json:"nilr,omitempty"`
	NilW      bool      `json:"nilw,omitempty"`
	Init      [][]int   `json:"init,omitempty"`
	Uops      []sqUop   `json:"uops,omitempty"`
	NilStream bool      `json:"nilstream,omitempty"`
	NilClose  bool      `json:"nilclose,omitempty"`
	CloseErr  bool      `json:"closeerr,omitempty"`
	Script    [][]int   `json:"script,omitempty"`
	Prog      [][][]int `json:"prog,omitempty"`
	NilCb     bool      `json:"nilcb,omitempty"`
	// proxy: what Close of stream 1 / 2 returns: 0 nil, 1 an error from the first call only, 2 an error
	// from every call (the stream counts as closed in every case; ProxyStreams ignores the result)
	PxCloseErr []int      `json:"pxcloseerr,omitempty"`
	Feed       [][]sqItem `json:"feed,omitempty"`
	WScript    [][][]int  `json:"wscript,omitempty"`
}

type seqioDriver struct {
	x  *sched.Exec
	mu sync.Mutex
}

func init() { Register("seqio", func() Driver { return &seqioDriver{} }) }

var errBoom = errors.New("boom")
var errSqClosed = errors.New("closed")

func sqErrOf(e int) error {
	switch e {
	case 1:
		return io.EOF
	case 2:
		return errBoom
	}
	return nil
}

func sqErrClass(err error) string {
	switch {
	case err == nil:
		return ""
	case err == io.EOF:
		return "EOF"
	case err == errBoom:
		return "boom"
	case err == errSqClosed:
		return "closed"
	}
	s := err.Error()
	if len(s) > 60 {
		s = s[:60]
	}
	if s == "" || s == "EOF" || s == "boom" {
		s = "err:" + s
	}
	return s
}

func sqInts(b []byte) []int {
	out := make([]int, len(b))
	for i, v := range b {
		out[i] = int(v)
	}
	return out
}

func sqBytes(v []int) []byte {
	out := make([]byte, len(v))
	for i, x := range v {
		out[i] = byte(x)
	}
	return out
}

func sqClamp(v int64) int {
	const lim = 1 << 30
	if v > lim {
		return lim
	}
	if v < -lim {
		return -lim
	}
	return int(v)
}

func sqCatch(f func()) (msg string) {
	defer func() {
		if r := recover(); r != nil {
			msg = fmt.Sprint(r)
			if len(msg) > 100 {
				msg = msg[:100]
			}
			if msg == "" {
				msg = "panic"
			}
		}
	}()
	f()
	return ""
}

var sqAlphabet = []byte{128, 195, 255, 0, 97}

// ------------------------------------------------------------------------------------ ioseek

type sqReaderAt struct {
	d    *seqioDriver
	data []byte
	mode int
}

func (r *sqReaderAt) ReadAt(p []byte, off int64) (int, error) {
	size := int64(len(r.data))
	avail := int64(0)
	if off >= 0 && off < size {
		avail = size - off
	}
	full := int64(len(p))
	if full > avail {
		full = avail
	}
	short := int64(0)
	if full >= 1 {
		short = full - 1
	}
	var n int64
	var err error
	switch r.mode {
	case 1:
		n = short
	case 2:
		n, err = short, errBoom
	case 3:
		n, err = 0, errBoom
	case 4:
		n, err = full, errBoom
	default:
		n = full
		if off < 0 || off >= size || full < int64(len(p)) {
			err = io.EOF
		}
	}
	if n > 0 {
		copy(p, r.data[off:off+n])
	}
	r.d.x.Log(trace.E{"ev": "wrapped", "off": sqClamp(off), "len": len(p), "n": int(n), "err": sqErrClass(err)})
	return int(n), err
}

func (d *seqioDriver) runSeek(sc *sqScenario) {
	x := d.x
	data := sqBytes(sc.Data)
	ra := &sqReaderAt{d: d, data: data}
	x.Log(trace.E{"ev": "new", "h": "seek", "data": sqInts(data)})
	rs := ioseek.NewReaderAtSeeker(ra, int64(len(data)))
	ops := append(append([][]int{}, sc.Ops...), []int{0, 0, 1}) // final probe: Seek(0, current)
	for _, op := range ops {
		if len(op) < 3 {
			continue
		}
		if op[0] == 0 {
			x.Log(trace.E{"ev": "call", "op": "seek", "o": op[1], "w": op[2]})
			var pos int64
			var err error
			msg := sqCatch(func() { pos, err = rs.Seek(int64(op[1]), op[2]) })
			res := "ok"
			if msg != "" {
				res = "panic"
			}
			x.Log(trace.E{"ev": "ret", "res": res, "pos": sqClamp(pos), "err": sqErrClass(err), "msg": msg})
		} else {
			n := op[1]
			if n < 0 {
				n = 0
			}
			x.Log(trace.E{"ev": "call", "op": "read", "n": n})
			ra.mode = op[2]
			p := make([]byte, n)
			var cnt int
			var err error
			msg := sqCatch(func() { cnt, err = rs.Read(p) })
			res := "ok"
			if msg != "" {
				res, cnt = "panic", 0
			}
			got := []int{}
			if cnt >= 0 && cnt <= n {
				got = sqInts(p[:cnt])
			}
			x.Log(trace.E{"ev": "ret", "res": res, "n": cnt, "err": sqErrClass(err), "data": got, "msg": msg})
		}
	}
}

// ------------------------------------------------------------------------------------ iosizer

type sqScripted struct {
	d  *seqioDriver
	op string
	k  int
	e  int
}

func (s *sqScripted) do(p []byte) (int, error) {
	n := s.k
	if n > len(p) {
		n = len(p)
	}
	if n < 0 {
		n = 0
	}
	err := sqErrOf(s.e)
	s.d.x.Log(trace.E{"ev": "wrapped", "op": s.op, "n": len(p), "rn": n, "err": sqErrClass(err)})
	return n, err
}
func (s *sqScripted) Read(p []byte) (int, error)  { return s.do(p) }
func (s *sqScripted) Write(p []byte) (int, error) { return s.do(p) }

func (d *seqioDriver) runSizer(sc *sqScenario) {
	x := d.x
	rs, ws := &sqScripted{d: d, op: "read"}, &sqScripted{d: d, op: "write"}
	var r io.Reader
	var w io.Writer
	if !sc.NilR {
		r = rs
	}
	if !sc.NilW {
		w = ws
	}
	x.Log(trace.E{"ev": "new", "h": "sizer", "nilr": sc.NilR, "nilw": sc.NilW})
	s := iosizer.NewSizeReadWriter(r, w)
	ops := append(append([][]int{}, sc.Ops...), []int{2, 0, 0, 0}) // final probe
	for _, op := range ops {
		if len(op) < 4 {
			continue
		}
		switch op[0] {
		case 0, 1:
			name := "read"
			st := rs
			if op[0] == 1 {
				name, st = "write", ws
			}
			st.k, st.e = op[2], op[3]
			n := op[1]
			if n < 0 {
				n = 0
			}
			x.Log(trace.E{"ev": "call", "op": name, "n": n})
			p := make([]byte, n)
			var cnt int
			var err error
			msg := sqCatch(func() {
				if op[0] == 0 {
					cnt, err = s.Read(p)
				} else {
					cnt, err = s.Write(p)
				}
			})
			res := "ok"
			if msg != "" {
				res, cnt = "panic", 0
			}
			x.Log(trace.E{"ev": "ret", "res": res, "n": cnt, "err": sqErrClass(err), "msg": msg})
		default:
			x.Log(trace.E{"ev": "call", "op": "total", "n": 0})
			var tot uint64
			msg := sqCatch(func() { tot = s.TotalSize() })
			res := "ok"
			if msg != "" {
				res = "panic"
			}
			x.Log(trace.E{"ev": "ret", "res": res, "total": sqClamp(int64(tot)), "msg": msg})
		}
	}
}

// ------------------------------------------------------------------------------------ unique

type sqVal struct{ K, C, T int }

func sqVals(vs [][]int) []sqVal {
	out := make([]sqVal, 0, len(vs))
	for _, v := range vs {
		if len(v) >= 3 {
			out = append(out, sqVal{v[0], v[1], v[2]})
		}
	}
	return out
}

func (d *seqioDriver) runUnique(sc *sqScenario) {
	x := d.x
	isMap := sc.Kind == "kmap"
	cmp := func(k int, a, b sqVal) bool { return a.C == b.C }
	changed := func(k int, v sqVal, added, removed bool) {
		x.Log(trace.E{"ev": "notify", "k": k, "c": v.C, "g": v.T, "added": added, "removed": removed})
	}
	init := sqVals(sc.Init)
	initI := make([][]int, 0, len(init))
	for _, v := range init {
		initI = append(initI, []int{v.K, v.C, v.T})
	}
	x.Log(trace.E{"ev": "new", "h": sc.Kind, "init": initI})
	var kl *unique.KeyedList[int, sqVal]
	var km *unique.KeyedMap[int, sqVal]
	if isMap {
		m := map[int]sqVal{}
		for _, v := range init {
			m[v.K] = v
		}
		km = unique.NewKeyedMap[int, sqVal](cmp, changed, m)
	} else {
		kl = unique.NewKeyedList[int, sqVal](func(v sqVal) int { return v.K }, cmp, changed, init)
	}
	toMap := func(vs []sqVal) map[int]sqVal {
		m := map[int]sqVal{}
		for _, v := range vs {
			m[v.K] = v
		}
		return m
	}
	for _, op := range sc.Uops {
		vals := sqVals(op.Vals)
		valsI := make([][]int, 0, len(vals))
		for _, v := range vals {
			valsI = append(valsI, []int{v.K, v.C, v.T})
		}
		keys := append([]int{}, op.Keys...)
		if isMap && op.Op == "rmvals" {
			continue
		}
		if op.Op == "rmkeys" {
			x.Log(trace.E{"ev": "call", "op": op.Op, "keys": keys})
		} else {
			x.Log(trace.E{"ev": "call", "op": op.Op, "vals": valsI})
		}
		var gotV []sqVal
		var gotK []int
		msg := sqCatch(func() {
			switch {
			case op.Op == "set" && isMap:
				km.SetValues(toMap(vals))
			case op.Op == "set":
				kl.SetValues(vals...)
			case op.Op == "append" && isMap:
				km.AppendValues(toMap(vals))
			case op.Op == "append":
				kl.AppendValues(vals...)
			case op.Op == "rmvals":
				kl.RemoveValues(vals...)
			case op.Op == "rmkeys" && isMap:
				km.RemoveKeys(keys...)
			case op.Op == "rmkeys":
				kl.RemoveKeys(keys...)
			}
			if isMap {
				gotV, gotK = km.GetValues(), km.GetKeys()
			} else {
				gotV, gotK = kl.GetValues(), kl.GetKeys()
			}
		})
		res := "ok"
		if msg != "" {
			res = "panic"
		}
		sort.Slice(gotV, func(i, j int) bool {
			a, b := gotV[i], gotV[j]
			if a.K != b.K {
				return a.K < b.K
			}
			if a.C != b.C {
				return a.C < b.C
			}
			return a.T < b.T
		})
		sort.Ints(gotK)
		cont := make([][]int, 0, len(gotV))
		for _, v := range gotV {
			cont = append(cont, []int{v.K, v.C, v.T})
		}
		x.Log(trace.E{"ev": "ret", "res": res, "contents": cont, "keys": append([]int{}, gotK...), "msg": msg})
	}
}

// ------------------------------------------------------------------------------------ iocloser

type sqCloserStream struct {
	d      *seqioDriver
	read   bool
	script [][]int
	calls  int
	pos    int
	cur    map[string]int // actor name -> id of the call in flight
}

func (s *sqCloserStream) do(p []byte) (int, error) {
	d := s.d
	id := -1
	name := d.x.Self().Name
	d.mu.Lock()
	if v, ok := s.cur[name]; ok {
		id = v
	}
	k, e := -1, 0
	if len(s.script) > 0 {
		i := s.calls
		if i >= len(s.script) {
			i = len(s.script) - 1
		}
		k, e = s.script[i][0], s.script[i][1]
	}
	s.calls++
	if k < 0 || k > len(p) {
		k = len(p)
	}
	var data []int
	if s.read {
		for i := 0; i < k; i++ {
			p[i] = sqAlphabet[(s.pos+i)%len(sqAlphabet)]
		}
		data = sqInts(p[:k])
	} else {
		data = sqInts(p)
	}
	s.pos += k
	d.mu.Unlock()
	err := sqErrOf(e)
	d.x.Log(trace.E{"ev": "wrapped", "id": id, "n": len(p), "rn": k, "err": sqErrClass(err), "data": data})
	return k, err
}
func (s *sqCloserStream) Read(p []byte) (int, error)  { return s.do(p) }
func (s *sqCloserStream) Write(p []byte) (int, error) { return s.do(p) }

func (d *seqioDriver) runCloser(sc *sqScenario) {
	x := d.x
	isRead := sc.Kind == "rcloser"
	st := &sqCloserStream{d: d, read: isRead, script: sc.Script, cur: map[string]int{}}
	curClose := map[string]int{}
	var closeFn func() error
	if !sc.NilClose {
		closeFn = func() error {
			name := x.Self().Name
			d.mu.Lock()
			id, ok := curClose[name]
			if !ok {
				id = -1
			}
			d.mu.Unlock()
			x.Log(trace.E{"ev": "closefn", "id": id})
			if sc.CloseErr {
				return errBoom
			}
			return nil
		}
	}
	var rc *iocloser.ReadCloser
	var wc *iocloser.WriteCloser
	x.Log(trace.E{"ev": "new", "h": sc.Kind, "nilstream": sc.NilStream, "nilclose": sc.NilClose})
	if isRead {
		var r io.Reader
		if !sc.NilStream {
			r = st
		}
		rc = iocloser.NewReadCloser(r, closeFn)
	} else {
		var w io.Writer
		if !sc.NilStream {
			w = st
		}
		wc = iocloser.NewWriteCloser(w, closeFn)
	}
	nextID := 0
	for ci, prog := range sc.Prog {
		ci := ci
		c := x.NewClient(fmt.Sprintf("c%d", ci+1))
		for oi, op := range prog {
			oi, op := oi, op
			if len(op) < 2 {
				continue
			}
			c.Prog = append(c.Prog, sched.Op{Label: "call:" + c.Name, Do: func() {
				d.mu.Lock()
				nextID++
				id := nextID
				if op[0] == 1 {
					curClose[c.Name] = id
				} else {
					st.cur[c.Name] = id
				}
				d.mu.Unlock()
				if op[0] == 1 {
					x.Log(trace.E{"ev": "call", "id": id, "op": "close", "n": 0, "data": []int{}, "actor": c.Name})
					var err error
					msg := sqCatch(func() {
						if isRead {
							err = rc.Close()
						} else {
							err = wc.Close()
						}
					})
					res := "ok"
					if msg != "" {
						res = "panic"
					}
					x.Log(trace.E{"ev": "ret", "id": id, "op": "close", "res": res, "n": 0, "err": sqErrClass(err), "data": []int{}, "msg": msg, "actor": c.Name})
					return
				}
				n := op[1]
				if n < 0 {
					n = 0
				}
				p := make([]byte, n)
				name := "read"
				wdata := []int{}
				if !isRead {
					name = "write"
					for i := range p {
						p[i] = sqAlphabet[((ci+1)*3+(oi+1)+(i+1))%len(sqAlphabet)]
					}
					wdata = sqInts(p)
				}
				x.Log(trace.E{"ev": "call", "id": id, "op": name, "n": n, "data": wdata, "actor": c.Name})
				var cnt int
				var err error
				msg := sqCatch(func() {
					if isRead {
						cnt, err = rc.Read(p)
					} else {
						cnt, err = wc.Write(p)
					}
				})
				res := "ok"
				if msg != "" {
					res, cnt = "panic", 0
				}
				got := []int{}
				if isRead && cnt >= 0 && cnt <= n {
					got = sqInts(p[:cnt])
				}
				x.Log(trace.E{"ev": "ret", "id": id, "op": name, "res": res, "n": cnt, "err": sqErrClass(err), "data": got, "msg": msg, "actor": c.Name})
			}})
		}
	}
	moves := func() []sched.Move {
		return append(x.GrantMoves(), x.ClientMoves()...)
	}
	x.Loop(moves, nil, 200)
	for _, c := range x.Clients {
		c.Prog = nil
	}
	x.Drain()
}

// ------------------------------------------------------------------------------------ ioproxy

type sqPark struct {
	p     *sched.Park
	label string
	kind  string // read | write | close
	s     int
}

type sqProxy struct {
	d       *seqioDriver
	inq     [3][]sqItem
	closed  [3]bool
	wcnt    [3]int
	wscript [3][][]int
	cerr    [3]int
	ncl     [3]int
	fed     [3]int
	parks   []*sqPark
	pumpOf  map[string]int
	over    bool
}

type sqStream struct {
	px *sqProxy
	s  int
}

func (px *sqProxy) park(kind string, s int) bool {
	d := px.d
	name := d.x.Self().Name
	d.mu.Lock()
	if px.over {
		d.mu.Unlock()
		return false
	}
	pump := s
	switch kind {
	case "read":
		px.pumpOf[name] = s
	case "write":
		pump = 3 - s
	default:
		if v, ok := px.pumpOf[name]; ok {
			pump = v
		}
	}
	label := fmt.Sprintf("io:%d:%s", pump, kind)
	d.mu.Unlock()
	v := d.x.ParkUser(label, func(p *sched.Park) {
		d.mu.Lock()
		px.parks = append(px.parks, &sqPark{p: p, label: label, kind: kind, s: s})
		d.mu.Unlock()
	})
	d.mu.Lock()
	defer d.mu.Unlock()
	return v != nil && !px.over
}

func (st *sqStream) Read(p []byte) (int, error) {
	px, d, s := st.px, st.px.d, st.s
	if !px.park("read", s) {
		return 0, errSqClosed
	}
	d.mu.Lock()
	if px.closed[s] || len(px.inq[s]) == 0 {
		d.mu.Unlock()
		d.x.Log(trace.E{"ev": "sread", "s": s, "res": "err", "data": []int{}})
		return 0, errSqClosed
	}
	it := px.inq[s][0]
	n := len(it.D)
	e := it.E
	if n > len(p) { // the chunk is larger than the pump's buffer: deliver a part, keep the rest
		n = len(p)
		px.inq[s][0] = sqItem{D: it.D[n:], E: it.E}
		e = 0
	} else {
		px.inq[s] = px.inq[s][1:]
	}
	copy(p, sqBytes(it.D[:n]))
	d.mu.Unlock()
	res := "data"
	if e == 1 {
		res = "eof"
	} else if e != 0 {
		res = "err"
	}
	d.x.Log(trace.E{"ev": "sread", "s": s, "res": res, "data": append([]int{}, it.D[:n]...)})
	return n, sqErrOf(e)
}

func (st *sqStream) Write(p []byte) (int, error) {
	px, d, s := st.px, st.px.d, st.s
	if !px.park("write", s) {
		return 0, errSqClosed
	}
	d.mu.Lock()
	var n int
	var err error
	if px.closed[s] {
		n, err = 0, errSqClosed
	} else {
		k, e := -1, 0
		if sc := px.wscript[s]; len(sc) > 0 {
			i := px.wcnt[s]
			if i >= len(sc) {
				i = len(sc) - 1
			}
			k, e = sc[i][0], sc[i][1]
		}
		px.wcnt[s]++
		if k < 0 || k > len(p) {
			k = len(p)
		}
		n, err = k, sqErrOf(e)
	}
	d.mu.Unlock()
	d.x.Log(trace.E{"ev": "swrite", "s": s, "data": sqInts(p), "n": n, "err": sqErrClass(err)})
	return n, err
}

func (st *sqStream) Close() error {
	px, d, s := st.px, st.px.d, st.s
	if !px.park("close", s) {
		return nil
	}
	d.mu.Lock()
	px.closed[s] = true
	px.ncl[s]++
	fail := px.cerr[s] == 2 || (px.cerr[s] == 1 && px.ncl[s] == 1)
	d.mu.Unlock()
	d.x.Log(trace.E{"ev": "sclose", "s": s, "err": fail})
	if fail {
		return errSqClosed
	}
	return nil
}

func (d *seqioDriver) runProxy(sc *sqScenario) {
	x := d.x
	px := &sqProxy{d: d, pumpOf: map[string]int{}}
	feed := [3][]sqItem{}
	for s := 1; s <= 2; s++ {
		if len(sc.Feed) >= s {
			for _, it := range sc.Feed[s-1] {
				if it.D == nil {
					it.D = []int{}
				}
				if len(it.D) == 0 && it.E == 0 {
					continue // a Read returning (0, nil) is not modelled
				}
				feed[s] = append(feed[s], it)
			}
		}
		if len(sc.WScript) >= s {
			px.wscript[s] = sc.WScript[s-1]
		}
		if len(sc.PxCloseErr) >= s {
			px.cerr[s] = sc.PxCloseErr[s-1]
		}
	}
	x.Log(trace.E{"ev": "new", "h": "proxy", "nilcb": sc.NilCb})
	var cb func()
	if !sc.NilCb {
		cb = func() {
			d.mu.Lock()
			over := px.over
			d.mu.Unlock()
			if !over {
				x.Log(trace.E{"ev": "cb"})
			}
		}
	}
	ioproxy.ProxyStreams(&sqStream{px, 1}, &sqStream{px, 2}, cb)
	moves := func() []sched.Move {
		var ms []sched.Move
		for s := 1; s <= 2; s++ {
			s := s
			if px.fed[s] < len(feed[s]) {
				ms = append(ms, sched.Move{Label: fmt.Sprintf("feed:%d", s), Do: func() {
					d.mu.Lock()
					px.inq[s] = append(px.inq[s], feed[s][px.fed[s]])
					px.fed[s]++
					d.mu.Unlock()
				}})
			}
		}
		d.mu.Lock()
		live := px.parks[:0]
		for _, pk := range px.parks {
			if pk.p.Active() {
				live = append(live, pk)
			}
		}
		px.parks = live
		for _, pk := range px.parks {
			pk := pk
			if pk.kind == "read" && !px.closed[pk.s] && len(px.inq[pk.s]) == 0 {
				continue // the Read stays blocked until data arrives or the stream is closed
			}
			ms = append(ms, sched.Move{Label: pk.label, Actor: pk.p.Actor().Name, Do: func() { x.Resume(pk.p, true) }})
		}
		d.mu.Unlock()
		return ms
	}
	x.Loop(moves, nil, 400)
	if len(moves()) == 0 {
		x.Log(trace.E{"ev": "final"})
	}
	// teardown: every stream operation returns at once from now on
	d.mu.Lock()
	px.over = true
	d.mu.Unlock()
	for i := 0; i < 8; i++ {
		ps := x.UserParks()
		if len(ps) == 0 {
			break
		}
		for _, p := range ps {
			x.Resume(p, nil)
		}
		x.Drain()
	}
	x.Drain()
}

// ------------------------------------------------------------------------------------ random scenarios

func sqRandBytes(r *rand.Rand, n int) []int {
	out := make([]int, n)
	for i := range out {
		if r.Intn(3) == 0 {
			out[i] = int(sqAlphabet[r.Intn(len(sqAlphabet))])
		} else {
			out[i] = r.Intn(256)
		}
	}
	return out
}

func sqRandScript(r *rand.Rand) [][]int {
	n := 1 + r.Intn(4)
	out := make([][]int, n)
	for i := range out {
		k := -1
		if r.Intn(3) == 0 {
			k = r.Intn(4)
		}
		e := 0
		if r.Intn(4) == 0 {
			e = 1 + r.Intn(2)
		}
		out[i] = []int{k, e}
	}
	return out
}

func genSeqio(r *rand.Rand) sqScenario {
	switch r.Intn(7) {
	case 0:
		size := r.Intn(12)
		if r.Intn(6) == 0 {
			size = r.Intn(60)
		}
		sc := sqScenario{Kind: "seek", Data: sqRandBytes(r, size)}
		for i, n := 0, 1+r.Intn(12); i < n; i++ {
			if r.Intn(2) == 0 {
				o := r.Intn(2*size+7) - size - 3
				if r.Intn(12) == 0 {
					o = r.Intn(2000001) - 1000000
				}
				w := r.Intn(3)
				if r.Intn(10) == 0 {
					w = []int{3, -1, 7}[r.Intn(3)]
				}
				sc.Ops = append(sc.Ops, []int{0, o, w})
			} else {
				n := []int{0, 1, 2, 3, size, size + 1, size + 5, r.Intn(64)}[r.Intn(8)]
				m := 0
				if r.Intn(3) == 0 {
					m = r.Intn(5)
				}
				sc.Ops = append(sc.Ops, []int{1, n, m})
			}
		}
		return sc
	case 1:
		sc := sqScenario{Kind: "sizer", NilR: r.Intn(8) == 0, NilW: r.Intn(8) == 0}
		for i, n := 0, 1+r.Intn(12); i < n; i++ {
			if r.Intn(5) == 0 {
				sc.Ops = append(sc.Ops, []int{2, 0, 0, 0})
				continue
			}
			l := r.Intn(9)
			if r.Intn(10) == 0 {
				l = r.Intn(5000)
			}
			k := l
			if r.Intn(3) == 0 {
				k = r.Intn(l + 1)
			}
			e := 0
			if r.Intn(4) == 0 {
				e = 1 + r.Intn(2)
			}
			sc.Ops = append(sc.Ops, []int{r.Intn(2), l, k, e})
		}
		return sc
	case 2, 3:
		sc := sqScenario{Kind: "klist"}
		if r.Intn(2) == 0 {
			sc.Kind = "kmap"
		}
		isMap := sc.Kind == "kmap"
		nk := 2 + r.Intn(4)
		val := func() []int { return []int{1 + r.Intn(nk), 1 + r.Intn(3), 1 + r.Intn(3)} }
		list := func(max int) [][]int {
			n := r.Intn(max + 1)
			out := [][]int{}
			seen := map[int]bool{}
			for i := 0; i < n; i++ {
				v := val()
				if isMap && seen[v[0]] {
					continue
				}
				seen[v[0]] = true
				out = append(out, v)
				if !isMap && r.Intn(4) == 0 { // duplicate key right away: identical, cmp-equal or different
					w := []int{v[0], v[1], v[2]}
					switch r.Intn(3) {
					case 1:
						w[2] = 1 + r.Intn(3)
					case 2:
						w[1] = 1 + r.Intn(3)
					}
					out = append(out, w)
				}
			}
			return out
		}
		seen := map[int]bool{}
		for _, v := range list(3) {
			if !seen[v[0]] {
				seen[v[0]] = true
				sc.Init = append(sc.Init, v)
			}
		}
		sc.Uops = []sqUop{}
		for i, n := 0, 1+r.Intn(10); i < n; i++ {
			switch k := r.Intn(8); {
			case k < 3:
				sc.Uops = append(sc.Uops, sqUop{Op: "set", Vals: list(6), Keys: []int{}})
			case k < 5:
				sc.Uops = append(sc.Uops, sqUop{Op: "append", Vals: list(5), Keys: []int{}})
			case k < 6 && !isMap:
				sc.Uops = append(sc.Uops, sqUop{Op: "rmvals", Vals: list(4), Keys: []int{}})
			default:
				ks := []int{}
				for j, m := 0, r.Intn(4); j < m; j++ {
					ks = append(ks, 1+r.Intn(nk+1))
				}
				sc.Uops = append(sc.Uops, sqUop{Op: "rmkeys", Vals: [][]int{}, Keys: ks})
			}
		}
		return sc
	case 4, 5:
		sc := sqScenario{Kind: "rcloser", NilStream: r.Intn(12) == 0, NilClose: r.Intn(10) == 0, CloseErr: r.Intn(4) == 0, Script: sqRandScript(r)}
		if r.Intn(2) == 0 {
			sc.Kind = "wcloser"
		}
		for c, nc := 0, 1+r.Intn(3); c < nc; c++ {
			prog := [][]int{}
			for i, n := 0, 1+r.Intn(4); i < n; i++ {
				if r.Intn(3) == 0 {
					prog = append(prog, []int{1, 0})
				} else {
					prog = append(prog, []int{0, r.Intn(5)})
				}
			}
			sc.Prog = append(sc.Prog, prog)
		}
		return sc
	default:
		sc := sqScenario{Kind: "proxy", NilCb: r.Intn(8) == 0}
		if r.Intn(3) == 0 {
			sc.PxCloseErr = []int{r.Intn(3), r.Intn(3)}
		}
		for s := 0; s < 2; s++ {
			items := []sqItem{}
			for i, n := 0, r.Intn(4); i < n; i++ {
				l := 1 + r.Intn(4)
				if r.Intn(40) == 0 {
					l = 8190 + r.Intn(900)
				}
				e := 0
				if r.Intn(6) == 0 {
					e = 1 + r.Intn(2)
				}
				items = append(items, sqItem{D: sqRandBytes(r, l), E: e})
			}
			if r.Intn(3) != 0 || s == 0 {
				if r.Intn(2) == 0 {
					items = append(items, sqItem{D: []int{}, E: 1 + r.Intn(2)})
				}
			}
			sc.Feed = append(sc.Feed, items)
			ws := [][]int{{-1, 0}}
			if r.Intn(4) == 0 {
				ws = sqRandScript(r)
			}
			sc.WScript = append(sc.WScript, ws)
		}
		if r.Intn(3) != 0 && len(sc.Feed[0])+len(sc.Feed[1]) > 0 {
			// make sure most runs terminate: the last item of one side ends the stream
			s := r.Intn(2)
			if len(sc.Feed[s]) == 0 {
				s = 1 - s
			}
			sc.Feed[s][len(sc.Feed[s])-1].E = 1 + r.Intn(2)
		}
		return sc
	}
}

// sqSalt is taken from -opt salt=<n>: extra harness runs of the thorough tier draw different scenarios.
func sqSalt() int64 {
	for _, kv := range strings.Split(Opt, ",") {
		if strings.HasPrefix(kv, "salt=") {
			v, _ := strconv.ParseInt(kv[5:], 10, 64)
			return v * 0x9E3779B97F4A7C
		}
	}
	return 0
}

// normalize replaces nil slices by empty ones: the trace must not contain JSON null.
func (sc *sqScenario) normalize() {
	for i := range sc.Ops {
		if sc.Ops[i] == nil {
			sc.Ops[i] = []int{}
		}
	}
	for i := range sc.Init {
		if sc.Init[i] == nil {
			sc.Init[i] = []int{}
		}
	}
	for i := range sc.Uops {
		u := &sc.Uops[i]
		if u.Vals == nil {
			u.Vals = [][]int{}
		}
		for j := range u.Vals {
			if u.Vals[j] == nil {
				u.Vals[j] = []int{}
			}
		}
		if u.Keys == nil {
			u.Keys = []int{}
		}
	}
	for i := range sc.Script {
		if len(sc.Script[i]) < 2 {
			sc.Script[i] = []int{-1, 0}
		}
	}
	for i := range sc.Prog {
		if sc.Prog[i] == nil {
			sc.Prog[i] = [][]int{}
		}
		for j := range sc.Prog[i] {
			if sc.Prog[i][j] == nil {
				sc.Prog[i][j] = []int{}
			}
		}
	}
	for i := range sc.Feed {
		if sc.Feed[i] == nil {
			sc.Feed[i] = []sqItem{}
		}
		for j := range sc.Feed[i] {
			if sc.Feed[i][j].D == nil {
				sc.Feed[i][j].D = []int{}
			}
		}
	}
	for i := range sc.WScript {
		if sc.WScript[i] == nil {
			sc.WScript[i] = [][]int{}
		}
		for j := range sc.WScript[i] {
			if len(sc.WScript[i][j]) < 2 {
				sc.WScript[i][j] = []int{-1, 0}
			}
		}
	}
}

func (d *seqioDriver) Run(x *sched.Exec, raw json.RawMessage) json.RawMessage {
	d.x = x
	var sc sqScenario
	if raw != nil {
		if err := json.Unmarshal(raw, &sc); err != nil {
			panic(err)
		}
	} else {
		sc = genSeqio(rand.New(rand.NewSource(x.Rng.Int63() ^ sqSalt())))
	}
	sc.normalize()
	out, _ := json.Marshal(sc)
	switch sc.Kind {
	case "seek":
		d.runSeek(&sc)
	case "sizer":
		d.runSizer(&sc)
	case "klist", "kmap":
		d.runUnique(&sc)
	case "rcloser", "wcloser":
		d.runCloser(&sc)
	case "proxy":
		d.runProxy(&sc)
	default:
		x.Log(trace.E{"ev": "badscenario", "kind": sc.Kind})
	}
	return out
}
