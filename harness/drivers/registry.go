// Package drivers holds one driver per component: the mapping from move labels to operations
// on the real library, the harness-owned callbacks and the probes (DESIGN §2.1).
package drivers

import (
	"encoding/json"

	"verifharness/sched"
)

// Driver runs one controlled execution inside a synctest bubble.
type Driver interface {
	// Run executes scenario sc (nil: generate one from x.Rng) following x.Sched where possible.
	// It returns the scenario it used (for replay files).
	Run(x *sched.Exec, sc json.RawMessage) json.RawMessage
}

// Opt is a free-form option string for the selected driver.
var Opt string

var registry = map[string]func() Driver{}

// Register adds a driver constructor.
func Register(name string, f func() Driver) { registry[name] = f }

// Get returns a driver by name.
func Get(name string) Driver {
	f := registry[name]
	if f == nil {
		return nil
	}
	return f()
}

// Names lists registered drivers.
func Names() []string {
	var out []string
	for k := range registry {
		out = append(out, k)
	}
	return out
}
