//go:build drv_once || drv_all

package drivers

import (
	"context"
	"encoding/json"
	"fmt"
	"runtime"
	"sort"
	"strings"
	"sync"
	"sync/atomic"
	"testing/synctest"

	"verifharness/sched"
	"verifharness/trace"

	"github.com/aperturerobotics/util/memo"
	"github.com/aperturerobotics/util/promise"
)

// onOp is one client operation of a once scenario (C16): "resolve" (Once.Resolve with its own
// context; c: the scenario may cancel it) or "call" (the memoized function).
//
// tc (resolve; generated scenarios only, absent in the scenario files shared with the X spec): right
// after this Resolve has returned the SAME client goroutine cancels the context of the Resolve that
// client tc has in flight ("first result wins, cancel the others"). When both were woken by the same
// close of the done channel, the other caller runs only afterwards: it comes out of its select through
// the result channel with its context already cancelled. No controller move can order the two that way
// (a combined "grant & cancel" step cancels before the granted goroutine runs).
type onOp struct {
	Op string `json:"op"`
	C  bool   `json:"c"`
	Tc int    `json:"tc,omitempty"`
}

// onScenario: kind once|memo; the wrapped function is harness-owned: it parks and the
// controller chooses its outcome among outs (ok | ok0 = zero value, nil | err | ctxerr = return ctx.Err() once the
// context it was called with is cancelled; "late success" is ok chosen after that
// cancellation). Function call number maxcalls can only succeed.
type onScenario struct {
	Kind     string   `json:"kind"`
	MaxCalls int      `json:"maxcalls"`
	Outs     []string `json:"outs"`
	Clients  [][]onOp `json:"clients"`
	// M2 (memo only): every client calls the memoized function at once, free-running in parallel on
	// several Ps (no park points: the window between memo's load and store of its flag has no hook);
	// the function returns burstout at once
	Burst    bool   `json:"burst,omitempty"`
	BurstOut string `json:"burstout,omitempty"`
}

// onErr is the error of function call K.
type onErr struct{ K int }

func (e *onErr) Error() string { return fmt.Sprintf("E%d", e.K) }

type onClient struct {
	c        *sched.Client
	idx      int // client index (X spec caller idx+1)
	xid      int // id of the call in flight in the X specs: (idx+1)*100 + program index+1
	inflight int
	op       onOp
	cancel   context.CancelFunc
	canc     bool
}

type onFn struct {
	k    int
	ctx  context.Context // nil for memo
	park *sched.Park
}

type onDriver struct {
	x      *sched.Exec
	sc     onScenario
	once   *promise.Once[int]
	memo   func() (int, error)
	cl     []*onClient
	nextID int
	calls  int
	fns    []*onFn
	lastQ  string
	mu     sync.Mutex // burst mode: guards nextID, calls
	ready  atomic.Int32
}

func init() { Register("once", func() Driver { return &onDriver{} }) }

func genOnce(x *sched.Exec) onScenario {
	r := x.Rng
	if strings.Contains(Opt, "burst") {
		sc := onScenario{Kind: "memo", MaxCalls: 1, Outs: []string{"ok", "err"}, Burst: true, BurstOut: []string{"ok", "err"}[r.Intn(2)]}
		for i, n := 0, 3+r.Intn(4); i < n; i++ {
			sc.Clients = append(sc.Clients, []onOp{{Op: "call"}})
		}
		return sc
	}
	if r.Intn(5) == 0 {
		sc := onScenario{Kind: "memo", MaxCalls: 1, Outs: []string{"ok", "err"}}
		n := 2 + r.Intn(3)
		for i := 0; i < n; i++ {
			prog := []onOp{{Op: "call"}}
			if r.Intn(3) == 0 {
				prog = append(prog, onOp{Op: "call"})
			}
			sc.Clients = append(sc.Clients, prog)
		}
		return sc
	}
	sc := onScenario{Kind: "once", MaxCalls: 2 + r.Intn(3), Outs: []string{"ok", "err", "ctxerr"}}
	switch r.Intn(4) {
	case 0:
		sc.Outs = []string{"ok", "err"}
	case 1:
		sc.Outs = []string{"ok", "ok0", "err", "ctxerr"}
	}
	n := 2 + r.Intn(3)
	for i := 0; i < n; i++ {
		var prog []onOp
		for j := 0; j < 1+r.Intn(2); j++ {
			prog = append(prog, onOp{Op: "resolve", C: r.Intn(2) == 0})
		}
		sc.Clients = append(sc.Clients, prog)
	}
	// a third of the scenarios: some Resolve calls are followed at once (same goroutine) by the
	// cancellation of another client's Resolve (see onOp)
	if r.Intn(3) == 0 {
		for i, prog := range sc.Clients {
			for j := range prog {
				if t := 1 + r.Intn(n); t != i+1 && r.Intn(2) == 0 {
					prog[j].Tc = t
				}
			}
		}
	}
	return sc
}

// fn is the body of the wrapped function (ctx == nil: memo).
func (d *onDriver) fn(ctx context.Context) (int, error) {
	x := d.x
	if d.sc.Burst {
		d.mu.Lock()
		d.calls++
		k := d.calls
		d.mu.Unlock()
		x.Log(trace.E{"ev": "fnenter", "k": k})
		runtime.Gosched()
		if d.sc.BurstOut == "err" {
			x.Log(trace.E{"ev": "fnleave", "k": k, "out": "err", "v": k})
			return 0, &onErr{K: k}
		}
		x.Log(trace.E{"ev": "fnleave", "k": k, "out": "ok", "v": 100 + k})
		return 100 + k, nil
	}
	d.calls++
	f := &onFn{k: d.calls, ctx: ctx}
	d.fns = append(d.fns, f)
	x.Log(trace.E{"ev": "fnenter", "k": f.k})
	out, _ := x.ParkUser("fn", func(p *sched.Park) { f.park = p }).(string)
	f.park = nil
	switch out {
	case "err":
		x.Log(trace.E{"ev": "fnleave", "k": f.k, "out": "err", "v": f.k})
		return 0, &onErr{K: f.k}
	case "ctxerr":
		x.Log(trace.E{"ev": "fnleave", "k": f.k, "out": "ctxerr", "v": f.k})
		if f.k%2 == 0 {
			// the function gives up because its context is done, and says so in its own words
			return 0, fmt.Errorf("function %d gave up: %w", f.k, ctx.Err())
		}
		return 0, ctx.Err()
	case "ok0": // success with the zero value
		x.Log(trace.E{"ev": "fnleave", "k": f.k, "out": "ok0", "v": 0})
		return 0, nil
	}
	// "ok", or teardown (finish now)
	x.Log(trace.E{"ev": "fnleave", "k": f.k, "out": "ok", "v": 100 + f.k})
	return 100 + f.k, nil
}

func (d *onDriver) blockedIDs() []int {
	out := []int{}
	for _, c := range d.cl {
		if c.inflight != 0 && d.x.Blocked(c.c) {
			out = append(out, c.inflight)
		}
	}
	sort.Ints(out)
	return out
}

// blockedXIDs: the blocked callers under the X specs' ids (X-level trace validation).
func (d *onDriver) blockedXIDs() []int {
	out := []int{}
	for _, c := range d.cl {
		if c.inflight != 0 && d.x.Blocked(c.c) {
			out = append(out, c.xid)
		}
	}
	sort.Ints(out)
	return out
}

func (d *onDriver) opFunc(c *onClient, pi int, op onOp) sched.Op {
	x := d.x
	xid := (c.idx+1)*100 + pi + 1
	return sched.Op{Label: "call:" + c.c.Name, Do: func() {
		d.mu.Lock()
		d.nextID++
		id := d.nextID
		d.mu.Unlock()
		c.xid = xid
		ctx, cancel := context.WithCancel(context.Background())
		c.cancel, c.canc, c.op = cancel, false, op
		x.Log(trace.E{"ev": "call", "id": id, "xid": xid, "op": op.Op, "actor": c.c.Name})
		c.inflight = id
		var v int
		var err error
		func() {
			defer func() {
				if r := recover(); r != nil {
					c.inflight = 0
					x.Log(trace.E{"ev": "panic", "id": id, "xid": xid, "msg": fmt.Sprint(r), "actor": c.c.Name})
					id = 0
				}
			}()
			if op.Op == "call" {
				if d.sc.Burst {
					// all callers leave this barrier together, right in front of the call
					d.ready.Add(1)
					for d.ready.Load() < int32(len(d.cl)) {
					}
				}
				v, err = d.memo()
			} else {
				v, err = d.once.Resolve(ctx)
			}
		}()
		if id == 0 {
			return
		}
		if op.Op == "resolve" && op.Tc > 0 && op.Tc <= len(d.cl) {
			if t := d.cl[op.Tc-1]; t.inflight != 0 && t.op.Op == "resolve" && !t.canc {
				t.canc = true
				x.Log(trace.E{"ev": "cancel", "id": t.inflight, "xid": t.xid})
				t.cancel()
			}
		}
		c.inflight = 0
		res := "ok"
		if err != nil {
			if e, ok := err.(*onErr); ok {
				res, v = "err", e.K
			} else if err == context.Canceled {
				res, v = "canceled", 0
			} else {
				res, v = "other", 0
			}
		}
		x.Log(trace.E{"ev": "ret", "id": id, "xid": xid, "res": res, "v": v, "actor": c.c.Name})
	}}
}

func (d *onDriver) Run(x *sched.Exec, raw json.RawMessage) json.RawMessage {
	d.x = x
	// OnceP rests on sound bounds only (OnceP.tla, B1-B5: fnenter/fnleave are exact, calls and returns
	// bound the sections), so the scheduler refinements are on: combined grant+cancel steps
	// (sched.Exec.Double) and park points at the END of critical sections (ParkUnl: a caller stops
	// between its section and its select, the worker between `o.prom = nil` and its ctx.Err() check).
	// "-opt coarse" switches both off (to compare detection with and without them).
	if !strings.Contains(Opt, "coarse") {
		x.OptDouble, x.OptParkUnl = true, true
	}
	// granularity of this execution (mirrors sched.Exec.parkUnlActive); logged for the record, no
	// condition of OnceP depends on it
	fine := x.OptParkUnl && !x.LogSteps && x.ParkUnl
	if len(x.Sched) > 0 {
		fine = x.OptParkUnl && !x.LogSteps && x.Sched[0] == "!parkunl"
	}
	if raw != nil {
		if err := json.Unmarshal(raw, &d.sc); err != nil {
			panic(err)
		}
	} else {
		d.sc = genOnce(x)
	}
	sc := d.sc
	out, _ := json.Marshal(sc)
	x.Log(trace.E{"ev": "init", "kind": sc.Kind})
	x.Log(trace.E{"ev": "cfg", "fine": fine || sc.Burst})
	if sc.Kind == "memo" {
		d.memo = memo.MemoizeFunc(func() (int, error) { return d.fn(nil) })
	} else {
		d.once = promise.NewOnce(d.fn)
	}
	for i, prog := range sc.Clients {
		c := &onClient{c: x.NewClient(fmt.Sprintf("c%d", i+1)), idx: i}
		for pi, op := range prog {
			c.c.Prog = append(c.c.Prog, d.opFunc(c, pi, op))
		}
		d.cl = append(d.cl, c)
	}

	moves := func() []sched.Move {
		ms := x.GrantMoves()
		ms = append(ms, x.ClientMoves()...)
		for _, c := range d.cl {
			c := c
			if c.inflight != 0 && c.op.Op == "resolve" && c.op.C && !c.canc {
				ms = append(ms, sched.Move{Label: "cancel:" + c.c.Name, Do: func() {
					c.canc = true
					x.Log(trace.E{"ev": "cancel", "id": c.inflight, "xid": c.xid})
					c.cancel()
				}})
			}
		}
		for _, f := range d.fns {
			f := f
			if f.park == nil || !f.park.Active() {
				continue
			}
			for _, o := range sc.Outs {
				o := o
				if o == "ctxerr" && (f.ctx == nil || f.ctx.Err() == nil) {
					continue
				}
				if sc.Kind == "once" && f.k >= sc.MaxCalls && o != "ok" && o != "ok0" {
					continue
				}
				ms = append(ms, sched.Move{Label: fmt.Sprintf("fn:%d:%s", f.k, o), Actor: f.park.Actor().Name, Do: func() {
					p := f.park
					f.park = nil
					x.Resume(p, o)
				}})
			}
		}
		return ms
	}
	observe := func() {
		if len(x.ParkedActors()) != 0 {
			return
		}
		blk := d.blockedIDs()
		key := fmt.Sprint(blk, x.T.Seq())
		if key == d.lastQ {
			return
		}
		x.Log(trace.E{"ev": "quiet", "blk": blk, "xblk": d.blockedXIDs()})
		d.lastQ = fmt.Sprint(blk, x.T.Seq())
	}
	if sc.Burst {
		x.Policy = func(*sched.Actor, string, string, any) bool { return false }
		for _, c := range x.Clients {
			prog := c.Prog
			c.Prog = nil
			x.Issue(c, func() {
				for _, op := range prog {
					op.Do()
				}
			})
		}
		x.Labels = append(x.Labels, "burst")
		synctest.Wait()
	} else {
		x.Loop(moves, observe, 120+len(x.Sched))
	}

	// teardown: cancel every Resolve in flight, make every function call finish, run free
	if x.LogSteps {
		x.Log(trace.E{"ev": "teardown"}) // X-level trace validation stops here
	}
	for _, c := range d.cl {
		if c.inflight != 0 && c.op.Op == "resolve" && !c.canc {
			c.canc = true
			x.Log(trace.E{"ev": "cancel", "id": c.inflight})
			c.cancel()
		}
		c.c.Prog = nil
	}
	for i := 0; i < 8; i++ {
		x.Drain()
		ps := x.UserParks()
		if len(ps) == 0 {
			break
		}
		for _, p := range ps {
			x.Resume(p, nil)
		}
	}
	x.Drain()
	x.Log(trace.E{"ev": "quiet", "blk": d.blockedIDs()})
	return out
}
