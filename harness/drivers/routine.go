//go:build drv_routine || drv_all

package drivers

import (
	"context"
	"encoding/json"
	"errors"
	"fmt"
	"runtime"
	"sort"
	"strings"
	"sync"
	"testing/synctest"
	"time"

	"verifharness/sched"
	"verifharness/trace"

	ubackoff "github.com/aperturerobotics/util/backoff"
	"github.com/aperturerobotics/util/routine"
	cbackoff "github.com/cenkalti/backoff/v4"
)

// rtOp is one client operation of a routine scenario.
//
//	setctx{c,r}   SetContext(ctx_c, r)  (c = 0: nil context)
//	clearctx      ClearContext()
//	setroutine{f} SetRoutine(routine f) (f = 0: nil)          [plain variant]
//	setstate{s}   SetState(s)           (s = 0: empty state)   [state variant]
//	restart       RestartRoutine()
//	waitexited{rin,c} WaitExited(ctx, rin, nil) with a cancellable ctx if c
type rtOp struct {
	Op  string `json:"op"`
	C   int    `json:"c"`
	R   bool   `json:"r"`
	F   int    `json:"f"`
	S   int    `json:"s"`
	Rin bool   `json:"rin"`
}

type rtScenario struct {
	Variant    string   `json:"variant"` // plain | state
	Retry      bool     `json:"retry"`
	BoConf     string   `json:"boconf"`  // "": scripted backoff (WithBackoff); "const" | "expo": WithRetry(backoff.Backoff config meaning 10 ms, forever)
	BigTick    bool     `json:"bigtick"` // the environment may once advance the clock by 20 minutes
	Seq        bool     `json:"seq"`     // sequential histories: settle the library after every move (C14)
	Burst      bool     `json:"burst"`   // M2: clients run their whole programs freely in parallel, then exact quiescence
	NCtx       int      `json:"nctx"`    // number of distinct root contexts
	Ticks      int      `json:"ticks"`
	RootCancel bool     `json:"rootcancel"` // the client may cancel root contexts it handed to SetContext
	BoStop     int      `json:"bostop"`     // >0: the backoff gives up (returns Stop) from its n-th NextBackOff call on
	Clients    [][]rtOp `json:"clients"`
}

const rtUnit = 10 * time.Millisecond

type rtCtxKey struct{}

type rtInst struct {
	id    int
	ctx   context.Context
	park  *sched.Park
	left  bool
	tag   int
	arg   int
	f     int
	actor string
}

type rtBackoff struct {
	d *rtDriver
	n int
}

func (b *rtBackoff) NextBackOff() time.Duration {
	b.n++
	if b.d.sc.BoStop > 0 && b.n >= b.d.sc.BoStop {
		b.d.x.Log(trace.E{"ev": "bo", "op": "stop"})
		return cbackoff.Stop
	}
	b.d.x.Log(trace.E{"ev": "bo", "op": "next"})
	return rtUnit
}
func (b *rtBackoff) Reset() { b.n = 0; b.d.x.Log(trace.E{"ev": "bo", "op": "reset"}) }

var _ cbackoff.BackOff = (*rtBackoff)(nil)

type rtClient struct {
	idx      int
	xid      int // id of the call in flight in Routine.tla: (client index+1)*100 + program index+1
	c        *sched.Client
	inflight int
	op       string
	cancel   context.CancelFunc
	canc     bool
}

type rtDriver struct {
	x        *sched.Exec
	sc       rtScenario
	mu       sync.Mutex
	rc       *routine.RoutineContainer
	sr       *routine.StateRoutineContainer[int]
	ctxs     map[int]context.Context
	cancels  map[int]context.CancelFunc
	ctxCanc  map[int]bool
	insts    []*rtInst
	nextID   int
	nextCall int
	chans    map[int]<-chan struct{}
	chClosed map[int]bool
	nextCh   int
	cl       []*rtClient
	lastQ    string
	lastC    string
	ticks    int
	flush    int // end-of-run ticks left (see moves)
	bigDone  bool
	rootLeft int
}

func init() { Register("routine", func() Driver { return &rtDriver{} }) }

func genRoutine(x *sched.Exec) rtScenario {
	r := x.Rng
	sc := rtScenario{Variant: "plain", NCtx: 2}
	if r.Intn(2) == 0 {
		sc.Variant = "state"
	}
	for _, o := range strings.Split(Opt, ",") {
		switch o {
		case "seq":
			sc.Seq = true
		case "burst":
			sc.Burst = true
			sc.Variant = "state"
		case "plain":
			sc.Variant = "plain"
		case "state":
			sc.Variant = "state"
		}
	}
	sc.Retry = r.Intn(3) == 0
	if sc.Retry {
		sc.Ticks = 2 + r.Intn(4)
		if r.Intn(3) == 0 {
			sc.BoStop = 1 + r.Intn(2)
		} else if r.Intn(2) == 0 {
			sc.BoConf = []string{"const", "expo"}[r.Intn(2)]
			sc.BigTick = r.Intn(3) != 0
		}
	}
	sc.RootCancel = r.Intn(4) == 0
	ncl := 1 + r.Intn(2)
	if sc.Seq {
		ncl = 1
	}
	if sc.Burst {
		// c1: context operations and restarts (their order is c1's program order); c2..: state operations
		sc.Retry = false
		sc.Ticks = 0
		var p1 []rtOp
		for j := 0; j < 4+r.Intn(5); j++ {
			switch k := r.Intn(6); {
			case k < 3:
				p1 = append(p1, rtOp{Op: "setctx", C: 1 + r.Intn(sc.NCtx), R: r.Intn(2) == 0})
			case k < 4:
				p1 = append(p1, rtOp{Op: "clearctx"})
			default:
				p1 = append(p1, rtOp{Op: "restart"})
			}
		}
		sc.Clients = append(sc.Clients, p1)
		for i := 0; i < 2+r.Intn(2); i++ {
			var p []rtOp
			for j := 0; j < 3+r.Intn(5); j++ {
				if r.Intn(5) == 0 {
					p = append(p, rtOp{Op: "restart"})
				} else {
					p = append(p, rtOp{Op: "setstate", S: r.Intn(5)})
				}
			}
			sc.Clients = append(sc.Clients, p)
		}
		return sc
	}
	nf := 0
	for i := 0; i < ncl; i++ {
		var prog []rtOp
		n := 3 + r.Intn(5)
		if i == 0 {
			// make sure something can run
			prog = append(prog, rtOp{Op: "setctx", C: 1})
		}
		for j := 0; j < n; j++ {
			switch k := r.Intn(12); {
			case k < 2:
				prog = append(prog, rtOp{Op: "setctx", C: r.Intn(sc.NCtx + 1), R: r.Intn(2) == 0})
			case k < 3:
				prog = append(prog, rtOp{Op: "clearctx"})
			case k < 7:
				if sc.Variant == "state" {
					if r.Intn(5) == 0 {
						prog = append(prog, rtOp{Op: "setsr"})
					} else {
						op := rtOp{Op: "setstate", S: r.Intn(4)}
						if op.S > 0 && r.Intn(4) == 0 {
							op.S += 10 // equal to S under the container's compare function, not identical
						}
						if r.Intn(4) == 0 {
							op.Op = "swapstate" // SwapValue(func(_) { return S })
						}
						prog = append(prog, op)
					}
				} else {
					nf++
					f := nf*10 + i + 1
					if r.Intn(3) == 0 {
						f = 0
					}
					prog = append(prog, rtOp{Op: "setroutine", F: f})
				}
			case k < 10:
				prog = append(prog, rtOp{Op: "restart"})
			default:
				prog = append(prog, rtOp{Op: "waitexited", Rin: r.Intn(2) == 0, C: 1})
			}
		}
		sc.Clients = append(sc.Clients, prog)
	}
	return sc
}

func (d *rtDriver) body(f int, arg int) func(ctx context.Context) error {
	return func(ctx context.Context) error {
		x := d.x
		d.mu.Lock()
		d.nextID++
		in := &rtInst{id: d.nextID, ctx: ctx, f: f, arg: arg, actor: x.Self().Name}
		if v, ok := ctx.Value(rtCtxKey{}).(int); ok {
			in.tag = v
		}
		d.insts = append(d.insts, in)
		d.mu.Unlock()
		x.Log(trace.E{"ev": "enter", "inst": in.id, "tag": in.tag, "arg": arg, "f": f, "key": map[bool]int{true: arg, false: f}[f < 0], "dead": ctx.Err() != nil})
		var v any
		if d.sc.Burst {
			// autonomous behaviour: by state argument
			switch arg % 3 {
			case 0:
				v = "ok"
			case 1:
				v = "err"
			default:
				<-ctx.Done()
				v = "ctxret"
			}
			runtime.Gosched()
		} else {
			v = x.ParkUser(fmt.Sprintf("inst%d", in.id), func(p *sched.Park) { in.park = p })
		}
		out, _ := v.(string)
		var err error
		switch out {
		case "ok":
		case "err":
			err = fmt.Errorf("E%d", in.id)
		default: // "ctxret" or teardown
			out = "ctxret"
			err = ctx.Err()
			if err == nil {
				out = "ok"
			}
		}
		d.mu.Lock()
		in.left = true
		d.mu.Unlock()
		x.Log(trace.E{"ev": "leave", "inst": in.id, "out": out})
		return err
	}
}

// instOfSelf returns the instance that ran on the calling goroutine (0: it never entered the function).
func (d *rtDriver) instOfSelf() int {
	name := d.x.Self().Name
	d.mu.Lock()
	defer d.mu.Unlock()
	for i := len(d.insts) - 1; i >= 0; i-- {
		if d.insts[i].actor == name {
			return d.insts[i].id
		}
	}
	return 0
}

func (d *rtDriver) liveSnapshot() (live []int, active []int) {
	d.mu.Lock()
	defer d.mu.Unlock()
	live, active = []int{}, []int{}
	for _, in := range d.insts {
		if !in.left {
			active = append(active, in.id)
			if in.ctx.Err() == nil {
				live = append(live, in.id)
			}
		}
	}
	return
}

func (d *rtDriver) regCh(ch <-chan struct{}) int {
	if ch == nil {
		return 0
	}
	d.mu.Lock()
	defer d.mu.Unlock()
	d.nextCh++
	d.chans[d.nextCh] = ch
	return d.nextCh
}

func errName(err error) string {
	switch {
	case err == nil:
		return "nil"
	case errors.Is(err, context.Canceled):
		return "canceled"
	default:
		return err.Error()
	}
}

func (d *rtDriver) opFunc(c *rtClient, pi int, op rtOp) sched.Op {
	x := d.x
	label := "call:" + c.c.Name
	snap := func() {
		live, active := d.liveSnapshot()
		x.Log(trace.E{"ev": "ctxsnap", "live": live, "active": active, "actor": c.c.Name})
	}
	return sched.Op{Label: label, Do: func() {
		d.mu.Lock()
		d.nextCall++
		id := d.nextCall
		d.mu.Unlock()
		c.inflight, c.op = id, op.Op
		c.xid = (c.idx+1)*100 + pi + 1
		xid := c.xid
		defer func() { c.inflight = 0 }()
		switch op.Op {
		case "setctx", "clearctx":
			tag := op.C
			restart := op.R
			if op.Op == "clearctx" {
				tag, restart = 0, false
			}
			var ctx context.Context
			if tag != 0 {
				ctx = d.ctxs[tag]
			}
			x.Log(trace.E{"ev": "call", "id": id, "op": op.Op, "c": tag, "r": restart, "actor": c.c.Name})
			var ch bool
			if op.Op == "clearctx" {
				if d.sr != nil {
					ch = d.sr.ClearContext()
				} else {
					ch = d.rc.ClearContext()
				}
			} else if d.sr != nil {
				ch = d.sr.SetContext(ctx, restart)
			} else {
				ch = d.rc.SetContext(ctx, restart)
			}
			x.Log(trace.E{"ev": "ret", "id": id, "xid": xid, "op": op.Op, "changed": ch, "actor": c.c.Name})
			snap()
		case "setroutine":
			x.Log(trace.E{"ev": "call", "id": id, "op": op.Op, "f": op.F, "actor": c.c.Name})
			var rt routine.Routine
			if op.F != 0 {
				rt = d.body(op.F, 0)
			}
			wch, reset := d.rc.SetRoutine(rt)
			x.Log(trace.E{"ev": "ret", "id": id, "xid": xid, "op": op.Op, "reset": reset, "ch": d.regCh(wch), "actor": c.c.Name})
			snap()
		case "setstate":
			x.Log(trace.E{"ev": "call", "id": id, "op": op.Op, "s": op.S, "actor": c.c.Name})
			wch, changed, reset, running := d.sr.SetState(op.S)
			x.Log(trace.E{"ev": "ret", "id": id, "xid": xid, "op": op.Op, "changed": changed, "reset": reset, "running": running, "ch": d.regCh(wch), "actor": c.c.Name})
			snap()
		case "swapstate": // the monitor sees it as a SetState
			x.Log(trace.E{"ev": "call", "id": id, "op": "setstate", "s": op.S, "actor": c.c.Name, "swap": true})
			_, wch, changed, reset, running := d.sr.SwapValue(func(int) int { return op.S })
			x.Log(trace.E{"ev": "ret", "id": id, "xid": xid, "op": "setstate", "changed": changed, "reset": reset, "running": running, "ch": d.regCh(wch), "actor": c.c.Name})
			snap()
		case "setsr":
			x.Log(trace.E{"ev": "call", "id": id, "op": op.Op, "actor": c.c.Name})
			wch, reset, running := d.sr.SetStateRoutine(func(ctx context.Context, st int) error { return d.body(-1, st)(ctx) })
			x.Log(trace.E{"ev": "ret", "id": id, "xid": xid, "op": op.Op, "reset": reset, "running": running, "ch": d.regCh(wch), "actor": c.c.Name})
			snap()
		case "restart":
			x.Log(trace.E{"ev": "call", "id": id, "op": op.Op, "actor": c.c.Name})
			var ok bool
			if d.sr != nil {
				ok = d.sr.RestartRoutine()
			} else {
				ok = d.rc.RestartRoutine()
			}
			x.Log(trace.E{"ev": "ret", "id": id, "xid": xid, "op": op.Op, "ok": ok, "actor": c.c.Name})
			snap()
		case "waitexited":
			ctx, cancel := context.WithCancel(context.Background())
			c.cancel, c.canc = cancel, false
			x.Log(trace.E{"ev": "call", "id": id, "op": op.Op, "rin": op.Rin, "actor": c.c.Name})
			var err error
			if d.sr != nil {
				err = d.sr.WaitExited(ctx, op.Rin, nil)
			} else {
				err = d.rc.WaitExited(ctx, op.Rin, nil)
			}
			c.cancel = nil
			cancel()
			x.Log(trace.E{"ev": "ret", "id": id, "xid": xid, "op": op.Op, "res": errName(err), "actor": c.c.Name})
		default:
			panic("bad op " + op.Op)
		}
	}}
}

func (d *rtDriver) Run(x *sched.Exec, raw json.RawMessage) json.RawMessage {
	d.x = x
	if raw != nil {
		if err := json.Unmarshal(raw, &d.sc); err != nil {
			panic(err)
		}
	} else {
		d.sc = genRoutine(x)
	}
	x.OptDouble = true // a grant and a cancellation in one controller step (sched.Exec.Double)
	// The end of a critical section is an extra park point (sched.Exec.ParkUnl executions) for WaitExited
	// callers only: a waiter can then stop between the section in which it sampled the state and its
	// select, so that an exit and a cancellation both land there. RoutineP widens a pending
	// WaitExited's set of admissible results at every state change, so this is sound for it; the logged
	// return of every other call stays in one step with its critical section (RoutineP relies on that).
	x.OptParkUnl = true
	fine := !x.LogSteps && x.ParkUnl
	if len(x.Sched) > 0 {
		fine = !x.LogSteps && x.Sched[0] == "!parkunl"
	}
	x.Policy = func(a *sched.Actor, kind, site string, obj any) bool {
		if kind != "unlocked" {
			return true
		}
		if !fine {
			return false
		}
		for _, c := range d.cl {
			if c.c.Name == a.Name {
				return c.op == "waitexited" && c.inflight != 0
			}
		}
		return false
	}
	if x.LogSteps {
		// X-level trace validation: Routine.tla models the scripted backoff and bounded 7 ms ticks only
		d.sc.BoConf, d.sc.BigTick = "", false
		for _, prog := range d.sc.Clients { // ... and identical states, SetState only
			for i := range prog {
				if prog[i].Op == "swapstate" {
					prog[i].Op = "setstate"
				}
				if prog[i].Op == "setstate" {
					prog[i].S %= 10
				}
			}
		}
	}
	sc := d.sc
	out, _ := json.Marshal(sc)
	d.ctxs, d.cancels, d.ctxCanc = map[int]context.Context{}, map[int]context.CancelFunc{}, map[int]bool{}
	d.chans, d.chClosed = map[int]<-chan struct{}{}, map[int]bool{}
	for i := 1; i <= sc.NCtx; i++ {
		ctx, cancel := context.WithCancel(context.WithValue(context.Background(), rtCtxKey{}, i))
		d.ctxs[i], d.cancels[i] = ctx, cancel
	}
	opts := []routine.Option{
		routine.WithExitCb(func(err error) { x.Log(trace.E{"ev": "exitcb", "k": 1, "inst": d.instOfSelf(), "err": errName(err)}) }),
		routine.WithExitCb(func(err error) { x.Log(trace.E{"ev": "exitcb", "k": 2, "inst": d.instOfSelf(), "err": errName(err)}) }),
	}
	if sc.Retry {
		switch sc.BoConf {
		case "const":
			opts = append(opts, routine.WithRetry(&ubackoff.Backoff{BackoffKind: ubackoff.BackoffKind_BackoffKind_CONSTANT,
				Constant: &ubackoff.Constant{Interval: 10}}))
		case "expo":
			// initial = max = 10 ms, no randomization, no max elapsed time ("may be empty": never gives up)
			opts = append(opts, routine.WithRetry(&ubackoff.Backoff{BackoffKind: ubackoff.BackoffKind_BackoffKind_EXPONENTIAL,
				Exponential: &ubackoff.Exponential{InitialInterval: 10, Multiplier: 1, MaxInterval: 10}}))
		default:
			opts = append(opts, routine.WithBackoff(&rtBackoff{d: d}))
		}
	}
	x.Log(trace.E{"ev": "config", "variant": sc.Variant, "retry": sc.Retry, "seq": sc.Seq, "burst": sc.Burst, "boconf": sc.BoConf})
	if sc.Variant == "state" {
		// states are compared modulo 10: s and s+10 are equal for the container although not identical
		d.sr = routine.NewStateRoutineContainer[int](func(a, b int) bool { return a%10 == b%10 }, opts...)
		d.sr.SetStateRoutine(func(ctx context.Context, st int) error { return d.body(-1, st)(ctx) })
	} else {
		d.rc = routine.NewRoutineContainer(opts...)
	}
	for i, prog := range sc.Clients {
		c := &rtClient{c: x.NewClient(fmt.Sprintf("c%d", i+1)), idx: i}
		for pi, op := range prog {
			c.c.Prog = append(c.c.Prog, d.opFunc(c, pi, op))
		}
		d.cl = append(d.cl, c)
	}
	d.ticks = sc.Ticks
	d.flush = 3
	d.rootLeft = 1

	libBusy := func() bool { return len(x.ParkedActors()) != 0 }
	moves := func() []sched.Move {
		ms := x.GrantMoves()
		if sc.Seq && len(ms) > 0 {
			return ms[:1] // settle the library first, deterministically
		}
		ms = append(ms, x.ClientMoves()...)
		d.mu.Lock()
		for _, in := range d.insts {
			in := in
			if in.left || in.park == nil || !in.park.Active() {
				continue
			}
			name := in.park.Actor().Name
			gnum := in.id // label by the goroutine number of execute() when known (matches Routine.tla)
			if i := strings.LastIndexByte(name, '#'); i >= 0 && strings.HasPrefix(name, "routine.execute") {
				fmt.Sscanf(name[i+1:], "%d", &gnum)
			}
			if in.ctx.Err() != nil {
				ms = append(ms, sched.Move{Label: fmt.Sprintf("out:%d:ctxret", gnum), Actor: name, Do: func() { x.Resume(in.park, "ctxret") }})
			}
			ms = append(ms, sched.Move{Label: fmt.Sprintf("out:%d:ok", gnum), Actor: name, Do: func() { x.Resume(in.park, "ok") }})
			ms = append(ms, sched.Move{Label: fmt.Sprintf("out:%d:err", gnum), Actor: name, Do: func() { x.Resume(in.park, "err") }})
		}
		d.mu.Unlock()
		for _, c := range d.cl {
			c := c
			// (normally only while the call is blocked in its select; in fine executions also while the
			// waiter is parked between its sampling section and the select: the select is then entered
			// with the cancellation -- and possibly a wake-up -- already there)
			atUnl := false
			if a := x.ActorByName(c.c.Name); fine && a != nil {
				if p := a.Parked(); p != nil && p.Kind == "unlocked" {
					atUnl = true
				}
			}
			if c.inflight != 0 && c.cancel != nil && !c.canc && (x.Blocked(c.c) || atUnl) {
				ms = append(ms, sched.Move{Label: "cancel:" + c.c.Name, Do: func() {
					c.canc = true
					x.Log(trace.E{"ev": "cancel", "id": c.inflight})
					c.cancel()
				}})
			}
		}
		if sc.RootCancel && d.rootLeft > 0 {
			for tag := 1; tag <= sc.NCtx; tag++ {
				tag := tag
				if d.ctxCanc[tag] {
					continue
				}
				ms = append(ms, sched.Move{Label: fmt.Sprintf("cancelroot:%d", tag), Do: func() {
					d.rootLeft--
					d.ctxCanc[tag] = true
					x.Log(trace.E{"ev": "rootcancel", "tag": tag})
					d.cancels[tag]()
				}})
			}
		}
		if d.ticks > 0 && !libBusy() {
			ms = append(ms, sched.Move{Label: "tick", Do: func() {
				d.ticks--
				x.Log(trace.E{"ev": "tick", "d": 7})
				x.Tick(7 * time.Millisecond) // 10 ms backoff unit: deadlines are never hit exactly
			}})
		}
		if sc.BigTick && !d.bigDone && !libBusy() {
			ms = append(ms, sched.Move{Label: "bigtick", Do: func() {
				d.bigDone = true
				x.Log(trace.E{"ev": "tick", "d": 1200000})
				x.Tick(20 * time.Minute)
			}})
		}
		// Nothing left to do: let virtual time run past every backoff deadline a few more times, so that
		// a timer the library should have stopped (or one it should have armed) shows in the trace.
		// Not under -logsteps: the X specs bound the number of ticks.
		if len(ms) == 0 && sc.Retry && d.flush > 0 && !x.LogSteps {
			ms = append(ms, sched.Move{Label: "tick", Do: func() {
				d.flush--
				x.Log(trace.E{"ev": "tick", "d": 7})
				x.Tick(7 * time.Millisecond)
			}})
		}
		return ms
	}
	observe := func() {
		// channel probes
		d.mu.Lock()
		var ids []int
		for id := range d.chans {
			ids = append(ids, id)
		}
		d.mu.Unlock()
		sort.Ints(ids)
		for _, id := range ids {
			if d.chClosed[id] {
				continue
			}
			select {
			case <-d.chans[id]:
				d.chClosed[id] = true
				x.Log(trace.E{"ev": "chclosed", "ch": id})
			default:
			}
		}
		if libBusy() {
			// not quiescent: still report which instances are inside the function and which of them
			// have a live context (judged for "cancelled without cause" only)
			live, active := d.liveSnapshot()
			if key := fmt.Sprint(live, active); key != d.lastC {
				d.lastC = key
				x.Log(trace.E{"ev": "cstate", "live": live, "active": active})
			}
			return
		}
		live, active := d.liveSnapshot()
		d.lastC = fmt.Sprint(live, active)
		blk, xblk := []int{}, []int{}
		for _, c := range d.cl {
			if c.inflight != 0 && x.Blocked(c.c) {
				blk = append(blk, c.inflight)
				xblk = append(xblk, c.xid)
			}
		}
		gs := -1
		if d.sr != nil {
			gs = d.sr.GetState()
		}
		key := fmt.Sprint(live, active, blk, gs, x.T.Seq())
		if key == d.lastQ {
			return
		}
		x.Log(trace.E{"ev": "quiet", "live": live, "active": active, "blk": blk, "xblk": xblk, "gstate": gs})
		d.lastQ = fmt.Sprint(live, active, blk, gs, x.T.Seq())
	}
	if sc.Burst {
		x.Policy = func(*sched.Actor, string, string, any) bool { return false } // hooks never park
		for _, c := range d.cl {
			prog := c.c.Prog
			c.c.Prog = nil
			x.Issue(c.c, func() {
				for _, op := range prog {
					op.Do()
					runtime.Gosched()
				}
			})
		}
		x.Labels = append(x.Labels, "burst")
		synctest.Wait()
		observe()
	} else {
		x.Loop(moves, observe, 90)
	}

	// teardown
	for _, c := range d.cl {
		if c.cancel != nil && !c.canc {
			c.canc = true
			if c.inflight != 0 {
				x.Log(trace.E{"ev": "cancel", "id": c.inflight})
			}
			c.cancel()
		}
	}
	x.Log(trace.E{"ev": "teardown"})
	x.Drain()
	if d.sr != nil {
		d.sr.ClearContext()
	} else {
		d.rc.ClearContext()
	}
	for i := 0; i < 10; i++ {
		ps := x.UserParks()
		if len(ps) == 0 {
			break
		}
		for _, p := range ps {
			x.Resume(p, "ctxret")
		}
		x.Drain()
	}
	for _, cancel := range d.cancels {
		cancel()
	}
	for _, c := range d.cl {
		c.c.Prog = nil
	}
	x.Tick(time.Second)
	x.Drain()
	for i := 0; i < 10; i++ {
		ps := x.UserParks()
		if len(ps) == 0 {
			break
		}
		for _, p := range ps {
			x.Resume(p, "ctxret")
		}
		x.Drain()
	}
	return out
}
