//go:build drv_broadcast || drv_all

package drivers

import (
	"context"
	"encoding/json"
	"errors"
	"fmt"
	"sort"
	"sync"
	"time"

	"verifharness/sched"
	"verifharness/trace"

	"github.com/aperturerobotics/util/broadcast"
)

// bcOp is one client operation of a broadcast scenario (see specs/broadcast/Broadcast.tla).
//
//	hold / try / maybe / long : HoldLock / TryHoldLock / HoldLockMaybeAsync / HoldLock whose
//	                            callback stays inside until the "unhold" move; Body is a string
//	                            of letters run inside the callback: i (n++), b (broadcast()),
//	                            g (keep getWaitCh() as a probed handle)
//	wait                      : Broadcast.Wait with predicate: n == E (E > 0) -> error, n >= K -> true
//	raw                       : the same loop written directly on HoldLock (sample-then-block)
//	C                         : the cancel move is offered for this call
//	G                         : (wait) a predicate that returns false also calls getWaitCh()
//	                            itself and keeps the channel as a probed handle
type bcOp struct {
	Op   string `json:"op"`
	Body string `json:"body,omitempty"`
	K    int    `json:"k,omitempty"`
	E    int    `json:"e,omitempty"`
	C    bool   `json:"c,omitempty"`
	G    bool   `json:"g,omitempty"`
	TE   bool   `json:"te,omitempty"` // (wait) the predicate returns (true, err) instead of (false, err) when n == E
}

type bcScenario struct {
	Clients [][]bcOp `json:"clients"`
}

type bcClient struct {
	c        *sched.Client
	idx      int    // client index (0-based): process idx+1 of the X spec
	cur      string // op in flight ("" if none)
	waitID   int    // id of the wait/raw call in flight, 0 if none
	waitXID  int    // the X spec's id of that call: (idx+1)*100 + (op index+1)  (X-level trace validation)
	canCanc  bool
	canc     bool
	deadline bool // the context of the call in flight ends by its deadline (virtual time)
	cancel   context.CancelFunc
	longCh   chan struct{} // non-nil while inside a long critical section
	released bool
}

type bcDriver struct {
	x       *sched.Exec
	bc      broadcast.Broadcast
	mu      sync.Mutex // guards the harness-owned fields below (never held across a library call)
	n       int        // the guarded state (only changed inside Broadcast critical sections)
	ncs     int
	nextID  int
	handles []<-chan struct{}
	cl      []*bcClient
	long    *bcClient
	lastP   string // last logged probe vector
	lastPCS int    // number of critical sections at the last probe
	lastObs int    // number of events at the end of the last observation
}

func init() { Register("broadcast", func() Driver { return &bcDriver{} }) }

var bcBodies = []string{"ib", "ib", "ib", "bi", "i", "b", "g", "gb", "bg", "gbg", "ibg", "gib", ""}

func genBroadcast(x *sched.Exec) bcScenario {
	r := x.Rng
	var sc bcScenario
	n := 2 + r.Intn(4)
	incs := 0
	var progs [][]bcOp
	for i := 0; i < n; i++ {
		var prog []bcOp
		nops := 1 + r.Intn(3)
		for j := 0; j < nops; j++ {
			var op bcOp
			switch k := r.Intn(20); {
			case k < 6:
				op = bcOp{Op: "wait"}
			case k < 9:
				op = bcOp{Op: "raw"}
			case k < 14:
				op = bcOp{Op: "hold"}
			case k < 16:
				op = bcOp{Op: "try"}
			case k < 18:
				op = bcOp{Op: "maybe"}
			default:
				op = bcOp{Op: "long"}
			}
			if op.Op == "wait" || op.Op == "raw" {
				op.C = r.Intn(2) == 0
				op.G = op.Op == "wait" && r.Intn(3) == 0
			} else {
				op.Body = bcBodies[r.Intn(len(bcBodies))]
				for _, ch := range op.Body {
					if ch == 'i' {
						incs++
					}
				}
			}
			prog = append(prog, op)
		}
		progs = append(progs, prog)
	}
	for _, prog := range progs {
		for j := range prog {
			if prog[j].Op == "wait" || prog[j].Op == "raw" {
				prog[j].K = r.Intn(incs + 2)
				if r.Intn(4) == 0 {
					prog[j].E = 1 + r.Intn(incs+1)
					prog[j].TE = r.Intn(2) == 0
				}
			}
		}
	}
	sc.Clients = progs
	return sc
}

// body runs the letters of a callback body inside critical section cs.
func (d *bcDriver) body(cs int, body string, bcast func(), getWaitCh func() <-chan struct{}) {
	x := d.x
	for _, l := range body {
		switch l {
		case 'i':
			d.mu.Lock()
			d.n++
			n := d.n
			d.mu.Unlock()
			x.Log(trace.E{"ev": "inc", "cs": cs, "n": n})
		case 'b':
			bcast()
			x.Log(trace.E{"ev": "bcast", "cs": cs})
		case 'g':
			d.keep(cs, getWaitCh())
		}
	}
}

func (d *bcDriver) keep(cs int, ch <-chan struct{}) {
	d.mu.Lock()
	d.handles = append(d.handles, ch)
	h := len(d.handles)
	d.mu.Unlock()
	d.x.Log(trace.E{"ev": "get", "h": h, "cs": cs})
}

func (d *bcDriver) csIn(actor string) int {
	d.mu.Lock()
	d.ncs++
	cs := d.ncs
	d.mu.Unlock()
	d.x.Log(trace.E{"ev": "csin", "cs": cs, "actor": actor})
	return cs
}

func (d *bcDriver) csOut(cs int) { d.x.Log(trace.E{"ev": "csout", "cs": cs}) }

// pred evaluates the predicate of a wait op on the guarded counter (inside a critical section).
func (d *bcDriver) pred(id, xid int, op bcOp, perr error) (bool, error, string) {
	d.mu.Lock()
	n := d.n
	d.mu.Unlock()
	res := "f"
	var done bool
	var err error
	switch {
	case op.E > 0 && n == op.E:
		// "returns the predicate's error unchanged" also when the predicate says done
		res, err, done = "e", perr, op.TE
	case n >= op.K:
		res, done = "t", true
	}
	d.x.Log(trace.E{"ev": "pred", "id": id, "xid": xid, "n": n, "res": res})
	return done, err, res
}

func (d *bcDriver) newID() int {
	d.mu.Lock()
	defer d.mu.Unlock()
	d.nextID++
	return d.nextID
}

func (d *bcDriver) opFunc(c *bcClient, pi int, op bcOp) sched.Op {
	x := d.x
	name := c.c.Name
	label := "call:" + name
	cb := func(bcast func(), getWaitCh func() <-chan struct{}) {
		cs := d.csIn(name)
		d.body(cs, op.Body, bcast, getWaitCh)
		d.csOut(cs)
	}
	switch op.Op {
	case "hold":
		return sched.Op{Label: label, Do: func() {
			c.cur = "hold"
			x.Log(trace.E{"ev": "call", "op": "hold", "body": op.Body, "actor": name})
			d.bc.HoldLock(cb)
			c.cur = ""
		}}
	case "try":
		return sched.Op{Label: label, Do: func() {
			c.cur = "try"
			x.Log(trace.E{"ev": "call", "op": "try", "body": op.Body, "actor": name})
			ok := d.bc.TryHoldLock(cb)
			c.cur = ""
			x.Log(trace.E{"ev": "ret", "op": "try", "ok": ok, "actor": name})
		}}
	case "maybe":
		return sched.Op{Label: label, Do: func() {
			c.cur = "maybe"
			x.Log(trace.E{"ev": "call", "op": "maybe", "body": op.Body, "actor": name})
			d.bc.HoldLockMaybeAsync(cb)
			c.cur = ""
			x.Log(trace.E{"ev": "ret", "op": "maybe", "ok": true, "actor": name})
		}}
	case "long":
		return sched.Op{Label: label, Do: func() {
			c.cur = "long"
			x.Log(trace.E{"ev": "call", "op": "long", "body": op.Body, "actor": name})
			d.bc.HoldLock(func(bcast func(), getWaitCh func() <-chan struct{}) {
				cs := d.csIn(name)
				d.body(cs, op.Body, bcast, getWaitCh)
				lc := make(chan struct{})
				d.mu.Lock()
				c.longCh = lc
				d.long = c
				d.mu.Unlock()
				<-lc // stays inside the critical section until the "unhold" move
				d.mu.Lock()
				c.longCh = nil
				d.long = nil
				d.mu.Unlock()
				d.csOut(cs)
			})
			c.cur = ""
		}}
	case "wait", "raw":
		return sched.Op{Label: label, Do: func() {
			id := d.newID()
			xid := (c.idx+1)*100 + pi + 1
			ctx, cancel := context.WithCancel(context.Background())
			c.deadline = false
			if op.Op == "wait" && op.C && id%3 == 0 && len(x.Sched) == 0 {
				c.deadline = true
				// this context ends by its deadline (virtual time): ctx.Err() is then DeadlineExceeded,
				// which Wait must not hand out (nil, the predicate's error or context.Canceled only)
				ctx, cancel = context.WithDeadline(context.Background(), time.Now().Add(time.Hour))
				defer cancel()
				cancel = func() { x.Tick(2 * time.Hour) } // (only ever called by the controller's cancel move)
			} else {
				defer cancel()
			}
			c.cancel, c.canc, c.canCanc = cancel, false, op.C
			perr := errors.New("predicate error")
			if id%2 == 0 {
				// an error that wraps the context sentinel: it must come back unchanged all the same
				perr = fmt.Errorf("predicate gave up: %w", context.Canceled)
			}
			x.Log(trace.E{"ev": "wcall", "id": id, "xid": xid, "op": op.Op, "k": op.K, "e": op.E, "actor": name})
			c.cur, c.waitID, c.waitXID = op.Op, id, xid
			var err error
			if op.Op == "wait" {
				err = d.bc.Wait(ctx, func(bcast func(), getWaitCh func() <-chan struct{}) (bool, error) {
					cs := d.csIn(name)
					done, e, _ := d.pred(id, xid, op, perr)
					if op.G && !done && e == nil {
						d.keep(cs, getWaitCh())
					}
					d.csOut(cs)
					return done, e
				})
			} else {
				err = d.rawWait(ctx, name, id, xid, op, perr)
			}
			c.cur, c.waitID, c.waitXID = "", 0, 0
			res := ""
			switch {
			case err == nil:
				res = "ok"
			case err == perr:
				res = "perr"
			case err == context.Canceled:
				res = "canceled"
			default:
				res = "other:" + err.Error()
			}
			x.Log(trace.E{"ev": "wret", "id": id, "xid": xid, "res": res, "actor": name})
		}}
	}
	panic("bad op " + op.Op)
}

// rawWait is the sample-then-block pattern every other package of the library builds on
// HoldLock: sample the guarded state and obtain the wait channel in one critical section, then
// block on the channel. The channel is also kept as a probed handle.
func (d *bcDriver) rawWait(ctx context.Context, name string, id, xid int, op bcOp, perr error) error {
	for {
		if ctx.Err() != nil {
			return context.Canceled
		}
		var done bool
		var err error
		var wch <-chan struct{}
		d.bc.HoldLock(func(bcast func(), getWaitCh func() <-chan struct{}) {
			cs := d.csIn(name)
			done, err, _ = d.pred(id, xid, op, perr)
			if !done && err == nil {
				wch = getWaitCh()
				d.keep(cs, wch)
			}
			d.csOut(cs)
		})
		if done || err != nil {
			return err
		}
		select {
		case <-ctx.Done():
			return context.Canceled
		case <-wch:
		}
	}
}

func (d *bcDriver) blockedIDs() []int {
	out := []int{}
	for _, c := range d.cl {
		if c.waitID != 0 && d.x.Blocked(c.c) {
			out = append(out, c.waitID)
		}
	}
	sort.Ints(out)
	return out
}

// blockedXIDs is blockedIDs in the X spec's ids.
func (d *bcDriver) blockedXIDs() []int {
	out := []int{}
	for _, c := range d.cl {
		if c.waitID != 0 && d.x.Blocked(c.c) {
			out = append(out, c.waitXID)
		}
	}
	sort.Ints(out)
	return out
}

// probes does a non-blocking receive on every handle handed out so far.
func (d *bcDriver) probes(force bool) {
	d.mu.Lock()
	hs := append([]<-chan struct{}(nil), d.handles...)
	d.mu.Unlock()
	open, closed := []int{}, []int{}
	for i, h := range hs {
		select {
		case <-h:
			closed = append(closed, i+1)
		default:
			open = append(open, i+1)
		}
	}
	// logged when a callback ran since the last probe or the vector changed (a channel closed
	// or opened without any callback having run would still be seen)
	key := fmt.Sprint(open, closed)
	d.mu.Lock()
	ncs := d.ncs
	d.mu.Unlock()
	if !force && (len(hs) == 0 || (key == d.lastP && ncs == d.lastPCS)) {
		return
	}
	d.x.Log(trace.E{"ev": "probes", "open": open, "closed": closed})
	d.lastP, d.lastPCS = key, ncs
}

func (d *bcDriver) clientOf(a *sched.Actor) *bcClient {
	for _, c := range d.cl {
		if c.c.Actor() == a {
			return c
		}
	}
	return nil
}

func (d *bcDriver) Run(x *sched.Exec, raw json.RawMessage) json.RawMessage {
	d.x = x
	// BroadcastP judges critical sections by events logged inside them and returns by the call's own
	// history, so finer park points and combined steps are sound here (see sched.Exec.Double / ParkUnl)
	x.OptDouble, x.OptParkUnl = true, true
	var sc bcScenario
	if raw != nil {
		if err := json.Unmarshal(raw, &sc); err != nil {
			panic(err)
		}
	} else {
		sc = genBroadcast(x)
	}
	out, _ := json.Marshal(sc)
	for i, prog := range sc.Clients {
		c := &bcClient{c: x.NewClient(fmt.Sprintf("c%d", i+1)), idx: i}
		for pi, op := range prog {
			c.c.Prog = append(c.c.Prog, d.opFunc(c, pi, op))
		}
		d.cl = append(d.cl, c)
	}

	// While a long critical section is open the mutex is really held: an actor released into a
	// blocking Lock would wait on a sync.Mutex, which synctest does not regard as durably
	// blocked. Only TryLock sites (TryHoldLock, the fast path of HoldLockMaybeAsync) and
	// goroutine starts may be granted then.
	grants := func() []sched.Move {
		d.mu.Lock()
		held := d.long != nil
		d.mu.Unlock()
		var ms []sched.Move
		for _, a := range x.ParkedActors() {
			a := a
			if held {
				p := a.Parked()
				if p == nil {
					continue
				}
				if p.Kind == "lock" { // (TryLock sites park with Kind "trylock")
					continue
				}
			}
			ms = append(ms, sched.Move{Label: "grant:" + a.Name, Actor: a.Name, Do: func() { x.Grant(a) }})
		}
		return ms
	}
	envMoves := func(calls bool) []sched.Move {
		var ms []sched.Move
		for _, c := range d.cl {
			c := c
			if calls && c.waitID != 0 && c.canCanc && !c.canc {
				ms = append(ms, sched.Move{Label: "cancel:" + c.c.Name, Do: func() {
					c.canc = true
					x.Log(trace.E{"ev": "cancel", "id": c.waitID, "xid": c.waitXID})
					if c.deadline {
						// letting time pass ends EVERY deadline context in flight (all of them were made
						// less than the tick ago): each of those calls is cancelled from here on
						for _, o := range d.cl {
							if o != c && o.deadline && o.waitID != 0 && !o.canc {
								o.canc = true
								x.Log(trace.E{"ev": "cancel", "id": o.waitID, "xid": o.waitXID})
							}
						}
					}
					c.cancel()
				}})
			}
			d.mu.Lock()
			lc := c.longCh
			d.mu.Unlock()
			if lc != nil && !c.released {
				ms = append(ms, sched.Move{Label: "unhold:" + c.c.Name, Do: func() {
					c.released = true
					close(lc)
				}})
			}
		}
		return ms
	}
	moves := func() []sched.Move {
		ms := grants()
		ms = append(ms, x.ClientMoves()...)
		return append(ms, envMoves(true)...)
	}
	observe := func() {
		for _, c := range d.cl {
			if c.longCh == nil {
				c.released = false
			}
		}
		d.probes(false)
		// library-quiescent (nothing parked at a hook): report who is blocked, once per change
		if len(x.ParkedActors()) == 0 && x.T.Events() != d.lastObs {
			x.Log(trace.E{"ev": "quiet", "blk": d.blockedIDs(), "xblk": d.blockedXIDs()})
		}
		d.lastObs = x.T.Events()
	}
	x.Loop(moves, observe, 90)

	if x.LogSteps {
		// X-level trace validation ends here: the cancellations of the teardown are not controller steps
		x.Log(trace.E{"ev": "teardown"})
	}
	// teardown, still one critical section per step: no new calls; leave long critical
	// sections, cancel every wait in flight, grant until nothing is parked
	for _, c := range d.cl {
		c.c.Prog = nil
	}
	for round := 0; round < 3; round++ {
		x.Loop(func() []sched.Move { return append(grants(), envMoves(false)...) }, observe, x.Steps+200)
		for _, c := range d.cl {
			if c.waitID != 0 && !c.canc {
				c.canc = true
				x.Log(trace.E{"ev": "cancel", "id": c.waitID, "xid": c.waitXID})
				c.cancel()
			}
		}
	}
	x.Drain()
	d.probes(true)
	return out
}
