//go:build racep

package harness

// C13: free-running client programs for the Go race detector (mode M3 of DESIGN §2.3.2).
// No bubble, no controller, no channel traffic between harness and library goroutines other
// than what the documented API itself implies. Hooks only perturb timing (Gosched/spin chosen
// without touching shared memory), so they add no happens-before edges that could hide a race.
// Harness-owned callbacks keep their own bookkeeping goroutine-local or in sync/atomic values
// that the library never touches.

import (
	"bytes"
	"context"
	"errors"
	"flag"
	"fmt"
	"io"
	"math/rand"
	"runtime"
	"sync"
	"testing"
	"time"

	"github.com/aperturerobotics/util/broadcast"
	"github.com/aperturerobotics/util/ccall"
	"github.com/aperturerobotics/util/ccontainer"
	"github.com/aperturerobotics/util/conc"
	"github.com/aperturerobotics/util/cqueue"
	"github.com/aperturerobotics/util/csync"
	"github.com/aperturerobotics/util/iocloser"
	"github.com/aperturerobotics/util/iosizer"
	"github.com/aperturerobotics/util/keyed"
	"github.com/aperturerobotics/util/linkedlist"
	"github.com/aperturerobotics/util/memo"
	"github.com/aperturerobotics/util/promise"
	"github.com/aperturerobotics/util/refcount"
	"github.com/aperturerobotics/util/routine"
	"github.com/aperturerobotics/util/verifhook"
)

var (
	fRaceType  = flag.String("rtype", "", "program family to run (empty: all)")
	fRaceSeed  = flag.Int64("rseed", 1, "seed")
	fRaceIters = flag.Int("riters", 20, "programs per family")
)

func perturb() {
	// goroutine-local pseudo randomness: no shared memory
	switch time.Now().UnixNano() & 7 {
	case 0, 1:
		runtime.Gosched()
	case 2:
		for i := 0; i < 50; i++ {
			_ = i
		}
	}
}

func installPerturb() {
	verifhook.Set(&verifhook.Handlers{
		Lock:     func(any) { perturb() },
		Unlocked: func(any) { perturb() },
		Go:       func(string, any) { perturb() },
		Atomic:   func(string, any) { perturb() },
	})
}

// par runs n clients concurrently, each with its own rng, and waits for them.
func par(seed int64, n int, f func(i int, r *rand.Rand)) {
	var wg sync.WaitGroup
	for i := 0; i < n; i++ {
		wg.Add(1)
		go func(i int) {
			defer wg.Done()
			defer func() {
				// a crash inside the library (e.g. a nil dereference in a racy window) must not end
				// the shard: the race report has been written already, the other programs still run
				if r := recover(); r != nil {
					fmt.Printf("RACEPROG-PANIC %v\n", r)
				}
			}()
			f(i, rand.New(rand.NewSource(seed*131+int64(i))))
		}(i)
	}
	wg.Wait()
}

var errX = errors.New("x")

type raceProg struct {
	name string
	run  func(seed int64)
}

func racePrograms() []raceProg {
	return []raceProg{
		{"broadcast", func(seed int64) {
			var b broadcast.Broadcast
			n := 0
			ctx, cancel := context.WithCancel(context.Background())
			par(seed, 4, func(i int, r *rand.Rand) {
				for k := 0; k < 30; k++ {
					switch r.Intn(5) {
					case 0:
						b.HoldLock(func(bc func(), _ func() <-chan struct{}) { n++; bc() })
					case 1:
						b.TryHoldLock(func(bc func(), _ func() <-chan struct{}) { n++; bc() })
					case 2:
						b.HoldLockMaybeAsync(func(bc func(), _ func() <-chan struct{}) { n++; bc() })
					case 3:
						c2, cn := context.WithTimeout(ctx, time.Millisecond)
						target := 0
						_ = b.Wait(c2, func(_ func(), _ func() <-chan struct{}) (bool, error) {
							if target == 0 {
								target = n + 1
							}
							return n >= target, nil
						})
						cn()
					case 4:
						var ch <-chan struct{}
						b.HoldLock(func(_ func(), g func() <-chan struct{}) { ch = g() })
						select {
						case <-ch:
						case <-time.After(time.Millisecond):
						}
					}
				}
			})
			cancel()
			time.Sleep(2 * time.Millisecond)
		}},
		{"csync", func(seed int64) {
			var m csync.Mutex
			var rw csync.RWMutex
			lk, rlk, wlk := m.Locker(), rw.RLocker(), rw.Locker()
			shared, sharedRW := 0, 0
			par(seed, 4, func(i int, r *rand.Rand) {
				for k := 0; k < 40; k++ {
					ctx, cn := context.WithTimeout(context.Background(), time.Duration(r.Intn(3))*time.Millisecond)
					switch r.Intn(8) {
					case 0:
						if rel, err := m.Lock(ctx); err == nil {
							shared++
							rel()
							rel()
						}
					case 1:
						if rel, ok := m.TryLock(); ok {
							shared++
							rel()
						}
					case 2:
						lk.Lock()
						shared++
						lk.Unlock()
					case 3:
						if rel, err := rw.Lock(ctx, true); err == nil {
							sharedRW++
							rel()
						}
					case 4:
						if rel, err := rw.Lock(ctx, false); err == nil {
							_ = sharedRW
							rel()
							rel()
						}
					case 5:
						if rel, ok := rw.TryLock(r.Intn(2) == 0); ok {
							_ = sharedRW
							rel()
						}
					case 6:
						rlk.Lock()
						_ = sharedRW
						rlk.Unlock()
					case 7:
						wlk.Lock()
						sharedRW++
						wlk.Unlock()
					}
					cn()
				}
			})
		}},
		{"ccontainer", func(seed int64) {
			c := ccontainer.NewCContainerWithEqual[int](0, func(a, b int) bool { return a%100 == b%100 })
			par(seed, 4, func(i int, r *rand.Rand) {
				for k := 0; k < 40; k++ {
					ctx, cn := context.WithTimeout(context.Background(), time.Millisecond)
					switch r.Intn(7) {
					case 0:
						c.SetValue(r.Intn(5))
					case 1:
						c.SwapValue(func(v int) int { return v + 1 })
					case 2:
						_ = c.GetValue()
					case 3:
						_, _ = c.WaitValue(ctx, nil)
					case 4:
						_, _ = c.WaitValueChange(ctx, r.Intn(5), nil)
					case 5:
						_ = c.WaitValueEmpty(ctx, nil)
					case 6:
						ec := make(chan error, 1)
						if r.Intn(2) == 0 {
							ec <- errX
						}
						_, _ = c.WaitValueWithValidator(ctx, func(v int) (bool, error) { return v > 3, nil }, ec)
					}
					cn()
				}
			})
		}},
		{"ccall", func(seed int64) {
			par(seed, 3, func(i int, r *rand.Rand) {
				for k := 0; k < 30; k++ {
					n := r.Intn(4)
					fns := make([]ccall.CallConcurrentlyFunc, n)
					for j := range fns {
						d := r.Intn(3)
						e := r.Intn(3) == 0
						if r.Intn(8) == 0 && n > 1 {
							continue // nil entry
						}
						fns[j] = func(ctx context.Context) error {
							if d > 0 {
								select {
								case <-ctx.Done():
									return context.Canceled
								case <-time.After(time.Duration(d) * 100 * time.Microsecond):
								}
							}
							if e {
								return errX
							}
							return nil
						}
					}
					ctx, cn := context.WithTimeout(context.Background(), time.Millisecond)
					_ = ccall.CallConcurrently(ctx, fns...)
					cn()
				}
			})
		}},
		{"conc", func(seed int64) {
			for _, lim := range []int{0, 1, 2} {
				q := conc.NewConcurrentQueue(lim, func() {}, func() {})
				par(seed+int64(lim), 3, func(i int, r *rand.Rand) {
					for k := 0; k < 25; k++ {
						ctx, cn := context.WithTimeout(context.Background(), time.Millisecond)
						switch r.Intn(4) {
						case 0, 1:
							q.Enqueue(func() { runtime.Gosched() }, func() {})
						case 2:
							_ = q.WaitIdle(ctx, nil)
						case 3:
							cnt := 0
							_ = q.WatchState(ctx, nil, func(a, b int) (bool, error) { cnt++; return cnt < 3, nil })
						}
						cn()
					}
				})
				_ = q.WaitIdle(context.Background(), nil)
			}
		}},
		{"lifo", func(seed int64) {
			var q cqueue.AtomicLIFO[int]
			par(seed, 4, func(i int, r *rand.Rand) {
				for k := 0; k < 200; k++ {
					if r.Intn(2) == 0 {
						q.Push(i*1000 + k + 1)
					} else {
						_ = q.Pop()
					}
				}
			})
		}},
		{"linkedlist", func(seed int64) {
			l := linkedlist.NewLinkedList[int](1, 2)
			par(seed, 4, func(i int, r *rand.Rand) {
				for k := 0; k < 200; k++ {
					switch r.Intn(7) {
					case 0:
						l.Push(k)
					case 1:
						l.PushFront(k)
					case 2:
						l.Pop()
					case 3:
						l.Peek()
					case 4:
						l.PeekTail()
					case 5:
						l.IsEmpty()
					case 6:
						if r.Intn(10) == 0 {
							l.Reset()
						}
					}
				}
			})
		}},
		{"keyed", func(seed int64) {
			k := keyed.NewKeyed[int, int](func(key int) (keyed.Routine, int) {
				return func(ctx context.Context) error {
					if key%2 == 0 {
						<-ctx.Done()
						return context.Canceled
					}
					if key%3 == 0 {
						return errX
					}
					return nil
				}, key * 10
			}, keyed.WithReleaseDelay[int, int](200*time.Microsecond), keyed.WithRetry[int, int](nil),
				keyed.WithExitCb[int, int](func(int, keyed.Routine, int, error) {}))
			ctx, cancel := context.WithCancel(context.Background())
			k.SetContext(ctx, false)
			par(seed, 4, func(i int, r *rand.Rand) {
				for n := 0; n < 40; n++ {
					key := r.Intn(4)
					switch r.Intn(11) {
					case 0, 1:
						k.SetKey(key, r.Intn(2) == 0)
					case 2:
						k.RemoveKey(key)
					case 3:
						k.SyncKeys([]int{r.Intn(4), r.Intn(4)}, r.Intn(2) == 0)
					case 4:
						k.GetKeys()
						k.GetKeysWithData()
						k.GetKey(key)
					case 5:
						k.RestartRoutine(key)
					case 6:
						k.ResetRoutine(key)
					case 7:
						if r.Intn(4) == 0 {
							k.SetContext(ctx, true)
						}
					case 8:
						k.RestartAllRoutines()
					case 9:
						k.ResetAllRoutines(func(int, int) bool { return true })
					case 10:
						if r.Intn(8) == 0 {
							k.ClearContext()
							k.SetContext(ctx, false)
						}
					}
				}
			})
			cancel()
			k.ClearContext()
			time.Sleep(time.Millisecond)
		}},
		{"keyedrefcount", func(seed int64) {
			k := keyed.NewKeyedRefCount[int, int](func(key int) (keyed.Routine, int) {
				return func(ctx context.Context) error { <-ctx.Done(); return nil }, key
			}, keyed.WithReleaseDelay[int, int](100*time.Microsecond))
			ctx, cancel := context.WithCancel(context.Background())
			k.SetContext(ctx, false)
			par(seed, 4, func(i int, r *rand.Rand) {
				var refs []*keyed.KeyedRef[int, int]
				for n := 0; n < 40; n++ {
					key := r.Intn(3)
					switch r.Intn(6) {
					case 0, 1:
						ref, _, _ := k.AddKeyRef(key)
						refs = append(refs, ref)
					case 2:
						if len(refs) > 0 {
							refs[len(refs)-1].Release()
							if r.Intn(2) == 0 {
								refs[len(refs)-1].Release()
							}
							refs = refs[:len(refs)-1]
						}
					case 3:
						k.RemoveKey(key)
					case 4:
						k.GetKeys()
						k.GetKey(key)
					case 5:
						k.RestartRoutine(key)
					}
				}
				for _, ref := range refs {
					ref.Release()
				}
			})
			cancel()
			k.ClearContext()
			time.Sleep(time.Millisecond)
		}},
		{"routine", func(seed int64) {
			rc := routine.NewRoutineContainer(routine.WithExitCb(func(error) {}))
			ctx, cancel := context.WithCancel(context.Background())
			rc.SetContext(ctx, false)
			par(seed, 4, func(i int, r *rand.Rand) {
				for n := 0; n < 40; n++ {
					switch r.Intn(6) {
					case 0, 1:
						mode := r.Intn(3)
						rc.SetRoutine(func(ctx context.Context) error {
							switch mode {
							case 0:
								<-ctx.Done()
								return context.Canceled
							case 1:
								return errX
							}
							return nil
						})
					case 2:
						rc.RestartRoutine()
					case 3:
						if r.Intn(3) == 0 {
							rc.ClearContext()
						} else {
							rc.SetContext(ctx, r.Intn(2) == 0)
						}
					case 4:
						c2, cn := context.WithTimeout(context.Background(), 300*time.Microsecond)
						_ = rc.WaitExited(c2, r.Intn(2) == 0, nil)
						cn()
					case 5:
						if r.Intn(5) == 0 {
							rc.SetRoutine(nil)
						}
					}
				}
			})
			cancel()
			rc.ClearContext()
			time.Sleep(time.Millisecond)
		}},
		{"stateroutine", func(seed int64) {
			sr := routine.NewStateRoutineContainer[int](func(a, b int) bool { return a == b })
			sr.SetStateRoutine(func(ctx context.Context, st int) error {
				if st%2 == 0 {
					<-ctx.Done()
					return context.Canceled
				}
				return nil
			})
			ctx, cancel := context.WithCancel(context.Background())
			sr.SetContext(ctx, false)
			par(seed, 4, func(i int, r *rand.Rand) {
				for n := 0; n < 40; n++ {
					switch r.Intn(7) {
					case 0, 1:
						sr.SetState(r.Intn(4))
					case 2:
						switch r.Intn(3) {
						case 0:
							sr.SwapValue(func(v int) int { return v + 1 })
						case 1:
							sr.SwapValue(func(v int) int { return v })
						default:
							sr.SwapValue(nil)
						}
					case 3:
						_ = sr.GetState()
					case 4:
						sr.RestartRoutine()
					case 5:
						if r.Intn(3) == 0 {
							sr.ClearContext()
						} else {
							sr.SetContext(ctx, r.Intn(2) == 0)
						}
					case 6:
						c2, cn := context.WithTimeout(context.Background(), 300*time.Microsecond)
						_ = sr.WaitExited(c2, true, nil)
						cn()
					}
				}
			})
			cancel()
			sr.ClearContext()
			time.Sleep(time.Millisecond)
		}},
		{"refcount", func(seed int64) {
			for _, keep := range []bool{false, true} {
				target := ccontainer.NewCContainer[*int](nil)
				targetErr := ccontainer.NewCContainer[*error](nil)
				rc := refcount.NewRefCount[*int](nil, keep, target, targetErr, func(ctx context.Context, released func()) (*int, func(), error) {
					v := new(int)
					if time.Now().UnixNano()&7 == 0 {
						return nil, nil, errX
					}
					if time.Now().UnixNano()&3 == 0 {
						go func() { time.Sleep(50 * time.Microsecond); released() }()
					}
					return v, func() {}, nil
				})
				ctx, cancel := context.WithCancel(context.Background())
				rc.SetContext(ctx)
				par(seed, 4, func(i int, r *rand.Rand) {
					for n := 0; n < 30; n++ {
						c2, cn := context.WithTimeout(context.Background(), 500*time.Microsecond)
						switch r.Intn(9) {
						case 0:
							ref := rc.AddRef(func(bool, *int, error) {})
							ref.Release()
							ref.Release()
						case 1:
							if _, ref, err := rc.Wait(c2); err == nil {
								ref.Release()
							}
						case 2:
							if _, rel, err := rc.Resolve(c2); err == nil {
								rel()
							}
						case 3:
							if _, rel, err := rc.ResolveWithReleased(c2, func() {}); err == nil {
								rel()
							}
						case 4:
							_ = rc.Access(c2, func(ctx context.Context, v *int) error { return nil })
						case 5:
							_, _ = refcount.WaitRefCountContainer(c2, target, targetErr)
						case 6:
							if r.Intn(4) == 0 {
								rc.ClearContext()
								rc.SetContext(ctx)
							}
						case 7:
							prom, ref := rc.WaitWithReleased(c2, func() {})
							_, _ = prom.Await(c2)
							ref.Release()
						case 8:
							prom, ref := rc.AddRefPromise()
							_, _ = prom.Await(c2)
							ref.Release()
						}
						cn()
					}
				})
				cancel()
				rc.ClearContext()
			}
			time.Sleep(time.Millisecond)
		}},
		{"promise", func(seed int64) {
			for it := 0; it < 10; it++ {
				p := promise.NewPromise[int]()
				pc := promise.NewPromiseContainer[int]()
				par(seed+int64(it), 4, func(i int, r *rand.Rand) {
					for n := 0; n < 10; n++ {
						c2, cn := context.WithTimeout(context.Background(), 300*time.Microsecond)
						switch r.Intn(9) {
						case 0:
							p.SetResult(i, nil)
						case 1:
							_, _ = p.Await(c2)
						case 2:
							_, _ = p.AwaitWithErrCh(c2, make(chan error))
						case 3:
							_, _ = p.AwaitWithCancelCh(c2, make(chan struct{}))
						case 4:
							pc.SetResult(i, nil)
						case 5:
							if r.Intn(2) == 0 {
								pc.SetPromise(nil)
							} else {
								pc.SetPromise(promise.NewPromise[int]())
							}
						case 6:
							_, _ = pc.Await(c2)
						case 7:
							_, _ = pc.AwaitWithErrCh(c2, make(chan error))
						case 8:
							pr, _ := pc.GetPromise()
							if pr != nil {
								pr.SetResult(7, errX)
							}
						}
						cn()
					}
				})
			}
		}},
		{"once", func(seed int64) {
			for it := 0; it < 10; it++ {
				calls := 0 // only touched by the function, which Once runs one at a time
				o := promise.NewOnce(func(ctx context.Context) (int, error) {
					calls++
					if calls < 2 {
						return 0, errX
					}
					return 42, nil
				})
				var mcalls int
				mf := memo.MemoizeFunc(func() (int, error) { mcalls++; return mcalls, nil })
				par(seed+int64(it), 4, func(i int, r *rand.Rand) {
					for n := 0; n < 5; n++ {
						c2, cn := context.WithTimeout(context.Background(), 300*time.Microsecond)
						_, _ = o.Resolve(c2)
						cn()
						_, _ = mf()
					}
				})
			}
		}},
		{"iocloser", func(seed int64) {
			for it := 0; it < 10; it++ {
				pr, pw := io.Pipe()
				rcl := iocloser.NewReadCloser(pr, func() error { return pr.Close() })
				wcl := iocloser.NewWriteCloser(pw, func() error { return pw.Close() })
				par(seed+int64(it), 4, func(i int, r *rand.Rand) {
					buf := make([]byte, 8)
					for n := 0; n < 10; n++ {
						switch i {
						case 0:
							_, _ = rcl.Read(buf)
						case 1:
							_, _ = wcl.Write(buf[:3])
						default:
							if n == 6+i {
								rcl.Close()
								wcl.Close()
							}
						}
					}
				})
				rcl.Close()
				wcl.Close()
			}
		}},
		{"iosizer-eof", func(seed int64) {
			// several readers drain one source to EOF (and past it) while others write and sample the total
			src := &lockedReader{r: bytes.NewReader(make([]byte, 40))} // (the source itself is concurrency-safe)
			s := iosizer.NewSizeReadWriter(src, io.Discard)
			par(seed, 4, func(i int, r *rand.Rand) {
				buf := make([]byte, 16)
				for n := 0; n < 12; n++ {
					switch i {
					case 0, 1:
						_, _ = s.Read(buf[:1+r.Intn(15)])
					case 2:
						_, _ = s.Write(buf[:1+r.Intn(8)])
					default:
						_ = s.TotalSize()
					}
				}
			})
		}},
		{"iosizer", func(seed int64) {
			pr, pw := io.Pipe()
			s := iosizer.NewSizeReadWriter(pr, pw)
			par(seed, 4, func(i int, r *rand.Rand) {
				buf := make([]byte, 16)
				for n := 0; n < 50; n++ {
					switch i {
					case 0:
						_, _ = s.Write(buf[:1+r.Intn(8)])
					case 1:
						_, _ = s.Read(buf)
					default:
						_ = s.TotalSize()
					}
				}
				if i == 0 {
					pw.Close()
				}
				if i == 1 {
					pr.Close()
				}
			})
		}},
	}
}

// lockedReader makes an io.Reader safe for concurrent use.
type lockedReader struct {
	mu sync.Mutex
	r  io.Reader
}

func (l *lockedReader) Read(p []byte) (int, error) {
	l.mu.Lock()
	defer l.mu.Unlock()
	return l.r.Read(p)
}

func TestRaceProgs(t *testing.T) {
	installPerturb()
	n := 0
	for _, p := range racePrograms() {
		if *fRaceType != "" && *fRaceType != p.name {
			continue
		}
		for i := 0; i < *fRaceIters; i++ {
			fmt.Printf("RACEPROG %s %d\n", p.name, *fRaceSeed*1000+int64(i))
			p.run(*fRaceSeed*1000 + int64(i))
			n++
		}
	}
	fmt.Printf("RACEPROGS-DONE %d\n", n)
}
