// Package trace writes the ndjson event log that the TLA+ trace specifications consume.
//
// Every event gets a global sequence number taken under the writer's mutex, never a wall
// clock. Values must be JSON scalars, arrays or objects; no null (TLC's Json module has no
// use for it): absent strings are "", absent ints are -1.
package trace

import (
	"bufio"
	"encoding/json"
	"os"
	"sort"
	"strconv"
	"sync"
)

// E is one event: ordered key/value pairs are not needed, a map is enough.
type E map[string]any

// Writer is an ndjson writer.
type Writer struct {
	mu    sync.Mutex
	f     *os.File
	w     *bufio.Writer
	seq   int
	run   int
	nev   int
	Mem   []E // events of the current run (kept for replay files)
	Quiet bool
}

// New creates a writer on path ("" = discard).
func New(path string) (*Writer, error) {
	w := &Writer{}
	if path != "" {
		f, err := os.Create(path)
		if err != nil {
			return nil, err
		}
		w.f = f
		w.w = bufio.NewWriterSize(f, 1<<20)
	}
	return w, nil
}

// Reset starts a new run (execution); the trace specs re-initialise on it.
func (w *Writer) Reset(run int, fields E) {
	w.mu.Lock()
	// everything of the earlier runs goes to disk now: should the process die in this run (a panic in
	// a goroutine the library created cannot be recovered), the file still holds them completely
	if w.w != nil {
		w.w.Flush()
	}
	w.run = run
	w.seq = 0
	w.Mem = w.Mem[:0]
	w.mu.Unlock()
	e := E{"ev": "reset"}
	for k, v := range fields {
		e[k] = v
	}
	w.Log(e)
}

// Log appends one event.
func (w *Writer) Log(e E) {
	w.mu.Lock()
	defer w.mu.Unlock()
	w.seq++
	w.nev++
	e["seq"] = w.seq
	e["run"] = w.run
	w.Mem = append(w.Mem, e)
	if w.w == nil {
		return
	}
	// deterministic key order for reproducible files
	keys := make([]string, 0, len(e))
	for k := range e {
		keys = append(keys, k)
	}
	sort.Strings(keys)
	w.w.WriteByte('{')
	for i, k := range keys {
		if i > 0 {
			w.w.WriteByte(',')
		}
		w.w.WriteString(strconv.Quote(k))
		w.w.WriteByte(':')
		b, err := json.Marshal(e[k])
		if err != nil {
			panic(err)
		}
		w.w.Write(b)
	}
	w.w.WriteString("}\n")
}

// Events returns the number of events written so far.
func (w *Writer) Events() int {
	w.mu.Lock()
	defer w.mu.Unlock()
	return w.nev
}

// Seq returns the sequence number of the last event of the current run.
func (w *Writer) Seq() int {
	w.mu.Lock()
	defer w.mu.Unlock()
	return w.seq
}

// Flush flushes buffered output.
func (w *Writer) Flush() {
	w.mu.Lock()
	defer w.mu.Unlock()
	if w.w != nil {
		w.w.Flush()
	}
}

// Close flushes and closes.
func (w *Writer) Close() {
	w.Flush()
	if w.f != nil {
		w.f.Close()
	}
}
