// Package sched is the deterministic controller (DESIGN §2.3): it steps the real library one
// critical section at a time inside a testing/synctest bubble.
//
// Actors are goroutines: harness clients, library goroutines (registered at their first
// verifhook call) and harness-owned user functions running on either. A hook parks its
// goroutine on a bubbled channel (a durable block for synctest); the controller releases one
// parked actor — or performs one environment move — per step and then calls synctest.Wait.
package sched

import (
	"fmt"
	"math/rand"
	"runtime"
	"sort"
	"strconv"
	"strings"
	"sync"
	"sync/atomic"
	"testing/synctest"
	"time"

	"verifharness/trace"

	"github.com/aperturerobotics/util/verifhook"
)

// Park describes where an actor is parked.
type Park struct {
	Kind string // lock | go | atomic | unlocked | user
	Site string // kind string of Go/Atomic hooks, name of a user park
	Obj  any
	ch   chan any
	a    *Actor
}

// Actor is a goroutine known to the controller.
type Actor struct {
	Name   string
	gid    int64
	park   *Park
	depth  int // >0 while inside a controlled critical section
	client *Client
	consec int // consecutive grants without any logged event (spin detection)
	freeN  int // hooks passed during teardown
	lastEv int
	Spun   bool
	nLock  int // number of lock hooks passed (for descriptors)
}

// Parked returns the park of the actor, or nil.
func (a *Actor) Parked() *Park { return a.park }

// Client is a harness-owned goroutine that executes operations on command.
type Client struct {
	Name  string
	cmd   chan func()
	busy  bool
	actor *Actor
	Prog  []Op // remaining program (driver-owned)
	Data  map[string]any
}

// Op is one client operation.
type Op struct {
	Label string // move label, e.g. "call:c1:lock"
	Do    func()
}

// Busy reports whether an operation is in flight.
func (c *Client) Busy() bool { return c.busy }

// Actor returns the client's actor.
func (c *Client) Actor() *Actor { return c.actor }

// Move is one possible controller step.
type Move struct {
	Label string
	Actor string // "" for environment moves
	Do    func()
}

// Policy decides whether a hook parks.
type Policy func(a *Actor, kind, site string, obj any) bool

// Exec is one controlled execution.
type Exec struct {
	mu      sync.Mutex
	T       *trace.Writer
	Rng     *rand.Rand
	Seed    int64
	actors  map[int64]*Actor
	order   []*Actor
	counts  map[string]int
	Clients []*Client
	Policy  Policy
	start   time.Time
	// Bypass: hooks return at once (free-running bursts that want the library's own locks contended,
	// not the controller's)
	Bypass atomic.Bool

	Sched     []string // labels to follow, if any
	schedPos  int
	Diverged  bool
	DivergeAt int
	Strategy  int // 0 uniform, 1 sticky, 2 starve
	// Double: in this execution a grant is now and then combined with an environment move (a
	// cancellation, an error-channel delivery) into ONE controller step: the granted goroutine's
	// critical section and the environment event then happen before any woken goroutine runs, so a
	// waiter finds both its wait channel closed and its context cancelled (Go's select picks either).
	Double bool
	// Both refinements are opt-in per driver (OptDouble / OptParkUnl, set at the start of Run): a monitor
	// that takes the logged return of a call as its linearization point is only right when critical
	// section and return happen in one controller step.
	OptDouble, OptParkUnl bool
	// ParkUnl: in this (seeded, not schedule-following) execution verifhook.Unlocked is a park point too
	ParkUnl   bool
	rng2      *rand.Rand
	starve    string
	lastActor string
	Steps     int
	Labels    []string // labels actually taken
	SpinK     int
	LogSteps  bool  // log every controller step as a "step" event (X-level trace validation)
	free      bool  // teardown: hooks no longer park
	root      int64 // goroutine id of the controller: it never parks
	Notes     []string
}

var cur *Exec
var curMu sync.RWMutex

func current() *Exec {
	curMu.RLock()
	defer curMu.RUnlock()
	return cur
}

// Install installs the verifhook handlers (once per process).
func Install() {
	verifhook.Set(&verifhook.Handlers{
		Lock: func(obj any) {
			if x := current(); x != nil {
				x.hook("lock", "", obj)
			}
		},
		TryLock: func(obj any) {
			if x := current(); x != nil {
				x.hook("trylock", "", obj)
			}
		},
		Unlocked: func(obj any) {
			if x := current(); x != nil {
				x.hook("unlocked", "", obj)
			}
		},
		Go: func(kind string, obj any) {
			if x := current(); x != nil {
				x.hook("go", kind, obj)
			}
		},
		Atomic: func(kind string, obj any) {
			if x := current(); x != nil {
				x.hook("atomic", kind, obj)
			}
		},
	})
}

func gid() int64 {
	var buf [64]byte
	n := runtime.Stack(buf[:], false)
	// "goroutine 123 ["
	s := string(buf[10:n])
	i := strings.IndexByte(s, ' ')
	id, _ := strconv.ParseInt(s[:i], 10, 64)
	return id
}

// NewExec creates an execution; must be called inside the bubble.
func NewExec(t *trace.Writer, seed int64) *Exec {
	x := &Exec{
		T:      t,
		Rng:    rand.New(rand.NewSource(seed)),
		Seed:   seed,
		actors: map[int64]*Actor{},
		counts: map[string]int{},
		start:  time.Now(),
		SpinK:  50,
		root:   gid(),
	}
	x.Strategy = int(x.Rng.Intn(3))
	// a stream of its own, so that the scenario generators draw the same numbers as before
	x.rng2 = rand.New(rand.NewSource(seed ^ 0x5eed5eed))
	x.Double = x.rng2.Intn(3) == 0
	x.ParkUnl = x.rng2.Intn(4) == 0
	curMu.Lock()
	cur = x
	curMu.Unlock()
	return x
}

// Detach removes the execution from the hooks.
func (x *Exec) Detach() {
	curMu.Lock()
	if cur == x {
		cur = nil
	}
	curMu.Unlock()
}

// Now returns virtual milliseconds since the start of the execution.
func (x *Exec) Now() int { return int(time.Since(x.start) / time.Millisecond) }

// Log writes an event stamped with virtual time and the calling actor.
func (x *Exec) Log(e trace.E) {
	if _, ok := e["t"]; !ok {
		e["t"] = x.Now()
	}
	x.T.Log(e)
}

func (x *Exec) actorLocked(g int64, hint string) *Actor {
	a := x.actors[g]
	if a == nil {
		x.counts[hint]++
		a = &Actor{Name: fmt.Sprintf("%s#%d", hint, x.counts[hint]), gid: g}
		x.actors[g] = a
		x.order = append(x.order, a)
	}
	return a
}

// Self returns the actor of the calling goroutine (registering it if needed).
func (x *Exec) Self() *Actor {
	g := gid()
	x.mu.Lock()
	defer x.mu.Unlock()
	return x.actorLocked(g, "anon")
}

func (x *Exec) hook(kind, site string, obj any) {
	if x.Bypass.Load() {
		return
	}
	// a TryLock site is a lock site for the policies and the depth accounting; only Park.Kind tells
	// them apart (a driver may grant it while the lock is held: the attempt fails, nothing blocks)
	try := kind == "trylock"
	if try {
		kind = "lock"
	}
	g := gid()
	x.mu.Lock()
	hint := "anon"
	if kind == "go" {
		hint = site
	}
	a := x.actorLocked(g, hint)
	if x.free && g != x.root {
		// teardown (hooks pass through): a goroutine that keeps coming back here is looping without
		// progress; it is parked for good, or the bubble would never settle
		a.freeN++
		if a.freeN > 2000 {
			first := !a.Spun
			a.Spun = true
			x.mu.Unlock()
			if first {
				x.Log(trace.E{"ev": "spin", "actor": a.Name, "n": a.freeN, "teardown": true})
			}
			select {}
		}
	}
	if g == x.root {
		// calls made by the controller itself (probes, setup) run straight through
		switch kind {
		case "lock":
			a.depth++
		case "unlocked":
			if a.depth > 0 {
				a.depth--
			}
		}
		x.mu.Unlock()
		return
	}
	switch kind {
	case "unlocked":
		if a.depth > 0 {
			a.depth--
		}
		if a.depth > 0 || x.free {
			x.mu.Unlock()
			return
		}
		if x.Policy == nil {
			// default: the end of a critical section is a park point only in some seeded executions
			// (finer than the X specs' steps: e.g. a waiter stops between leaving its predicate section
			// and entering its select, so the select can find several cases ready)
			if !x.parkUnlActive() {
				x.mu.Unlock()
				return
			}
		} else if !x.Policy(a, kind, site, obj) {
			x.mu.Unlock()
			return
		}
	case "lock":
		if a.depth > 0 || x.free {
			a.depth++
			x.mu.Unlock()
			return
		}
		a.nLock++
		if x.Policy != nil && !x.Policy(a, kind, site, obj) {
			a.depth++
			x.mu.Unlock()
			return
		}
	default:
		if a.depth > 0 || x.free || (x.Policy != nil && !x.Policy(a, kind, site, obj)) {
			x.mu.Unlock()
			return
		}
	}
	p := &Park{Kind: kind, Site: site, Obj: obj, ch: make(chan any, 1), a: a}
	if try {
		p.Kind = "trylock"
	}
	a.park = p
	x.mu.Unlock()
	<-p.ch
	if kind == "lock" {
		x.mu.Lock()
		a.depth++
		x.mu.Unlock()
	}
}

// ParkUser parks the calling goroutine at a harness-owned point until Resume is called.
// It must not be called while a library lock is held (it then returns nil at once).
func (x *Exec) ParkUser(name string, onPark func(p *Park)) any {
	g := gid()
	x.mu.Lock()
	a := x.actorLocked(g, "anon")
	if a.depth > 0 || x.free {
		x.mu.Unlock()
		return nil
	}
	p := &Park{Kind: "user", Site: name, ch: make(chan any, 1), a: a}
	a.park = p
	x.mu.Unlock()
	if onPark != nil {
		onPark(p)
	}
	return <-p.ch
}

// Resume releases a parked actor with a value.
func (x *Exec) Resume(p *Park, v any) {
	x.mu.Lock()
	if p.a.park == p {
		p.a.park = nil
	}
	x.mu.Unlock()
	p.ch <- v
}

// Active reports whether the park is still pending.
func (p *Park) Active() bool { return p.a.park == p }

// Actor returns the actor parked here.
func (p *Park) Actor() *Actor { return p.a }

// NewClient starts a client goroutine.
func (x *Exec) NewClient(name string) *Client {
	c := &Client{Name: name, cmd: make(chan func()), Data: map[string]any{}}
	ready := make(chan struct{})
	go func() {
		g := gid()
		x.mu.Lock()
		a := &Actor{Name: name, gid: g, client: c}
		x.actors[g] = a
		x.order = append(x.order, a)
		c.actor = a
		x.mu.Unlock()
		close(ready)
		for f := range c.cmd {
			x.Safe(name, f)
			x.mu.Lock()
			c.busy = false
			a.depth = 0
			x.mu.Unlock()
		}
	}()
	<-ready
	x.Clients = append(x.Clients, c)
	return c
}

// Issue sends an operation to an idle client.
func (x *Exec) Issue(c *Client, f func()) {
	x.mu.Lock()
	if c.busy {
		x.mu.Unlock()
		panic("Issue on busy client " + c.Name)
	}
	c.busy = true
	x.mu.Unlock()
	c.cmd <- f
}

// Blocked reports whether the client has a call in flight and is not parked at a hook, i.e.
// (after synctest.Wait) it is durably blocked inside the library.
func (x *Exec) Blocked(c *Client) bool {
	x.mu.Lock()
	defer x.mu.Unlock()
	return c.busy && c.actor.park == nil
}

// ParkedActors returns the actors parked at library hooks (not user parks), in registration order.
func (x *Exec) ParkedActors() []*Actor {
	x.mu.Lock()
	defer x.mu.Unlock()
	var out []*Actor
	for _, a := range x.order {
		if a.park != nil && a.park.Kind != "user" && !a.Spun {
			out = append(out, a)
		}
	}
	return out
}

// ActorByName finds an actor.
func (x *Exec) ActorByName(n string) *Actor {
	x.mu.Lock()
	defer x.mu.Unlock()
	for _, a := range x.order {
		if a.Name == n {
			return a
		}
	}
	return nil
}

// Grant releases an actor parked at a library hook.
func (x *Exec) Grant(a *Actor) {
	x.mu.Lock()
	p := a.park
	if p == nil {
		x.mu.Unlock()
		return
	}
	ev := x.T.Events()
	if x.lastActor == a.Name && a.lastEv == ev {
		a.consec++
	} else {
		a.consec = 1
	}
	a.lastEv = ev
	a.park = nil
	x.mu.Unlock()
	p.ch <- nil
}

// GrantMoves returns one move per actor parked at a library hook.
func (x *Exec) GrantMoves() []Move {
	var ms []Move
	for _, a := range x.ParkedActors() {
		a := a
		ms = append(ms, Move{Label: "grant:" + a.Name, Actor: a.Name, Do: func() { x.Grant(a) }})
	}
	return ms
}

// ClientMoves returns the "issue next operation" move of every idle client with a remaining program.
func (x *Exec) ClientMoves() []Move {
	var ms []Move
	for _, c := range x.Clients {
		c := c
		if c.busy || len(c.Prog) == 0 {
			continue
		}
		op := c.Prog[0]
		ms = append(ms, Move{Label: op.Label, Actor: c.Name, Do: func() {
			c.Prog = c.Prog[1:]
			x.Issue(c, op.Do)
		}})
	}
	return ms
}

// Pick chooses the next move: the schedule's next label if present and possible, otherwise a
// seeded choice.
func (x *Exec) Pick(ms []Move) Move {
	for !x.Diverged && x.schedPos < len(x.Sched) {
		want := x.Sched[x.schedPos]
		opt := strings.HasPrefix(want, "~")
		if opt {
			want = want[1:]
		}
		for _, m := range ms {
			if m.Label == want {
				x.schedPos++
				return m
			}
		}
		if i := strings.IndexByte(want, '&'); i > 0 {
			var m1, m2 *Move
			for k := range ms {
				if ms[k].Label == want[:i] {
					m1 = &ms[k]
				}
				if ms[k].Label == want[i+1:] {
					m2 = &ms[k]
				}
			}
			if m1 != nil && m2 != nil {
				x.schedPos++
				return compose(*m1, *m2)
			}
		}
		if opt {
			x.schedPos++
			continue
		}
		x.Diverged = true
		x.DivergeAt = x.schedPos
	}
	switch x.Strategy {
	case 1: // sticky
		if x.Rng.Intn(10) < 7 {
			for _, m := range ms {
				if m.Actor != "" && m.Actor == x.lastActor {
					return m
				}
			}
		}
	case 2: // starve one actor
		if x.starve == "" {
			var names []string
			for _, m := range ms {
				if m.Actor != "" {
					names = append(names, m.Actor)
				}
			}
			if len(names) > 0 {
				sort.Strings(names)
				x.starve = names[x.Rng.Intn(len(names))]
			}
		}
		var rest []Move
		for _, m := range ms {
			if m.Actor != x.starve {
				rest = append(rest, m)
			}
		}
		if len(rest) > 0 && x.Rng.Intn(20) != 0 {
			ms = rest
		}
	}
	return ms[x.Rng.Intn(len(ms))]
}

// NextWanted returns the label the schedule being followed asks for next ("" when none is followed
// any more): drivers use it to offer environment moves that seeded executions enable by chance.
func (x *Exec) NextWanted() string {
	if x.Diverged || x.schedPos >= len(x.Sched) {
		return ""
	}
	return strings.TrimPrefix(x.Sched[x.schedPos], "~")
}

// parkUnlActive: see ParkUnl. A recorded label list that starts with "!parkunl" (a replay) asks for it.
func (x *Exec) parkUnlActive() bool {
	if x.LogSteps || !x.OptParkUnl {
		return false
	}
	if len(x.Sched) > 0 {
		return x.Sched[0] == "!parkunl"
	}
	return x.ParkUnl
}

func envLabel(l string) bool {
	for _, p := range []string{"cancel:", "fire:", "errch", "cancelroot:"} {
		if strings.HasPrefix(l, p) {
			return true
		}
	}
	return false
}

// compose makes one controller step of a grant and an environment move (see Exec.Double).
func compose(a, b Move) Move {
	return Move{Label: a.Label + "&" + b.Label, Actor: a.Actor, Do: func() { a.Do(); b.Do() }}
}

// SchedDone reports whether the whole schedule was followed.
func (x *Exec) SchedDone() bool { return !x.Diverged && x.schedPos >= len(x.Sched) }

// Step performs one move and waits for the bubble to settle. It returns the spinning actor, if
// the move made one actor exceed the spin bound.
func (x *Exec) Step(m Move) {
	x.Steps++
	x.Labels = append(x.Labels, m.Label)
	if x.LogSteps {
		x.Log(trace.E{"ev": "step", "label": m.Label})
	}
	m.Do()
	x.lastActor = m.Actor
	synctest.Wait()
	if m.Actor != "" {
		if a := x.ActorByName(m.Actor); a != nil && a.consec >= x.SpinK && !a.Spun {
			a.Spun = true
			x.Log(trace.E{"ev": "spin", "actor": a.Name, "n": a.consec})
		}
	}
}

// Tick advances the virtual clock.
func (x *Exec) Tick(d time.Duration) {
	time.Sleep(d)
	synctest.Wait()
}

// Drain switches every hook to pass-through, releases every parked library hook and waits; used
// at teardown. User parks must be resumed by the driver before or after.
func (x *Exec) Drain() {
	x.mu.Lock()
	x.free = true
	var ps []*Park
	for _, a := range x.order {
		if a.Spun {
			// a goroutine that was seen looping without progress stays parked for good: released into
			// pass-through hooks it would spin on the CPU and the bubble would never settle again
			continue
		}
		if a.park != nil && a.park.Kind != "user" {
			ps = append(ps, a.park)
			a.park = nil
		}
	}
	x.mu.Unlock()
	for _, p := range ps {
		p.ch <- nil
	}
	synctest.Wait()
}

// UserParks returns the pending user parks.
func (x *Exec) UserParks() []*Park {
	x.mu.Lock()
	defer x.mu.Unlock()
	var ps []*Park
	for _, a := range x.order {
		if a.park != nil && a.park.Kind == "user" {
			ps = append(ps, a.park)
		}
	}
	return ps
}

// StopClients ends the client goroutines that are idle; returns the names of those still busy.
func (x *Exec) StopClients() []string {
	var stuck []string
	for _, c := range x.Clients {
		x.mu.Lock()
		b := c.busy
		x.mu.Unlock()
		if b {
			stuck = append(stuck, c.Name)
			continue
		}
		close(c.cmd)
	}
	synctest.Wait()
	return stuck
}

// Loop is the standard controller loop: settle, observe, enumerate moves, pick one, step.
func (x *Exec) Loop(moves func() []Move, observe func(), max int) {
	if len(x.Labels) == 0 && x.parkUnlActive() {
		x.Labels = append(x.Labels, "!parkunl")
		if len(x.Sched) > 0 && x.schedPos == 0 {
			x.schedPos = 1
		}
	}
	synctest.Wait()
	for x.Steps < max {
		if observe != nil {
			observe()
		}
		ms := moves()
		if len(ms) == 0 {
			break
		}
		m := x.Pick(ms)
		if x.Double && x.OptDouble && !x.LogSteps && x.NextWanted() == "" && strings.HasPrefix(m.Label, "grant:") && x.rng2.Intn(2) == 0 {
			var env []Move
			for _, e := range ms {
				if envLabel(e.Label) {
					env = append(env, e)
				}
			}
			if len(env) > 0 {
				m = compose(m, env[x.rng2.Intn(len(env))])
			}
		}
		x.Step(m)
	}
	if observe != nil {
		observe()
	}
}

// Safe runs f and turns a panic coming out of the library into a "panic" event (an observation
// for the monitors) instead of a harness crash.
func (x *Exec) Safe(actor string, f func()) {
	defer func() {
		if r := recover(); r != nil {
			msg := fmt.Sprint(r)
			if len(msg) > 200 {
				msg = msg[:200]
			}
			x.Log(trace.E{"ev": "panic", "actor": actor, "msg": msg})
		}
	}()
	f()
}
