"""X01: backoff.Construct / Validate and retry.Retry (specs/backoff: BackoffP reference model; Backoff, Retry X specs).

Spec growth beyond the 20 listed properties.  The code under test is sequential apart from the cancellation
of Retry's context, so no library hook is involved:
  * Backoff.tla is the state machine of the constructed backoff (Construct / Next / Reset / Advance / Validate /
    Empty over a bounded alphabet of configs and clock advances, 20 minutes included); TLC checks it against the
    reference model (ModelSafe, Agree) and its own invariants (Bounds, Monotone, StopOnlyIfLimited); an edge
    cover of its state graph gives the operation sequences the driver replays on the real object, inside the
    synctest bubble (virtual clock).
  * Retry.tla is retry.Retry around a scripted backoff and a scripted f; its paths are (outcome script,
    cancellation time) pairs.
  * hand-written retry scenarios (specs/backoff/scenarios) and seeded random scenarios of both kinds on top.
Every execution is judged by BackoffPTrace (TLC) against BackoffP.
"""
import glob, json, os, re, random, shutil, concurrent.futures as cf
import vlib

PROPS = ["X01"]
PROPERTY_OF = {n: "X01" for n in ("ExpInterval", "ExpStopNever", "ExpStopEarly", "ExpStopMissing", "ConstInterval", "RandRange", "Validate",
                                  "RetryNil", "RetryErr", "RetryAfterNil", "RetryWait", "RetryBackoffUse", "RetrySuccessReset", "RetryReturns")}
SPECDIRS = ["backoff", "lib"]


def cfg(kind=1, ini=0, num=0, den=0, max=0, rnum=0, rden=0, mel=0, civ=0, nilsub=False):
    d = dict(kind=kind, ini=ini, num=num, den=den, max=max, rnum=rnum, rden=rden, mel=mel, civ=civ)
    if nilsub:
        d["nilsub"] = True
    return d


# configs of the X spec (0 = field not set -> documented default)
CONFIGS_Q = [
    cfg(kind=0),                                                 # everything default: 800 ms * 1.8^n up to 20 s, no limit
    cfg(kind=1, ini=1000, num=2, den=1, max=5000, mel=900000),   # limit = the 15 min cenkalti presets
    cfg(kind=1, ini=100, num=3, den=2, rnum=1, rden=2, mel=8000),
    cfg(kind=1, num=9, den=5, max=60000),                        # explicit 1.8, long growth
    cfg(kind=0, ini=5, num=1, den=1, mel=1000),                  # multiplier exactly 1
    cfg(kind=2, civ=250),
    cfg(kind=2),                                                 # constant, default 5 s
    cfg(kind=7),                                                 # unknown kind: Validate only
    cfg(kind=1, ini=30000, num=1, den=1, max=1000),              # initial above max
    cfg(kind=1, nilsub=True),                                    # sub-messages nil
    cfg(kind=1, ini=1, num=9, den=5, max=60000, mel=1500000),    # 19 steps to the cap; limit 25 min
    cfg(kind=1, ini=250, num=5, den=4, max=1000, rnum=1, rden=10),
]
CONFIGS_T = CONFIGS_Q + [
    cfg(kind=0, ini=2500, num=5, den=2, max=20000, rnum=1, rden=1, mel=60000),
    cfg(kind=1, ini=7000, num=3, den=1, max=30000, mel=1200000),
    cfg(kind=1, ini=800, num=11, den=10, max=1000),
    cfg(kind=3),
    cfg(kind=0, nilsub=True),
    cfg(kind=2, civ=30000),
]

BO = {
    "quick": [dict(name="bo_q", configs=CONFIGS_Q, Advs="{500, 7000, 1200000}", MaxNow=1900000, MaxAdv=2)],
    "thorough": [dict(name="bo_t", configs=CONFIGS_T, Advs="{1, 500, 7000, 61000, 900000, 1200000}", MaxNow=1900000, MaxAdv=3)],
}
RETRY = {
    "quick": [dict(name="rt_q1", Script=[1000000, -1, 5000], Outcomes="{0, 1, 2, 3, 4, 5}", MaxInv=3),
              dict(name="rt_q2", Script=[-1], Outcomes="{0, 4, 5}", MaxInv=2)],
    "thorough": [dict(name="rt_t1", Script=[1000000, -1, 5000, 0, 20000000], Outcomes="{0, 1, 2, 3, 4, 5}", MaxInv=4),
                 dict(name="rt_t2", Script=[-1], Outcomes="{0, 1, 2, 3, 4, 5}", MaxInv=3),
                 dict(name="rt_t3", Script=[333333, 999], Outcomes="{0, 2, 5}", MaxInv=5)],
}

BO_RULES = [(r"Construct\((\d+)\)", "c|{1}"), (r"Next\((-?\d+)\)", "0"), (r"Reset", "1"), (r"Advance\((\d+)\)", "2|{1}"),
            (r"Validate\((TRUE|FALSE)\)", "3|{1}"), (r"Empty", "4")]
RT_RULES = [(r"Start|Final", None), (r"Timer", "t|0"), (r"Invoke\((\d+)\)", "o|{1}"), (r"ExtCancel", "x|0")]


def tla_cfg(c):
    return vlib.json2tla({k: v for k, v in c.items() if k != "nilsub"})


def bo_mk(m):
    defs = ["MCConfigs == << " + ",\n  ".join(tla_cfg(c) for c in m["configs"]) + " >>", "MCAdvs == " + m["Advs"]]
    consts = ["Configs <- MCConfigs", "Advs <- MCAdvs", "MaxNow = %d" % m["MaxNow"], "MaxAdv = %d" % m["MaxAdv"]]

    def mk(d):
        cfgl = ["INIT Init", "NEXT Next_", "CHECK_DEADLOCK FALSE", "CONSTANTS"] + [" " + x for x in consts]
        cfgl.append("INVARIANTS ModelSafe Agree Bounds Monotone StopOnlyIfLimited")
        vlib.write_mc(d, "MC", "Backoff", defs, cfgl)
    return mk


def rt_mk(m):
    defs = ["MCScript == " + vlib.json2tla(m["Script"]), "MCOutcomes == " + m["Outcomes"]]
    consts = ["Script <- MCScript", "Outcomes <- MCOutcomes", "MaxInv = %d" % m["MaxInv"]]

    def mk(d):
        cfgl = ["INIT Init", "NEXT Next_", "CHECK_DEADLOCK FALSE", "CONSTANTS"] + [" " + x for x in consts]
        cfgl.append("INVARIANTS ModelSafe Agree")
        vlib.write_mc(d, "MC", "Retry", defs, cfgl)
    return mk


def check_and_paths(wd, name, mk, rules, seed, cap, maxlen):
    """One TLC run: invariants on AND graph dumped (an invariant violation would cut the graph short and is
    reported as a model note; it is never a verdict)."""
    notes = []
    d = vlib.spec_scratch(wd, name + "-mc", SPECDIRS)
    mk(d)
    dot = os.path.join(wd, name + ".dot")
    if os.path.exists(dot):
        os.remove(dot)
    r = vlib.run_tlc(d, "MC", "MC.cfg", workers=2, timeout=900, dump=dot[:-4])
    shutil.rmtree(d, ignore_errors=True)
    if not r["ok"]:
        notes.append("model %s: %s %s" % (name, r["error"], r["violated"]))
        vlib.log("[model] %s: NOT ok: %s %s" % (name, r["error"], r["violated"]))
    if not os.path.exists(dot):
        raise vlib.Inconclusive("no graph dump for %s: %s" % (name, r["out"][-1500:]))
    init, edges, ne = vlib.parse_dot(dot)
    raw, cov, total = vlib.edge_cover(init, edges, maxlen=maxlen, cap=cap, seed=seed)
    paths = vlib.map_labels(raw, rules)
    vlib.log("[model] %s: %d distinct states, %d transitions; %d edges -> %d schedules (%d/%d edges covered)" % (name, r["distinct"], r["states"], ne, len(paths), cov, total))
    os.remove(dot)
    return r, paths, notes


def bo_scenario(m, path):
    if not path or not path[0].startswith("c|"):
        return None
    c = m["configs"][int(path[0][2:]) - 1]
    ops = []
    for l in path[1:]:
        p = l.split("|")
        if p[0] == "2":
            ops.append([2, int(p[1])])
        elif p[0] == "3":
            ops.append([3, 1 if p[1] == "TRUE" else 0])
        else:
            ops.append([int(p[0])])
    return {"kind": "bo", "cfg": c, "ops": ops}


def rt_scenario(m, path):
    # replays the model's clock to place ExtCancel: 1 ms after the last whole ms before it, as in Retry.tla
    outs, cancelat, now, pos, iv = [], 0, 0, 0, 0
    for l in path:
        k, v = l.split("|")
        if k == "o":
            o = int(v)
            outs.append([o, 0])
            if o in (2, 5):
                pos = 0
            iv = m["Script"][pos % len(m["Script"])]
            pos += 1
        elif k == "t":
            now += max(iv, 0)
        else:
            cancelat = now // 1000 + 1
    return {"kind": "retry", "cfg": cfg(kind=0), "bo": "script", "script": m["Script"], "outs": outs, "cancelat": cancelat}


def hand_scenarios():
    out = []
    for f in sorted(glob.glob(os.path.join(vlib.VERIF, "specs", "backoff", "scenarios", "*.json"))):
        out.append((os.path.basename(f)[:-5], json.load(open(f))))
    return out


def one_bo(wd, m, seed, cap):
    r, paths, notes = check_and_paths(wd, m["name"], bo_mk(m), BO_RULES, seed, cap, 40)
    scheds = []
    for i, p in enumerate(paths):
        sc = bo_scenario(m, p)
        if sc is not None:
            scheds.append({"name": "%s/%d" % (m["name"], i), "scenario": sc, "labels": []})
    return r, scheds, notes


def one_rt(wd, m, seed, cap):
    r, paths, notes = check_and_paths(wd, m["name"], rt_mk(m), RT_RULES, seed, cap, 60)
    scheds = [{"name": "%s/%d" % (m["name"], i), "scenario": rt_scenario(m, p), "labels": []} for i, p in enumerate(paths)]
    return r, scheds, notes


def models(wd, tier, seed):
    quick = tier == "quick"
    cap = 6000 if quick else 150000
    states = trans = 0
    scheds, notes, names = [], [], []
    w = max(1, min(vlib.NCPU, 8) // 2)
    with cf.ThreadPoolExecutor(max_workers=w) as ex:
        jobs = [(m["name"], ex.submit(one_bo, wd, m, seed, cap)) for m in BO[tier]]
        jobs += [(m["name"], ex.submit(one_rt, wd, m, seed, cap)) for m in RETRY[tier]]
        for name, j in jobs:
            r, ss, nn = j.result()
            states += r["distinct"]
            trans += r["states"]
            notes += nn
            names.append(name)
            scheds += ss
    nmodel = len(scheds)
    hs = hand_scenarios()
    for name, sc in hs:
        scheds.append({"name": "hand/" + name, "scenario": sc, "labels": []})
        names.append(name)
    notes.append("%d schedules are paths of the TLC state graphs (the operations travel in the scenario, no controller choice is involved); "
                 "%d are the hand-written retry scenarios of specs/backoff/scenarios" % (nmodel, len(hs)))
    notes.append("observation (not a verdict): retry.Retry hands the interval straight to time.After, so backoff.Stop (-1) does not stop it -- "
                 "f is invoked again with no wait; BackoffP accepts this and would also accept a Retry that returns a non-nil error on Stop")
    random.Random(seed).shuffle(scheds)   # balance the harness shards
    return states, trans, scheds, notes, names


FAM = dict(driver="backoff", specdirs=SPECDIRS, monitor="BackoffPTrace", property_of=PROPERTY_OF, models=models,
           n_random={"quick": 6000, "thorough": 60000},
           # thorough: further seeded-random runs in separate trace files (keeps each TLC validation job small)
           modes={"thorough": [("r%d" % i, "salt=%d" % i, 60000) for i in range(1, 4)]},
           x_specs=["backoff/Backoff.tla", "backoff/Retry.tla"], p_monitor="backoff/BackoffP.tla",
           assumptions=["BackoffP's header (B1-B4, R1) is the oracle: statements taken from the doc comments of backoff.proto, backoff.go, retry.go and of "
                        "cenkalti/backoff/v4 ExponentialBackOff; weaker readings are marked [weak] there",
                        "intervals are compared in nanoseconds against floor(cur*num/den) with an accumulated tolerance (BackoffP SeqStep: float32 multiplier, "
                        "rounding mode); randomized intervals only against their documented range",
                        "the virtual clock of an execution stays below 1900 s, intervals at or below 60 s (TLC integers are 32 bit); multipliers below 1 are not exercised",
                        "randomized draws come from math/rand's global source: executions with randomization_factor > 0 are not bit-reproducible",
                        "f ignores its context (it always finishes); a cancellation never coincides with a timer deadline"])


def run(prop, tier, seed):
    return vlib.standard_check(prop, tier, seed, FAM)
