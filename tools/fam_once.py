"""C16: promise.Once and memo.MemoizeFunc (specs/once: OnceP monitor, Once and Memo X specs)."""
import json, os
import vlib

PROPS = ["C16"]
PROPERTY_OF = {k: "C16" for k in ("Overlap", "CalledAfterSuccess", "ValueFromNowhere", "ErrorFromNowhere", "NotMemoized",
                                   "StaleError", "SpuriousCancel", "CancelStuck", "Stuck", "Spin", "Panic",
                                   "MemoCalledTwice", "MemoWrongResult", "MemoStuck")}
Q = r'\\?"(\w+)\\?"'
LABEL_RULES = {
    "once": [
        (r"Call\((\d+)\)", "call:c{1}"),
        (r"Cancel\((\d+)\)", "cancel:c{1}"),
        (r"CS\((\d+)\)", "grant:c{1}"),
        (r"(?:Start|ErrCS|SetWrite|SetClose)\((\d+)\)", "grant:once.worker#{1}"),
        (r"FnRet\((\d+),\s*" + Q + r"\)", "fn:{1}:{2}"),
        (r"(?:AwRes|AwCtx)\((\d+)\)", None),
    ],
    "memo": [
        (r"Call\((\d+)\)", "call:c{1}"),
        (r"(?:Won|Lost)\((\d+)\)", "grant:c{1}"),
        (r"FnRet\((\d+),\s*" + Q + r"\)", "fn:1:{2}"),
        (r"(?:WRet|MWake)\((\d+)\)", None),
    ],
}

SCEN = {"quick": ["on_q1", "on_q2", "mm_q1"],
        "thorough": ["on_q1", "on_q2", "mm_q1", "on_t1", "on_t2", "on_t3", "mm_t1"]}
BIG = ["on_b1", "on_b2", "on_b3"]   # thorough: model checked only (graph too large to dump)


def scen_path(n):
    return os.path.join(vlib.VERIF, "specs", "once", "scenarios", n + ".json")


def tla_set(xs):
    return "{" + ", ".join(json.dumps(x) for x in xs) + "}"


def mk_factory(sc):
    memo = sc["kind"] == "memo"
    base = "Memo" if memo else "Once"

    def mk(d, kind):
        consts = ["Prog <- ScProg", "Outs <- ScOuts", "EagerWake = %s" % ("TRUE" if kind == "graph" else "FALSE")]
        if not memo:
            consts.append("MaxCalls = %d" % sc["maxcalls"])
        cfg = ["INIT Init", "NEXT Next", "CHECK_DEADLOCK FALSE", "CONSTANTS"] + [" " + c for c in consts]
        if kind == "mc":
            cfg += ["INVARIANTS TypeOK ModelSafe QuietInv" + ("" if memo else " BoundNotHit PromOK")]
        vlib.write_mc(d, "MC", base, ["ScProg == " + vlib.json2tla(sc["clients"]), "ScOuts == " + tla_set(sc["outs"])], cfg)
    return mk


def one_model(wd, tier, seed, name):
    quick = tier == "quick"
    sc = json.load(open(scen_path(name)))
    big = name in BIG
    w = vlib.NCPU if big else max(2, min(8, vlib.NCPU // 2))
    r, paths, notes = vlib.model_and_schedules(wd, name, mk_factory(sc), LABEL_RULES[sc["kind"]], seed,
                                               cap=2500 if quick else 20000,
                                               invariant_cfg={"specdirs": ["once", "lib"]}, graph_cfg=None,
                                               workers=w, timeout=1500, dump_graph=not big)
    return name, sc, r, paths, notes


def models(wd, tier, seed):
    from concurrent.futures import ThreadPoolExecutor
    states = trans = 0
    scheds, notes, names = [], [], []
    todo = [n for n in SCEN[tier] + ([] if tier == "quick" else BIG) if os.path.exists(scen_path(n))]
    with ThreadPoolExecutor(max_workers=max(1, min(4, vlib.NCPU // 2))) as ex:
        res = list(ex.map(lambda n: one_model(wd, tier, seed, n), todo))
    for name, sc, r, paths, nn in res:
        states += r["distinct"]
        trans += r["states"]
        notes += nn
        names.append(name)
        for i, p in enumerate(paths):
            scheds.append({"name": "%s/%d" % (name, i), "scenario": sc, "labels": p})
    return states, trans, scheds, notes, names


FAM = dict(driver="once", specdirs=["once", "lib"], monitor="OncePTrace", property_of=PROPERTY_OF, models=models,
           n_random={"quick": 3000, "thorough": 200000},
           x_specs=["once/Once.tla", "once/Memo.tla"], p_monitor="once/OnceP.tla",
           assumptions=["OnceP readings R1-R6 (header of OnceP.tla): 'later Resolve' is relative to the first delivery of an error to a caller; "
                        "a cancelled caller racing with a result may return either; liveness judged at controller-detected quiescence; "
                        "the wrapped function is harness-owned (at most maxcalls calls, the last one can only succeed)"])


def run(prop, tier, seed):
    return vlib.standard_check(prop, tier, seed, FAM)
