"""C16: promise.Once and memo.MemoizeFunc (specs/once: OnceP monitor, Once and Memo X specs)."""
import json, os, shutil
import vlib

PROPS = ["C16"]
PROPERTY_OF = {k: "C16" for k in ("Overlap", "CalledAfterSuccess", "ValueFromNowhere", "ErrorFromNowhere", "NotMemoized",
                                   "StaleError", "SpuriousCancel", "CancelStuck", "Stuck", "Spin", "Panic",
                                   "MemoCalledTwice", "MemoWrongResult", "MemoStuck")}
Q = r'\\?"(\w+)\\?"'
LABEL_RULES = {
    "once": [
        (r"Call\((\d+)\)", "call:c{1}"),
        (r"Cancel\((\d+)\)", "cancel:c{1}"),
        (r"CS\((\d+)\)", "grant:c{1}"),
        (r"(?:Start|ErrCS|SetWrite|SetClose)\((\d+)\)", "grant:once.worker#{1}"),
        (r"FnRet\((\d+),\s*" + Q + r"\)", "fn:{1}:{2}"),
        (r"(?:AwRes|AwCtx)\((\d+)\)", None),
    ],
    "memo": [
        (r"Call\((\d+)\)", "call:c{1}"),
        (r"(?:Won|Lost)\((\d+)\)", "grant:c{1}"),
        (r"FnRet\((\d+),\s*" + Q + r"\)", "fn:1:{2}"),
        (r"(?:WRet|MWake)\((\d+)\)", None),
    ],
}

SCEN = {"quick": ["on_q1", "on_q2", "mm_q1"],
        "thorough": ["on_q1", "on_q2", "mm_q1", "on_t1", "on_t2", "on_t3", "mm_t1"]}
BIG = ["on_b1", "on_b2", "on_b3"]   # thorough: model checked only (graph too large to dump)


_TLC_SCHEDS = []   # the edge-cover schedules of the last models() call (reused by x_conformance)


def scen_path(n):
    return os.path.join(vlib.VERIF, "specs", "once", "scenarios", n + ".json")


def tla_set(xs):
    return "{" + ", ".join(json.dumps(x) for x in xs) + "}"


def mk_factory(sc):
    memo = sc["kind"] == "memo"
    base = "Memo" if memo else "Once"

    def mk(d, kind):
        # kinds: "mc" (coarse, every interleaving of the wake-ups), "graph" (coarse, eager wake-ups: source of the
        # schedules), "fine" (Once only, model check only: the end of a critical section is a scheduling point too,
        # as in sched.Exec.ParkUnl executions)
        consts = ["Prog <- ScProg", "Outs <- ScOuts", "EagerWake = %s" % ("TRUE" if kind == "graph" else "FALSE")]
        if not memo:
            consts.append("MaxCalls = %d" % sc["maxcalls"])
            consts.append("Fine = %s" % ("TRUE" if kind == "fine" else "FALSE"))
        cfg = ["INIT Init", "NEXT Next", "CHECK_DEADLOCK FALSE", "CONSTANTS"] + [" " + c for c in consts]
        if kind in ("mc", "fine"):
            cfg += ["INVARIANTS TypeOK ModelSafe QuietInv" + ("" if memo else " BoundNotHit PromOK")]
        vlib.write_mc(d, "MC", base, ["ScProg == " + vlib.json2tla(sc["clients"]), "ScOuts == " + tla_set(sc["outs"])], cfg)
    return mk


def one_model(wd, tier, seed, name):
    quick = tier == "quick"
    sc = json.load(open(scen_path(name)))
    big = name in BIG
    w = vlib.NCPU if big else max(2, min(8, vlib.NCPU // 2))
    r, paths, notes = vlib.model_and_schedules(wd, name, mk_factory(sc), LABEL_RULES[sc["kind"]], seed,
                                               cap=2500 if quick else 20000,
                                               invariant_cfg={"specdirs": ["once", "lib"]}, graph_cfg=None,
                                               workers=w, timeout=1500, dump_graph=not big)
    if sc["kind"] == "once" and not big:
        # X |= P at the fine granularity (OnceP rests on sound bounds only: it must hold unchanged)
        d = vlib.spec_scratch(wd, name + "-fine", ["once", "lib"])
        mk_factory(sc)(d, "fine")
        rn = vlib.run_tlc(d, "MC", "MC.cfg", workers=w, timeout=900)
        shutil.rmtree(d, ignore_errors=True)
        vlib.log("[model] %s (fine): %d distinct states, %d transitions generated ok=%s" % (name, rn["distinct"], rn["states"], rn["ok"]))
        r = dict(r, distinct=r["distinct"] + rn["distinct"], states=r["states"] + rn["states"])
        if not rn["ok"]:
            notes.append("model %s (fine): %s %s" % (name, rn["error"], rn["violated"]))
    return name, sc, r, paths, notes


def models(wd, tier, seed):
    from concurrent.futures import ThreadPoolExecutor
    states = trans = 0
    scheds, notes, names = [], [], []
    todo = [n for n in SCEN[tier] + ([] if tier == "quick" else BIG) if os.path.exists(scen_path(n))]
    with ThreadPoolExecutor(max_workers=max(1, min(4, vlib.NCPU // 2))) as ex:
        res = list(ex.map(lambda n: one_model(wd, tier, seed, n), todo))
    for name, sc, r, paths, nn in res:
        states += r["distinct"]
        trans += r["states"]
        notes += nn
        names.append(name)
        for i, p in enumerate(paths):
            scheds.append({"name": "%s/%d" % (name, i), "scenario": sc, "labels": p})
    _TLC_SCHEDS[:] = scheds
    return states, trans, scheds, notes, names


# VERIF_ONCE_REFINE=off: both scheduler refinements (ParkUnl, Double) off in the driver ("-opt coarse"); only meant for
# comparing detection with and without them on a scratch copy
_OPT = "coarse" if os.environ.get("VERIF_ONCE_REFINE", "") == "off" else ""

FAM = dict(driver="once", specdirs=["once", "lib"], opt=_OPT, monitor="OncePTrace", property_of=PROPERTY_OF, models=models,
           n_random={"quick": 6000, "thorough": 200000},
           # M2: free-running parallel first calls of a memoized function (4 Ps)
           modes={"quick": [("burst", "burst", 2000, 4)], "thorough": [("burst", "burst", 100000, 4)]},
           x_specs=["once/Once.tla", "once/Memo.tla"], p_monitor="once/OnceP.tla",
           advisory=lambda wd, binp, seed, tier: x_conformance(wd, binp, seed, SCEN["quick"] if tier == "quick" else SCEN["thorough"],
                                                               nsched=60 if tier == "quick" else 4000, nrand=40 if tier == "quick" else 2000),
           assumptions=["OnceP readings R1-R6 (header of OnceP.tla): 'later Resolve' is relative to the first delivery of an error to a caller; "
                        "a cancelled caller racing with a result may return either; liveness judged at controller-detected quiescence; "
                        "the wrapped function is harness-owned (at most maxcalls calls, the last one can only succeed)"])


def run(prop, tier, seed):
    return vlib.standard_check(prop, tier, seed, FAM)


# --------------------------------------------------------------------------- advisory X-level conformance

def x_conformance(wd, binp, seed, names, nsched=60, nrand=40, scheds=None):
    """Replays executions of each scenario with every controller step logged (-logsteps) through the
    actions of the X spec itself (OnceXTrace.tla / MemoXTrace.tla): a sample of the TLC edge-cover
    schedules of that scenario plus seeded random schedules (empty labels) on it.  One harness run and
    one TLC run per scenario (the scenario is a CONSTANT of X), in parallel.
    Returns a summary dict (coverage.x_conformance); never a verdict."""
    import subprocess, random, time
    from concurrent.futures import ThreadPoolExecutor
    t0 = time.time()
    scheds = _TLC_SCHEDS if scheds is None else scheds
    total = dict(traces=0, events=0, steps=0, drift=0, samples=[])

    def one(name):
        res = dict(traces=0, events=0, steps=0, drift=0, samples=[])
        sc = json.load(open(scen_path(name)))
        memo = sc["kind"] == "memo"
        mine = [s for s in scheds if s["name"].startswith(name + "/")]
        random.Random(seed * 7919 + len(mine)).shuffle(mine)
        xs = [{"name": s["name"], "scenario": sc, "labels": s["labels"]} for s in mine[:nsched]]
        xs += [{"name": "%s/x%d" % (name, i), "scenario": sc, "labels": []} for i in range(nrand)]
        sf = os.path.join(wd, "x-%s-scheds.json" % name)
        json.dump(xs, open(sf, "w"))
        tf = os.path.join(wd, "x-%s.ndjson" % name)
        stf = os.path.join(wd, "x-%s.stats.json" % name)
        p = subprocess.run([binp, "-test.run", "^TestRun$", "-driver", "once", "-out", tf, "-stats", stf, "-sched", sf, "-seed", str(seed), "-logsteps"],
                           cwd=wd, capture_output=True, text=True)
        if p.returncode != 0:
            res["samples"].append("%s: harness failed" % name)
            return res
        d = vlib.spec_scratch(wd, "x-" + name, ["once", "lib"])
        consts = ["Prog <- ScProg", "Outs <- ScOuts", "EagerWake = FALSE"] + ([] if memo else ["MaxCalls = %d" % sc["maxcalls"], "Fine = FALSE"])
        vlib.write_mc(d, "MCX", "MemoXTrace" if memo else "OnceXTrace",
                      ["ScProg == " + vlib.json2tla(sc["clients"]), "ScOuts == " + tla_set(sc["outs"])],
                      ["INIT TInit", "NEXT TNext", "CHECK_DEADLOCK FALSE", "CONSTANTS"] + [" " + c for c in consts])
        vf = os.path.join(d, "verdict.json")
        r = vlib.run_tlc(d, "MCX", "MCX.cfg", workers=1, timeout=900,
                         env={"TRACE_FILE": tf, "VERDICT_FILE": vf,
                              "JAVA_TOOL_OPTIONS": "-DTLA-Library=%s -Xmx3g -Xss256m -Dtlc2.tool.impl.Tool.cdot=true" % vlib.TLA_LIB})
        if not os.path.exists(vf):
            res["samples"].append("%s: X-trace validation did not finish: %s %s" % (name, r["error"], r["out"][-300:]))
            return res
        v = json.load(open(vf))
        res["traces"] = len(xs)
        res["events"] = v["total"]
        res["steps"] = json.load(open(stf)).get("steps", 0)
        res["drift"] = v.get("ndrift", len(v["drift"]))
        res["samples"] = ["%s: %s" % (name, json.dumps(x)) for x in v["drift"][:2]]
        shutil.rmtree(d, ignore_errors=True)
        return res

    with ThreadPoolExecutor(max_workers=max(1, min(4, vlib.NCPU))) as ex:
        for res in ex.map(one, [n for n in names if os.path.exists(scen_path(n))]):
            for k in ("traces", "events", "steps", "drift"):
                total[k] += res[k]
            total["samples"] += res["samples"]
    total["samples"] = total["samples"][:6]
    total["x_trace_specs"] = ["once/OnceXTrace.tla", "once/MemoXTrace.tla"]
    total["wall_s"] = round(time.time() - t0, 1)
    return total
