"""C01 / C02: csync.Mutex and csync.RWMutex (specs/csync: CsyncP monitor, Mutex/RWMutex X specs)."""
import json, os
import vlib

PROPS = ["C01", "C02"]
PROPERTY_OF = {"Excl": "C01", "Occ": "C01", "Phantom": "C01", "Panic": "C01", "Stuck": "C02", "ExclAfterCancel": "C02", "CancelStuck": "C02", "WriterPref": "C02",
               "SpuriousCancel": "C02", "Residue": "C02", "BadError": "C02"}
LABEL_RULES = [
    (r"Call\((\d+)\)", "call:c{1}"),
    (r"Cancel\((\d+)\)", "cancel:c{1}"),
    (r"(?:CS1|CS2|CancelCS|RelCS|TryCS)\((\d+)\)", "grant:c{1}"),
    (r"TryAcquire\((\d+),.*\)", "grant:c{1}"),
    (r"(?:Wake|WakeCtx)\((\d+)\)", None),
    # Fine = TRUE only (never in the schedule graphs): grants of the park at the end of a critical section
    (r"(?:EnterSel|Ret|RelRet)\((\d+)\)", "grant:c{1}"),
]
FIX_F1 = True   # X models the code after the "fix:" commit for F1 (FALSE reproduces the pinned behaviour)

SCEN = {"quick": ["mx_q1", "rw_q1", "rw_q2"],
        "thorough": ["mx_q1", "rw_q1", "rw_q2", "mx_t1", "rw_t1", "rw_t2", "rw_t3"]}
BIG = ["rw_b1", "mx_b1"]   # thorough: model checked only (graph too large to dump)


def scen_path(n):
    return os.path.join(vlib.VERIF, "specs", "csync", "scenarios", n + ".json")


def mk_factory(sc):
    base = "Mutex" if sc["kind"] == "mutex" else "RWMutex"
    prog = [[dict(op=o["op"], w=bool(o.get("w", False)) or sc["kind"] == "mutex", c=bool(o.get("c", False)), k=o.get("k", 0) + 1) for o in cl] for cl in sc["clients"]]

    def mk(d, kind):
        # kinds: "mc" (coarse granularity, all interleavings of wake-ups), "graph" (coarse, eager wake-ups:
        # the controller's steps, source of the schedules), "fine" (model check only: the end of a critical
        # section is a scheduling point too, as in sched.Exec.ParkUnl executions; the monitor is told)
        consts = ["Prog <- ScProg", "EagerWake = %s" % ("TRUE" if kind == "graph" else "FALSE"),
                  "Fine = %s" % ("TRUE" if kind == "fine" else "FALSE")]
        if base == "RWMutex":
            consts.append("FixF1 = %s" % ("TRUE" if FIX_F1 else "FALSE"))
        cfg = ["INIT Init", "NEXT Next", "CHECK_DEADLOCK FALSE", "CONSTANTS"] + [" " + c for c in consts]
        if kind in ("mc", "fine"):
            cfg += ["INVARIANTS TypeOK Agree NoResidue ModelSafe QuietInv" + (" WaitCount" if base == "RWMutex" else "")]
            if base == "RWMutex":
                cfg += ["PROPERTY FailedPathsInert"]
        vlib.write_mc(d, "MC", base, ["ScProg == " + vlib.json2tla(prog)], cfg)
    return mk


def fine_mc(wd, name, sc):
    """X |= P at the fine granularity (the restated CsyncP must hold when a return is logged in a later step
    than the decisive critical section: sched.Exec.ParkUnl executions). Model check only, no schedules."""
    import shutil
    d = vlib.spec_scratch(wd, name + "-fine", ["csync", "lib"])
    mk_factory(sc)(d, "fine")
    rf = vlib.run_tlc(d, "MC", "MC.cfg", workers=2, timeout=1200)
    shutil.rmtree(d, ignore_errors=True)
    return rf


def models(wd, tier, seed):
    from concurrent.futures import ThreadPoolExecutor
    states = trans = 0
    scheds, notes, names = [], [], []
    quick = tier == "quick"
    todo = [n for n in SCEN[tier] + ([] if quick else BIG) if os.path.exists(scen_path(n))]
    scs = {n: json.load(open(scen_path(n))) for n in todo}
    # the fine-granularity model checks run beside the coarse ones (the big configurations: coarse only)
    pool = ThreadPoolExecutor(max_workers=2)
    fine = [(n, pool.submit(fine_mc, wd, n, scs[n])) for n in todo if n not in BIG]
    for name in todo:
        sc = scs[name]
        big = name in BIG
        r, paths, nn = vlib.model_and_schedules(wd, name, mk_factory(sc), LABEL_RULES, seed, cap=600 if quick else 20000,
                                                invariant_cfg={"specdirs": ["csync", "lib"]}, graph_cfg=None,
                                                workers=vlib.NCPU if big else 8, timeout=1500, dump_graph=not big)
        states += r["distinct"]
        trans += r["states"]
        notes += nn
        names.append(name)
        for i, p in enumerate(paths):
            scheds.append({"name": "%s/%d" % (name, i), "scenario": sc, "labels": p})
    for name, f in fine:
        rf = f.result()
        vlib.log("[model] %s (fine): %d distinct states, %d transitions generated ok=%s" % (name, rf["distinct"], rf["states"], rf["ok"]))
        states += rf["distinct"]
        trans += rf["states"]
        if not rf["ok"]:
            notes.append("model %s (fine): %s %s" % (name, rf["error"], rf["violated"]))
    pool.shutdown()
    return states, trans, scheds, notes, names


FAM = dict(driver="csync", specdirs=["csync", "lib"], monitor="CsyncPTrace", property_of=PROPERTY_OF, models=models,
           n_random={"quick": 6000, "thorough": 300000},
           # M2: free-running acquire/release loops on 4 Ps (contends the mutexes' internal state lock)
           modes={"quick": [("burst", "burst", 1500, 4)], "thorough": [("burst", "burst", 50000, 4)]},  # (about 300 events per burst: 4 trace files of ~3.7M events)
           x_specs=["csync/Mutex.tla", "csync/RWMutex.tla"], p_monitor="csync/CsyncP.tla",
           advisory=lambda wd, binp, seed, tier: x_conformance(wd, binp, seed, SCEN["quick"], nrand=100 if tier == "quick" else 2000),
           assumptions=["CsyncP encodes the statement (DESIGN §3 C01/C02 interpretation): 'waiting writer' = observed blocked",
                        "logged events bound the critical sections (CsyncP B1-B4); in executions where the end of a critical section "
                        "is a park point (cfg fine) Phantom and WriterPref use the weaker, interval-based reading"])


def run(prop, tier, seed):
    return vlib.standard_check(prop, tier, seed, FAM)


# --------------------------------------------------------------------------- advisory X-level conformance

def x_conformance(wd, binp, seed, names, nrand=150):
    """Replays executions of each scenario (TLC schedules + seeded random schedules on the same scenario,
    controller steps logged) through the X spec itself (<Base>XTrace.tla). Returns a summary dict; never a verdict."""
    import subprocess, shutil
    total = dict(traces=0, events=0, drift=0, samples=[])
    for name in names:
        sc = json.load(open(scen_path(name)))
        base = "Mutex" if sc["kind"] == "mutex" else "RWMutex"
        scheds = [{"name": "%s/x%d" % (name, i), "scenario": sc, "labels": []} for i in range(nrand)]
        sf = os.path.join(wd, "x-%s-scheds.json" % name)
        json.dump(scheds, open(sf, "w"))
        tf = os.path.join(wd, "x-%s.ndjson" % name)
        stf = os.path.join(wd, "x-%s.stats.json" % name)
        p = subprocess.run([binp, "-test.run", "^TestRun$", "-driver", "csync", "-out", tf, "-stats", stf, "-sched", sf, "-seed", str(seed), "-logsteps"],
                           cwd=wd, capture_output=True, text=True)
        if p.returncode != 0:
            total["samples"].append("%s: harness failed" % name)
            continue
        d = vlib.spec_scratch(wd, "x-" + name, ["csync", "lib"])
        prog = [[dict(op=o["op"], w=bool(o.get("w", False)) or sc["kind"] == "mutex", c=bool(o.get("c", False)), k=o.get("k", 0) + 1) for o in cl] for cl in sc["clients"]]
        consts = ["Prog <- ScProg", "EagerWake = FALSE", "Fine = FALSE"] + (["FixF1 = %s" % ("TRUE" if FIX_F1 else "FALSE")] if base == "RWMutex" else [])
        vlib.write_mc(d, "MCX", base + "XTrace", ["ScProg == " + vlib.json2tla(prog)],
                      ["INIT TInit", "NEXT TNext", "CHECK_DEADLOCK FALSE", "CONSTANTS"] + [" " + c for c in consts])
        vf = os.path.join(d, "verdict.json")
        r = vlib.run_tlc(d, "MCX", "MCX.cfg", workers=1, timeout=300,
                         env={"TRACE_FILE": tf, "VERDICT_FILE": vf,
                              "JAVA_TOOL_OPTIONS": "-DTLA-Library=%s -Xmx3g -Xss256m -Dtlc2.tool.impl.Tool.cdot=true" % vlib.TLA_LIB})
        if not os.path.exists(vf):
            total["samples"].append("%s: X-trace validation did not finish: %s" % (name, r["error"]))
            continue
        v = json.load(open(vf))
        total["traces"] += nrand
        total["events"] += v["total"]
        total["drift"] += len(v["drift"])
        total["samples"] += ["%s: %s" % (name, json.dumps(x)) for x in v["drift"][:2]]
        shutil.rmtree(d, ignore_errors=True)
    return total
