"""C01 / C02: csync.Mutex and csync.RWMutex (specs/csync: CsyncP monitor, Mutex/RWMutex X specs)."""
import json, os, time
import vlib
from vlib import log

PROPERTY_OF = {"Excl": "C01", "Occ": "C01", "Stuck": "C02", "CancelStuck": "C02", "WriterPref": "C02",
               "SpuriousCancel": "C02", "Residue": "C02"}
LABEL_RULES = [
    (r"Call\((\d+)\)", "call:c{1}"),
    (r"Cancel\((\d+)\)", "cancel:c{1}"),
    (r"(?:CS1|CS2|CancelCS|RelCS|TryCS)\((\d+)\)", "grant:c{1}"),
    (r"TryAcquire\((\d+),.*\)", "grant:c{1}"),
    (r"(?:Wake|WakeCtx)\((\d+)\)", None),
]
FIX_F1 = True   # the X spec models the code after the "fix:" commit for F1 (FALSE reproduces the pinned behaviour)

QUICK_SCEN = ["mx_q1", "rw_q1", "rw_q2"]
THOROUGH_SCEN = ["mx_q1", "rw_q1", "rw_q2", "mx_t1", "rw_t1", "rw_t2", "rw_t3"]
BIG_SCEN = ["rw_b1", "mx_b1"]   # model checked only (no graph dump)


def scen_path(n):
    return os.path.join(vlib.VERIF, "specs", "csync", "scenarios", n + ".json")


def model(workdir, name, eager, invariants, dump=None, workers=4, timeout=900):
    sc = json.load(open(scen_path(name)))
    base = "Mutex" if sc["kind"] == "mutex" else "RWMutex"
    d = vlib.spec_scratch(workdir, name + ("-g" if dump else "-mc"), ["csync", "lib"])
    prog = [[dict(op=o["op"], w=bool(o.get("w", False)) or sc["kind"] == "mutex", c=bool(o.get("c", False)), k=o.get("k", 0) + 1) for o in cl] for cl in sc["clients"]]
    consts = ["Prog <- ScProg", "EagerWake = %s" % ("TRUE" if eager else "FALSE")]
    if base == "RWMutex":
        consts.append("FixF1 = %s" % ("TRUE" if FIX_F1 else "FALSE"))
    cfg = ["INIT Init", "NEXT Next", "CHECK_DEADLOCK FALSE", "CONSTANTS"] + [" " + c for c in consts]
    if invariants:
        cfg += ["INVARIANTS TypeOK Agree NoResidue ModelSafe QuietInv" + (" WaitCount" if base == "RWMutex" else "")]
        if base == "RWMutex":
            cfg += ["PROPERTY FailedPathsInert"]
    vlib.write_mc(d, "MC", base, ["ScProg == " + vlib.json2tla(prog)], cfg)
    r = vlib.run_tlc(d, "MC", "MC.cfg", workers=workers, dump=dump, timeout=timeout)
    return r, sc


def run(prop, tier, seed):
    t0 = time.time()
    wd = vlib.outdir(prop)
    binp = vlib.build_harness(wd)
    quick = tier == "quick"
    scen = QUICK_SCEN if quick else [s for s in THOROUGH_SCEN if os.path.exists(scen_path(s))]
    states = trans = 0
    model_notes = []
    scheds = []
    for name in scen:
        r, sc = model(wd, name, eager=False, invariants=True, workers=8)
        states += r["distinct"]
        trans += r["states"]
        if not r["ok"]:
            model_notes.append("model %s: %s %s" % (name, r["error"], r["violated"]))
            log("[model] %s: NOT ok: %s %s" % (name, r["error"], r["violated"]))
        dot = os.path.join(wd, name + ".dot")
        g, _ = model(wd, name, eager=True, invariants=False, dump=dot[:-4])
        if not os.path.exists(dot):
            raise vlib.Inconclusive("no graph dump for %s: %s" % (name, g["out"][-2000:]))
        init, edges, ne = vlib.parse_dot(dot)
        paths, cov, total = vlib.edge_cover(init, edges, maxlen=70, cap=600 if quick else 30000, seed=seed)
        os.remove(dot)
        for i, p in enumerate(vlib.map_labels(paths, LABEL_RULES)):
            scheds.append({"name": "%s/%d" % (name, i), "scenario": sc, "labels": p})
        log("[model] %s: %d distinct states, %d transitions; eager graph %d edges -> %d schedules (%d/%d edges covered)" % (name, r["distinct"], r["states"], ne, len(paths), cov, total))
    if not quick:
        for name in BIG_SCEN:
            if os.path.exists(scen_path(name)):
                r, _ = model(wd, name, eager=False, invariants=True, workers=vlib.NCPU, timeout=1500)
                states += r["distinct"]
                trans += r["states"]
                log("[model] %s: %d distinct states ok=%s %s" % (name, r["distinct"], r["ok"], r["error"]))
                if not r["ok"]:
                    model_notes.append("model %s: %s %s" % (name, r["error"], r["violated"]))
    n = 4000 if quick else 300000
    traces, st = vlib.run_harness(binp, "csync", wd, scheds=scheds, n=n, seed=seed)
    viol, consumed, total, tstates = vlib.validate_traces(wd, ["csync", "lib"], "CsyncPTrace", traces)
    if consumed != total:
        raise vlib.Inconclusive("trace not fully consumed: %d of %d" % (consumed, total))
    mine, harness_err = [], []
    for v in viol:
        for nm in v["names"]:
            p = PROPERTY_OF.get(nm)
            rec = dict(v, name=nm, property=p)
            if p == prop:
                mine.append(rec)
            elif p is None:
                harness_err.append(rec)
    if harness_err:
        raise vlib.Inconclusive("harness/monitor protocol error: %s" % harness_err[:3])
    if st["crashed_shards"]:
        model_notes.append("%d harness shards crashed; their flushed events were still validated" % st["crashed_shards"])

    def replay(v):
        evs = vlib.extract_run(v["trace_file"], v["run"])
        end = next((e for e in evs if e["ev"] == "end"), {})
        return {"driver": "csync", "monitor": "CsyncPTrace", "specdirs": ["csync", "lib"], "scenario": end.get("scenario"), "labels": end.get("labels"),
                "events": evs}

    cov = {
        "states": states, "transitions": trans,
        "traces_validated_against_impl": st["executions"],
        "events_validated": total,
        "schedules_from_tlc": st["schedules"], "schedules_followed_to_end": st["schedules_followed"],
        "random_executions": st["executions"] - st["schedules"],
        "distinct_label_sequences": st["distinct_label_sequences"],
        "controller_steps": st["steps"],
        "bubble_deadlocks": st["bubble_deadlocks"],
        "x_specs": ["csync/Mutex.tla", "csync/RWMutex.tla"], "p_monitor": "csync/CsyncP.tla", "scenarios": scen,
        "model_notes": model_notes,
        "samples": st["samples"][:3],
        "exhaustive": False,
    }
    rc = vlib.finish(prop, tier, seed, "model_checking", cov, mine, t0,
                     ["TLC 1.8.0; CommunityModules Json/IOUtils", "testing/synctest durable-blocking detection (go1.26.8)",
                      "CsyncP encodes the statement (DESIGN §3 C01/C02 interpretation)",
                      "harness built with go1.26.8, not the go1.23 toolchain of the pinned suite"],
                     replay_builder=replay)
    if st["executions"] == 0:
        raise vlib.Inconclusive("no executions")
    return rc
