"""X02: the small sequential helpers (specs/helpers: HelpersP monitor / reference models; HelpersVec, HelpersOps X specs).

Spec growth beyond the 20 listed properties: filter.StringFilter (Validate / CheckMatch), the enabled.Enabled enum,
iowriter.CallbackWriter, result.Result, scrub.Scrub, util_bufio.SplitOnNul, vmime.IsValidMimeType.  Everything is
sequential and almost everything is pure, so -- as for C19 -- TLC (a) enumerates the inputs and (b) is the oracle:
  * HelpersVec.tla: every initial state is one input vector -- a filter configuration (box A: all 2^8 set/unset
    patterns of the fields, box B: at most BK fields set over all strings up to a length and the whole fixed list of
    regular expressions, plus the nil filter) with its probe values, a SplitOnNul input, a mime string, an Enabled
    call.  TLC checks the implementation-shaped algorithms against HelpersP on the whole box and writes the vectors
    to gen/helpers/vectors-<tier>.ndjson; the Go driver evaluates the real functions on them.
  * HelpersOps.tla: call sequences on one object (Enabled accumulator, CallbackWriter with a scripted callback,
    Result objects, a scrubbed buffer); an edge cover of its state graph gives the sequences the driver replays.
  * seeded random evaluations beyond the boxes (longer strings, a third letter, arbitrary bytes).
Every logged evaluation is judged by HelpersPTrace (TLC), which recomputes the expectation from the logged inputs.
"""
import json, os, random, shutil, concurrent.futures as cf
import vlib

PROPS = ["X02"]
PROPERTY_OF = {n: "X02" for n in ("FilterNil", "FilterAccept", "FilterReject", "FilterInvalidRe", "FilterValidate", "FilterPanic",
                                  "EnabledIs", "EnabledValidate", "EnabledMerge",
                                  "CbwCalls", "CbwData", "CbwCount", "CbwErr", "CbwNil",
                                  "ResultGet", "ResultCompare", "ScrubZero", "NulSplit", "NulScan", "MimeValid")}
PROPERTY_OF.update({"ScrubOutside": "ADVISORY", "NulTailDropped": "ADVISORY"})   # recorded by the monitor, never judged
SPECDIRS = ["helpers", "lib"]
BATCH = 100

A, B = 97, 98
STR2 = "(Strs({97, 98}, 2) \\ {<<>>})"
STR3 = "(Strs({97, 98}, 3) \\ {<<>>})"
VALUES4 = "{<< <<97>> >>, << <<97>>, <<97, 98>> >>, << <<>> >>, << <<98>>, <<>>, <<97, 98>> >>}"

VEC = {
    "quick": dict(ProbeAlpha="{97, 98}", ProbeLen=3,
                  AStrs="{<<97>>, <<97, 98>>}", AValues="{<< <<97>>, <<97, 98>> >>, << <<>>, <<98>> >>}", ARes="{1, 8}",
                  BStrs=STR3, BValues=VALUES4, BRes="1..10", BK=2,
                  NulAlpha="{0, 97, 98}", NulLen=4, MimeAlpha="{97, 47, 46, 32, 10}", MimeLen=4, EnVals="{-1, 0, 1, 2, 3}"),
    "thorough": dict(ProbeAlpha="{65, 97, 98}", ProbeLen=3,
                     AStrs="{<<97>>, <<97, 98>>, <<98>>, <<98, 97>>}", AValues="{<< <<97>>, <<97, 98>> >>, << <<>>, <<98>> >>, << <<98, 97>> >>}",
                     ARes="{1, 4, 8}",
                     BStrs=STR2, BValues=VALUES4, BRes="1..10", BK=3,
                     NulAlpha="{0, 97, 98}", NulLen=6, MimeAlpha="{97, 47, 46, 45, 95, 57, 43, 32, 10, 195}", MimeLen=4, EnVals="{-2, -1, 0, 1, 2, 3, 7}"),
}
OPS = {
    "quick": dict(MaxOps=4, Kinds='{"enabled", "cbw", "cbwnil", "result", "scrub"}', EnVals="{-1, 0, 1, 2, 3}",
                  Datas="{<<>>, <<7>>, <<1, 0, 255>>}", Counts="{-1, 0, 1, 2, 3, 4}", Errs="{0, 1, 2}",
                  ResVals="{0, 5}", ResErrs="{0, 1, 2, 3}", Pats="{1, 2}"),
    "thorough": dict(MaxOps=5, Kinds='{"enabled", "cbw", "cbwnil", "result", "scrub"}', EnVals="{-1, 0, 1, 2, 3}",
                     Datas="{<<>>, <<7>>, <<1, 0, 255>>, <<0, 0, 0, 0, 9>>}", Counts="{-1, 0, 1, 2, 3, 4, 5, 6}", Errs="{0, 1, 2}",
                     ResVals="{0, 5}", ResErrs="{0, 1, 2, 3}", Pats="{1, 2, 3}"),
}

OPS_RULES = [(r"EMerge\((-?\d+)\)", "enabled|0|{1}"), (r"EIs\((TRUE|FALSE)\)", "enabled|1|{1}"), (r"EValidate", "enabled|2"),
             (r"Write\((<<.*>>),\s*(-?\d+),\s*(\d+)\)", "cbw|0|{2}|{3}|{1}"), (r"WriteNil\((<<.*>>),\s*(-?\d+),\s*(\d+)\)", "cbwnil|0|{2}|{3}|{1}"),
             (r"RNew\((\d+),\s*(-?\d+),\s*(\d+)\)", "result|0|{1}|{2}|{3}"), (r"RGet\((\d+)\)", "result|1|{1}"), (r"RCmp\((\d+),\s*(\d+)\)", "result|2|{1}|{2}"),
             (r"SFill\((\d+)\)", "scrub|0|{1}"), (r"SScrub\((\d+),\s*(\d+)\)", "scrub|1|{1}|{2}")]


def gen_dir():
    d = os.path.join(vlib.VERIF, "gen", "helpers")
    os.makedirs(d, exist_ok=True)
    return d


def _consts(c):
    """(definitions, constant lines) for the MC module: integers directly, everything else through MC<name>."""
    defs, consts = [], []
    for k, v in c.items():
        if isinstance(v, int):
            consts.append("%s = %d" % (k, v))
        else:
            defs.append("MC%s == %s" % (k, v))
            consts.append("%s <- MC%s" % (k, k))
    return defs, consts


def vec_job(wd, c, ffile, ofile):
    """Model check of HelpersVec (every vector of the boxes is an initial state) + the vectors written by TLC."""
    defs, consts = _consts(c)
    defs = ["ASSUME ndJsonSerialize(IOEnv.VEC_FILE_F, SetToSeq(FilterVecs))",
            "ASSUME ndJsonSerialize(IOEnv.VEC_FILE_O, SetToSeq(NulVecs) \\o SetToSeq(MimeVecs) \\o SetToSeq(EnVecs))"] + defs
    d = vlib.spec_scratch(wd, "vec", SPECDIRS)
    cfg = ["INIT Init", "NEXT Next", "CHECK_DEADLOCK FALSE", "CONSTANTS"] + [" " + x for x in consts] + ["INVARIANTS ModelSafe"]
    vlib.write_mc(d, "MC", "HelpersVec, Json, IOUtils", defs, cfg)
    r = vlib.run_tlc(d, "MC", "MC.cfg", workers=2, env={"VEC_FILE_F": ffile, "VEC_FILE_O": ofile}, timeout=1500)
    shutil.rmtree(d, ignore_errors=True)
    return r


def tla_seq(s):
    return json.loads(s.replace("<<", "[").replace(">>", "]"))


def ops_scenario(path):
    """labels 'kind|op|args..' of one path -> {"kind":"ops","h":kind,"ops":[[...]]}"""
    if not path:
        return None
    h, ops = None, []
    for l in path:
        p = l.split("|")
        h = h or p[0]
        if p[0] != h:
            raise vlib.Inconclusive("path of HelpersOps mixes object kinds: %r" % path)
        if h in ("cbw", "cbwnil"):
            ops.append([0, int(p[2]), int(p[3])] + tla_seq(p[4]))
        elif h == "enabled" and p[1] == "1":
            ops.append([1, 1 if p[2] == "TRUE" else 0])
        else:
            ops.append([int(x) for x in p[1:]])
    return {"kind": "ops", "h": h, "ops": ops}


def ops_job(wd, c, seed, cap):
    """Model check of HelpersOps with the graph dumped; an edge cover of it = the call sequences."""
    defs, consts = _consts(c)
    d = vlib.spec_scratch(wd, "ops", SPECDIRS)
    cfg = ["INIT Init", "NEXT Next", "CHECK_DEADLOCK FALSE", "CONSTANTS"] + [" " + x for x in consts] + ["INVARIANTS ModelSafe"]
    vlib.write_mc(d, "MC", "HelpersOps", defs, cfg)
    dot = os.path.join(wd, "helpers-ops.dot")
    if os.path.exists(dot):
        os.remove(dot)
    r = vlib.run_tlc(d, "MC", "MC.cfg", workers=2, timeout=900, dump=dot[:-4])
    shutil.rmtree(d, ignore_errors=True)
    if not os.path.exists(dot):
        raise vlib.Inconclusive("no graph dump for HelpersOps: " + r["out"][-1500:])
    init, edges, ne = vlib.parse_dot(dot)
    os.remove(dot)
    raw, cov, total = vlib.edge_cover(init, edges, maxlen=40, cap=cap, seed=seed)
    paths = vlib.map_labels(raw, OPS_RULES)
    vlib.log("[model] HelpersOps: %d distinct states, %d transitions; %d edges -> %d call sequences (%d/%d edges covered)" % (r["distinct"], r["states"], ne, len(paths), cov, total))
    return r, [s for s in (ops_scenario(p) for p in paths) if s]


def n_set(c):
    return sum(1 for k, v in c.items() if v not in (False, [], 0))


def models(wd, tier, seed):
    gd = gen_dir()
    tmp = os.path.join(wd, "gen-%s" % tier)
    shutil.rmtree(tmp, ignore_errors=True)
    os.makedirs(tmp)
    ff, of = os.path.join(tmp, "filter.ndjson"), os.path.join(tmp, "other.ndjson")
    notes = []
    with cf.ThreadPoolExecutor(max_workers=2) as ex:
        jv = ex.submit(vec_job, wd, VEC[tier], ff, of)
        jo = ex.submit(ops_job, wd, OPS[tier], seed, 4000 if tier == "quick" else 60000)
        rv = jv.result()
        ro, opscen = jo.result()
    vlib.log("[model] HelpersVec: %d distinct states (initial states = vectors) ok=%s %.1fs" % (rv["distinct"], rv["ok"], rv["wall_s"]))
    for name, r in (("HelpersVec", rv), ("HelpersOps", ro)):
        if not r["ok"]:
            notes.append("model %s: %s %s" % (name, r["error"], r["violated"]))
            vlib.log("[model] %s NOT ok: %s %s\n%s" % (name, r["error"], r["violated"], r["out"][-1500:]))
    for f in (ff, of):
        if not os.path.exists(f):
            raise vlib.Inconclusive("TLC did not write the vector file %s: %s" % (f, rv["out"][-1500:]))
    vecfile = os.path.join(gd, "vectors-%s.ndjson" % tier)
    lines = [l for f in (ff, of) for l in open(f) if l.strip()]
    random.Random(7).shuffle(lines)   # fixed order: mixes cheap and expensive vectors over the batches
    kinds, byset, samples = {}, {}, []
    with open(vecfile + ".tmp", "w") as out:
        for i, line in enumerate(lines):
            out.write(line)
            v = json.loads(line)
            kinds[v["k"]] = kinds.get(v["k"], 0) + 1
            if v["k"] == "filter":
                ns = "nil" if v["nilf"] else str(n_set(v["cfg"]))
                byset[ns] = byset.get(ns, 0) + 1
            if i % 997 == 1 and len(samples) < 4:
                samples.append(v)
    os.replace(vecfile + ".tmp", vecfile)
    shutil.rmtree(tmp, ignore_errors=True)
    nvec = len(lines)
    FAM["opt"] = "vec=" + vecfile
    scheds = [{"name": "vec/%d" % a, "scenario": {"kind": "vec", "from": a, "to": min(nvec, a + BATCH), "rseed": 0, "n": 0}, "labels": []}
              for a in range(0, nvec, BATCH)]
    for i, sc in enumerate(opscen):
        sc.update({"from": 0, "to": 0, "rseed": 0, "n": 0})
        scheds.append({"name": "ops/%s/%d" % (sc["h"], i), "scenario": sc, "labels": []})
    random.Random(seed).shuffle(scheds)   # balance the harness shards
    na = VEC[tier]["ProbeAlpha"].count(",") + 1
    nprobes = sum(na ** k for k in range(VEC[tier]["ProbeLen"] + 1))
    nrand = (FAM["n_random"][tier] + sum(m[2] for m in FAM["modes"].get(tier, []))) * 16
    FAM["extra_cov"] = {
        "vectors_by_kind": kinds,
        "filter_configurations": kinds.get("filter", 0),
        "filter_configurations_by_fields_set": dict(sorted(byset.items())),
        "probe_values_per_configuration": nprobes,
        "checkmatch_evaluations_enumerated": kinds.get("filter", 0) * nprobes,
        "call_sequences_from_graph": len(opscen),
        "random_evaluations": nrand,
        "rule": "inputs: every element of the boxes enumerated by TLC (HelpersVec.tla: filter configurations = all 2^8 set/unset patterns with a few "
                "values per field (box A) + at most BK fields set over all strings over {a,b} up to a length and all ten regular expressions of the fixed "
                "list, three invalid ones included (box B) + the nil filter, each with every probe string over ProbeAlpha ({a,b}; thorough {A,a,b}) up to ProbeLen; SplitOnNul inputs over "
                "{NUL,a,b}; mime strings; Enabled calls), an edge cover of HelpersOps.tla's state graph (call sequences on one object), plus seeded random "
                "evaluations.  oracle: HelpersP.tla recomputes the documented result from each logged input with TLC; a clause failing on an evaluation of "
                "the real function is a violation",
        "box": {"vec": VEC[tier], "ops": OPS[tier]},
        "vector_samples": samples[:4],
    }
    notes.append("observation (not a verdict): util_bufio.SplitOnNul returns (0, nil, nil) for data without NUL at EOF too, so a bufio.Scanner drops an "
                 "unterminated last segment silently; HelpersP records it as NulTailDropped (maps to no property) -- the doc comment is silent")
    return rv["distinct"] + ro["distinct"], rv["states"] + ro["states"], scheds, notes, ["HelpersVec", "HelpersOps"]


FAM = dict(driver="helpers", specdirs=SPECDIRS, monitor="HelpersPTrace", property_of=PROPERTY_OF, models=models,
           n_random={"quick": 400, "thorough": 8000}, level="exploration", opt="", extra_cov={},
           modes={"thorough": [("r%d" % i, "v%d" % i, 8000) for i in range(1, 3)]},
           x_specs=["helpers/HelpersVec.tla", "helpers/HelpersOps.tla"], p_monitor="helpers/HelpersP.tla",
           assumptions=["HelpersP's header (F1-F5, E1-E3, W1-W3, R1-R2, S1, N1-N2, M1) is the oracle: statements taken from the doc comments of filter.proto, "
                        "filter.go, enabled.proto, enabled.go, iowriter/callback.go, result.go, scrub.go, bufio.go, vmime.go; weaker readings are marked [weak] there",
                        "regular expressions are restricted to a fixed list of ten (seven valid, three invalid), each with a hand-written TLA+ predicate; Go's regexp "
                        "engine itself is not modelled; where 'contains a match' and 'matches entirely' differ the re rule is left undecided",
                        "strings are ASCII (bytes a, b, c; a few others for mime / NUL splitting): multi-byte runes are only met by the mime check",
                        "generated code (filter.pb.go, enabled.pb.go: clone, equal, marshal, String) is not covered",
                        "the functions are pure / sequential: no controller step is involved, executions are batches of evaluations"])


def run(prop, tier, seed):
    return vlib.standard_check(prop, tier, seed, FAM)
