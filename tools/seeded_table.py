#!/usr/bin/env python3
"""Prints the markdown table of seeded changes (seeded/*/meta.json) for DESIGN.md §8.5."""
import glob, json, os, re
V = os.path.dirname(os.path.dirname(os.path.abspath(__file__)))
rows = []
for mp in sorted(glob.glob(os.path.join(V, "seeded", "*", "meta.json"))):
    m = json.load(open(mp))
    d = os.path.dirname(mp)
    what = ""
    n = os.path.join(d, "notes.md")
    if os.path.exists(n):
        t = open(n).read()
        # first non-heading, non-empty line
        for line in t.split("\n"):
            line = line.strip()
            if line and not line.startswith("#") and len(line) > 25:
                what = re.sub(r"[|`*]", "", line)[:150]
                break
    files = sorted(set(re.findall(r"^\+\+\+ b/(\S+)", open(os.path.join(d, "patch.diff")).read(), re.M)))
    caught = []
    for c, v in sorted(m["checks"].items()):
        if v["violations"] > 0:
            caught.append("%s: %s" % (c, ", ".join(v["conditions"][:3])))
    own = m["breaks_property"]
    own_ok = m["checks"].get(own, {}).get("violations", 0) > 0
    ok = m["confirmed"]
    conf = "yes" if (ok["demo_passes_on_pristine"] and ok["demo_fails_on_mutant"] and ok["existing_suite_passes_on_mutant"]) else "partly"
    rows.append("| %s | %s | %s | %s | %s |" % (m["id"], ", ".join(files), conf, "; ".join(caught) if caught else "**not caught**", what))
print("| id | file(s) changed | confirmed | caught by (quick tier): conditions | what (from the sub-agent's notes) |")
print("|---|---|---|---|---|")
print("\n".join(rows))
