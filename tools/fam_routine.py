"""C04 / C05 / C14: routine.RoutineContainer and StateRoutineContainer
(specs/routine: RoutineP monitor, Routine X spec)."""
import json, os
import vlib

PROPS = ["C04", "C05", "C14"]
PROPERTY_OF = {}
for n in ["Overlap", "ChEarly"]:
    PROPERTY_OF[n] = "C04"
for n in ["NotCancelled", "LiveMany", "LiveOrphan", "LiveStaleCtx", "LiveStale", "StateLost"]:
    PROPERTY_OF[n] = "C05"
for n in ["RerunAfterSuccess", "RerunAfterError", "RerunNoCause", "CancelNoCause", "RestartLost", "RetryLost", "BackoffNotReset", "BackoffNoFailure", "WaitWrong", "WaitStuck",
          "ExitCbDup", "ExitCbFabricated", "ExitCbWrongErr", "ExitCbMissing"]:
    PROPERTY_OF[n] = "C14"

LABEL_RULES = [
    (r"Call\((\d+)\)", "call:c{1}"),
    (r"(?:CS|WCS)\((\d+)\)", "grant:c{1}"),
    (r"Cancel\((\d+)\)", "cancel:c{1}"),
    (r"(?:ExecStart|ExecRecord)\((\d+)\)", "grant:routine.execute#{1}"),
    (r'InstReturn\((\d+),\\"(\w+)\\"\)', "out:{1}:{2}"),
    (r"TickT", "tick"),
    (r"CancelRoot\((\d+)\)", "cancelroot:{1}"),
    (r"TimerCb\((\d+)\)", "grant:anon#{1}"),
    (r"(?:Ret|Snap|WWake|WWakeCtx|ExecWake|ExecCWake)\((\d+)\)", None),
    (r"ExitCb\((\d+),(\d+)\)", None),
]
FIX_F2 = True   # X models the code after "fix: routine: a new instance waits for every earlier instance to return"

SCEN = {"quick": ["rt_q1", "rt_q3", "rt_q4", "rt_q6", "rt_q8", "rt_q9", "rt_q11", "rt_q12", "rt_q13", "rt_q14", "rt_q15"],
        "thorough": ["rt_q1", "rt_q2", "rt_q3", "rt_q4", "rt_q5", "rt_q6", "rt_q7", "rt_q8", "rt_q9", "rt_q10", "rt_q11", "rt_q12", "rt_q13", "rt_q14", "rt_q15", "rt_t5", "rt_t1", "rt_t2", "rt_t3", "rt_t4"]}


def scen_path(n):
    return os.path.join(vlib.VERIF, "specs", "routine", "scenarios", n + ".json")


def mk_factory(sc):
    prog = [[dict(op=o["op"], c=o.get("c", 0), r=bool(o.get("r", False)), f=o.get("f", 0), s=o.get("s", 0), rin=bool(o.get("rin", False))) for o in cl] for cl in sc["clients"]]

    def mk(d, kind):
        consts = ["Prog <- ScProg", 'Variant = "%s"' % sc["variant"], "Retry = %s" % ("TRUE" if sc["retry"] else "FALSE"),
                  "MaxG = %d" % sc.get("maxg", 4), "MaxTicks = %d" % sc.get("ticks", 0),
                  "FixF2 = %s" % ("TRUE" if FIX_F2 else "FALSE"), "FixF14 = TRUE", "Eager = TRUE",
                  "RootCancel = %s" % ("TRUE" if sc.get("rootcancel") else "FALSE")]
        if sc.get("rootearly"):
            consts.append("RootEarlyOnly <- ScTrue")
        cfg = ["INIT Init", "NEXT Next", "CHECK_DEADLOCK FALSE", "CONSTRAINT Bounded", "CONSTANTS"] + [" " + c for c in consts]
        if kind == "mc":
            cfg += ["INVARIANTS ModelSafe QuietInv ChInv OneCurrentCtx ActiveAgree"]
        vlib.write_mc(d, "MC", "Routine", ["ScProg == " + vlib.json2tla(prog), "ScTrue == TRUE"], cfg)
    return mk


def models(wd, tier, seed):
    states = trans = 0
    scheds, notes, names = [], [], []
    quick = tier == "quick"
    for name in SCEN[tier]:
        if not os.path.exists(scen_path(name)):
            continue
        sc = json.load(open(scen_path(name)))
        r, paths, nn = vlib.model_and_schedules(wd, name, mk_factory(sc), LABEL_RULES, seed, cap=sc.get("cap", 250) if quick else 8000,
                                                invariant_cfg={"specdirs": ["routine", "lib"]}, graph_cfg=None,
                                                workers=8, timeout=900, maxlen=90)
        states += r["distinct"]
        trans += r["states"]
        notes += nn
        names.append(name)
        dsc = {k: v for k, v in sc.items() if k not in ("maxg", "cap")}
        for i, p in enumerate(paths):
            scheds.append({"name": "%s/%d" % (name, i), "scenario": dsc, "labels": p})
    return states, trans, scheds, notes, names


FAM = dict(driver="routine", specdirs=["routine", "lib"], monitor="RoutinePTrace", property_of=PROPERTY_OF, models=models,
           n_random={"quick": 2000, "thorough": 150000},
           modes={"quick": [("seq", "seq", 1200), ("burst", "burst", 1500, 4)], "thorough": [("seq", "seq", 100000), ("burst", "burst", 200000, 4)]},
           advisory=lambda wd, binp, seed, tier: x_conformance(wd, binp, seed, SCEN["quick"] if tier == "quick" else SCEN["quick"] + ["rt_q2", "rt_q5", "rt_q7", "rt_q10"], nrand=40 if tier == "quick" else 1500),
           x_specs=["routine/Routine.tla"], p_monitor="routine/RoutineP.tla",
           assumptions=["RoutineP encodes the statements (DESIGN §3 C04/C05/C14 interpretation); exits overtaken by a superseding call before "
                        "they were recorded are not exit statuses; instances entering with a cancelled context are not judged by C14"])


def run(prop, tier, seed):
    return vlib.standard_check(prop, tier, seed, FAM)


# --------------------------------------------------------------------------- advisory X-level conformance

def x_conformance(wd, binp, seed, names, nrand=100):
    """Executions of each scenario (seeded random schedules, controller steps logged) replayed through
    Routine.tla itself (RoutineXTrace.tla). Returns a summary; never a verdict."""
    import subprocess, shutil
    total = dict(traces=0, events=0, drift=0, samples=[])
    for name in names:
        sc = json.load(open(scen_path(name)))
        dsc = {k: v for k, v in sc.items() if k not in ("maxg", "cap")}
        scheds = [{"name": "%s/x%d" % (name, i), "scenario": dsc, "labels": []} for i in range(nrand)]
        sf = os.path.join(wd, "x-%s-scheds.json" % name)
        json.dump(scheds, open(sf, "w"))
        tf = os.path.join(wd, "x-%s.ndjson" % name)
        stf = os.path.join(wd, "x-%s.stats.json" % name)
        p = subprocess.run([binp, "-test.run", "^TestRun$", "-driver", "routine", "-out", tf, "-stats", stf, "-sched", sf, "-seed", str(seed), "-logsteps"],
                           cwd=wd, capture_output=True, text=True)
        if p.returncode != 0:
            total["samples"].append("%s: harness failed" % name)
            continue
        d = vlib.spec_scratch(wd, "x-" + name, ["routine", "lib"])
        prog = [[dict(op=o["op"], c=o.get("c", 0), r=bool(o.get("r", False)), f=o.get("f", 0), s=o.get("s", 0), rin=bool(o.get("rin", False))) for o in cl] for cl in sc["clients"]]
        consts = ["Prog <- ScProg", 'Variant = "%s"' % sc["variant"], "Retry = %s" % ("TRUE" if sc["retry"] else "FALSE"),
                  "MaxG = 12", "MaxTicks = 99", "FixF2 = %s" % ("TRUE" if FIX_F2 else "FALSE"), "FixF14 = TRUE", "Eager = FALSE",
                  "RootCancel = %s" % ("TRUE" if sc.get("rootcancel") else "FALSE")]
        vlib.write_mc(d, "MCX", "RoutineXTrace", ["ScProg == " + vlib.json2tla(prog)],
                      ["INIT TInit", "NEXT TNext", "CHECK_DEADLOCK FALSE", "CONSTANTS"] + [" " + c for c in consts])
        vf = os.path.join(d, "verdict.json")
        r = vlib.run_tlc(d, "MCX", "MCX.cfg", workers=1, timeout=300,
                         env={"TRACE_FILE": tf, "VERDICT_FILE": vf,
                              "JAVA_TOOL_OPTIONS": "-DTLA-Library=%s -Xmx3g -Xss256m -Dtlc2.tool.impl.Tool.cdot=true" % vlib.TLA_LIB})
        if not os.path.exists(vf):
            total["samples"].append("%s: X-trace validation did not finish: %s %s" % (name, r["error"], r["out"][-400:]))
            continue
        v = json.load(open(vf))
        total["traces"] += nrand
        total["events"] += v["total"]
        total["drift"] += len(v["drift"])
        total["samples"] += ["%s: %s" % (name, json.dumps(x)) for x in v["drift"][:2]]
        shutil.rmtree(d, ignore_errors=True)
    return total
