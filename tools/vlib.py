"""Shared machinery of the checks: building the harness from /repo's working tree, running TLC
(model checking of the X specs, graph dumps, trace validation against the P monitors), turning
TLC state graphs into schedules, known-findings handling, evidence and exit codes.

Verdict rule (DESIGN §1.1): exit 1 / VIOLATION only when TLC rejects a trace recorded from the
real code; everything that is not an observation of real behaviour is exit 2 (INCONCLUSIVE).
"""
import json, os, re, shutil, subprocess, sys, time, hashlib, collections, random

VERIF = os.path.dirname(os.path.dirname(os.path.abspath(__file__)))
REPO = os.environ.get("VERIF_REPO", "/repo")
GO = os.environ.get("VERIF_GO", "go1.26.8")
NCPU = int(os.environ.get("VERIF_CPUS", str(os.cpu_count() or 4)))
TLA_LIB = os.path.join(VERIF, "specs", "lib")


class Inconclusive(Exception):
    pass


def log(*a):
    print(*a, file=sys.stderr, flush=True)


def goenv():
    e = dict(os.environ)
    e.update(GOFLAGS="-mod=mod", GOPROXY="off", GOSUMDB="off", GOTOOLCHAIN="local", CGO_ENABLED=e.get("CGO_ENABLED", "0"))
    return e


def outdir(prop):
    # trials against a scratch copy (VERIF_REPO) get their own work dir and never touch evidence/
    base = os.environ.get("VERIF_OUT") or (os.path.join(VERIF, "out") if REPO == "/repo" else os.path.join("/tmp", "verif-out-" + hashlib.md5(REPO.encode()).hexdigest()[:8]))
    d = os.path.join(base, prop)
    os.makedirs(d, exist_ok=True)
    return d


# --------------------------------------------------------------------------- harness build

def build_harness(workdir, race=False, pkg=".", driver="all"):
    """go test -c of the harness against REPO's working tree (hooks on: -tags verif)."""
    b = os.path.join(workdir, "build")
    os.makedirs(b, exist_ok=True)
    mod = open(os.path.join(VERIF, "harness", "go.mod")).read()
    mod = re.sub(r"replace github.com/aperturerobotics/util => .*", "replace github.com/aperturerobotics/util => " + REPO, mod)
    with open(os.path.join(b, "go.mod"), "w") as f:
        f.write(mod)
    shutil.copy(os.path.join(REPO, "go.sum"), os.path.join(b, "go.sum"))
    binp = os.path.join(workdir, "h-race.test" if race else "h.test")
    cmd = [GO, "test", "-c", "-tags", "verif,drv_" + driver, "-modfile=" + os.path.join(b, "go.mod"), "-o", binp]
    env = goenv()
    if race:
        cmd.insert(3, "-race")
        env["CGO_ENABLED"] = "1"
    cmd.append(pkg)
    t0 = time.time()
    p = subprocess.run(cmd, cwd=os.path.join(VERIF, "harness"), env=env, capture_output=True, text=True)
    if p.returncode != 0:
        raise Inconclusive("harness build failed:\n" + p.stdout + p.stderr)
    log("[build] %s in %.1fs" % (os.path.basename(binp), time.time() - t0))
    return binp


# --------------------------------------------------------------------------- TLA+ helpers

def json2tla(v, k_shift=()):
    if isinstance(v, bool):
        return "TRUE" if v else "FALSE"
    if isinstance(v, int):
        return str(v)
    if isinstance(v, str):
        return json.dumps(v)
    if isinstance(v, list):
        return "<< " + ", ".join(json2tla(x, k_shift) for x in v) + " >>"
    if isinstance(v, dict):
        return "[" + ", ".join("%s |-> %s" % (k, json2tla(x + 1 if (k in k_shift and isinstance(x, int)) else x, k_shift)) for k, x in v.items()) + "]"
    raise ValueError(v)


def spec_scratch(workdir, name, specdirs):
    """Copy the spec sources into a scratch dir (TLC litters states/, TTrace files...)."""
    d = os.path.join(workdir, "tlc-" + name)
    shutil.rmtree(d, ignore_errors=True)
    os.makedirs(d)
    for sd in specdirs:
        sd = os.path.join(VERIF, "specs", sd)
        for f in os.listdir(sd):
            if f.endswith(".tla") or f.endswith(".cfg"):
                shutil.copy(os.path.join(sd, f), d)
    return d


def run_tlc(d, module, cfg, workers=4, env=None, timeout=600, dump=None, extra=(), xmx="4g", deque=False):
    """Run TLC in scratch dir d. Returns dict with counts, ok flag, error text."""
    e = dict(os.environ)
    jto = "-DTLA-Library=%s -Xmx%s -Xss64m" % (TLA_LIB, xmx)
    if deque:
        jto += " -Dtlc2.tool.queue.IStateQueue=StateDeque"
    e["JAVA_TOOL_OPTIONS"] = jto
    if env:
        e.update(env)
    # TLC unpacks its standard modules into java.io.tmpdir on every start: keep that inside the scratch dir
    jt = os.path.join(d, "jtmp")
    os.makedirs(jt, exist_ok=True)
    e["JAVA_TOOL_OPTIONS"] = e.get("JAVA_TOOL_OPTIONS", "") + " -Djava.io.tmpdir=" + jt
    cmd = ["timeout", str(timeout), "tlc", "-workers", str(workers), "-metadir", os.path.join(d, "meta-" + module + "-" + os.path.basename(cfg)), "-config", cfg]
    if dump:
        cmd += ["-dump", "dot,actionlabels", dump]
    cmd += list(extra) + [module + ".tla"]
    t0 = time.time()
    p = subprocess.run(cmd, cwd=d, env=e, capture_output=True, text=True)
    out = p.stdout + p.stderr
    r = {"rc": p.returncode, "out": out, "wall_s": round(time.time() - t0, 2), "states": 0, "distinct": 0, "depth": 0}
    m = re.search(r"(\d+) states generated, (\d+) distinct states found", out)
    if m:
        r["states"], r["distinct"] = int(m.group(1)), int(m.group(2))
    m = re.search(r"depth of the complete state graph search is (\d+)", out)
    if m:
        r["depth"] = int(m.group(1))
    r["ok"] = ("Model checking completed. No error has been found" in out)
    m = re.search(r"Error: (.*)", out)
    r["error"] = m.group(1) if m else ""
    m = re.search(r"Invariant (\S+) is violated", out)
    r["violated"] = m.group(1) if m else ""
    if p.returncode == 124:
        r["error"] = "timeout"
    shutil.rmtree(os.path.join(d, "meta-" + module + "-" + os.path.basename(cfg)), ignore_errors=True)
    return r


def write_mc(d, name, base, defs, cfg_lines):
    with open(os.path.join(d, name + ".tla"), "w") as f:
        f.write("---- MODULE %s ----\nEXTENDS %s\n%s\n====\n" % (name, base, "\n".join(defs)))
    with open(os.path.join(d, name + ".cfg"), "w") as f:
        f.write("\n".join(cfg_lines) + "\n")
    return name + ".cfg"


# --------------------------------------------------------------------------- graph -> schedules

ACTIONS = collections.Counter()   # action name (without arguments) -> edges seen in the dumped state graphs of this run


def next_actions(spec_path):
    """Names of the operators that the definition of Next in an X spec mentions (its named actions)."""
    try:
        txt = open(spec_path).read()
    except OSError:
        return {}
    defined = set(re.findall(r"^([A-Z][A-Za-z0-9_]*)(?:\([^)]*\))? *==", txt, re.M))
    m = re.search(r"^Next *==(.*?)(?:\n\s*\n|\n[A-Z][A-Za-z0-9_]*(?:\([^)]*\))? *==)", txt, re.M | re.S)
    if not m:
        return {}
    body = m.group(1)
    used = set(re.findall(r"\b([A-Z][A-Za-z0-9_]*)\b", body))
    sets = set(re.findall(r"\\in\s+([A-Z][A-Za-z0-9_]*)", body))      # quantifier domains are not actions
    out = {}
    for u in used & defined:
        if u in sets or u in ("Next", "Gate", "Init"):
            continue
        d = re.search(r"^%s(?:\([^)]*\))? *==(.*?)(?:\n\s*\n|\Z)" % re.escape(u), txt, re.M | re.S)
        out[u] = d.group(1) if d else ""
    return out


def parse_dot(path):
    """Returns (init_nodes, edges) with edges: dict node -> list of (label, dst)."""
    init, edges = [], collections.defaultdict(list)
    edge_re = re.compile(r'^(-?\d+) -> (-?\d+) \[label="((?:[^"\\]|\\.)*)"')
    node_re = re.compile(r'^(-?\d+) \[label=.*style = filled')
    n_edges = 0
    with open(path) as f:
        for line in f:
            m = edge_re.match(line)
            if m:
                a, b, l = m.group(1), m.group(2), m.group(3)
                edges[a].append((l, b))
                ACTIONS[re.split(r"[( ]", l, 1)[0]] += 1
                n_edges += 1
                continue
            m = node_re.match(line)
            if m:
                init.append(m.group(1))
    return init, edges, n_edges


def edge_cover(init, edges, maxlen=60, cap=50000, seed=0):
    """BFS tree + greedy extension through uncovered edges: a set of paths (lists of labels)
    that covers every edge of the graph at least once (up to cap paths)."""
    rnd = random.Random(seed)
    parent = {}
    order = []
    dq = collections.deque()
    for i in init:
        parent[i] = None
        dq.append(i)
    while dq:
        u = dq.popleft()
        order.append(u)
        for (l, v) in edges.get(u, ()):
            if v not in parent:
                parent[v] = (u, l)
                dq.append(v)

    def tree_path(u):
        p = []
        while parent[u] is not None:
            u, l = parent[u][0], parent[u][1]
            p.append(l)
        p.reverse()
        return p

    covered = set()
    paths = []
    total = sum(len(v) for v in edges.values())
    for u in order:
        for idx, (l, v) in enumerate(edges.get(u, ())):
            if (u, idx) in covered:
                continue
            # mark tree edges on the way as covered too
            path = tree_path(u)
            w = u
            while parent[w] is not None:
                pu, pl = parent[w]
                for j, (l2, v2) in enumerate(edges[pu]):
                    if l2 == pl and v2 == w:
                        covered.add((pu, j))
                        break
                w = pu
            path.append(l)
            covered.add((u, idx))
            cur = v
            while len(path) < maxlen:
                cand = [(j, l2, v2) for j, (l2, v2) in enumerate(edges.get(cur, ())) if (cur, j) not in covered]
                if not cand:
                    break
                j, l2, v2 = cand[rnd.randrange(len(cand))]
                covered.add((cur, j))
                path.append(l2)
                cur = v2
            paths.append(path)
            if len(paths) >= cap:
                return paths, len(covered), total
    return paths, len(covered), total


def map_labels(paths, rules):
    """rules: list of (regex, template or None). template uses {1},{2} for groups; None drops the label."""
    comp = [(re.compile(r), t) for r, t in rules]
    out = []
    for p in paths:
        q = []
        for l in p:
            for rx, t in comp:
                m = rx.fullmatch(l)
                if m:
                    if t is not None:
                        q.append(t.format(*([l] + list(m.groups()))))
                    break
            else:
                raise ValueError("no label rule for %r" % l)
        out.append(q)
    return out


# --------------------------------------------------------------------------- running the harness

def run_harness(binp, driver, workdir, scheds=None, n=0, seed=1, shards=None, opt="", timeout=1800, tag="m1", procs=1):
    """Run the controlled harness in parallel shards. Returns (trace files, merged stats)."""
    shards = shards or max(1, min(NCPU, 16))
    scheds = scheds or []
    sf = None
    if scheds:
        sf = os.path.join(workdir, "%s-%s-scheds.json" % (driver, tag))
        with open(sf, "w") as f:
            json.dump(scheds, f)
    plist = []
    per = (len(scheds) + shards - 1) // shards if scheds else 0
    nper = (n + shards - 1) // shards if n else 0
    run0 = 0
    for s in range(shards):
        a, b = s * per, min(len(scheds), (s + 1) * per)
        ns = max(0, min(nper, n - s * nper))
        if a >= b and ns == 0:
            continue
        tf = os.path.join(workdir, "%s-%s-%02d.ndjson" % (driver, tag, s))
        stf = os.path.join(workdir, "%s-%s-%02d.stats.json" % (driver, tag, s))
        cmd = [binp, "-test.run", "^TestRun$", "-test.timeout", "%ds" % timeout, "-driver", driver, "-out", tf, "-stats", stf,
               "-n", str(ns), "-seed", str(seed * 100 + s), "-run0", str(run0), "-opt", opt, "-procs", str(procs)]
        if sf and a < b:
            cmd += ["-sched", sf, "-from", str(a), "-to", str(b)]
        run0 += (b - a if a < b else 0) + ns
        plist.append((subprocess.Popen(cmd, cwd=workdir, stdout=subprocess.PIPE, stderr=subprocess.STDOUT, text=True), tf, stf, cmd))
    traces, stats = [], {"executions": 0, "events": 0, "schedules": 0, "schedules_followed": 0, "distinct_label_sequences": 0,
                         "steps": 0, "bubble_deadlocks": 0, "samples": [], "crashed_shards": 0}
    for p, tf, stf, cmd in plist:
        try:
            out, _ = p.communicate(timeout=timeout + 60)
        except subprocess.TimeoutExpired:
            p.kill()
            out, _ = p.communicate()
            out += "\n[harness shard timed out]"
        if p.returncode != 0 or not os.path.exists(stf):
            stats["crashed_shards"] += 1
            log("[harness] shard failed rc=%s: %s\n%s" % (p.returncode, " ".join(cmd), out[-3000:]))
            last = sanitize_trace(tf)
            crash = library_panic(out)
            if crash:
                # a panic in a goroutine that the library itself created kills the process: an observation
                # of real behaviour (the library panicked), attributed to the run after the last complete one
                crash.update({"cmd": cmd[1:], "trace_file": tf, "run": (last + 1) if last is not None else int(cmd[cmd.index("-run0") + 1]) + 1})
                stats.setdefault("crashes", []).append(crash)
            if os.path.exists(tf) and os.path.getsize(tf) > 0:
                traces.append(tf)  # the complete runs that were flushed are still validated
            continue
        traces.append(tf)
        st = json.load(open(stf))
        for k in ("executions", "events", "schedules", "schedules_followed", "distinct_label_sequences", "steps", "bubble_deadlocks"):
            stats[k] += st.get(k, 0)
        stats["samples"] += st.get("samples", [])[:1]
    return traces, stats


def sanitize_trace(tf):
    """After a crashed shard: cut the trace file back to its last complete run (last "end" event).
    Returns the number of that run (None if there is none)."""
    if not os.path.exists(tf):
        return None
    keep, last, pos = 0, None, 0
    with open(tf, "rb") as f:
        for line in f:
            pos += len(line)
            if not line.endswith(b"\n"):
                break
            if b'"ev":"end"' in line:
                try:
                    last = json.loads(line)["run"]
                    keep = pos
                except ValueError:
                    break
    with open(tf, "r+b") as f:
        f.truncate(keep)
    return last


def library_panic(out):
    """If the harness output shows a Go panic whose innermost non-runtime frame is library code, returns
    {"panic": first line, "frame": function} (else None: a harness problem, not an observation)."""
    m = re.search(r"^(panic: .*|fatal error: .*)$", out, re.M)
    if not m:
        return None
    tail = out[m.start():]
    if "livelock" in m.group(1):
        # the harness watchdog's dump of all goroutines: look for one that is running / runnable inside the
        # library (not parked, not the watchdog itself)
        for blk in re.split(r"\n\s*\n", tail):
            h = re.match(r"goroutine \d+ \[(running|runnable)[^\n]*\n", blk)
            if not h or "runtime.Stack" in blk:
                continue
            for fn in re.findall(r"^(\S+)\(", blk[h.end():], re.M):
                if fn.startswith(("runtime.", "runtime/", "internal/", "sync.", "sync/", "context.", "time.")):
                    continue
                if fn.startswith("github.com/aperturerobotics/util/") and "/verifhook." not in fn:
                    return {"panic": m.group(1)[:200], "frame": fn[:200], "kind": "livelock"}
                break
        # nothing runs: a goroutine of the bubble waiting for a sync.Mutex / RWMutex from library code (the
        # controller never parks a goroutine that holds a library lock, so the lock will not be released:
        # synctest does not regard such a wait as durable and the execution can never settle)
        for blk in re.split(r"\n\s*\n", tail):
            h = re.match(r"goroutine \d+ \[sync\.(?:RW)?Mutex\.R?Lock[^\n]*synctest bubble[^\n]*\n", blk)
            if not h:
                continue
            for fn in re.findall(r"^(\S+)\(", blk[h.end():], re.M):
                if fn.startswith(("runtime.", "runtime/", "internal/", "sync.", "sync/")):
                    continue
                if fn.startswith("github.com/aperturerobotics/util/") and "/verifhook." not in fn:
                    return {"panic": "deadlock: " + m.group(1)[:180], "frame": fn[:200], "kind": "deadlock"}
                break
        return None
    g = re.search(r"^goroutine \d+ \[running[^\n]*\n((?:.+\n)+)", tail, re.M)
    if not g:
        return None
    for fn in re.findall(r"^(\S+)\(", g.group(1), re.M):
        if fn.startswith(("runtime.", "panic(", "runtime/", "internal/", "sync.", "sync/")):
            continue
        if fn.startswith("github.com/aperturerobotics/util/") and "/verifhook." not in fn:
            return {"panic": m.group(1)[:200], "frame": fn[:200]}
        return None
    return None


# --------------------------------------------------------------------------- trace validation

def validate_traces(workdir, specdirs, module, traces, timeout=1200, deque=False, par=None):
    """Run TLC on <module>.tla (+ .cfg) once per trace file, in parallel. Returns (violations, consumed, total, tlc_states)."""
    par = par or max(1, min(NCPU, 8))
    jobs = []
    for i, tf in enumerate(traces):
        d = spec_scratch(workdir, "%s-%02d" % (module, i), specdirs)
        vf = os.path.join(d, "verdict.json")
        jobs.append((d, tf, vf))
    results = [None] * len(jobs)
    running = []
    idx = 0

    def start(j):
        d, tf, vf = jobs[j]
        e = dict(os.environ)
        jto = "-DTLA-Library=%s -Xmx3g -Xss256m" % TLA_LIB
        if deque:
            jto += " -Dtlc2.tool.queue.IStateQueue=StateDeque"
        jt = os.path.join(d, "jtmp")
        os.makedirs(jt, exist_ok=True)
        e["JAVA_TOOL_OPTIONS"] = jto + " -Djava.io.tmpdir=" + jt
        e["TRACE_FILE"] = tf
        e["VERDICT_FILE"] = vf
        cmd = ["timeout", str(timeout), "tlc", "-workers", "1", "-metadir", os.path.join(d, "meta"), "-config", module + ".cfg", module + ".tla"]
        return subprocess.Popen(cmd, cwd=d, env=e, stdout=subprocess.PIPE, stderr=subprocess.STDOUT, text=True)

    while idx < len(jobs) or running:
        while idx < len(jobs) and len(running) < par:
            running.append((idx, start(idx)))
            idx += 1
        j, p = running.pop(0)
        out, _ = p.communicate()
        results[j] = (p.returncode, out)
    viol, consumed, total, states = [], 0, 0, 0
    for j, (rc, out) in enumerate(results):
        d, tf, vf = jobs[j]
        m = re.search(r"(\d+) states generated", out)
        if m:
            states += int(m.group(1))
        if not os.path.exists(vf):
            raise Inconclusive("trace validation of %s did not finish (rc=%s):\n%s" % (tf, rc, out[-3000:]))
        v = json.load(open(vf))
        consumed += v["consumed"]
        total += v["total"]
        for x in v["violations"]:
            x["trace_file"] = tf
            viol.append(x)
        shutil.rmtree(d, ignore_errors=True)
    return viol, consumed, total, states


def extract_run(tracefile, run):
    ev = []
    with open(tracefile) as f:
        for line in f:
            if '"run":%d,' % run in line or '"run":%d}' % run in line:
                e = json.loads(line)
                if e.get("run") == run:
                    ev.append(e)
    return ev


# --------------------------------------------------------------------------- known findings, verdict, evidence

def load_known():
    p = os.path.join(VERIF, "known_findings.json")
    if not os.path.exists(p):
        return {"findings": [], "fixed": []}
    return json.load(open(p))


def finish(prop, tier, seed, level, coverage, violations, t0, assumptions, notes=None, replay_builder=None):
    """violations: list of dicts with keys property, name, run, seq, trace_file, ... for THIS property.
    Writes evidence, prints KNOWN-FINDING / VIOLATION lines, returns exit code."""
    known = [k for k in load_known()["findings"] if k["property"] == prop]
    od = outdir(prop)
    unlisted, listed = [], collections.OrderedDict()
    for v in violations:
        k = next((k for k in known if k["signature"] == v["name"]), None)
        if k is not None:
            listed.setdefault(k["signature"], (k, []))[1].append(v)
        else:
            unlisted.append(v)
    for sig, (k, vs) in listed.items():
        print("KNOWN-FINDING: property=%s %s (%s; %d occurrences in this run)" % (prop, k["what"], sig, len(vs)))
    rc = 0
    seen_names = set()
    nrep = 0
    for v in unlisted:
        if v["name"] in seen_names and nrep >= 5:
            continue
        seen_names.add(v["name"])
        nrep += 1
        rp = os.path.join(od, "replay-%d.json" % nrep)
        rec = dict(v)
        if replay_builder:
            rec.update(replay_builder(v))
        with open(rp, "w") as f:
            json.dump(rec, f, indent=1)
        print("VIOLATION property=%s replay=%s" % (prop, rp))
        log("  condition %s at run %s seq %s" % (v["name"], v.get("run"), v.get("seq")))
        rc = 1
    coverage = dict(coverage)
    ev = {
        "property_id": prop, "tier": tier, "seed": seed, "level": level, "coverage": coverage,
        "assumptions": assumptions, "wall_s": round(time.time() - t0, 2),
        "violations": len(unlisted), "known_findings_seen": [s for s in listed],
    }
    if notes:
        ev["notes"] = notes
    # (ids that are not listed properties -- spec growth beyond them, X01.. -- keep their evidence apart)
    evdir = os.path.join(VERIF, "evidence" if re.match(r"C\d+$", prop) else "evidence-extras") if REPO == "/repo" else od
    os.makedirs(evdir, exist_ok=True)
    with open(os.path.join(evdir, prop + ".json"), "w") as f:
        json.dump(ev, f, indent=1)
    log("[%s %s] executions=%s violations=%d known=%d wall=%.1fs" % (prop, tier, coverage.get("traces_validated_against_impl", coverage.get("evaluations")), len(unlisted), len(listed), time.time() - t0))
    return rc


# --------------------------------------------------------------------------- the standard check

def model_and_schedules(wd, name, mk, label_rules, seed, cap, invariant_cfg, graph_cfg, maxlen=70, workers=8, timeout=900, dump_graph=True):
    """mk(d, cfg_kind) must write MC.tla/MC.cfg into scratch dir d for cfg_kind in {"mc","graph"} and return the base name.
    Runs the model check (invariants on) and, if dump_graph, the graph dump; returns (tlc result, label paths, notes)."""
    notes = []
    d = spec_scratch(wd, name + "-mc", invariant_cfg["specdirs"])
    mk(d, "mc")
    r = run_tlc(d, "MC", "MC.cfg", workers=workers, timeout=timeout)
    shutil.rmtree(d, ignore_errors=True)
    if not r["ok"]:
        notes.append("model %s: %s %s" % (name, r["error"], r["violated"]))
        log("[model] %s: NOT ok: %s %s" % (name, r["error"], r["violated"]))
    paths = []
    if dump_graph and (r["distinct"] == 0 or r["distinct"] > 80000):
        notes.append("model %s: %d distinct states: graph not dumped (guard against huge dot files)" % (name, r["distinct"]))
        log("[model] %s: graph dump skipped (%d distinct states, rc=%s %s)" % (name, r["distinct"], r["rc"], r["error"]))
        dump_graph = False
    if dump_graph:
        d = spec_scratch(wd, name + "-g", invariant_cfg["specdirs"])
        mk(d, "graph")
        dot = os.path.join(wd, name + ".dot")
        g = run_tlc(d, "MC", "MC.cfg", workers=workers, timeout=min(timeout, 300), dump=dot[:-4])
        shutil.rmtree(d, ignore_errors=True)
        if not os.path.exists(dot):
            raise Inconclusive("no graph dump for %s: %s" % (name, g["out"][-2000:]))
        init, edges, ne = parse_dot(dot)
        os.remove(dot)
        raw, cov, total = edge_cover(init, edges, maxlen=maxlen, cap=cap, seed=seed)
        paths = map_labels(raw, label_rules)
        log("[model] %s: %d distinct states, %d transitions generated; schedule graph %d edges -> %d schedules (%d/%d edges covered)" % (name, r["distinct"], r["states"], ne, len(paths), cov, total))
    else:
        log("[model] %s: %d distinct states, %d transitions generated ok=%s" % (name, r["distinct"], r["states"], r["ok"]))
    return r, paths, notes


def standard_check(prop, tier, seed, fam):
    """fam: dict with keys
         driver, specdirs, monitor, property_of (condition name -> property id),
         models: f(wd, tier, seed) -> (states, transitions, schedules, notes, scenario_names)
         n_random: {"quick": n, "thorough": n}
         x_specs, p_monitor, assumptions (list), opt (str), deque (bool), extra_cov (dict)
         modes: optional list of extra (tag, opt, n) harness runs (e.g. M2 bursts)
    """
    t0 = time.time()
    wd = outdir(prop)
    binp = build_harness(wd, driver=fam["driver"])
    states, trans, scheds, notes, scen = fam["models"](wd, tier, seed)
    n = fam["n_random"][tier]
    traces, st = run_harness(binp, fam["driver"], wd, scheds=scheds, n=n, seed=seed, opt=fam.get("opt", ""))
    for mode in fam.get("modes", {}).get(tier, []):
        tag, opt, nn = mode[:3]
        procs = mode[3] if len(mode) > 3 else 1
        t2, s2 = run_harness(binp, fam["driver"], wd, scheds=None, n=nn, seed=seed, opt=opt, tag=tag, procs=procs,
                             shards=(4 if procs > 1 else None))
        traces += t2
        for k in ("executions", "events", "steps", "bubble_deadlocks", "crashed_shards", "distinct_label_sequences"):
            st[k] += s2[k]
        st.setdefault("crashes", []).extend(s2.get("crashes", []))
        st["samples"] += s2["samples"][:1]
    if st["executions"] == 0 and not st.get("crashes"):
        raise Inconclusive("no executions were recorded")
    viol, consumed, total, tstates = validate_traces(wd, fam["specdirs"], fam["monitor"], traces, deque=fam.get("deque", False))
    if consumed != total:
        raise Inconclusive("trace not fully consumed: %d of %d" % (consumed, total))
    for c in st.get("crashes", []):
        nm = "Panic"
        if c.get("kind") == "livelock":
            # a library goroutine spinning on the CPU: the family's own name for "loops without progress"
            nm = next((k for k in ("Livelock", "Spin", "AwaitSpin", "Stuck") if k in fam["property_of"]), "Panic")
        elif c.get("kind") == "deadlock":
            # a library goroutine waiting for a library mutex that nobody will release
            nm = next((k for k in ("ApiBlocked", "Deadlock", "Stuck", "Livelock", "Spin", "AwaitSpin") if k in fam["property_of"]), "Panic")
        viol.append({"names": [nm], "run": c["run"], "seq": 0, "l": 0, "trace_file": c["trace_file"], "crash": c})
    mine, harness_err = [], []
    pof = fam["property_of"]
    for v in viol:
        for nm in v["names"]:
            base = nm.split(":")[0]
            p = pof.get(nm, pof.get(base))
            rec = dict(v, name=nm, property=p)
            if p == prop:
                mine.append(rec)
            elif p is None:
                harness_err.append(rec)
    if harness_err:
        # a protocol problem taints its own run only: violations observed in runs without such a
        # problem are still observations of real behaviour
        # (only from the point where it occurred: what was observed earlier in that run stands)
        tainted = {}
        for v in harness_err:
            k = (v["trace_file"], v["run"])
            tainted[k] = min(tainted.get(k, v["seq"]), v["seq"])
        mine = [v for v in mine if v["seq"] < tainted.get((v["trace_file"], v["run"]), 1 << 60)]
        if not mine:
            raise Inconclusive("harness/monitor protocol error (not a verdict): %s" % harness_err[:3])
        notes.append("%d runs had harness/monitor protocol errors (e.g. %s); their events were not judged" % (len(tainted), harness_err[0]["name"]))
    if st["crashed_shards"]:
        notes.append("%d harness shards crashed; their flushed events were still validated" % st["crashed_shards"])

    def replay(v):
        evs = extract_run(v["trace_file"], v["run"])
        end = next((e for e in evs if e["ev"] == "end"), {})
        rec = {"driver": fam["driver"], "monitor": fam["monitor"], "specdirs": fam["specdirs"], "opt": fam.get("opt", ""), "deque": fam.get("deque", False),
               "scenario": end.get("scenario"), "labels": end.get("labels"), "events": evs}
        if v.get("crash"):
            rec["crash"] = v["crash"]   # the process died: --replay runs the shard's command again
        return rec

    cov = {
        "states": states, "transitions": trans,
        "traces_validated_against_impl": st["executions"],
        "events_validated": total,
        "schedules_from_tlc": st["schedules"], "schedules_followed_to_end": st["schedules_followed"],
        "random_executions": st["executions"] - st["schedules"],
        "distinct_label_sequences": st["distinct_label_sequences"],
        "controller_steps": st["steps"],
        "bubble_deadlocks": st["bubble_deadlocks"],
        "x_specs": fam["x_specs"], "p_monitor": fam["p_monitor"], "scenarios": scen,
        "model_notes": notes,
        "samples": st["samples"][:3] or [{"note": "no sample"}],
        "exhaustive": False,
    }
    if ACTIONS:
        # vacuity: which named actions of the X specs occur in the state graphs the schedules came from
        named = {}
        for xs in fam["x_specs"]:
            named.update(next_actions(os.path.join(VERIF, "specs", xs)))
        cov["x_actions_in_graphs"] = dict(sorted(ACTIONS.items()))
        # (a disjunct of Next that only wraps a seen action -- FireErr(p) == Fire(p, "err") -- counts as seen;
        #  the graphs are those of the coarse, eager configuration: actions of a Fine variant never occur in them)
        cov["x_actions_never_in_graphs"] = sorted(n for n, body in named.items() if n not in ACTIONS
                                                  and not any(re.search(r"\b%s\b" % re.escape(a), body) for a in ACTIONS))
    cov.update(fam.get("extra_cov", {}))
    if fam.get("advisory"):
        # advisory conformance of internal steps against the X spec (DRIFT is reported, never a verdict)
        try:
            cov["x_conformance"] = fam["advisory"](wd, binp, seed, tier)
        except Exception as e:  # advisory only
            cov["x_conformance"] = {"error": str(e)[:500]}
    if states == 0:
        cov["states"] = cov["transitions"] = 0  # evidence then falls back to the generic keys
        cov["evaluations"] = st["executions"]
        cov["distinct_nontrivial"] = st["distinct_label_sequences"]
    base_assume = ["TLC 1.8.0; CommunityModules Json/IOUtils", "testing/synctest durable-blocking detection (go1.26.8)",
                   "harness built with go1.26.8, not the go1.23 toolchain of the pinned suite"]
    rc = finish(prop, tier, seed, fam.get("level", "model_checking"), cov, mine, t0, base_assume + fam.get("assumptions", []), replay_builder=replay)
    # Disk: a thorough run records gigabytes of traces. Once validated they are not needed any more (a
    # violation's events are copied into its replay file); VERIF_KEEP=1 keeps them for inspection.
    if tier != "quick" and not os.environ.get("VERIF_KEEP"):
        import glob
        for f in glob.glob(os.path.join(wd, "*.ndjson")):
            try:
                os.remove(f)
            except OSError:
                pass
    return rc
