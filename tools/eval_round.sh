#!/bin/bash
# usage: eval_round.sh <round-tag> <scratch-prefix> "<checks by property, e.g. C02:C02,C01 C03:C03>"
# Evaluates <scratch-prefix><Cxx>/mutants/m1..m3 with tools/mutant_eval.sh, four at a time.
# The package directory and the test names of each demonstration are read from its *_test.go files.
tag=$1; pre=$2; shift 2
jobs=()
for spec in $@; do
  pid=${spec%%:*}; checks=$(echo ${spec#*:} | tr ',' ' ')
  for m in m1 m2 m3; do
    d=$pre$pid/mutants/$m
    [ -f $d/patch.diff ] || { echo "[$pid-$tag$m] no patch"; continue; }
    tf=$(ls $d/*_test.go 2>/dev/null | head -1)
    pkg=$(grep -h -m1 '^package ' $tf | awk '{print $2}' | sed 's/_test$//')
    case $pkg in debounce_fswatcher) pkg=debounce-fswatcher;; esac
    rx=$(grep -h '^func Test' $d/*_test.go | sed 's/(.*//;s/func //' | paste -sd'|')
    jobs+=("$pid-$tag$m $d $pkg $rx $checks")
  done
done
printf '%s\n' "${jobs[@]}" | xargs -P 4 -L 1 bash -c 'VERIF_CPUS=4 /verif/tools/mutant_eval.sh "$@" 2>&1 | grep "^\["' _
