"""C03: broadcast.Broadcast (specs/broadcast: BroadcastP monitor, Broadcast X spec with explicit channel ids)."""
import json, os
import vlib

PROPS = ["C03"]
C03_NAMES = ["ClosedEarly", "NotClosed", "CsOverlap", "NilWithoutPred", "SpuriousErr", "SpuriousCancel",
             "PredErrLost", "UnknownResult", "Stuck"]
PROPERTY_OF = {n: "C03" for n in C03_NAMES}
LABEL_RULES = [
    (r"Call\((\d+)\)", "call:c{1}"),
    (r"Cancel\((\d+)\)", "cancel:c{1}"),
    (r"LongExit\((\d+)\)", "unhold:c{1}"),
    (r"(?:HoldCS|TryCS|MaybeCS|LongEnter|WaitCS)\((\d+)\)", "grant:c{1}"),
    (r"(?:AsyncGo|AsyncCS)\((\d+)\)", "grant:broadcast.holdasync#{1}"),
    (r"(?:Wake|WakeCtx)\((\d+)\)", None),
]

SCEN = {"quick": ["bc_q1", "bc_q2", "bc_q3"],
        "thorough": ["bc_q1", "bc_q2", "bc_q3", "bc_t1", "bc_t2", "bc_t3", "bc_t4"]}
BIG = ["bc_b1", "bc_b2", "bc_b3", "bc_b4"]   # thorough: model checked only (graphs too large to dump)


def scen_path(n):
    return os.path.join(vlib.VERIF, "specs", "broadcast", "scenarios", n + ".json")


def tla_prog(sc):
    prog = []
    for cl in sc["clients"]:
        ops = []
        for o in cl:
            if o["op"] in ("wait", "raw"):
                ops.append(dict(op=o["op"], k=o.get("k", 1), e=o.get("e", 0), c=bool(o.get("c", False)), g=bool(o.get("g", False))))
            else:
                ops.append(dict(op=o["op"], body=list(o.get("body", ""))))
        prog.append(ops)
    return prog


def chan_bound(sc):
    # every broadcast closes at most one channel; at most one more is open
    return 1 + sum(o.get("body", "").count("b") for cl in sc["clients"] for o in cl)


def mk_factory(sc):
    prog = tla_prog(sc)

    def mk(d, kind):
        consts = ["Prog <- ScProg", "K = %d" % chan_bound(sc), "EagerWake = %s" % ("TRUE" if kind == "graph" else "FALSE")]
        cfg = ["INIT Init", "NEXT Next", "CHECK_DEADLOCK FALSE", "CONSTANTS"] + [" " + c for c in consts]
        if kind == "mc":
            cfg += ["INVARIANTS TypeOK AbsOK MtxAgree Mirror ModelSafe QuietInv", "PROPERTY AbsStep"]
        vlib.write_mc(d, "MC", "Broadcast", ["ScProg == " + vlib.json2tla(prog)], cfg)
    return mk


def models(wd, tier, seed):
    states = trans = 0
    scheds, notes, names = [], [], []
    quick = tier == "quick"
    for name in SCEN[tier] + ([] if quick else BIG):
        if not os.path.exists(scen_path(name)):
            continue
        sc = json.load(open(scen_path(name)))
        big = name in BIG
        r, paths, nn = vlib.model_and_schedules(wd, name, mk_factory(sc), LABEL_RULES, seed, cap=1500 if quick else 30000,
                                                invariant_cfg={"specdirs": ["broadcast", "lib"]}, graph_cfg=None,
                                                workers=vlib.NCPU if big else min(8, vlib.NCPU), timeout=1500, dump_graph=not big)
        states += r["distinct"]
        trans += r["states"]
        notes += nn
        names.append(name)
        for i, p in enumerate(paths):
            scheds.append({"name": "%s/%d" % (name, i), "scenario": sc, "labels": p})
    return states, trans, scheds, notes, names


FAM = dict(driver="broadcast", specdirs=["broadcast", "lib"], monitor="BroadcastPTrace", property_of=PROPERTY_OF, models=models,
           n_random={"quick": 3000, "thorough": 200000},
           x_specs=["broadcast/Broadcast.tla"], p_monitor="broadcast/BroadcastP.tla",
           assumptions=["BroadcastP readings R1-R5 (header of specs/broadcast/BroadcastP.tla): same-critical-section broadcast after a get is unconstrained; "
                        "channel identity unconstrained; quiescence judged only when the last change of the guarded state was followed by a broadcast; "
                        "a cancelled Wait is not required to return",
                        "the harness-owned predicate, counter and handle probes are logged from inside the critical sections / between controller steps"])


def run(prop, tier, seed):
    return vlib.standard_check(prop, tier, seed, FAM)
