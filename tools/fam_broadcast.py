"""C03: broadcast.Broadcast (specs/broadcast: BroadcastP monitor, Broadcast X spec with explicit channel ids)."""
import json, os
import vlib

PROPS = ["C03"]
C03_NAMES = ["ClosedEarly", "NotClosed", "CsOverlap", "NilWithoutPred", "SpuriousErr", "SpuriousCancel",
             "PredErrLost", "UnknownResult", "Stuck"]
PROPERTY_OF = {n: "C03" for n in C03_NAMES}
LABEL_RULES = [
    (r"Call\((\d+)\)", "call:c{1}"),
    (r"Cancel\((\d+)\)", "cancel:c{1}"),
    (r"LongExit\((\d+)\)", "unhold:c{1}"),
    (r"(?:HoldCS|TryCS|MaybeCS|LongEnter|WaitCS)\((\d+)\)", "grant:c{1}"),
    (r"(?:AsyncGo|AsyncCS)\((\d+)\)", "grant:broadcast.holdasync#{1}"),
    (r"(?:Wake|WakeCtx)\((\d+)\)", None),
]

SCEN = {"quick": ["bc_q1", "bc_q2", "bc_q3"],
        "thorough": ["bc_q1", "bc_q2", "bc_q3", "bc_t1", "bc_t2", "bc_t3", "bc_t4"]}
BIG = ["bc_b1", "bc_b2", "bc_b3", "bc_b4"]   # thorough: model checked only (graphs too large to dump)


def scen_path(n):
    return os.path.join(vlib.VERIF, "specs", "broadcast", "scenarios", n + ".json")


def tla_prog(sc):
    prog = []
    for cl in sc["clients"]:
        ops = []
        for o in cl:
            if o["op"] in ("wait", "raw"):
                ops.append(dict(op=o["op"], k=o.get("k", 1), e=o.get("e", 0), c=bool(o.get("c", False)), g=bool(o.get("g", False))))
            else:
                ops.append(dict(op=o["op"], body=list(o.get("body", ""))))
        prog.append(ops)
    return prog


def chan_bound(sc):
    # every broadcast closes at most one channel; at most one more is open
    return 1 + sum(o.get("body", "").count("b") for cl in sc["clients"] for o in cl)


def mk_factory(sc):
    prog = tla_prog(sc)

    def mk(d, kind):
        consts = ["Prog <- ScProg", "K = %d" % chan_bound(sc), "EagerWake = %s" % ("TRUE" if kind == "graph" else "FALSE")]
        cfg = ["INIT Init", "NEXT Next", "CHECK_DEADLOCK FALSE", "CONSTANTS"] + [" " + c for c in consts]
        if kind == "mc":
            cfg += ["INVARIANTS TypeOK AbsOK MtxAgree Mirror ModelSafe QuietInv", "PROPERTY AbsStep"]
        vlib.write_mc(d, "MC", "Broadcast", ["ScProg == " + vlib.json2tla(prog)], cfg)
    return mk


def models(wd, tier, seed):
    states = trans = 0
    scheds, notes, names = [], [], []
    quick = tier == "quick"
    for name in SCEN[tier] + ([] if quick else BIG):
        if not os.path.exists(scen_path(name)):
            continue
        sc = json.load(open(scen_path(name)))
        big = name in BIG
        r, paths, nn = vlib.model_and_schedules(wd, name, mk_factory(sc), LABEL_RULES, seed, cap=1500 if quick else 30000,
                                                invariant_cfg={"specdirs": ["broadcast", "lib"]}, graph_cfg=None,
                                                workers=vlib.NCPU if big else min(8, vlib.NCPU), timeout=1500, dump_graph=not big)
        states += r["distinct"]
        trans += r["states"]
        notes += nn
        names.append(name)
        for i, p in enumerate(paths):
            scheds.append({"name": "%s/%d" % (name, i), "scenario": sc, "labels": p})
    return states, trans, scheds, notes, names


FAM = dict(driver="broadcast", specdirs=["broadcast", "lib"], monitor="BroadcastPTrace", property_of=PROPERTY_OF, models=models,
           n_random={"quick": 3000, "thorough": 200000},
           x_specs=["broadcast/Broadcast.tla"], p_monitor="broadcast/BroadcastP.tla",
           advisory=lambda wd, binp, seed, tier: x_conformance(wd, binp, seed, SCEN["quick"] if tier == "quick" else SCEN["thorough"],
                                                               nrand=100 if tier == "quick" else 1500),
           assumptions=["BroadcastP readings R1-R5 (header of specs/broadcast/BroadcastP.tla): same-critical-section broadcast after a get is unconstrained; "
                        "channel identity unconstrained; quiescence judged only when the last change of the guarded state was followed by a broadcast; "
                        "a cancelled Wait is not required to return",
                        "the harness-owned predicate, counter and handle probes are logged from inside the critical sections / between controller steps"])


def run(prop, tier, seed):
    return vlib.standard_check(prop, tier, seed, FAM)


# --------------------------------------------------------------------------- advisory X-level conformance

def x_conformance(wd, binp, seed, names, nrand=100):
    """Replays executions of each scenario (seeded random schedules on that scenario, controller steps logged) through
    the X spec itself (BroadcastXTrace.tla: every step must be an enabled action of Broadcast.tla; the recorded API
    events are replayed through the monitor functions into a second monitor record that must equal the spec's own
    at every step boundary). One TLC run per scenario (the scenario is a CONSTANT of X). Returns a summary dict;
    never a verdict."""
    import subprocess, shutil, time
    t0 = time.time()
    import threading
    total = dict(traces=0, events=0, steps=0, drift=0, incomplete=0, samples=[])   # incomplete: scenarios whose validation did not run to the end
    lock = threading.Lock()

    def one(name):
        if not os.path.exists(scen_path(name)):
            return
        sc = json.load(open(scen_path(name)))
        scheds = [{"name": "%s/x%d" % (name, i), "scenario": sc, "labels": []} for i in range(nrand)]
        sf = os.path.join(wd, "x-%s-scheds.json" % name)
        json.dump(scheds, open(sf, "w"))
        tf = os.path.join(wd, "x-%s.ndjson" % name)
        stf = os.path.join(wd, "x-%s.stats.json" % name)
        p = subprocess.run([binp, "-test.run", "^TestRun$", "-driver", "broadcast", "-out", tf, "-stats", stf, "-sched", sf, "-seed", str(seed), "-logsteps"],
                           cwd=wd, capture_output=True, text=True)
        if p.returncode != 0:
            with lock:
                total["incomplete"] += 1
                total["samples"].append("%s: harness failed" % name)
            return
        d = vlib.spec_scratch(wd, "x-" + name, ["broadcast", "lib"])
        consts = ["Prog <- ScProg", "K = %d" % chan_bound(sc), "EagerWake = FALSE"]
        vlib.write_mc(d, "MCX", "BroadcastXTrace", ["ScProg == " + vlib.json2tla(tla_prog(sc))],
                      ["INIT TInit", "NEXT TNext", "CHECK_DEADLOCK FALSE", "CONSTANTS"] + [" " + c for c in consts])
        vf = os.path.join(d, "verdict.json")
        r = vlib.run_tlc(d, "MCX", "MCX.cfg", workers=1, timeout=600,
                         env={"TRACE_FILE": tf, "VERDICT_FILE": vf,
                              "JAVA_TOOL_OPTIONS": "-DTLA-Library=%s -Xmx3g -Xss256m -Dtlc2.tool.impl.Tool.cdot=true" % vlib.TLA_LIB})
        if not os.path.exists(vf):
            with lock:
                total["incomplete"] += 1
                total["samples"].append("%s: X-trace validation did not finish: %s" % (name, r["error"] or r["out"][-300:]))
            return
        v = json.load(open(vf))
        with lock:
            total["traces"] += nrand
            total["events"] += v["total"]
            total["steps"] += json.load(open(stf)).get("steps", 0)
            total["drift"] += len(v["drift"])
            total["samples"] += ["%s: %s" % (name, json.dumps(x)) for x in v["drift"][:2]]
        shutil.rmtree(d, ignore_errors=True)
    # the scenarios are independent (one harness run + one single-worker TLC run each)
    from concurrent.futures import ThreadPoolExecutor
    with ThreadPoolExecutor(max_workers=max(1, min(4, vlib.NCPU))) as ex:
        list(ex.map(one, names))
    total["samples"].sort()
    total["wall_s"] = round(time.time() - t0, 1)
    return total
