"""C11: promise.Promise and promise.PromiseContainer (specs/promise: PromiseP monitor, Promise X spec)."""
import json, os, shutil
import vlib

PROPS = ["C11"]
# condition name up to the first ":" -> property (vlib looks the full name up first, then the base)
PROPERTY_OF = {k: "C11" for k in ("SecondTrue", "NotFirst", "NoWinner", "ResultMismatch", "WrongResult", "NoCause",
                                   "AwaitStuck", "AwaitSpin", "Panic")}
LABEL_RULES = [
    (r"Call\((\d+)\)", "call:c{1}"),
    (r"Cancel\((\d+)\)", "cancel:c{1}"),
    (r"Fire\((\d+)\)", "fire:c{1}"),
    (r"(?:SetWrite|SetClose|CsetCS|SetpCS|ACS)\((\d+)\)", "grant:c{1}"),
    (r"(?:Swap|PWakeRes|PWakeCtx|PWakeCh|NWakeCtx|NWakeCh|NWakeW|IWakeCtx|IWakeW|IWakeRes|IWakeCh)\((\d+)\)", None),
]
# X models the code as it is in /repo: both defects are open on the pinned tree.  Set to True
# after the corresponding "fix:" commit (the pre-fix behaviour stays reproducible with False).
FIX_F8 = True
FIX_F9 = False
# O6 (not judged a defect so far, see Promise.tla / PromiseP.tla): a container awaiter may return the late result of a
# promise that was replaced before it was resolved.  proposed-fix-3.diff is modelled behind FixO6 (VERIF_PROMISE_FIX=O6).
FIX_O6 = False
# for trying a proposed fix on a scratch copy (VERIF_REPO=...): VERIF_PROMISE_FIX=F8 | F9 | F8,F9
_fx = os.environ.get("VERIF_PROMISE_FIX", "")
FIX_F8 = FIX_F8 or "F8" in _fx
FIX_F9 = FIX_F9 or "F9" in _fx
FIX_O6 = FIX_O6 or "O6" in _fx

SCEN = {"quick": ["pp_q1", "pc_q1", "pc_q2"],
        "thorough": ["pp_q1", "pc_q1", "pc_q2", "pp_t1", "pc_t1", "pc_t2", "pc_t3", "pc_t4"]}
BIG = ["pc_b1", "pc_b2", "pc_b3", "pp_b1"]   # thorough: model checked only (graph too large to dump)


_TLC_SCHEDS = []   # the edge-cover schedules of the last models() call (reused by x_conformance)


def scen_path(n):
    return os.path.join(vlib.VERIF, "specs", "promise", "scenarios", n + ".json")


def mk_factory(sc, f8, f9, strict=False, o6=False):
    def mk(d, kind):
        # kinds: "mc" (coarse granularity, every interleaving of the wake-ups), "graph" (coarse, eager wake-ups:
        # the controller's steps, source of the schedules), "fine" (model check only: a replacement's return is
        # logged in a later step than its critical section, as in sched.Exec.ParkUnl executions; the monitor is
        # told and must hold as it stands, without the LateRace tolerance), "f8" (busy-loop property only)
        consts = ["Proms0 <- ScProms", "Cur0 = %d" % sc["cur"], "Prog <- ScProg",
                  "FixF8 = %s" % ("TRUE" if f8 else "FALSE"), "FixF9 = %s" % ("TRUE" if f9 else "FALSE"),
                  "FixO6 = %s" % ("TRUE" if o6 else "FALSE"),
                  "EagerWake = %s" % ("TRUE" if kind == "graph" else "FALSE"),
                  "Fine = %s" % ("TRUE" if kind == "fine" else "FALSE")]
        cfg = ["INIT Init", "NEXT Next", "CHECK_DEADLOCK FALSE", "CONSTANTS"] + [" " + c for c in consts]
        if kind in ("mc", "fine"):
            cfg += ["INVARIANTS TypeOK FieldsBeforeClose ModelSafe " + ("QuietInvStrict" if strict else "QuietInv")]
            if f8:
                cfg += ["PROPERTY NoBusyLoop"]
        elif kind == "f8":
            cfg += ["PROPERTY NoBusyLoop"]
        vlib.write_mc(d, "MC", "Promise", ["ScProms == " + vlib.json2tla(sc["proms"]), "ScProg == " + vlib.json2tla(sc["clients"])], cfg)
    return mk


def expect_violation(wd, name, sc, kind, f8, f9, strict, what):
    """Model-level reproduction of an open defect (coverage only, never a verdict)."""
    d = vlib.spec_scratch(wd, name + "-" + what, ["promise", "lib"])
    mk_factory(sc, f8, f9, strict)(d, kind)
    r = vlib.run_tlc(d, "MC", "MC.cfg", workers=4, timeout=300)
    shutil.rmtree(d, ignore_errors=True)
    if r["ok"]:
        return None
    return "model %s (code as it is): %s reproduced on X (%s)" % (name, what, r["violated"] or r["error"][:80])


def one_model(wd, tier, seed, name):
    """Everything TLC does for one scenario: model check of X as the code is (invariants on), graph
    dump -> schedules, and for container scenarios the repaired model under the strict conditions plus
    the model-level reproduction of the open defects."""
    quick = tier == "quick"
    sc = json.load(open(scen_path(name)))
    big = name in BIG
    w = vlib.NCPU if big else max(2, min(8, vlib.NCPU // 2))
    r, paths, notes = vlib.model_and_schedules(wd, name, mk_factory(sc, FIX_F8, FIX_F9, o6=FIX_O6), LABEL_RULES, seed,
                                               cap=2000 if quick else 20000,
                                               invariant_cfg={"specdirs": ["promise", "lib"]}, graph_cfg=None,
                                               workers=w, timeout=1500, dump_graph=not big)
    ops = [o for cl in sc["clients"] for o in cl]
    container = any(o["op"] == "await" and o["q"] == 0 for o in ops)
    if container and not big:
        # X |= P at the fine granularity (the restated PromiseP must hold when a replacement's return is logged
        # steps after its critical section and selects are entered with several cases ready)
        d = vlib.spec_scratch(wd, name + "-fine", ["promise", "lib"])
        mk_factory(sc, FIX_F8, FIX_F9, o6=FIX_O6)(d, "fine")
        rn = vlib.run_tlc(d, "MC", "MC.cfg", workers=w, timeout=900)
        shutil.rmtree(d, ignore_errors=True)
        vlib.log("[model] %s (fine): %d distinct states, %d transitions generated ok=%s" % (name, rn["distinct"], rn["states"], rn["ok"]))
        r = dict(r, distinct=r["distinct"] + rn["distinct"], states=r["states"] + rn["states"])
        if not rn["ok"]:
            notes.append("model %s (fine): %s %s" % (name, rn["error"], rn["violated"]))
        if not FIX_O6:
            # with proposed fix 3 (re-check of the replacement channel after every inner await) the sharper `late`
            # reading of "follows replacements" holds in the full fine interleaving (the monitor is told "coarse")
            d = vlib.spec_scratch(wd, name + "-o6", ["promise", "lib"])
            mk_factory(sc, FIX_F8, FIX_F9, o6=True)(d, "fine")
            ro = vlib.run_tlc(d, "MC", "MC.cfg", workers=w, timeout=900)
            shutil.rmtree(d, ignore_errors=True)
            notes.append("model %s (fine) with FixO6, monitor strict: %s (%d distinct states)" % (name, "all conditions hold" if ro["ok"] else "NOT ok: %s %s" % (ro["error"], ro["violated"]), ro["distinct"]))
        # the monitor accepts the repaired implementation model (all conditions, strict quiescence)
        d = vlib.spec_scratch(wd, name + "-fixed", ["promise", "lib"])
        mk_factory(sc, True, True, strict=True)(d, "mc")
        rf = vlib.run_tlc(d, "MC", "MC.cfg", workers=w, timeout=900)
        shutil.rmtree(d, ignore_errors=True)
        notes.append("model %s with FixF8/FixF9: %s (%d distinct states)" % (name, "all conditions hold" if rf["ok"] else "NOT ok: %s %s" % (rf["error"], rf["violated"]), rf["distinct"]))
        has_c = any(o["e"] == "C" for o in ops) or any(p["e"] == "C" for p in sc["proms"])
        has_f = any(o["op"] == "await" and o["q"] == 0 and o["f"] for o in ops)
        if has_c and not FIX_F8:
            n8 = expect_violation(wd, name, sc, "f8", False, FIX_F9, False, "F8-busy-loop")
            notes.append(n8 or "model %s: F8 not reachable in this scenario" % name)
        if has_f and not FIX_F9:
            n9 = expect_violation(wd, name, sc, "mc", True, False, True, "F9-channel-ignored")
            notes.append(n9 or "model %s: F9 not reachable in this scenario" % name)
    return name, sc, r, paths, notes


def models(wd, tier, seed):
    from concurrent.futures import ThreadPoolExecutor
    states = trans = 0
    scheds, notes, names = [], [], []
    todo = [n for n in SCEN[tier] + ([] if tier == "quick" else BIG) if os.path.exists(scen_path(n))]
    with ThreadPoolExecutor(max_workers=max(1, min(4, vlib.NCPU // 2))) as ex:
        res = list(ex.map(lambda n: one_model(wd, tier, seed, n), todo))
    for name, sc, r, paths, nn in res:
        states += r["distinct"]
        trans += r["states"]
        notes += nn
        names.append(name)
        for i, p in enumerate(paths):
            scheds.append({"name": "%s/%d" % (name, i), "scenario": sc, "labels": p})
    _TLC_SCHEDS[:] = scheds
    return states, trans, scheds, notes, names


# VERIF_PROMISE_REFINE=off: both scheduler refinements (ParkUnl, Double) off in the driver ("-opt coarse"); only meant for
# comparing detection with and without them on a scratch copy
_OPT = "coarse" if os.environ.get("VERIF_PROMISE_REFINE", "") == "off" else ""

FAM = dict(driver="promise", specdirs=["promise", "lib"], opt=_OPT, monitor="PromisePTrace", property_of=PROPERTY_OF, models=models,
           n_random={"quick": 6000, "thorough": 200000},
           # M2: free-running parallel container.SetResult sequences next to awaiters (4 Ps), then one Await at quiescence
           modes={"quick": [("burst", "burst", 2000, 4)], "thorough": [("burst", "burst", 100000, 4)]},
           x_specs=["promise/Promise.tla"], p_monitor="promise/PromiseP.tla",
           advisory=lambda wd, binp, seed, tier: x_conformance(wd, binp, seed, SCEN["quick"] if tier == "quick" else SCEN["thorough"],
                                                               nsched=60 if tier == "quick" else 4000, nrand=40 if tier == "quick" else 2000),
           assumptions=["PromiseP readings R1-R5 (header of PromiseP.tla): concurrent SetResult judged by real-time order; "
                        "a non-zero returned value claims to be a result; 'current' = possibly current during the call; "
                        "timeliness judged at controller-detected quiescence; CPU use = controller spin observation",
                        "logged calls/returns bound the critical sections (PromiseP B1-B5); in executions where the end of a critical "
                        "section is a park point (cfg fine) 'follows replacements' is judged by the interval reading only (no `late`)"])


def run(prop, tier, seed):
    return vlib.standard_check(prop, tier, seed, FAM)


# --------------------------------------------------------------------------- advisory X-level conformance

def x_conformance(wd, binp, seed, names, nsched=60, nrand=40, scheds=None):
    """Replays executions of each scenario with every controller step logged (-logsteps) through the
    actions of the X spec itself (PromiseXTrace.tla, same FixF8/FixF9 as the model check): a sample of the
    TLC edge-cover schedules of that scenario plus seeded random schedules (empty labels) on it.  One
    harness run and one TLC run per scenario (the scenario is a CONSTANT of X), in parallel.
    Returns a summary dict (coverage.x_conformance); never a verdict."""
    import subprocess, random, time
    from concurrent.futures import ThreadPoolExecutor
    t0 = time.time()
    scheds = _TLC_SCHEDS if scheds is None else scheds
    total = dict(traces=0, events=0, steps=0, drift=0, samples=[])

    def one(name):
        res = dict(traces=0, events=0, steps=0, drift=0, samples=[])
        sc = json.load(open(scen_path(name)))
        mine = [s for s in scheds if s["name"].startswith(name + "/")]
        random.Random(seed * 7919 + len(mine)).shuffle(mine)
        xs = [{"name": s["name"], "scenario": sc, "labels": s["labels"]} for s in mine[:nsched]]
        xs += [{"name": "%s/x%d" % (name, i), "scenario": sc, "labels": []} for i in range(nrand)]
        sf = os.path.join(wd, "x-%s-scheds.json" % name)
        json.dump(xs, open(sf, "w"))
        tf = os.path.join(wd, "x-%s.ndjson" % name)
        stf = os.path.join(wd, "x-%s.stats.json" % name)
        p = subprocess.run([binp, "-test.run", "^TestRun$", "-driver", "promise", "-out", tf, "-stats", stf, "-sched", sf, "-seed", str(seed), "-logsteps"],
                           cwd=wd, capture_output=True, text=True)
        if p.returncode != 0:
            res["samples"].append("%s: harness failed" % name)
            return res
        d = vlib.spec_scratch(wd, "x-" + name, ["promise", "lib"])
        consts = ["Proms0 <- ScProms", "Cur0 = %d" % sc["cur"], "Prog <- ScProg",
                  "FixF8 = %s" % ("TRUE" if FIX_F8 else "FALSE"), "FixF9 = %s" % ("TRUE" if FIX_F9 else "FALSE"), "FixO6 = %s" % ("TRUE" if FIX_O6 else "FALSE"),
                  "EagerWake = FALSE", "Fine = FALSE"]
        vlib.write_mc(d, "MCX", "PromiseXTrace", ["ScProms == " + vlib.json2tla(sc["proms"]), "ScProg == " + vlib.json2tla(sc["clients"])],
                      ["INIT TInit", "NEXT TNext", "CHECK_DEADLOCK FALSE", "CONSTANTS"] + [" " + c for c in consts])
        vf = os.path.join(d, "verdict.json")
        r = vlib.run_tlc(d, "MCX", "MCX.cfg", workers=1, timeout=900,
                         env={"TRACE_FILE": tf, "VERDICT_FILE": vf,
                              "JAVA_TOOL_OPTIONS": "-DTLA-Library=%s -Xmx3g -Xss256m -Dtlc2.tool.impl.Tool.cdot=true" % vlib.TLA_LIB})
        if not os.path.exists(vf):
            res["samples"].append("%s: X-trace validation did not finish: %s %s" % (name, r["error"], r["out"][-300:]))
            return res
        v = json.load(open(vf))
        res["traces"] = len(xs)
        res["events"] = v["total"]
        res["steps"] = json.load(open(stf)).get("steps", 0)
        res["drift"] = v.get("ndrift", len(v["drift"]))
        res["samples"] = ["%s: %s" % (name, json.dumps(x)) for x in v["drift"][:2]]
        shutil.rmtree(d, ignore_errors=True)
        return res

    with ThreadPoolExecutor(max_workers=max(1, min(4, vlib.NCPU))) as ex:
        for res in ex.map(one, [n for n in names if os.path.exists(scen_path(n))]):
            for k in ("traces", "events", "steps", "drift"):
                total[k] += res[k]
            total["samples"] += res["samples"]
    total["samples"] = total["samples"][:6]
    total["x_trace_spec"] = "promise/PromiseXTrace.tla"
    total["wall_s"] = round(time.time() - t0, 1)
    return total
