#!/usr/bin/env python3
"""Regenerates MANIFEST.json from the table below (keeps it valid at all times)."""
import json, os, subprocess
V = os.path.dirname(os.path.dirname(os.path.abspath(__file__)))
props = [json.loads(l) for l in open(os.path.join(V, "properties.jsonl"))]

MC_NOTE = ("Trusted: TLC 1.8.0 + CommunityModules Json/IOUtils; Go's testing/synctest notion of durable blocking; goroutine-id parsing; "
           "the driver's label->operation mapping; the reading of the statement recorded in DESIGN.md §3. Bounds: the constants of the MC configs "
           "(3-5 processes); beyond them seeded random controlled executions. Harness is built with go1.26.8 (synctest), the pinned suite runs on go1.23.")

CHECKS = {
 "C01": dict(engine="csync", technique="TLA+ monitor CsyncP checked by TLC on the X specs Mutex/RWMutex (exhaustive, small constants) and on traces recorded from the real code stepped one critical section at a time by TLC-generated edge-covering schedules + seeded random schedules",
             text="Model checking of the implementation-shaped specs Mutex.tla/RWMutex.tla against the CsyncP monitor (mutual exclusion, occupancy) for every interleaving of critical sections of 3-5 clients, bound to the code by replaying an edge cover of TLC's state graph on the real locks under a deterministic controller and validating every recorded trace against CsyncP with TLC.", ref="§3 C01"),
 "C02": dict(engine="csync", technique="same executions as C01; CsyncP quiescence/cancellation/writer-preference conditions evaluated by TLC at controller-detected quiescent points of real executions",
             text="Liveness-as-safety: at every exact quiescent point (synctest) of every controlled execution no grantable or cancelled waiter is blocked, a cancelled waiter leaves no residue (final TryLock probes), writer preference holds; the same conditions are invariants (LibQuiet => QuietOK) of the X specs under TLC.", ref="§3 C02"),
 "C04": dict(engine="routine", technique="TLA+ monitor RoutineP (NoOverlap, ChEarly) checked by TLC on the X spec Routine.tla and on traces of the real containers driven by TLC edge-cover schedules + seeded random schedules with instances that linger after cancellation",
             text="Model checking of Routine.tla (one action per critical section / goroutine start / select wake-up / timer callback; environment decides when an instance returns) against RoutineP for small client programs; the same monitor judges every trace recorded from the real RoutineContainer/StateRoutineContainer stepped by the deterministic controller through an edge cover of TLC's graph and through seeded random schedules.", ref="§3 C04"),
 "C05": dict(engine="routine", technique="same executions as C04; RoutineP cancellation-on-supersession and quiescent-survivor conditions evaluated by TLC at every call return / exact quiescent point",
             text="After every superseding call the contexts of the instances that were inside the function are read and must be cancelled; at every exact quiescent point at most one live instance exists and it carries the stored context tag and state (QuietBad of RoutineP); the same conditions are invariants of Routine.tla under TLC.", ref="§3 C05"),
 "C14": dict(engine="routine", technique="same executions plus sequential settled histories (driver option seq) with virtual-time backoff; RoutineP restart/retry/WaitExited/exit-callback conditions evaluated by TLC on recorded traces and on Routine.tla",
             text="RoutineP tracks the recorded exit status (exit callbacks), rerun credits (RestartRoutine, new routine/state, SetContext(restart), elapsed backoff), WaitExited result windows and exit-callback reports; TLC evaluates them on traces of the real containers (controlled interleavings and settled sequential histories with virtual time) and on the X spec.", ref="§3 C14"),
 "C13": dict(engine="race", level="exploration", technique="Go race detector on free-running seeded client programs (the operation alphabets of the X specs' environment actions) with perturbing verifhook handlers; the TLA+ specs contribute the atomicity assumption being validated, not the verdict",
             text="Dynamic exploration: 16 program families (one per concurrency-safe type named in the statement), each 3-4 goroutines issuing random documented API calls on a shared object under -race; a report counts iff one of its two access sites lies in a non-test library file. This is the modelling assumption (critical sections are atomic) of every X spec, validated on the real code; it is not decided by TLC.", ref="§3 C13",
             note="Trusted: the Go race detector (go1.26.8 -race), which only reports races that occur in executed schedules; report classification by first frame outside GOROOT; harness callbacks keep their own state goroutine-local."),
 "C17": dict(engine="ccall", technique="TLA+ monitor CCallP checked by TLC on the X spec CCall.tla (start section, caller's unlocked read as its own step, worker sections) and on traces of the real CallConcurrently driven by TLC edge-cover schedules (caller parked at the Unlocked hook) + seeded random schedules",
             text="Exhaustive TLC check of CCall.tla for n in 0..3 functions incl. nil entries, all outcome combinations and caller cancellation; the caller's step right after it released the lock is separately schedulable in the real code (verifhook.Unlocked park), so every completion timing relative to the caller's bookkeeping is replayed and judged by CCallP.", ref="§3 C17"),
 "C18": dict(engine="conc", technique="TLA+ monitor ConcQueueP checked by TLC on ConcQueue.tla (Enqueue loop, worker pop-or-retire section, WaitIdle/WatchState loops) and on traces of the real queue under TLC edge-cover + seeded random schedules with harness-owned jobs",
             text="Limit, exactly-once, FIFO start order for limit 1, (queued,running) pairs and WaitIdle's 'idle means done' as conditions of ConcQueueP evaluated by TLC on every recorded event of controlled executions (limits 0/1/2, batches, two producers) and as invariants of the X spec.", ref="§3 C18"),
 "C06": dict(engine="keyed", technique="TLA+ reference model KeyedP (key set, pending removals, failed flags, references, virtual time) evaluated by TLC on settled sequential histories of the real Keyed/KeyedRefCount (TLC-enumerated + seeded random, virtual-time release delays) and on the X spec Keyed.tla",
             text="Deterministic reference model: every return value (existed/added/removed/data, GetKeys, GetKey, AddKeyRef, Release, RemoveKey) of every call of TLC-generated and random operation histories over 2-3 keys, with and without release delay, must equal the model's; time is virtual (ticks of 4/7 against a delay of 10, never on a deadline).", ref="§3 C06"),
 "C07": dict(engine="keyed", technique="TLA+ monitor KeyedP (per-key overlap, cancel-on-removal, retry obligations) checked by TLC on Keyed.tla and on traces of the real Keyed stepped through TLC edge-cover schedules with timer callbacks as separate steps",
             text="Per-key at-most-one-instance within a membership epoch, contexts cancelled after removal/ClearContext, nothing started afterwards, and an errored routine re-run after its backoff whatever non-restarting calls intervene; evaluated by TLC on controlled executions (routine exit bookkeeping, removal and retry timer callbacks are separately schedulable steps) and as invariants of Keyed.tla.", ref="§3 C07"),
 "C19": dict(engine="codec", level="exploration", technique="TLA+ expectation specs (Padding, CommonPrefix, PrngReader; CodecP) used as input enumerators (TLC state spaces = input boxes) and as oracle: TLC recomputes the expected result for every recorded (input, output|error|panic) event of the real functions",
             text="Pure functions: TLC enumerates the input boxes (lengths around the 32-byte boundaries, spare capacity, high bytes, all chunkings of reads) and, as trace validator, recomputes each expectation in TLA+; seeded random inputs up to 4096 bytes are judged the same way. Exploration level: no state machine worth model checking.", ref="§3 C19"),
 "C20": dict(engine="seqio", technique="TLA+ reference models (IoSeek, IoSizer, IoCloser, IoProxy, Unique; SeqioP step function) checked by TLC: observed = expected after every call of TLC-enumerated and random call sequences replayed on the real helpers; Close-vs-Read and the proxy pumps under the controller",
             text="Reference-model conformance on every operation history: all call sequences up to length 2-3 over small argument domains enumerated by TLC plus seeded random ones, each replayed on the real object with the result compared by TLC; iocloser Close/Read interleavings and ioproxy pumps are stepped by the controller.", ref="§3 C20"),
 "C03": dict(engine="broadcast", technique="TLA+ monitor BroadcastP (handle open/closed against broadcast epochs, Wait result rules, Stuck at quiescence) checked by TLC on Broadcast.tla (explicit channel identities; justifies the none/cur/closed abstraction of all other specs) and on traces of the real Broadcast under TLC edge-cover + random schedules with channel probes after every step",
             text="Every handle obtained inside a critical section is probed after each controller step and must be open until, and closed after, the first broadcast of a later section; Wait results are judged against logged predicate evaluations; no waiter is blocked at an exact quiescent point while its predicate holds. TLC checks the same on Broadcast.tla for every interleaving of 3-5 clients.", ref="§3 C03"),
 "C15": dict(engine="ccontainer", technique="TLA+ monitor CContainerP (cell history with custom-equality classes, waiter conditions, Stuck) checked by TLC on CContainer.tla and on traces of the real CContainer under TLC edge-cover + random schedules",
             text="Swap callbacks see the current cell value (linearisation at the callback), waiter results lie in the cell's history since the call and satisfy the condition, error returns only if the source fired, no waiter blocked at quiescence while satisfied; checked by TLC on the X spec and on controlled executions with writers, four waiter kinds, custom equality, cancellations and error-channel deliveries.", ref="§3 C15"),
 "C08": dict(engine="refcount", technique="TLA+ monitor RefCountP (release counts, deliveries per reference, invalidation, target contents read inside release funcs, Leak at quiescence) checked by TLC on RefCount.tla and on traces of the real RefCount under TLC edge-cover + seeded random schedules with a harness-owned resolver that can return long after being superseded",
             text="Exactly-once release, never while a holder has the value un-invalidated, target emptied and holders told before the release func runs, nothing left unreleased at exact quiescent points — conditions of RefCountP evaluated by TLC on every event of controlled executions (every r.mtx section, resolver start/return, released() paths are separate steps; both keep-unreferenced settings) and as invariants of the X spec.", ref="§3 C08"),
 "C09": dict(engine="refcount", technique="same executions as C08; RefCountP resolver-overlap, resolved-at-quiescence, delivery and no-panic conditions",
             text="At most one resolver call inside the resolver; at quiescence with context and references either a call is in progress or the latest result is in the target containers and was delivered to every held callback (late references included); released() leads to a fresh resolution; AddRef/Release/SetContext (nil callback included) neither panic nor block.", ref="§3 C09"),
 "C10": dict(engine="refcount", technique="same driver with Wait/Resolve/ResolveWithReleased/Access consumers; RefCountP consumer conditions (HeldRel, released-callback once, Access value/cancel/result rules)",
             text="Values returned by Wait/Resolve are not released while the reference is held unless invalidated (then the released callback fires exactly once); Access calls back with a value current at its look, its callback context is cancelled on invalidation and the callback is re-invoked with the replacement; Access returns only results of non-invalidated invocations. Invalidation is a separately schedulable step at every point of the consumer's call (Access's private Broadcast is hooked).", ref="§3 C10"),
 "C11": dict(engine="promise", technique="TLA+ monitor PromiseP (single winner, awaiter results, AwaitStuck at quiescence, spin) checked by TLC on Promise.tla (Promise: swap/write/close as separate steps; PromiseContainer await loops) and on traces of the real code under TLC edge-cover + seeded random schedules; busy loops detected deterministically as an actor passing its lock hook 50 times without an event",
             text="Exactly one SetResult wins and every awaiter that returns by result returns the winner's pair (Atomic hooks make 'done flag set, fields not yet written, channel not yet closed' schedulable states); at exact quiescent points no awaiter is blocked with its context cancelled, its channel fired or a result available; container awaiters follow replacements and return results whose error is context.Canceled. Open finding F9 (own channel ignored once a promise is set) is listed in known_findings.json.", ref="§3 C11"),
 "C16": dict(engine="once", technique="TLA+ monitor OnceP checked by TLC on Once.tla / Memo.tla and on traces of the real promise.Once / memo.MemoizeFunc under TLC edge-cover + seeded random schedules with a harness-owned function (ok / error / ctx error / late success)",
             text="Never two function calls at once, no call after a success and every later Resolve returns that value, a failure is retried, a cancelled caller gets Canceled without blocking the others, no live caller blocked at quiescence unless a call is active; MemoizeFunc calls once and every caller gets that result.", ref="§3 C16"),
}
NOT_YET = "not built yet in this session (work in progress; see DESIGN.md §6 build order)"

checks = []
for pid, c in CHECKS.items():
    checks.append({
        "property_id": pid,
        "quick_cmd": "./check %s quick" % pid,
        "thorough_cmd": "./check %s thorough" % pid,
        "evidence_file": "/verif/evidence/%s.json" % pid,
        "replay_cmd_template": "./check %s --replay {path}" % pid,
        "engine": c["engine"],
        "level_claimed": {"category": c.get("level", "model_checking"), "text": c["text"], "design_ref": "DESIGN.md " + c["ref"]},
        "level_note": c.get("note", MC_NOTE),
        "technique": c["technique"],
    })
hooks = subprocess.run(["git", "-C", "/repo", "log", "--format=%h %s", "4661ad5..HEAD"], capture_output=True, text=True).stdout.strip().split("\n")
hook_commits = [h.split()[0] for h in hooks if h and not h.split(" ", 1)[1].startswith("fix:")]
m = {
 "version": 1,
 "setup_cmd": "./setup.sh",
 "hooks": {"guard": "verif", "enable": "go build/test -tags verif: package github.com/aperturerobotics/util/verifhook then forwards Lock/Unlocked/Go/Atomic schedule points to the harness; without the tag they are empty inlinable functions",
           "baseline_off_cmd": "cd /repo && go test -vet=off -count=1 -timeout 25m ./...",
           "source_commits": hook_commits, "add_only": True},
 "engines": [
   {"name": "csync", "path": "tools/fam_csync.py", "serves_properties": ["C01", "C02"], "kind_free_text": "TLC model checking of specs/csync + controlled replay/trace validation (harness/drivers/csync.go)"},
   {"name": "ccall", "path": "tools/fam_ccall.py", "serves_properties": ["C17"], "kind_free_text": "TLC model checking of specs/ccall + controlled replay/trace validation (harness/drivers/ccall.go)"},
   {"name": "conc", "path": "tools/fam_conc.py", "serves_properties": ["C18"], "kind_free_text": "TLC model checking of specs/conc + controlled replay/trace validation (harness/drivers/conc.go)"},
   {"name": "keyed", "path": "tools/fam_keyed.py", "serves_properties": ["C06", "C07"], "kind_free_text": "TLC model checking of specs/keyed + sequential-history and controlled replay/trace validation (harness/drivers/keyed.go)"},
   {"name": "codec", "path": "tools/fam_codec.py", "serves_properties": ["C19"], "kind_free_text": "TLC-enumerated input vectors + TLA+ expectation oracle (harness/drivers/codec.go)"},
   {"name": "seqio", "path": "tools/fam_seqio.py", "serves_properties": ["C20"], "kind_free_text": "TLA+ reference models for the sequential helpers (harness/drivers/seqio.go)"},
   {"name": "broadcast", "path": "tools/fam_broadcast.py", "serves_properties": ["C03"], "kind_free_text": "TLC model checking of specs/broadcast + controlled replay/trace validation (harness/drivers/broadcast.go)"},
   {"name": "ccontainer", "path": "tools/fam_ccontainer.py", "serves_properties": ["C15"], "kind_free_text": "TLC model checking of specs/ccontainer + controlled replay/trace validation (harness/drivers/ccontainer.go)"},
   {"name": "refcount", "path": "tools/fam_refcount.py", "serves_properties": ["C08", "C09", "C10"], "kind_free_text": "TLC model checking of specs/refcount + controlled replay/trace validation (harness/drivers/refcount.go)"},
   {"name": "promise", "path": "tools/fam_promise.py", "serves_properties": ["C11"], "kind_free_text": "TLC model checking of specs/promise + controlled replay/trace validation (harness/drivers/promise.go)"},
   {"name": "once", "path": "tools/fam_once.py", "serves_properties": ["C16"], "kind_free_text": "TLC model checking of specs/once + controlled replay/trace validation (harness/drivers/once.go)"},
   {"name": "race", "path": "tools/fam_race.py", "serves_properties": ["C13"], "kind_free_text": "free-running client programs under the Go race detector (harness/race_test.go)"},
   {"name": "routine", "path": "tools/fam_routine.py", "serves_properties": ["C04", "C05", "C14"], "kind_free_text": "TLC model checking of specs/routine + controlled replay/trace validation (harness/drivers/routine.go)"},
 ],
 "checks": checks,
 "notes": "Every check: rebuilds the harness from /repo's working tree (-tags verif, go1.26.8), model-checks the X spec with TLC, replays TLC-generated schedules and seeded random schedules on the real code under the deterministic controller, validates the recorded ndjson traces against the P monitor with TLC. Exit 1 only for a trace of the real code rejected by TLC; exit 2 = inconclusive.",
 "not_applicable": [{"property_id": p["id"], "reason": NOT_YET} for p in props if p["id"] not in CHECKS],
}
json.dump(m, open(os.path.join(V, "MANIFEST.json"), "w"), indent=1)
print("MANIFEST.json: %d checks, %d not_applicable" % (len(checks), len(m["not_applicable"])))
