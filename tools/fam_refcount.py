"""C08 / C09 / C10: refcount.RefCount (specs/refcount: RefCountP monitor, RefCount X spec)."""
import json, os
import vlib

PROPS = ["C08", "C09", "C10"]
C08 = ["RelTwice", "RelWhileHeld", "RelUntold", "RelExposed", "ExposedAfterRel", "Leak"]
C09 = ["Overlap", "NotResolved", "StaleKept", "BadDelivery", "Panic", "ApiBlocked"]
C10 = ["HeldRel", "RelCbTwice", "RelCbMissing", "AccessWrongVal", "AccessNotCancelled", "AccessIdle",
       "AccessStaleResult", "AccessBadResult", "AccessCancelLost", "SpuriousCancel", "WaitBadValue", "WaitBadResult", "WaitStuck"]
PROPERTY_OF = dict([(n, "C08") for n in C08] + [(n, "C09") for n in C09] + [(n, "C10") for n in C10])

LABEL_RULES = [
    (r"Call\((\d+)\)", "call:c{1}"),
    (r'ResReturn\((\d+),\s*\\?"(\w+)\\?"\)', "res:{1}:{2}"),
    (r"ResStore\((\d+)\)", "grant:refcount.resolve#{1}"),
    (r"Released\((\d+)\)", "released:{1}"),
    (r"ARun\((\d+)\)", "grant:refcount.released#{1}"),
    (r"WrGo\((\d+)\)", "grant:refcount.waitreleased#{1}"),
    (r"Watch\((\d+)\)", "grant:refcount.accesswatch#{1}"),
    (r"(?:AwaitCS|ConsRel|AccSnap|AccGo|AccCmp)\((\d+)\)", "grant:c{1}"),
    (r'CbRet\((\d+),\s*\\?"(\w+)\\?"\)', "cb:c{1}:{2}"),
    (r"Cancel\((\d+)\)", "cancel:c{1}"),
]
# X models the code as it is in /repo: set to True once the corresponding repair is committed there.
FIX_F4 = True   # resolve(): a cancelled resolve goroutine closes its done channel without waiting for its predecessor
FIX_F5 = True   # AddRef(nil) on a resolved container calls the nil callback
# for trials against a scratch copy with the proposed fixes applied: VERIF_RC_FIX=45 (digits = repaired defects)
if "VERIF_RC_FIX" in os.environ:
    FIX_F4, FIX_F5 = "4" in os.environ["VERIF_RC_FIX"], "5" in os.environ["VERIF_RC_FIX"]

# rc_q6 / rc_q7 (and rc_t7 / rc_t8): `samecall` -- resolver call 2 returns a value EQUAL to the previous generation's
# (Access under invalidation + equal replacement; ResolveWithReleased and a logging reference). Small alphabets so
# that the schedules cover every edge of the graph.
SCEN = {"quick": ["rc_q1", "rc_q2", "rc_q3", "rc_q4", "rc_q5", "rc_q6", "rc_q7"],
        "thorough": ["rc_q1", "rc_q2", "rc_q3", "rc_q4", "rc_q5", "rc_q6", "rc_q7", "rc_t1", "rc_t2", "rc_t3", "rc_t4", "rc_t5", "rc_t6",
                     "rc_t7", "rc_t8"]}
BIG = ["rc_b1", "rc_b2", "rc_b3"]   # thorough: model checked only (graph too large to dump); rc_b3: samecall = 3, valnr


def scen_path(n):
    return os.path.join(vlib.VERIF, "specs", "refcount", "scenarios", n + ".json")


def tla_set(l):
    return "{" + ", ".join(json.dumps(x) for x in l) + "}"


def mk_factory(sc, fix4=None, fix5=None):
    fix4 = FIX_F4 if fix4 is None else fix4
    fix5 = FIX_F5 if fix5 is None else fix5
    prog = [[dict(op=o["op"], cb=o.get("cb", ""), k=(o.get("k", 0) + 1 if o["op"] == "release" else o.get("k", 0)), c=bool(o.get("c", False)))
             for o in cl] for cl in sc["clients"]]

    def mk(d, kind):
        consts = ["Prog <- ScProg", "Keep = %s" % ("TRUE" if sc["keep"] else "FALSE"), "Outs <- ScOuts", "RelOut = %d" % sc.get("relout", 1),
                  "CbOuts <- ScCbOuts", "MaxRes = %d" % sc.get("maxres", 3), "MaxG = %d" % sc.get("maxg", 4),
                  "SameCall = %d" % sc.get("samecall", 0),
                  "FixF4 = %s" % ("TRUE" if fix4 else "FALSE"), "FixF5 = %s" % ("TRUE" if fix5 else "FALSE")]
        cfg = ["INIT Init", "NEXT Next", "CHECK_DEADLOCK FALSE", "CONSTRAINT Bound", "CONSTANTS"] + [" " + c for c in consts]
        if kind == "mc":
            cfg += ["INVARIANTS %s NoHarness Agree DoneInOrder" % os.environ.get("VERIF_RC_INV", "ModelSafe")]
        vlib.write_mc(d, "MC", "RefCount", ["ScProg == " + vlib.json2tla(prog), "ScOuts == " + tla_set(sc.get("outs", ["val", "err"])),
                                            "ScCbOuts == " + tla_set(sc.get("cbouts", ["nil", "err"]))], cfg)
    return mk


def models(wd, tier, seed):
    from concurrent.futures import ThreadPoolExecutor
    quick = tier == "quick"
    todo = [n for n in SCEN[tier] + ([] if quick else BIG) if os.path.exists(scen_path(n))]
    par = max(1, vlib.NCPU)        # small models: JVM start-up dominates, one lane per CPU
    wk = 1 if quick else 2

    def one(name):
        sc = json.load(open(scen_path(name)))
        big = name in BIG
        r, paths, nn = vlib.model_and_schedules(wd, name, mk_factory(sc), LABEL_RULES, seed, cap=sc.get("cap", 600) if quick else 5000,
                                                invariant_cfg={"specdirs": ["refcount", "lib"]}, graph_cfg=None,
                                                workers=vlib.NCPU if big else wk, timeout=1500, dump_graph=not big)
        return name, sc, r, paths, nn

    states = trans = 0
    scheds, notes, names = [], [], []
    with ThreadPoolExecutor(max_workers=par) as ex:
        results = list(ex.map(one, [n for n in todo if n not in BIG]))
    results += [one(n) for n in todo if n in BIG]      # the big ones get all workers, one after the other
    for name, sc, r, paths, nn in results:
        states += r["distinct"]
        trans += r["states"]
        notes += nn
        names.append(name)
        for i, p in enumerate(paths):
            scheds.append({"name": "%s/%d" % (name, i), "scenario": sc, "labels": p})
    return states, trans, scheds, notes, names


FAM = dict(driver="refcount", specdirs=["refcount", "lib"], monitor="RefCountPTrace", property_of=PROPERTY_OF, models=models,
           n_random={"quick": 1200, "thorough": 20000},
           modes={"thorough": [("r%d" % i, "v%d" % i, 20000) for i in range(1, 4)]},
           x_specs=["refcount/RefCount.tla"], p_monitor="refcount/RefCountP.tla",
           assumptions=["values of different resolver calls may compare equal (scenario field samecall; zerocall: the zero value): the harness logs "
                        "observed values raw, RefCountP reads an observed value as the SET of resolver calls carrying it -- a permission is "
                        "granted if some candidate permits it, an obligation asserted only if every candidate implies it (RefCountP header)",
                        "RefCountP encodes the statements with the readings listed in its header comment "
                        "(invalidated = released() called or context changed; 'given' = callback received the value; "
                        "'shortly after' = by the next quiescent point; any resolver call between enter and leave counts as in progress)",
                        "caller contexts are cancelled only while the call is blocked inside the library or inside the Access callback "
                        "(elsewhere Go's select could pick among several ready cases, which the controller cannot prescribe)",
                        "a parent context passed to SetContext is cancelled by the client in a quarter of the seeded executions, while a resolver call is in flight; after that only that call's delivery is still judged"])


def run(prop, tier, seed):
    return vlib.standard_check(prop, tier, seed, FAM)
