"""C06 / C07: keyed.Keyed and keyed.KeyedRefCount (specs/keyed: KeyedP monitor, Keyed X spec).

C06: sequential histories (scenario mode "seq": the library settles after every operation,
     virtual time, observations away from deadlines) judged by KeyedP's reference model.
C07: controlled interleavings (mode "m1": goroutine start, bookkeeping section and both timer
     callbacks of keyed/routine.go are separate steps) judged by KeyedP's instance conditions.
"""
import json, os, shutil, concurrent.futures
import vlib

PROPS = ["C06", "C07"]
DRIVERS = ["keyed"]
C06 = ["WantedKeyLost", "RefKeyLost", "SetKeyResult", "RemoveKeyResult", "SyncKeysResult", "GetKeyResult", "GetKeysResult",
       "GetKeysDataResult", "AddKeyRefResult", "RcRemoveKeyResult"]
C07 = ["Overlap", "LiveAfterRemove", "LiveAfterClear", "StartedAfterRemove", "StartedAfterClear", "RetryLost"]
PROPERTY_OF = dict([(n, "C06") for n in C06] + [(n, "C07") for n in C07])

# X models the code as it is: every defect below is open at the pinned commit (TRUE = repaired).
FIXES = {"FixF3": True, "FixF3b": True, "FixF6": True, "FixF7": True}

RULES_M1 = [
    (r"Do\((\d+)\)", "op:{1}"),
    (r'InstReturn\((\d+), ?\\?"(\w+)\\?"\)', "out:{1}:{2}"),
    (r"ExecStart\((\d+)\)", "start:{1}"),
    (r"ExecBook\((\d+)\)", "book:{1}"),
    (r"RemCb\((\d+)\)", "remcb:{1}"),
    (r"RetCb\((\d+)\)", "retcb:{1}"),
    (r"(?:ExecWake|ExecWakePred)\((\d+)\)", None),
]
RULES_SEQ = [(r"Do\((\d+)\)", "op:{1}"), (r".*", None)]

SCEN = {
    "C06": {"quick": ["ks_q1", "ks_q2", "ks_q3", "ks_q4", "ks_q5", "km_q6"], "thorough": ["ks_q1", "ks_q2", "ks_q3", "ks_q4", "ks_q5", "km_q6", "ks_t1", "ks_t2", "ks_t3"]},
    "C07": {"quick": ["km_q1", "km_q2", "km_q3", "km_q4", "km_q5", "km_q7"], "thorough": ["km_q1", "km_q2", "km_q3", "km_q4", "km_q5", "km_q7", "km_t1", "km_t2", "km_t3"]},
}
OPKEYS = ["op", "k", "s", "ks", "r", "ref", "c", "d", "out"]
OPDEF = {"op": "", "k": 0, "s": False, "ks": [], "r": False, "ref": 0, "c": 0, "d": 0, "out": ""}


def scen_path(n):
    return os.path.join(vlib.VERIF, "specs", "keyed", "scenarios", n + ".json")


def load_scen(n):
    sc = json.load(open(scen_path(n)))
    sc["alphabet"] = [dict((k, o.get(k, OPDEF[k])) for k in OPKEYS) for o in sc["alphabet"]]
    return sc


def write_mc(d, sc, fixes, eager, invariants):
    consts = ["Alphabet <- ScAlpha", "MaxOps = %d" % sc["maxops"], "NK = %d" % sc["nk"], "Delay = %d" % sc["delay"],
              "Retry = %s" % vlib.json2tla(sc["retry"]), "RC = %s" % vlib.json2tla(sc["rc"]),
              "SeqMode = %s" % vlib.json2tla(sc["mode"] == "seq"), "Outs <- ScOuts",
              "MaxInst = %d" % sc.get("maxinst", 4), "MaxTok = %d" % sc.get("maxtok", 3),
              "Eager = %s" % vlib.json2tla(eager)]
    consts += ["%s = %s" % (k, vlib.json2tla(v)) for k, v in sorted(fixes.items())]
    cfg = ["INIT Init", "NEXT Next", "CHECK_DEADLOCK FALSE", "CONSTANTS"] + [" " + c for c in consts]
    if invariants:
        cfg += ["INVARIANTS Agree ModelHarness ModelSafe06 ModelSafe07 KeySetAgree"]
    defs = ["ScAlpha == " + vlib.json2tla(sc["alphabet"]),
            "ScOuts == {" + ", ".join(json.dumps(o) for o in sc.get("outs", [])) + "}"]
    vlib.write_mc(d, "MC", "Keyed", defs, cfg)


def one_scenario(wd, name, seed, cap, dump_graph=True, timeout=900):
    """(a) model check of X as the code is, (b) of X with every repair modelled (the monitor must
    accept it), (c) graph dump (Eager, no invariants) -> edge-covering schedules."""
    sc = load_scen(name)
    seq = sc["mode"] == "seq"
    notes = []
    allfixed = dict((k, True) for k in FIXES)

    def tlc(tag, fixes, eager, inv, dump=None):
        d = vlib.spec_scratch(wd, "%s-%s" % (name, tag), ["keyed", "lib"])
        write_mc(d, sc, fixes, eager, inv)
        r = vlib.run_tlc(d, "MC", "MC.cfg", workers=2, timeout=timeout, dump=dump)
        shutil.rmtree(d, ignore_errors=True)
        return r

    dot = os.path.join(wd, name + ".dot")
    with concurrent.futures.ThreadPoolExecutor(3) as ex:
        fa = ex.submit(tlc, "mc", FIXES, False, True)
        fb = ex.submit(tlc, "fx", allfixed, False, True) if FIXES != allfixed else None
        fc = ex.submit(tlc, "g", FIXES, True, False, dot[:-4]) if dump_graph else None
        ra = fa.result()
        rb = fb.result() if fb else ra
        rc = fc.result() if fc else None
    if not ra["ok"]:
        open_defects = [k for k, v in sorted(FIXES.items()) if not v]
        notes.append("model %s (code as it is; open: %s): %s %s" % (name, ",".join(open_defects) or "-", ra["error"], ra["violated"]))
    if not rb["ok"]:
        notes.append("MONITOR REJECTS REPAIRED MODEL %s: %s %s" % (name, rb["error"], rb["violated"]))
        vlib.log("[model] %s: repaired model NOT accepted: %s %s" % (name, rb["error"], rb["violated"]))
    paths = []
    if dump_graph:
        if not os.path.exists(dot):
            raise vlib.Inconclusive("no graph dump for %s: %s" % (name, rc["out"][-2000:]))
        init, edges, ne = vlib.parse_dot(dot)
        os.remove(dot)
        raw, cov, total = vlib.edge_cover(init, edges, maxlen=80, cap=cap, seed=seed)
        seen = set()
        for p in vlib.map_labels(raw, RULES_SEQ if seq else RULES_M1):
            if tuple(p) not in seen and p:
                seen.add(tuple(p))
                paths.append(p)
        vlib.log("[model] %s: as-is %d distinct (%s), repaired %d distinct (ok=%s); schedule graph %d distinct / %d edges -> %d schedules (%d/%d edges)"
                 % (name, ra["distinct"], "ok" if ra["ok"] else ra["violated"] or ra["error"], rb["distinct"], rb["ok"], rc["distinct"], ne, len(paths), cov, total))
    else:
        vlib.log("[model] %s: as-is %d distinct (%s), repaired %d distinct (ok=%s)" % (name, ra["distinct"], "ok" if ra["ok"] else ra["violated"], rb["distinct"], rb["ok"]))
    states = max(rb["distinct"], rc["distinct"] if rc else 0)
    trans = max(rb["states"], rc["states"] if rc else 0)
    scj = dict((k, v) for k, v in sc.items() if k not in ("maxinst", "maxtok", "comment"))
    return states, trans, [{"name": "%s/%d" % (name, i), "scenario": scj, "labels": p} for i, p in enumerate(paths)], notes


def mk_models(prop):
    def models(wd, tier, seed):
        states = trans = 0
        scheds, notes, names = [], [], []
        for name in SCEN[prop][tier]:
            if not os.path.exists(scen_path(name)):
                continue
            big = json.load(open(scen_path(name))).get("big", False)
            s, t, sch, nn = one_scenario(wd, name, seed, cap=2000 if tier == "quick" else 10000, dump_graph=not big)
            states += s
            trans += t
            scheds += sch
            notes += nn
            names.append(name)
        if prop == "C06":
            # exhaustive: every sequence of a tiny alphabet, then an observation (ks_x1: 3^7 = 2187, ks_x2: 4^6 = 4096 executions)
            import itertools
            for name in ("ks_x1", "ks_x2"):
                s, t, _, nn = one_scenario(wd, name, seed, cap=1, dump_graph=False)
                sc = load_scen(name)
                scj = dict((k, v) for k, v in sc.items() if k not in ("maxinst", "maxtok", "comment"))
                acts = [i + 1 for i, o in enumerate(sc["alphabet"]) if not o["op"].startswith("get")]
                obs = [i + 1 for i, o in enumerate(sc["alphabet"]) if o["op"].startswith("get")][0]
                for i, seq in enumerate(itertools.product(acts, repeat=sc["maxops"] - 1)):
                    scheds.append({"name": "%s/%d" % (name, i), "scenario": scj, "labels": ["op:%d" % k for k in seq] + ["op:%d" % obs]})
                states += s
                trans += t
                notes += nn
                names.append(name)
        return states, trans, scheds, notes, names
    return models


def fam(prop):
    seq = prop == "C06"
    return dict(driver="keyed", specdirs=["keyed", "lib"], monitor="KeyedPTrace", property_of=PROPERTY_OF, models=mk_models(prop),
                opt="seq" if seq else "m1",
                n_random={"quick": 5000, "thorough": 10000},
                # thorough: further seeded random executions in separate harness runs (keeps every trace file,
                # which TLC loads as a whole, below ~60 MB)
                # C06 also judges its order-insensitive clause (a re-requested key stays present) on controlled
                # interleavings where timer callbacks are separate steps (mode m1)
                # C07: "ctxc" = small alphabets around a context that the application cancels in place while an
                # instance is slow to return
                modes={"quick": ([("m1x", "m1", 3000), ("rcburst", "rcburst", 2500, 4)] if seq else [("ctxc", "m1,ctxc", 8000)]),
                       "thorough": [("r%d" % i, ("seq" if seq else "m1") + ",v%d" % i, 10000) for i in range(1, 9)]
                                   + ([("m1x%d" % i, "m1,v%d" % i, 10000) for i in range(1, 5)] + [("rcburst", "rcburst", 60000, 4)] if seq
                                      else [("ctxc", "m1,ctxc", 30000)])},
                x_specs=["keyed/Keyed.tla"], p_monitor="keyed/KeyedP.tla",
                assumptions=["KeyedP encodes the statement (interpretation notes at the top of specs/keyed/KeyedP.tla)",
                             "X models the code as it is at the pinned commit: " + ", ".join("%s=%s" % kv for kv in sorted(FIXES.items()))])


def run(prop, tier, seed):
    return vlib.standard_check(prop, tier, seed, fam(prop))
