"""C19: padding / commonprefix / prng (specs/codec: CodecP monitor; Padding, CommonPrefix, PrngReader X specs).

The functions are pure.  TLC (a) enumerates the input boxes -- every initial state of Padding.tla /
CommonPrefix.tla is one input vector, every path of PrngReader.tla's state graph is one chunking --
and checks the implementation-shaped models against CodecP on them, (b) is the oracle: the Go driver
evaluates the real functions on the same vectors (gen/codec/vectors-<tier>.ndjson) and on seeded random
inputs beyond the box, and CodecPTrace recomputes the expectation for every logged evaluation.
"""
import json, os, shutil, concurrent.futures as cf
import vlib

PROPS = ["C19"]
PROPERTY_OF = {n: "C19" for n in ("PadPanic", "PadLen", "PadPrefix", "UnpadRoundTrip", "UnpadPanic", "UnpadOverread",
                                  "PrefixNotLongest", "TrimWrong", "PrngChunking", "PrngSeed")}
PROPERTY_OF.update({"PrngSplit": "ADVISORY", "PrngWordLE": "ADVISORY"})   # recorded by the monitor, never judged

# The X specs model the code as it is in /repo.  Flip to True once the corresponding fix: commit is in.
FIX_F12 = True   # UnpadInPlace: empty input panics; `>=` rejects the padded empty message
FIX_F13 = True   # commonprefix.Prefix: string(byte) is a rune conversion

BATCH = 250
SPECDIRS = ["codec", "lib"]

CFG = {
    "quick": dict(
        pad=dict(MaxLen=100, ULens="0..70", Trailers="(0..70) \\cup {127, 128, 254, 255}"),
        cp=dict(Alpha2="{97, 98, 128, 169, 195, 255}", Len2=2, Alpha3="{97, 128, 195}", Len3=2),
        prng=[dict(N=24, Sizes="0..9", Hist="FALSE", MaxReads=0)],
    ),
    "thorough": dict(
        pad=dict(MaxLen=200, ULens="0..70", Trailers="0..255"),
        cp=dict(Alpha2="{97, 98, 128, 169, 195, 255}", Len2=3, Alpha3="{97, 128, 195}", Len3=3),
        prng=[dict(N=24, Sizes="0..9", Hist="FALSE", MaxReads=0),
              dict(N=12, Sizes="{0, 1, 2, 3, 7, 8, 9}", Hist="TRUE", MaxReads=5)],
    ),
}
SEEDS = [[[1, 2], [3]], [[1, 2, 3]], [], [[]], [[255, 128, 0], [], [7]], [[0]]]
PRNG_RULES = [(r"Read\((\d+)\)", "{1}"), (r"SrcWords|RefRead", None)]


def gen_dir():
    d = os.path.join(vlib.VERIF, "gen", "codec")
    os.makedirs(d, exist_ok=True)
    return d


def _tlc(wd, name, base, defs, consts, invariants, env=None, dump=None, workers=2, timeout=1500):
    d = vlib.spec_scratch(wd, name, SPECDIRS)
    cfg = ["INIT Init", "NEXT Next", "CHECK_DEADLOCK FALSE", "CONSTANTS"] + [" " + c for c in consts]
    if invariants:
        cfg.append("INVARIANTS " + " ".join(invariants))
    vlib.write_mc(d, "MC", base, defs, cfg)
    r = vlib.run_tlc(d, "MC", "MC.cfg", workers=workers, env=env, dump=dump, timeout=timeout)
    shutil.rmtree(d, ignore_errors=True)
    return r


def pad_job(wd, c, fix, vecfile):
    defs = ["MCULens == " + c["ULens"], "MCTrailers == " + c["Trailers"]]
    env = None
    if vecfile:
        defs.insert(0, "ASSUME ndJsonSerialize(IOEnv.VEC_FILE, SetToSeq(AllVecs))")
        env = {"VEC_FILE": vecfile}
    return _tlc(wd, "pad-%s" % ("fixed" if fix else "pinned"), "Padding, Json, IOUtils", defs,
                ["MaxLen = %d" % c["MaxLen"], "ULens <- MCULens", "Trailers <- MCTrailers", "FixF12 = %s" % ("TRUE" if fix else "FALSE")],
                ["ModelSafe"], env=env)


def cp_job(wd, c, fix, vecfile):
    defs = ["MCA2 == " + c["Alpha2"], "MCA3 == " + c["Alpha3"]]
    env = None
    if vecfile:
        defs.insert(0, "ASSUME ndJsonSerialize(IOEnv.VEC_FILE, SetToSeq(AllVecs))")
        env = {"VEC_FILE": vecfile}
    return _tlc(wd, "cp-%s" % ("fixed" if fix else "pinned"), "CommonPrefix, Json, IOUtils", defs,
                ["Alpha2 <- MCA2", "Len2 = %d" % c["Len2"], "Alpha3 <- MCA3", "Len3 = %d" % c["Len3"], "FixF13 = %s" % ("TRUE" if fix else "FALSE")],
                ["ModelSafe"], env=env)


def prng_job(wd, i, c, seed):
    """Model check + graph dump of PrngReader; returns (tlc result, list of chunkings)."""
    consts = ["N = %d" % c["N"], "Sizes <- MCSizes", "Hist = %s" % c["Hist"], "MaxReads = %d" % c["MaxReads"]]
    defs = ["MCSizes == " + c["Sizes"]]
    dot = os.path.join(wd, "prng%d.dot" % i)
    r = _tlc(wd, "prng%d" % i, "PrngReader", defs, consts, ["ModelSafe", "Agree"], dump=dot[:-4])
    if not os.path.exists(dot):
        raise vlib.Inconclusive("no graph dump for PrngReader: " + r["out"][-1500:])
    init, edges, ne = vlib.parse_dot(dot)
    os.remove(dot)
    raw, cov, total = vlib.edge_cover(init, edges, maxlen=40, cap=200000, seed=seed)
    paths = vlib.map_labels(raw, PRNG_RULES)
    chunkings = sorted({tuple(int(x) for x in p) for p in paths if p})
    vlib.log("[model] PrngReader #%d: %d distinct states, %d edges -> %d chunkings (%d/%d edges covered)" % (i, r["distinct"], ne, len(chunkings), cov, total))
    return r, chunkings


def models(wd, tier, seed):
    c = CFG[tier]
    gd = gen_dir()
    tmp = os.path.join(wd, "gen-%s" % tier)
    shutil.rmtree(tmp, ignore_errors=True)
    os.makedirs(tmp)
    padf, cpf = os.path.join(tmp, "pad.ndjson"), os.path.join(tmp, "cp.ndjson")
    notes = []
    w = max(1, min(vlib.NCPU, 6))
    with cf.ThreadPoolExecutor(max_workers=w) as ex:
        jobs = {
            "pad": ex.submit(pad_job, wd, c["pad"], True, padf),
            "cp": ex.submit(cp_job, wd, c["cp"], True, cpf),
        }
        if not FIX_F12:
            jobs["pad-pinned"] = ex.submit(pad_job, wd, c["pad"], False, None)
        if not FIX_F13:
            jobs["cp-pinned"] = ex.submit(cp_job, wd, c["cp"], False, None)
        for i, pc in enumerate(c["prng"]):
            jobs["prng%d" % i] = ex.submit(prng_job, wd, i, pc, seed)
        res = {k: j.result() for k, j in jobs.items()}
    states = trans = 0
    for k in ("pad", "cp"):
        r = res[k]
        states += r["distinct"]
        trans += r["states"]
        vlib.log("[model] %s (repaired algorithm): %d distinct states ok=%s %.1fs" % (k, r["distinct"], r["ok"], r["wall_s"]))
        if not r["ok"]:
            notes.append("model %s with the repair switched on: %s %s" % (k, r["error"], r["violated"]))
    for k, what in (("pad-pinned", "Padding.tla with FixF12=FALSE (code as in /repo)"), ("cp-pinned", "CommonPrefix.tla with FixF13=FALSE (code as in /repo)")):
        if k in res:
            r = res[k]
            if r["violated"]:
                notes.append("%s: invariant %s violated at model level, as expected while the defect is open (not a verdict)" % (what, r["violated"]))
            else:
                notes.append("%s: expected model-level violation NOT found (%s)" % (what, r["error"]))
    chunkings = []
    for i in range(len(c["prng"])):
        r, ch = res["prng%d" % i]
        states += r["distinct"]
        trans += r["states"]
        if not r["ok"]:
            notes.append("model PrngReader #%d: %s %s" % (i, r["error"], r["violated"]))
            vlib.log("[model] PrngReader #%d NOT ok: %s %s" % (i, r["error"], r["violated"]))
        chunkings += ch
    for f in (padf, cpf):
        if not os.path.exists(f):
            raise vlib.Inconclusive("TLC did not write the vector file %s" % f)
    vecfile = os.path.join(gd, "vectors-%s.ndjson" % tier)
    nvec = 0
    kinds = {}
    samples = []
    with open(vecfile + ".tmp", "w") as out:
        for f in (padf, cpf):
            for line in open(f):
                out.write(line)
                nvec += 1
                k = line[6:line.index('"', 6)]
                kinds[k] = kinds.get(k, 0) + 1
                if nvec % 997 == 1 and len(samples) < 4:
                    samples.append(json.loads(line))
        for j, ch in enumerate(sorted(set(chunkings))):
            v = {"k": "prng", "seed": SEEDS[j % len(SEEDS)], "reads": list(ch)}
            out.write(json.dumps(v, separators=(",", ":")) + "\n")
            nvec += 1
            kinds["prng"] = kinds.get("prng", 0) + 1
            if j == 3:
                samples.append(v)
    os.replace(vecfile + ".tmp", vecfile)
    shutil.rmtree(tmp, ignore_errors=True)
    FAM["opt"] = "vec=" + vecfile
    scheds = []
    for a in range(0, nvec, BATCH):
        scheds.append({"name": "vec/%d" % a, "scenario": {"kind": "vec", "from": a, "to": min(nvec, a + BATCH), "rseed": 0, "n": 0}, "labels": []})
    nrand = FAM["n_random"][tier] * 24
    FAM["extra_cov"] = {
        "evaluations": nvec + nrand,
        "distinct_nontrivial": nvec,
        "vectors_by_kind": kinds,
        "random_inputs": nrand,
        "rule": "inputs: every element of the boxes enumerated by TLC (Padding.tla: PadInPlace lengths 0..MaxLen x 5 spare-capacity classes x 2 fill patterns, "
                "UnpadInPlace lengths x trailer values; CommonPrefix.tla: all 0/1/2-tuples of byte strings up to Len2 over 6 bytes incl. >= 0x80 and invalid UTF-8, "
                "all triples up to Len3 over 3 bytes; PrngReader.tla: an edge cover of the (position, read size) graph = chunk sequences) plus seeded random inputs "
                "(lengths to 4096, arbitrary bytes). oracle: CodecP.tla recomputes the C19 clauses from each logged input with TLC; a clause failing on an evaluation "
                "of the real function is a violation",
        "box": c,
        "samples": samples[:5],
        "exhaustive": False,
    }
    return states, trans, scheds, notes, ["Padding", "CommonPrefix", "PrngReader"]


FAM = dict(driver="codec", specdirs=SPECDIRS, monitor="CodecPTrace", property_of=PROPERTY_OF, models=models,
           n_random={"quick": 300, "thorough": 6000}, level="exploration", opt="", extra_cov={},
           x_specs=["codec/Padding.tla", "codec/CommonPrefix.tla", "codec/PrngReader.tla"], p_monitor="codec/CodecP.tla",
           assumptions=["CodecP encodes the statement of C19 (see its header): zero fill / minimal length of the padding, which inputs UnpadInPlace rejects, "
                        "Prefix of zero arguments, the little-endian layout of the prng reader and seed-split invariance are NOT judged",
                        "ChaCha8/SHA-256 are not modelled: prng streams are compared with each other, never with a computed reference"])


def run(prop, tier, seed):
    return vlib.standard_check(prop, tier, seed, FAM)
