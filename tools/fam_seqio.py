"""C20: sequential helpers (specs/seqio: SeqioP reference models; IoSeek, IoSizer, Unique, IoCloser, IoProxy X specs).

Sequential helpers (ioseek, iosizer, unique): the X spec's state graph is the tree of all call sequences up to
MaxOps over small argument domains (or, for unique in the quick tier, contents x every call); every path is replayed
on the real object (the calls travel in the scenario, no controller choice is involved).
iocloser and ioproxy: the X spec interleaves the critical sections / stream operations of several goroutines; an
edge cover of the graph is replayed under the controller (labels call:cN / grant:cN, feed:S / io:P:op).
Every execution is judged by SeqioPTrace (TLC) against the SeqioP reference models.
"""
import json, os, re, random, concurrent.futures as cf
import vlib

PROPS = ["C20"]
PROPERTY_OF = {n: "C20" for n in ("SeekPos", "ReadData", "ReadErr", "SizerTotal", "CloserOnce", "CloserAfterClose", "CloserPass",
                                  "ProxyOrder", "ProxyCallbacks", "ProxyClose", "UniqueContents", "UniqueNotify")}
SPECDIRS = ["seqio", "lib"]

VALUES = "{<<1,1,1>>, <<1,1,2>>, <<1,2,1>>, <<2,1,1>>, <<2,1,2>>, <<2,2,1>>}"

SEQ = {
    "quick": [
        dict(name="seek_q", base="IoSeek", data=[128, 195, 255], consts=dict(Offs="{-4, -1, 0, 1, 3, 4}", Whences="{0, 1, 2, 3}", Ns="{0, 2, 5}", Modes="{0, 1, 2, 4}", MaxOps=2)),
        dict(name="seek_q0", base="IoSeek", data=[], consts=dict(Offs="{-1, 0, 1}", Whences="{0, 1, 2, 3}", Ns="{0, 1}", Modes="{0, 1, 3}", MaxOps=2)),
        dict(name="sizer_q", base="IoSizer", consts=dict(Lens="{0, 3}", Errs="{0, 1, 2}", NilR="FALSE", NilW="FALSE", MaxOps=2)),
        dict(name="sizer_qn", base="IoSizer", consts=dict(Lens="{0, 3}", Errs="{0, 2}", NilR="TRUE", NilW="TRUE", MaxOps=2)),
        dict(name="klist_q", base="Unique", init=[[1, 1, 1]], consts=dict(Values=VALUES, Keys="{1, 2, 3}", MaxArgs=2, MaxOps=0, IsMap="FALSE", UseHist="FALSE")),
        dict(name="kmap_q", base="Unique", init=[[1, 1, 1]], consts=dict(Values=VALUES, Keys="{1, 2, 3}", MaxArgs=2, MaxOps=0, IsMap="TRUE", UseHist="FALSE")),
    ],
    "thorough": [
        dict(name="seek_t", base="IoSeek", data=[128, 195, 255], consts=dict(Offs="{-4, -1, 0, 1, 3, 4}", Whences="{0, 1, 2, 3}", Ns="{0, 2, 5}", Modes="{0, 1, 2, 4}", MaxOps=3)),
        dict(name="seek_t4", base="IoSeek", data=[128, 195, 255, 0, 97], consts=dict(Offs="{-6, -5, -1, 0, 2, 5, 6}", Whences="{0, 1, 2, 3}", Ns="{0, 1, 4, 5, 9}", Modes="{0, 1, 2, 3, 4}", MaxOps=2)),
        dict(name="seek_q0", base="IoSeek", data=[], consts=dict(Offs="{-1, 0, 1}", Whences="{0, 1, 2, 3}", Ns="{0, 1}", Modes="{0, 1, 3}", MaxOps=3)),
        dict(name="sizer_t", base="IoSizer", consts=dict(Lens="{0, 3}", Errs="{0, 1, 2}", NilR="FALSE", NilW="FALSE", MaxOps=3)),
        dict(name="sizer_tn1", base="IoSizer", consts=dict(Lens="{0, 3}", Errs="{0, 2}", NilR="TRUE", NilW="FALSE", MaxOps=2)),
        dict(name="sizer_tn2", base="IoSizer", consts=dict(Lens="{0, 3}", Errs="{0, 2}", NilR="FALSE", NilW="TRUE", MaxOps=2)),
        dict(name="klist_q", base="Unique", init=[[1, 1, 1]], consts=dict(Values=VALUES, Keys="{1, 2, 3}", MaxArgs=2, MaxOps=0, IsMap="FALSE", UseHist="FALSE")),
        dict(name="kmap_q", base="Unique", init=[[1, 1, 1]], consts=dict(Values=VALUES, Keys="{1, 2, 3}", MaxArgs=2, MaxOps=0, IsMap="TRUE", UseHist="FALSE")),
        dict(name="klist_t", base="Unique", init=[[1, 1, 1], [2, 2, 1]], consts=dict(Values=VALUES, Keys="{1, 2, 3}", MaxArgs=2, MaxOps=2, IsMap="FALSE", UseHist="TRUE")),
        dict(name="kmap_t", base="Unique", init=[], consts=dict(Values=VALUES, Keys="{1, 2, 3}", MaxArgs=2, MaxOps=2, IsMap="TRUE", UseHist="TRUE")),
        dict(name="klist_t3", base="Unique", init=[[2, 1, 2]], consts=dict(Values="{<<1,1,1>>, <<1,2,1>>, <<2,1,1>>, <<2,1,2>>}", Keys="{1, 2}", MaxArgs=3, MaxOps=0, IsMap="FALSE", UseHist="FALSE")),
    ],
}
CONC = {
    "quick": ["rc_q1", "wc_q1", "rc_q2", "wc_q2", "px_q1", "px_q2", "px_q3", "px_q4", "px_q5"],
    "thorough": ["rc_q1", "wc_q1", "rc_q2", "wc_q2", "rc_t1", "wc_t1", "px_q1", "px_q2", "px_q3", "px_q4", "px_q5", "px_t1"],
}

SEQ_RULES = {
    "IoSeek": [(r"Seek\((-?\d+),\s*(-?\d+)\)", "0,{1},{2}"), (r"Read\((-?\d+),\s*(-?\d+)\)", "1,{1},{2}")],
    "IoSizer": [(r"Xfer\((\d+),\s*(\d+),\s*(\d+),\s*(\d+)\)", "{1},{2},{3},{4}"), (r"Total", "2,0,0,0")],
    "Unique": [(r"Set\((.*)\)", "set|{1}"), (r"Append_\((.*)\)", "append|{1}"), (r"RmVals\((.*)\)", "rmvals|{1}"), (r"RmKeys\((.*)\)", "rmkeys|{1}")],
}
CLOSER_RULES = [(r"Call\((\d+)\)", "call:c{1}"), (r"CS\((\d+)\)", "grant:c{1}")]
PROXY_RULES = [(r"FeedItem\((\d+)\)", "feed:{1}"), (r"PRead\((\d+)\)", "io:{1}:read"), (r"PWrite\((\d+)\)", "io:{1}:write"),
               (r"PClose[12]\((\d+)\)", "io:{1}:close"), (r"Final", None)]


def scen_path(n):
    return os.path.join(vlib.VERIF, "specs", "seqio", "scenarios", n + ".json")


def tla_seq(s):
    return json.loads(s.replace("<<", "[").replace(">>", "]"))


def seq_scenario(c, path):
    base = c["base"]
    if base == "IoSeek":
        return {"kind": "seek", "data": c["data"], "ops": [[int(x) for x in l.split(",")] for l in path]}
    if base == "IoSizer":
        return {"kind": "sizer", "nilr": c["consts"]["NilR"] == "TRUE", "nilw": c["consts"]["NilW"] == "TRUE",
                "ops": [[int(x) for x in l.split(",")] for l in path]}
    uops = []
    for l in path:
        op, arg = l.split("|", 1)
        arg = tla_seq(arg)
        uops.append({"op": op, "vals": [] if op == "rmkeys" else arg, "keys": arg if op == "rmkeys" else []})
    return {"kind": "kmap" if c["consts"]["IsMap"] == "TRUE" else "klist", "init": c["init"], "uops": uops}


def seq_mk(c):
    base = c["base"]
    defs, consts = [], []
    for k, v in c["consts"].items():
        if isinstance(v, int) or v in ("TRUE", "FALSE"):
            consts.append("%s = %s" % (k, v))
        else:
            defs.append("MC%s == %s" % (k, v))
            consts.append("%s <- MC%s" % (k, k))
    if base == "IoSeek":
        defs.append("MCData == " + vlib.json2tla(c["data"]))
        consts.append("Data <- MCData")
    if base == "Unique":
        defs.append("MCInitial == {" + ", ".join(vlib.json2tla(v) for v in c["init"]) + "}")
        consts.append("Initial <- MCInitial")

    def mk(d, kind):
        cfg = ["INIT Init", "NEXT Next", "CHECK_DEADLOCK FALSE", "CONSTANTS"] + [" " + x for x in consts]
        if kind == "mc":
            cfg.append("INVARIANTS ModelSafe Agree")
        vlib.write_mc(d, "MC", base, defs, cfg)
    return mk


def conc_mk(sc):
    if sc["kind"] == "proxy":
        base = "IoProxy"
        feed = "<< " + ", ".join("<< " + ", ".join("[d |-> %s, e |-> %d]" % (vlib.json2tla(it["d"]), it["e"]) for it in side) + " >>" for side in sc["feed"]) + " >>"
        defs = ["MCFeed == " + feed, "MCWScript == " + vlib.json2tla(sc["wscript"])]
        consts = ["Feed <- MCFeed", "WScript <- MCWScript", "NilCb = %s" % ("TRUE" if sc.get("nilcb") else "FALSE")]
    else:
        base = "IoCloser"
        defs = ["MCProg == " + vlib.json2tla(sc["prog"]), "MCScript == " + vlib.json2tla(sc["script"])]
        consts = ['Kind = "%s"' % sc["kind"], "Prog <- MCProg", "Script <- MCScript",
                  "NilStream = %s" % ("TRUE" if sc.get("nilstream") else "FALSE"), "NilClose = %s" % ("TRUE" if sc.get("nilclose") else "FALSE")]

    def mk(d, kind):
        cfg = ["INIT Init", "NEXT Next", "CHECK_DEADLOCK FALSE", "CONSTANTS"] + [" " + x for x in consts]
        if kind == "mc":
            cfg.append("INVARIANTS ModelSafe")
        vlib.write_mc(d, "MC", base, defs, cfg)
    return mk, base


BIG = {"wc_t1"}      # model checked only: the graph (88k states) is too large to dump and replay


def check_and_paths(wd, name, mk, rules, seed, cap, maxlen):
    """One TLC run: invariants on AND graph dumped (the X specs here have no open-defect switch, so an
    invariant violation -- which would cut the graph short -- is itself reported as a model note)."""
    import shutil
    notes = []
    d = vlib.spec_scratch(wd, name + "-mc", SPECDIRS)
    mk(d, "mc")
    dot = os.path.join(wd, name + ".dot")
    if os.path.exists(dot):
        os.remove(dot)
    big = name in BIG
    r = vlib.run_tlc(d, "MC", "MC.cfg", workers=4 if big else 2, timeout=1500, dump=None if big else dot[:-4])
    shutil.rmtree(d, ignore_errors=True)
    if not r["ok"]:
        notes.append("model %s: %s %s" % (name, r["error"], r["violated"]))
        vlib.log("[model] %s: NOT ok: %s %s" % (name, r["error"], r["violated"]))
    paths = []
    if big:
        notes.append("model %s: %d distinct states: model checked only, no schedules taken from its graph" % (name, r["distinct"]))
        vlib.log("[model] %s: %d distinct states, %d transitions ok=%s (no graph)" % (name, r["distinct"], r["states"], r["ok"]))
        return r, paths, notes
    if not os.path.exists(dot):
        raise vlib.Inconclusive("no graph dump for %s: %s" % (name, r["out"][-1500:]))
    if True:
        init, edges, ne = vlib.parse_dot(dot)
        raw, cov, total = vlib.edge_cover(init, edges, maxlen=maxlen, cap=cap, seed=seed)
        paths = vlib.map_labels(raw, rules)
        vlib.log("[model] %s: %d distinct states, %d transitions; %d edges -> %d schedules (%d/%d edges covered)" % (name, r["distinct"], r["states"], ne, len(paths), cov, total))
    os.remove(dot)
    return r, paths, notes


def one_seq(wd, c, seed, cap):
    r, paths, notes = check_and_paths(wd, c["name"], seq_mk(c), SEQ_RULES[c["base"]], seed, cap, 40)
    scheds = [{"name": "%s/%d" % (c["name"], i), "scenario": seq_scenario(c, p), "labels": []} for i, p in enumerate(paths)]
    return r, scheds, notes


def one_conc(wd, name, seed, cap):
    sc = json.load(open(scen_path(name)))
    mk, base = conc_mk(sc)
    rules = PROXY_RULES if base == "IoProxy" else CLOSER_RULES
    r, paths, notes = check_and_paths(wd, name, mk, rules, seed, cap, 80)
    scheds = [{"name": "%s/%d" % (name, i), "scenario": sc, "labels": p} for i, p in enumerate(paths)]
    if name in BIG:   # no graph: the scenario is still executed, under seeded choice of the interleaving
        scheds = [{"name": "%s/seeded/%d" % (name, i), "scenario": sc, "labels": []} for i in range(3000)]
        notes.append("scenario %s: 3000 executions under seeded interleavings (counted as schedules with no prescribed label)" % name)
    return r, scheds, notes


def models(wd, tier, seed):
    quick = tier == "quick"
    cap = 4000 if quick else 60000
    states = trans = 0
    scheds, notes, names = [], [], []
    w = max(1, min(vlib.NCPU, 8) // 2)
    with cf.ThreadPoolExecutor(max_workers=w) as ex:
        jobs = [(c["name"], ex.submit(one_seq, wd, c, seed, cap)) for c in SEQ[tier]]
        jobs += [(n, ex.submit(one_conc, wd, n, seed, 1500 if quick else 20000)) for n in CONC[tier] if os.path.exists(scen_path(n))]
        for name, j in jobs:
            r, ss, nn = j.result()
            states += r["distinct"]
            trans += r["states"]
            notes += nn
            names.append(name)
            scheds += ss
    random.Random(seed).shuffle(scheds)   # balance the harness shards
    return states, trans, scheds, notes, names


FAM = dict(driver="seqio", specdirs=SPECDIRS, monitor="SeqioPTrace", property_of=PROPERTY_OF, models=models,
           n_random={"quick": 3000, "thorough": 30000},
           # thorough: further seeded-random runs in separate trace files (keeps each TLC validation job small)
           modes={"thorough": [("r%d" % i, "salt=%d" % i, 30000) for i in range(1, 4)]},
           x_specs=["seqio/IoSeek.tla", "seqio/IoSizer.tla", "seqio/Unique.tla", "seqio/IoCloser.tla", "seqio/IoProxy.tla"],
           p_monitor="seqio/SeqioP.tla",
           assumptions=["SeqioP encodes the statement of C20 (see its header for what is left unjudged: Close's return value, nil streams before Close, "
                        "the `added` flag, iosizer pass-through)",
                        "ioseek is driven with a wrapped reader of exactly `size` bytes (DESIGN §4 O2 is outside the statement)",
                        "offsets and counts stay below 2^30 (TLC integers are 32 bit): int64 overflow in Seek is not explored",
                        "ioproxy's pumps have no hooks: they are stepped at the harness streams' Read/Write/Close (user parks)"])


def run(prop, tier, seed):
    return vlib.standard_check(prop, tier, seed, FAM)
