"""C13: no data race originates inside the library (DESIGN §3 C13).

Decided by the Go race detector on free-running client programs (harness/race_test.go, mode M3);
the TLA+ specs contribute the atomicity assumption under test (every X spec treats a critical
section as one atomic action) and the operation alphabets of the client programs. Level: exploration.
"""
import glob, json, os, re, subprocess, time, collections
import vlib
from vlib import log

PROPS = ["C13"]
TYPES = ["broadcast", "csync", "ccontainer", "ccall", "conc", "lifo", "linkedlist", "keyed", "keyedrefcount", "routine",
         "stateroutine", "refcount", "promise", "once", "iocloser", "iosizer"]


def parse_reports(text, repo):
    """Yield (signature, library_sites, block) for each DATA RACE block."""
    out = []
    for blk in re.findall(r"WARNING: DATA RACE\n(.*?)\n==================", text, re.S):
        sites = []
        # the two access stacks: sections that start with Read/Write/Previous read/Previous write
        for sec in re.split(r"\n\n", blk):
            if not re.match(r"\s*(Read|Write|Previous read|Previous write|Atomic|Previous atomic)", sec, re.I):
                continue
            frames = re.findall(r"^\s+(\S+)\(\)\n\s+(\S+?):(\d+)", sec, re.M)
            site = None
            for fn, path, line in frames:
                if "/go1.26" in path or path.startswith("/usr/") or "/opt/veriftools/" in path or path.startswith("/usr/local/go"):
                    continue
                site = (fn, path, int(line))
                break
            sites.append(site)
        lib = []
        for s in sites:
            if not s:
                continue
            fn, path, line = s
            if path.startswith(repo + "/") and not path.endswith("_test.go") and "/verifhook/" not in path:
                rel = path[len(repo) + 1:]
                short = fn.split("/")[-1]
                short = re.sub(r"\[.*?\]", "", short)
                short = re.sub(r"\.func\d+(\.\d+)*", "", short)
                lib.append("%s:%s" % (rel, short))
        if lib:
            out.append(("race:" + "|".join(sorted(set(lib))), sites, blk))
    return out


def run(prop, tier, seed):
    t0 = time.time()
    wd = vlib.outdir(prop)
    binp = vlib.build_harness(wd, race=True, driver="none,racep")
    quick = tier == "quick"
    shards = max(2, min(vlib.NCPU, 12))
    iters = 6 if quick else 300
    for f in glob.glob(os.path.join(wd, "race.*")):
        os.remove(f)
    procs = []
    for s in range(shards):
        env = dict(os.environ)
        env["GORACE"] = "log_path=%s halt_on_error=0 history_size=2" % os.path.join(wd, "race.%d" % s)
        cmd = [binp, "-test.run", "^TestRaceProgs$", "-test.timeout", "%ds" % (600 if quick else 3000), "-rseed", str(seed * 100 + s), "-riters", str(iters)]
        procs.append(subprocess.Popen(cmd, cwd=wd, env=env, stdout=subprocess.PIPE, stderr=subprocess.STDOUT, text=True))
    programs, done, samples, crashed, npanics = 0, 0, [], [], 0
    for p in procs:
        out, _ = p.communicate()
        npanics += len(re.findall(r"RACEPROG-PANIC", out))
        progs = re.findall(r"RACEPROG (\S+) (\d+)", out)
        programs += len(progs)
        if "RACEPROGS-DONE" in out:
            done += 1
        else:
            crashed.append(out[-1500:])
        if progs and len(samples) < 3:
            samples.append({"program": progs[0][0], "seed": int(progs[0][1]), "ops": "see harness/race_test.go: 3-4 goroutines x 25-200 random operations"})
    if done == 0:
        raise vlib.Inconclusive("no race program shard completed:\n" + "\n".join(crashed)[:3000])
    repo = os.path.realpath(vlib.REPO)
    text = ""
    for f in glob.glob(os.path.join(wd, "race.*")):
        text += open(f, errors="replace").read() + "\n"
    reports = parse_reports(text, repo)
    bysig = collections.OrderedDict()
    for sig, sites, blk in reports:
        bysig.setdefault(sig, []).append(blk)
    viol = []
    for sig, blks in bysig.items():
        viol.append({"name": sig, "property": "C13", "run": 0, "seq": 0, "report": blks[0][:4000], "occurrences": len(blks)})
    total_blocks = len(re.findall(r"WARNING: DATA RACE", text))
    cov = {
        "evaluations": programs, "distinct_nontrivial": programs,
        "rule": "one evaluation = one seeded client program (3-4 goroutines, 25-200 random documented API operations on one shared object) run under "
                "-race with perturbing hooks; programs differ in (type, seed) and are all concurrent, hence distinct and non-trivial; %d types" % len(TYPES),
        "samples": samples or [{"note": "none"}],
        "types": TYPES, "race_reports_total": total_blocks, "race_reports_in_library": len(reports), "distinct_library_signatures": len(bysig),
        "shards_completed": done, "shards": shards, "recovered_panics_in_client_goroutines": npanics,
    }
    notes = ["%d shards did not complete (crash/timeout); their reports were still parsed" % len(crashed)] if crashed else None
    return vlib.finish(prop, tier, seed, "exploration", cov, viol, t0,
                       ["Go race detector (dynamic: only races that occur in the executed schedules are reported)",
                        "a report counts iff one of its two access sites (first frame outside GOROOT) is in a non-test file of the library",
                        "built with go1.26.8 -race"], notes=notes,
                       replay_builder=lambda v: {"how": "rerun ./check C13 %s with VERIF_SEED=%d; the report text is in 'report'" % (tier, seed)})
