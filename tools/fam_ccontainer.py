"""C15: ccontainer.CContainer (specs/ccontainer: CContainerP monitor, CContainer X spec)."""
import json, os
import vlib

PROPS = ["C15"]
C15_NAMES = ["SwapStale", "ReadWrong", "WaitNeverHeld", "WaitUnsatisfied", "SpuriousCancel", "SpuriousErr",
             "UnknownResult", "Stuck"]
PROPERTY_OF = {n: "C15" for n in C15_NAMES}
LABEL_RULES = [
    (r"Call\((\d+)\)", "call:c{1}"),
    (r"Cancel\((\d+)\)", "cancel:c{1}"),
    (r'Fire\((\d+),\s*\\?"(\w+)\\?"\)', "fire:c{1}:{2}"),   # TLC labels the innermost named action: Fire(4,\"err\")
    (r"FireErr\((\d+)\)", "fire:c{1}:err"),
    (r"FireNil\((\d+)\)", "fire:c{1}:nil"),
    (r"FireClose\((\d+)\)", "fire:c{1}:close"),
    (r"(?:WriteCS|SampleCS)\((\d+)\)", "grant:c{1}"),
    (r"(?:Wake|WakeCtx|WakeErr)\((\d+)\)", None),
]

SCEN = {"quick": ["cc_q1", "cc_q2", "cc_q3"],
        "thorough": ["cc_q1", "cc_q2", "cc_q3", "cc_t1", "cc_t2", "cc_t3", "cc_t4"]}
BIG = ["cc_b1"]   # thorough: model checked only (graph too large to dump)


def scen_path(n):
    return os.path.join(vlib.VERIF, "specs", "ccontainer", "scenarios", n + ".json")


def tla_prog(sc):
    prog = []
    for cl in sc["clients"]:
        ops = []
        for o in cl:
            if o["op"] == "wait":
                ops.append(dict(op="wait", kind=o["kind"], old=o.get("old", 0), k=o.get("k", 0), ve=o.get("ve", -1),
                                c=bool(o.get("c", False)), fires=list(o.get("fires", []))))
            elif o["op"] == "set":
                ops.append(dict(op="set", v=o["v"]))
            elif o["op"] == "swap":
                ops.append(dict(op="swap", d=o["d"]))
            else:
                ops.append(dict(op=o["op"]))
        prog.append(ops)
    return prog


def mk_factory(sc):
    prog = tla_prog(sc)

    def mk(d, kind):
        consts = ["Prog <- ScProg", "InitVal = %d" % sc.get("init", 0), "M = %d" % sc.get("m", 0),
                  "EagerWake = %s" % ("TRUE" if kind == "graph" else "FALSE")]
        cfg = ["INIT Init", "NEXT Next", "CHECK_DEADLOCK FALSE", "CONSTANTS"] + [" " + c for c in consts]
        if kind == "mc":
            cfg += ["INVARIANTS TypeOK CellAgree NoLostWake ModelSafe QuietInv"]
        vlib.write_mc(d, "MC", "CContainer", ["ScProg == " + vlib.json2tla(prog)], cfg)
    return mk


def models(wd, tier, seed):
    states = trans = 0
    scheds, notes, names = [], [], []
    quick = tier == "quick"
    for name in SCEN[tier] + ([] if quick else BIG):
        if not os.path.exists(scen_path(name)):
            continue
        sc = json.load(open(scen_path(name)))
        big = name in BIG
        r, paths, nn = vlib.model_and_schedules(wd, name, mk_factory(sc), LABEL_RULES, seed, cap=1000 if quick else 30000,
                                                invariant_cfg={"specdirs": ["ccontainer", "lib"]}, graph_cfg=None,
                                                workers=vlib.NCPU if big else min(8, vlib.NCPU), timeout=1500, dump_graph=not big)
        states += r["distinct"]
        trans += r["states"]
        notes += nn
        names.append(name)
        for i, p in enumerate(paths):
            scheds.append({"name": "%s/%d" % (name, i), "scenario": sc, "labels": p})
    return states, trans, scheds, notes, names


FAM = dict(driver="ccontainer", specdirs=["ccontainer", "lib"], monitor="CContainerPTrace", property_of=PROPERTY_OF, models=models,
           n_random={"quick": 3000, "thorough": 150000},
           x_specs=["ccontainer/CContainer.tla"], p_monitor="ccontainer/CContainerP.tla",
           assumptions=["CContainerP readings R1-R5 (header of specs/ccontainer/CContainerP.tla): storing a value equal under the custom equality may or may not "
                        "replace the content; SwapValue's return value unconstrained; a cancelled / errored waiter is not required to return; "
                        "closed errCh => context.Canceled accepted as documented",
                        "SetValue/GetValue/SwapValue(nil) are linearised at their return event (exact under the one-critical-section-per-step controller); "
                        "SwapValue(cb) at the callback's own event logged under the lock"])


def run(prop, tier, seed):
    return vlib.standard_check(prop, tier, seed, FAM)
