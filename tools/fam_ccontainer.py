"""C15: ccontainer.CContainer (specs/ccontainer: CContainerP monitor, CContainer X spec)."""
import json, os
import vlib

PROPS = ["C15"]
C15_NAMES = ["SwapStale", "SwapAfterReturn", "ReadWrong", "WaitNeverHeld", "WaitUnsatisfied", "SpuriousCancel", "SpuriousErr",
             "UnknownResult", "Stuck"]
PROPERTY_OF = {n: "C15" for n in C15_NAMES}
LABEL_RULES = [
    (r"Call\((\d+)\)", "call:c{1}"),
    (r"Cancel\((\d+)\)", "cancel:c{1}"),
    (r'Fire\((\d+),\s*\\?"(\w+)\\?"\)', "fire:c{1}:{2}"),   # TLC labels the innermost named action: Fire(4,\"err\")
    (r"FireErr\((\d+)\)", "fire:c{1}:err"),
    (r"FireNil\((\d+)\)", "fire:c{1}:nil"),
    (r"FireClose\((\d+)\)", "fire:c{1}:close"),
    (r"LongExit\((\d+)\)", "unhold:c{1}"),
    (r"(?:WriteCS|SampleCS|LongEnter)\((\d+)\)", "grant:c{1}"),
    (r"(?:Wake|WakeCtx|WakeErr)\((\d+)\)", None),
]

# cc_q4 / cc_t5 / cc_t6: long SwapValue callbacks (the cell's mutex held over several steps) with concurrent set / get / waiters
SCEN = {"quick": ["cc_q1", "cc_q2", "cc_q3", "cc_q4", "cc_q5"],
        "thorough": ["cc_q1", "cc_q2", "cc_q3", "cc_q4", "cc_q5", "cc_t1", "cc_t2", "cc_t3", "cc_t4", "cc_t5", "cc_t6"]}
BIG = ["cc_b1", "cc_b2"]   # thorough: model checked only (graph too large to dump)


def scen_path(n):
    return os.path.join(vlib.VERIF, "specs", "ccontainer", "scenarios", n + ".json")


def tla_prog(sc):
    prog = []
    for cl in sc["clients"]:
        ops = []
        for o in cl:
            if o["op"] == "wait":
                ops.append(dict(op="wait", kind=o["kind"], old=o.get("old", 0), k=o.get("k", 0), ve=o.get("ve", -1),
                                c=bool(o.get("c", False)), fires=list(o.get("fires", []))))
            elif o["op"] == "set":
                ops.append(dict(op="set", v=o["v"]))
            elif o["op"] == "swap":
                ops.append(dict(op="swap", d=o["d"], long=bool(o.get("long", False))))
            else:
                ops.append(dict(op=o["op"]))
        prog.append(ops)
    return prog


def mk_factory(sc):
    prog = tla_prog(sc)

    def mk(d, kind):
        m = sc.get("m", 0)   # (a TLC config file cannot hold a negative literal)
        consts = ["Prog <- ScProg", "InitVal = %d" % sc.get("init", 0), "M <- ScM",
                  "EagerWake = %s" % ("TRUE" if kind == "graph" else "FALSE")]
        cfg = ["INIT Init", "NEXT Next", "CHECK_DEADLOCK FALSE", "CONSTANTS"] + [" " + c for c in consts]
        if kind == "mc":
            cfg += ["INVARIANTS TypeOK CellAgree MtxAgree NoLostWake ModelSafe QuietInv"]
        vlib.write_mc(d, "MC", "CContainer", ["ScProg == " + vlib.json2tla(prog), "ScM == %s" % (str(m) if m >= 0 else "0 - %d" % -m)], cfg)
    return mk


def models(wd, tier, seed):
    states = trans = 0
    scheds, notes, names = [], [], []
    quick = tier == "quick"

    def one(name, workers):
        sc = json.load(open(scen_path(name)))
        big = name in BIG
        r, paths, nn = vlib.model_and_schedules(wd, name, mk_factory(sc), LABEL_RULES, seed, cap=750 if quick else 30000,
                                                invariant_cfg={"specdirs": ["ccontainer", "lib"]}, graph_cfg=None,
                                                workers=workers, timeout=1500, dump_graph=not big)
        return name, sc, r, paths, nn

    # the dumped models are small (JVM start-up dominates): one TLC pair per scenario, side by side;
    # the big ones (model checked only) one after the other with every worker
    small = [n for n in SCEN[tier] if os.path.exists(scen_path(n))]
    par = max(1, min(4, vlib.NCPU, len(small)))
    from concurrent.futures import ThreadPoolExecutor
    with ThreadPoolExecutor(max_workers=par) as ex:
        res = list(ex.map(lambda n: one(n, max(1, vlib.NCPU // par)), small))
    for name in ([] if quick else BIG):
        if os.path.exists(scen_path(name)):
            res.append(one(name, vlib.NCPU))
    for name, sc, r, paths, nn in res:
        states += r["distinct"]
        trans += r["states"]
        notes += nn
        names.append(name)
        for i, p in enumerate(paths):
            scheds.append({"name": "%s/%d" % (name, i), "scenario": sc, "labels": p})
    return states, trans, scheds, notes, names


FAM = dict(driver="ccontainer", specdirs=["ccontainer", "lib"], monitor="CContainerPTrace", property_of=PROPERTY_OF, models=models,
           n_random={"quick": 3000, "thorough": 150000},
           x_specs=["ccontainer/CContainer.tla"], p_monitor="ccontainer/CContainerP.tla",
           advisory=lambda wd, binp, seed, tier: x_conformance(wd, binp, seed, SCEN["quick"] if tier == "quick" else SCEN["thorough"],
                                                               nrand=100 if tier == "quick" else 1500),
           assumptions=["CContainerP readings R1-R5, W1-W2 (header of specs/ccontainer/CContainerP.tla): storing a value equal under the custom equality may or may not "
                        "replace the content; SwapValue's return value unconstrained; a cancelled / errored waiter is not required to return; "
                        "closed errCh => context.Canceled accepted as documented",
                        "atomicity of GetValue/SetValue/SwapValue = linearizability: SwapValue(cb) takes effect at the callback's own event logged under the lock "
                        "(a long callback: when it returns); SetValue/GetValue/SwapValue(nil) anywhere between their call and return events (the monitor keeps every "
                        "configuration some linearization allows), so the verdict does not depend on critical section and return being one controller step "
                        "(sched OptDouble / OptParkUnl are on)",
                        "at quiescent points the controller itself reads the cell (an ordinary GetValue for the monitor) before blocked waiters are judged; "
                        "not while a long SwapValue callback holds the mutex"])


def run(prop, tier, seed):
    return vlib.standard_check(prop, tier, seed, FAM)


# --------------------------------------------------------------------------- advisory X-level conformance

def x_conformance(wd, binp, seed, names, nrand=100):
    """Replays executions of each scenario (seeded random schedules on that scenario, controller steps logged) through
    the X spec itself (CContainerXTrace.tla: every step must be an enabled action of CContainer.tla; the recorded API
    events are replayed through the monitor functions into a second monitor record that must equal the spec's own
    at every step boundary). One TLC run per scenario (the scenario is a CONSTANT of X). Returns a summary dict;
    never a verdict."""
    import subprocess, shutil, time
    t0 = time.time()
    import threading
    total = dict(traces=0, events=0, steps=0, drift=0, incomplete=0, samples=[])   # incomplete: scenarios whose validation did not run to the end
    lock = threading.Lock()

    def one(name):
        if not os.path.exists(scen_path(name)):
            return
        sc = json.load(open(scen_path(name)))
        scheds = [{"name": "%s/x%d" % (name, i), "scenario": sc, "labels": []} for i in range(nrand)]
        sf = os.path.join(wd, "x-%s-scheds.json" % name)
        json.dump(scheds, open(sf, "w"))
        tf = os.path.join(wd, "x-%s.ndjson" % name)
        stf = os.path.join(wd, "x-%s.stats.json" % name)
        p = subprocess.run([binp, "-test.run", "^TestRun$", "-driver", "ccontainer", "-out", tf, "-stats", stf, "-sched", sf, "-seed", str(seed), "-logsteps"],
                           cwd=wd, capture_output=True, text=True)
        if p.returncode != 0:
            with lock:
                total["incomplete"] += 1
                total["samples"].append("%s: harness failed" % name)
            return
        d = vlib.spec_scratch(wd, "x-" + name, ["ccontainer", "lib"])
        m = sc.get("m", 0)
        consts = ["Prog <- ScProg", "InitVal = %d" % sc.get("init", 0), "M <- ScM", "EagerWake = FALSE"]
        vlib.write_mc(d, "MCX", "CContainerXTrace", ["ScProg == " + vlib.json2tla(tla_prog(sc)), "ScM == %s" % (str(m) if m >= 0 else "0 - %d" % -m)],
                      ["INIT TInit", "NEXT TNext", "CHECK_DEADLOCK FALSE", "CONSTANTS"] + [" " + c for c in consts])
        vf = os.path.join(d, "verdict.json")
        r = vlib.run_tlc(d, "MCX", "MCX.cfg", workers=1, timeout=600,
                         env={"TRACE_FILE": tf, "VERDICT_FILE": vf,
                              "JAVA_TOOL_OPTIONS": "-DTLA-Library=%s -Xmx3g -Xss256m -Dtlc2.tool.impl.Tool.cdot=true" % vlib.TLA_LIB})
        if not os.path.exists(vf):
            with lock:
                total["incomplete"] += 1
                total["samples"].append("%s: X-trace validation did not finish: %s" % (name, r["error"] or r["out"][-300:]))
            return
        v = json.load(open(vf))
        with lock:
            total["traces"] += nrand
            total["events"] += v["total"]
            total["steps"] += json.load(open(stf)).get("steps", 0)
            total["drift"] += len(v["drift"])
            total["samples"] += ["%s: %s" % (name, json.dumps(x)) for x in v["drift"][:2]]
        shutil.rmtree(d, ignore_errors=True)
    # the scenarios are independent (one harness run + one single-worker TLC run each)
    from concurrent.futures import ThreadPoolExecutor
    with ThreadPoolExecutor(max_workers=max(1, min(4, vlib.NCPU))) as ex:
        list(ex.map(one, names))
    total["samples"].sort()
    total["wall_s"] = round(time.time() - t0, 1)
    return total
