"""./check <Cxx> --replay <path>: re-execute the recorded schedule on the current tree and re-validate."""
import importlib, json, os, sys
import vlib


def run(prop, path):
    rec = json.load(open(path))
    wd = os.path.join(vlib.outdir(prop), "replay")
    os.makedirs(wd, exist_ok=True)
    binp = vlib.build_harness(wd, driver=rec["driver"])
    # Go's select picks among several ready cases at random (not seedable): the same schedule is run
    # 30 times and the violation counts as reproduced if any of them shows it
    scheds = [{"name": "replay%d" % i, "scenario": rec["scenario"], "labels": rec["labels"]} for i in range(30)]
    traces, st = vlib.run_harness(binp, rec["driver"], wd, scheds=scheds, n=0, seed=1, shards=1, opt=rec.get("opt", ""), tag="replay")
    viol, consumed, total, _ = vlib.validate_traces(wd, rec["specdirs"], rec["monitor"], traces, deque=rec.get("deque", False))
    names = sorted({n for v in viol for n in v["names"]})
    print("replayed %d labels, schedule followed to the end: %s; conditions violated: %s" % (len(rec["labels"]), st["schedules_followed"] >= 1, names))
    if rec.get("name") in names:
        print("VIOLATION property=%s replay=%s" % (prop, path))
        return 1
    return 0
