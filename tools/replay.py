"""./check <Cxx> --replay <path>: re-execute the recorded schedule on the current tree and re-validate."""
import importlib, json, os, sys
import vlib


def run(prop, path):
    rec = json.load(open(path))
    wd = os.path.join(vlib.outdir(prop), "replay")
    os.makedirs(wd, exist_ok=True)
    binp = vlib.build_harness(wd, driver=rec["driver"])
    if rec.get("crash"):
        # the library panicked in one of its own goroutines and took the process down: run the recorded
        # shard command again (its schedule file, if any, must still be there; otherwise the seeded part only)
        import subprocess
        cmd = list(rec["crash"]["cmd"])
        if "-sched" in cmd and not os.path.exists(cmd[cmd.index("-sched") + 1]):
            i = cmd.index("-sched")
            del cmd[i:i + 6]
        for flag, val in (("-out", os.path.join(wd, "crash.ndjson")), ("-stats", os.path.join(wd, "crash.stats.json"))):
            cmd[cmd.index(flag) + 1] = val
        p = subprocess.run([binp] + cmd, cwd=wd, stdout=subprocess.PIPE, stderr=subprocess.STDOUT, text=True)
        c = vlib.library_panic(p.stdout) if p.returncode != 0 else None
        print("re-ran the shard: exit %d; library panic: %s" % (p.returncode, c))
        if c:
            print("VIOLATION property=%s replay=%s" % (prop, path))
            return 1
        return 0
    # Go's select picks among several ready cases at random (not seedable): the same schedule is run
    # 30 times and the violation counts as reproduced if any of them shows it
    scheds = [{"name": "replay%d" % i, "scenario": rec["scenario"], "labels": rec["labels"]} for i in range(30)]
    traces, st = vlib.run_harness(binp, rec["driver"], wd, scheds=scheds, n=0, seed=1, shards=1, opt=rec.get("opt", ""), tag="replay")
    viol, consumed, total, _ = vlib.validate_traces(wd, rec["specdirs"], rec["monitor"], traces, deque=rec.get("deque", False))
    names = sorted({n for v in viol for n in v["names"]})
    print("replayed %d labels, schedule followed to the end: %s; conditions violated: %s" % (len(rec["labels"]), st["schedules_followed"] >= 1, names))
    if rec.get("name") in names:
        print("VIOLATION property=%s replay=%s" % (prop, path))
        return 1
    return 0
