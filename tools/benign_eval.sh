#!/bin/bash
# usage: benign_eval.sh <id> <dir-with-patch.diff> <check> [<check>...]
# A behaviour-preserving refactoring must not be reported: every check must exit 0 on it.
set -u
id=$1; md=$2; shift 2
wt=/tmp/evb_$id
rm -rf $wt; git -C /repo worktree prune; git -C /repo worktree add -q --detach $wt HEAD || exit 3
res=/verif/seeded/benign/$id; mkdir -p $res
cp $md/patch.diff $res/patch.diff; cp $md/notes.md $res/notes.md 2>/dev/null
export GOFLAGS=-mod=mod GOPROXY=off GOSUMDB=off
(cd $wt && git apply $res/patch.diff) || { echo "[$id] patch does not apply"; git -C /repo worktree remove --force $wt; exit 3; }
(cd $wt && go build ./... && go test -vet=off -count=1 ./... > $res/suite.log 2>&1); suite=$?
echo "[$id] existing suite on refactored tree rc=$suite (want 0)"
for c in "$@"; do
  (cd /verif && VERIF_OUT=/tmp/evo_$id VERIF_REPO=$wt VERIF_CPUS=${VERIF_CPUS:-8} timeout 1500 ./check $c quick > $res/check_$c.log 2>&1); rc=$?
  drift=$(python3 - <<PY
import json,glob
fs=glob.glob('/tmp/evo_$id/$c/$c.json')
d='-'
for f in fs:
    try:
        d=json.load(open(f))['coverage'].get('x_conformance',{}).get('drift','-')
    except Exception: pass
print(d)
PY
)
  echo "[$id] check $c quick: rc=$rc (want 0) violations=$(grep -c '^VIOLATION' $res/check_$c.log) drift=$drift $(grep -m1 'condition' $res/check_$c.log)"
done
git -C /repo worktree remove --force $wt
rm -rf /tmp/evo_$id
