#!/bin/bash
# usage: tools/sweep.sh "<seeds>" [props...]   -- quick checks on /repo, 4 at a time; prints one line per run
# (development aid; evidence/ ends up holding the last seed's results)
seeds=$1; shift
props=${@:-C01 C02 C03 C04 C05 C06 C07 C08 C09 C10 C11 C12 C13 C14 C15 C16 C17 C18 C19 C20}
cd /verif; mkdir -p /tmp/sweep
for s in $seeds; do
  for p in $props; do echo "$s $p"; done
done | xargs -P 4 -L 1 bash -c 'out=$(VERIF_SEED=$0 VERIF_OUT=/tmp/sweep/$0 VERIF_CPUS=4 ./check $1 quick 2>&1); rc=$?; echo "seed=$0 $1 rc=$rc $(echo "$out" | tail -1)"; if [ $rc -ne 0 ]; then echo "$out" | grep -A1 -E "VIOLATION|INCONCLUSIVE" | head -6; fi'
rm -rf /tmp/sweep
