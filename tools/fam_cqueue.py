"""C12: cqueue.AtomicLIFO and linkedlist.LinkedList are linearizable and conserve elements
(specs/cqueue: LifoP / DequeP monitors, Lifo X spec; harness/drivers/cqueue.go).

The family has two P monitors (one per structure), so a check is the standard pipeline with the
recorded traces validated in groups: every harness run records one structure only
(driver opt kind=lifo|deque) and is judged by that structure's trace spec."""
import json, os, time
import vlib

PROPS = ["C12"]
PROPERTY_OF = {"NotLinearizable": "C12", "Dup": "C12", "Phantom": "C12", "Lost": "C12", "Panic": "C12"}
# Harness / Incomplete / Unexplained map to no property => INCONCLUSIVE
LABEL_RULES = [
    (r"Call\((\d+)\)", "call:c{1}"),
    (r"CAS\((\d+)\)", "grant:c{1}"),
    (r"(?:Load|Link)\((\d+)\)", None),   # run inside the preceding controller step
]

SCEN = {"quick": ["lf_q1", "lf_q2"], "thorough": ["lf_q1", "lf_q2", "lf_t2", "lf_t3"]}
BIG = ["lf_t1", "lf_b1"]   # thorough: model checked only (schedule graph too large to dump)
# Model checked at the controller's granularity (Fine = FALSE, see Lifo.tla) instead of one step
# per atomic operation: with the monitor's configuration set in the state the fine-grained graph
# of 4 processes has 4.6e6 states (lf_t1, checked once by hand: no error), too slow for every run.
COARSE_MC = ["lf_t1", "lf_b1"]
PROCS = 4         # GOMAXPROCS of the free-running parallel histories (set by the driver itself)

# harness runs: (tag, driver opt, monitor, {tier: number of generated executions})
# advisory X-level conformance (LifoXTrace.tla): scenarios and executions per scenario
# (a seeded sample of the TLC schedules of the scenario where a graph is dumped + seeded random schedules).
# The 4-process scenarios whose graph is too large to model check finely can still be validated as traces.
XCONF = {"quick": dict(names=["lf_q1", "lf_q2"], nsched=60, nrand=40),
         "thorough": dict(names=["lf_q1", "lf_q2", "lf_t2", "lf_t3", "lf_t1", "lf_b1"], nsched=3000, nrand=2000)}

RUNS = [
    ("m1", "kind=lifo", "LifoPTrace", {"quick": 3000, "thorough": 30000}),            # + the TLC schedules
    ("lpar", "kind=lifo,par,procs=%d" % PROCS, "LifoPTrace", {"quick": 3000, "thorough": 40000}),
    ("dq", "kind=deque", "DequePTrace", {"quick": 2000, "thorough": 30000}),
    ("dpar", "kind=deque,par,procs=%d" % PROCS, "DequePTrace", {"quick": 3000, "thorough": 40000}),
]
SPECDIRS = ["cqueue", "lib"]


def scen_path(n):
    return os.path.join(vlib.VERIF, "specs", "cqueue", "scenarios", n + ".json")


def mk_factory(sc, coarse_mc=False):
    prog = [[dict(op=o["op"], v=o.get("v", 0)) for o in cl] for cl in sc["clients"]]
    init = list(reversed(sc.get("init", [])))     # top first

    def mk(d, kind):
        fine = kind == "mc" and not coarse_mc
        cfg = ["INIT Init", "NEXT Next", "CHECK_DEADLOCK FALSE", "CONSTANTS", " Prog <- ScProg", " InitStk <- ScInit",
               " Fine = %s" % ("TRUE" if fine else "FALSE")]
        if kind == "mc":
            cfg += ["INVARIANTS TypeOK AbsOK GhostOK ModelSafe Conserve"]
        else:
            cfg += ["VIEW xvars"]   # the monitor's history variables do not influence behaviour
        vlib.write_mc(d, "MC", "Lifo", ["ScProg == " + vlib.json2tla(prog), "ScInit == " + vlib.json2tla(init)], cfg)
    return mk


def graph_schedules(wd, name, mk, seed, cap, workers):
    """Schedule graph of one scenario: Lifo.tla at the controller's granularity with VIEW xvars (the
    monitor's history variables removed), dumped and edge-covered.  Done here and not by
    vlib.model_and_schedules because that guards the dump by the state count of the *invariant*
    run, which for this family (fine-grained steps + the monitor's configuration set in the state)
    is 5-10x the size of the schedule graph."""
    d = vlib.spec_scratch(wd, name + "-g", SPECDIRS)
    mk(d, "graph")
    dot = os.path.join(wd, name + ".dot")
    g = vlib.run_tlc(d, "MC", "MC.cfg", workers=workers, timeout=300, dump=dot[:-4])
    import shutil
    shutil.rmtree(d, ignore_errors=True)
    if not os.path.exists(dot):
        raise vlib.Inconclusive("no graph dump for %s: %s" % (name, g["out"][-2000:]))
    init, edges, ne = vlib.parse_dot(dot)
    os.remove(dot)
    raw, cov, total = vlib.edge_cover(init, edges, maxlen=90, cap=cap, seed=seed)
    paths = vlib.map_labels(raw, LABEL_RULES)
    vlib.log("[model] %s: schedule graph %d states, %d edges -> %d schedules (%d/%d edges covered)" % (name, g["distinct"], ne, len(paths), cov, total))
    return paths


def models(wd, tier, seed):
    states = trans = 0
    scheds, notes, names = [], [], []
    quick = tier == "quick"
    workers = min(vlib.NCPU, 8)
    for name in SCEN[tier] + ([] if quick else BIG):
        sc = json.load(open(scen_path(name)))
        mk = mk_factory(sc, name in COARSE_MC)
        r, _, nn = vlib.model_and_schedules(wd, name, mk, LABEL_RULES, seed, cap=0, invariant_cfg={"specdirs": SPECDIRS}, graph_cfg=None,
                                            workers=workers, timeout=1500, dump_graph=False)
        states += r["distinct"]
        trans += r["states"]
        notes += nn
        names.append(name)
        if name in BIG:
            continue
        for i, p in enumerate(graph_schedules(wd, name, mk, seed, 1500 if quick else 30000, workers)):
            scheds.append({"name": "%s/%d" % (name, i), "scenario": sc, "labels": p})
    return states, trans, scheds, notes, names


FAM = dict(driver="cqueue", specdirs=SPECDIRS, monitor="LifoPTrace", property_of=PROPERTY_OF, models=models,
           x_specs=["cqueue/Lifo.tla"], p_monitor="cqueue/LifoP.tla + cqueue/DequeP.tla",
           assumptions=["pushed values are pairwise distinct and >= 1, 0 is the zero value (harness obligation, checked as 'Harness')",
                        "histories are bounded: <= 4 concurrent callers, <= 4 operations each (<= 8 in sequential LinkedList histories)",
                        "call stamped before / ret stamped after the library call by one global sequence: the recorded interval contains the real one, so a linearizable execution is never rejected",
                        "Lifo.tla: a fresh node per Push and no reuse while referenced (garbage collector => no ABA)",
                        "free-running parallel histories (GOMAXPROCS=%d set by the driver) are not reproducible step by step" % PROCS])


def run(prop, tier, seed):
    """vlib.standard_check with the traces validated per group (two monitors)."""
    t0 = time.time()
    wd = vlib.outdir(prop)
    binp = vlib.build_harness(wd, driver=FAM["driver"])
    states, trans, scheds, notes, scen = models(wd, tier, seed)
    st = None
    groups = []      # (monitor, opt, traces)
    keys = ("executions", "events", "schedules", "schedules_followed", "steps", "bubble_deadlocks", "crashed_shards", "distinct_label_sequences")
    for tag, opt, monitor, n in RUNS:
        traces, s = vlib.run_harness(binp, FAM["driver"], wd, scheds=scheds if tag == "m1" else None, n=n[tier], seed=seed, opt=opt, tag=tag,
                                      shards=None if tag == "m1" or tier != "quick" else 2, timeout=300 if tier == "quick" else 1800)
        groups.append((monitor, opt, traces))
        if st is None:
            st = s
        else:
            for k in keys:
                st[k] += s[k]
            st["samples"] += s["samples"][:1]
    if st["executions"] == 0:
        raise vlib.Inconclusive("no executions were recorded")
    viol, consumed, total = [], 0, 0
    for monitor in sorted({g[0] for g in groups}):
        traces = [t for g in groups if g[0] == monitor for t in g[2]]
        optof = {t: g[1] for g in groups if g[0] == monitor for t in g[2]}
        try:
            v, c, tot, _ = vlib.validate_traces(wd, SPECDIRS, monitor, traces)
        except vlib.Inconclusive as e:
            # seen once in ~40 runs on a heavily loaded box: TLC exited 0 without a verdict file for a
            # trace that validates fine when repeated (not reproducible); repeat the group once
            vlib.log("[validate] %s: %s -- repeating once" % (monitor, str(e).split("\n")[0]))
            notes.append("trace validation with %s was repeated once (%s)" % (monitor, str(e).split("\n")[0]))
            v, c, tot, _ = vlib.validate_traces(wd, SPECDIRS, monitor, traces)
        for x in v:
            x["monitor"], x["opt"] = monitor, optof[x["trace_file"]]
        viol += v
        consumed += c
        total += tot
    if consumed != total:
        raise vlib.Inconclusive("trace not fully consumed: %d of %d" % (consumed, total))
    mine, other = [], []
    for v in viol:
        for nm in v["names"]:
            p = PROPERTY_OF.get(nm, PROPERTY_OF.get(nm.split(":")[0]))
            rec = dict(v, name=nm, property=p)
            (mine if p == prop else other).append(rec)
    # a protocol error inside a run voids that run's findings; a run that merely did not complete
    # ("Incomplete": some call never returned) keeps what was observed before
    # "Overflow": the monitor gave up on one history (configuration set too large); that run is
    # not judged for linearizability, which is reported, but it does not void the others
    novf = sum(1 for o in other if o["name"] == "Overflow")
    other = [o for o in other if o["name"] != "Overflow"]
    tainted = {(o["trace_file"], o["run"]) for o in other if o["name"] != "Incomplete"}
    mine = [m for m in mine if (m["trace_file"], m["run"]) not in tainted]
    if other and not mine:
        raise vlib.Inconclusive("harness/monitor protocol error (not a verdict): %s" % other[:3])
    if other:
        notes.append("%d executions ended without a verdict (Harness/Incomplete)" % len(other))
    if novf:
        notes.append("%d executions not judged for linearizability: monitor configuration set overflow" % novf)
    if st["crashed_shards"]:
        notes.append("%d harness shards crashed; their flushed events were still validated" % st["crashed_shards"])

    def replay(v):
        evs = vlib.extract_run(v["trace_file"], v["run"])
        end = next((e for e in evs if e["ev"] == "end"), {})
        return {"driver": FAM["driver"], "monitor": v["monitor"], "specdirs": SPECDIRS, "opt": v["opt"], "deque": False,
                "scenario": end.get("scenario"), "labels": end.get("labels"), "events": evs}

    cov = {
        "states": states, "transitions": trans,
        "traces_validated_against_impl": st["executions"],
        "events_validated": total,
        "schedules_from_tlc": st["schedules"], "schedules_followed_to_end": st["schedules_followed"],
        "random_executions": st["executions"] - st["schedules"],
        "executions_by_run": {tag: n[tier] for tag, _, _, n in RUNS},
        "distinct_label_sequences": st["distinct_label_sequences"],
        "controller_steps": st["steps"],
        "bubble_deadlocks": st["bubble_deadlocks"],
        "x_specs": FAM["x_specs"], "p_monitor": FAM["p_monitor"], "scenarios": scen,
        "model_notes": notes,
        "samples": st["samples"][:3] or [{"note": "no sample"}],
        "exhaustive": False,
    }
    # advisory conformance of the internal steps of the controlled AtomicLIFO executions against the
    # X spec (DRIFT is reported, never a verdict)
    try:
        cov["x_conformance"] = x_conformance(wd, binp, seed, scheds=scheds, **XCONF[tier])
    except Exception as e:  # advisory only
        cov["x_conformance"] = {"error": str(e)[:500]}
    base_assume = ["TLC 1.8.0; CommunityModules Json/IOUtils", "testing/synctest durable-blocking detection (go1.26.8)",
                   "harness built with go1.26.8, not the go1.23 toolchain of the pinned suite"]
    return vlib.finish(prop, tier, seed, "model_checking", cov, mine, t0, base_assume + FAM["assumptions"], replay_builder=replay)


# --------------------------------------------------------------------------- advisory X-level conformance

def x_conformance(wd, binp, seed, names, nsched=60, nrand=40, scheds=None):
    """Controlled (M1) AtomicLIFO executions of each scenario, recorded with every controller step logged
    (-logsteps), are replayed through the actions of Lifo.tla itself (LifoXTrace.tla): a seeded sample of
    the scenario's TLC schedules + seeded random schedules (empty labels).  One harness run and one TLC run
    per scenario (the scenario is a CONSTANT of the X spec).  The free-running parallel histories and the
    LinkedList runs have no controller steps and are not subject to it.  Returns a summary; never a verdict."""
    import random, shutil, subprocess
    total = dict(traces=0, events=0, steps=0, drift=0, wall_s=0.0, scenarios=list(names), samples=[])
    t0 = time.time()
    for name in names:
        sc = json.load(open(scen_path(name)))
        mine = [s for s in (scheds or []) if s["name"].startswith(name + "/")]
        random.Random(seed * 7919 + len(mine)).shuffle(mine)
        xs = [{"name": "%s/xs%d" % (name, i), "scenario": sc, "labels": s["labels"]} for i, s in enumerate(mine[:nsched])]
        xs += [{"name": "%s/x%d" % (name, i), "scenario": sc, "labels": []} for i in range(nrand + nsched - len(xs))]
        sf = os.path.join(wd, "x-%s-scheds.json" % name)
        json.dump(xs, open(sf, "w"))
        tf = os.path.join(wd, "x-%s.ndjson" % name)
        stf = os.path.join(wd, "x-%s.stats.json" % name)
        p = subprocess.run([binp, "-test.run", "^TestRun$", "-driver", FAM["driver"], "-out", tf, "-stats", stf, "-sched", sf, "-seed", str(seed), "-logsteps"],
                           cwd=wd, capture_output=True, text=True)
        if p.returncode != 0:
            total["samples"].append("%s: harness failed" % name)
            continue
        d = vlib.spec_scratch(wd, "x-" + name, SPECDIRS)
        prog = [[dict(op=o["op"], v=o.get("v", 0)) for o in cl] for cl in sc["clients"]]
        init = list(reversed(sc.get("init", [])))     # top first
        vlib.write_mc(d, "MCX", "LifoXTrace", ["ScProg == " + vlib.json2tla(prog), "ScInit == " + vlib.json2tla(init)],
                      ["INIT TInit", "NEXT TNext", "CHECK_DEADLOCK FALSE", "CONSTANTS", " Prog <- ScProg", " InitStk <- ScInit", " Fine = FALSE"])
        vf = os.path.join(d, "verdict.json")
        r = vlib.run_tlc(d, "MCX", "MCX.cfg", workers=1, timeout=600,
                         env={"TRACE_FILE": tf, "VERDICT_FILE": vf,
                              "JAVA_TOOL_OPTIONS": "-DTLA-Library=%s -Xmx3g -Xss256m -Dtlc2.tool.impl.Tool.cdot=true" % vlib.TLA_LIB})
        if not os.path.exists(vf):
            total["samples"].append("%s: X-trace validation did not finish: %s" % (name, r["error"]))
            continue
        v = json.load(open(vf))
        total["traces"] += len(xs)
        total["events"] += v["total"]
        total["steps"] += json.load(open(stf)).get("steps", 0) if os.path.exists(stf) else 0
        total["drift"] += len(v["drift"])
        total["samples"] += ["%s: %s" % (name, json.dumps(x)) for x in v["drift"][:2]]
        shutil.rmtree(d, ignore_errors=True)
    total["wall_s"] = round(time.time() - t0, 1)
    vlib.log("[x-conformance] %d traces, %d events, drift=%d in %.1fs" % (total["traces"], total["events"], total["drift"], total["wall_s"]))
    return total
