"""C18: conc.ConcurrentQueue (specs/conc: ConcQueueP monitor, ConcQueue X spec)."""
import json, os
import vlib

PROPS = ["C18"]
PROPERTY_OF = {"Limit": "C18", "Twice": "C18", "Lost": "C18", "Order": "C18", "Pair": "C18", "IdleEarly": "C18"}
LABEL_RULES = [
    (r"Choose\((\d+)\)", "scen:{1}"),
    (r"Call\((\d+)\)", "call:p{1}"),
    (r"EnqCS\((\d+)\)", "grant:p{1}"),
    (r"Start\((\d+)\)", "enter:j{1}"),
    (r"Fin\((\d+)\)", "fin:j{1}"),
    (r"WorkerCS\((\d+)\)", "wcs:j{1}"),
    (r"NilCS\((\d+)\)", "wcs:nil"),   # workers holding a nil job cannot be told apart (driver: wcs:nil, wcs:nil#2, ..)
    (r"CallWI", "call:wi"), (r"WICS", "grant:wi"), (r"CancelWI", "cancel:wi"), (r"FireErr", "errch"),
    (r"CallWS", "call:ws"), (r"WSCS", "grant:ws"), (r"CancelWS", "cancel:ws"),
    (r"(?:WIWake|WIWakeCtx|WIWakeErr|WSWake|WSWakeCtx)", None),
]
# each set stays below the engine's 80000-state guard for graph dumps
# quick_nil / thorough_e: nil jobs (started directly, in the constructor's list, in the backlog with jobs behind them)
SCEN = {"quick": ["quick", "quick_nil"], "thorough": ["quick", "quick_nil", "thorough_a", "thorough_b", "thorough_c", "thorough_d", "thorough_e"]}
BIG = ["big"]   # thorough: model checked only (graph too large to dump)
KEYS = ("lim", "init", "prods", "nils", "wic", "wsc")
XSCEN = {"quick": ["quick", "quick_nil"], "thorough": ["quick", "quick_nil", "thorough_a", "thorough_b", "thorough_c", "thorough_d", "thorough_e", "big"]}   # X-level trace validation


def scen_path(n):
    return os.path.join(vlib.VERIF, "specs", "conc", "scenarios", n + ".json")


def scen_of(s):
    """the driver's scenario (nils: the jobs handed over as nil funcs; absent = none)"""
    return {key: (s.get("nils", []) if key == "nils" else s[key]) for key in KEYS}


def tla_scens(scens):
    tl = []
    for s in scens:
        prods = list(s["prods"]) + [[]] * (2 - len(s["prods"]))
        tl.append(dict(lim=s["lim"], init=s["init"], prods=prods, nils=s.get("nils", []),
                       wic=dict(on=bool(s["wic"]["on"]), errch=s["wic"]["errch"], cancel=bool(s["wic"]["cancel"])),
                       wsc=dict(on=bool(s["wsc"]["on"]), script=s["wsc"]["script"], cancel=bool(s["wsc"]["cancel"]))))
    return tl


def mk_factory(scens):
    tl = tla_scens(scens)

    def mk(d, kind):
        graph = kind == "graph"
        cfg = ["INIT Init", "NEXT Next", "CHECK_DEADLOCK FALSE"]
        if graph:
            # the monitor's history variables do not influence the behaviour of X
            cfg += ["VIEW xvars"]
        cfg += ["CONSTANTS", " Scens <- ScS", " EagerWake = %s" % ("TRUE" if graph else "FALSE")]
        if not graph:
            cfg += ["INVARIANTS TypeOK Counter QueueAgree Full Bounded WIIdleWakes DoneAllRan NilAgree IdleAllTaken QuietInv ModelSafe"]
        vlib.write_mc(d, "MC", "ConcQueue", ["ScS == " + vlib.json2tla(tl)], cfg)
    return mk


def models(wd, tier, seed):
    states = trans = 0
    scheds, notes, names = [], [], []
    quick = tier == "quick"
    for name in SCEN[tier] + ([] if quick else BIG):
        scens = json.load(open(scen_path(name)))["scens"]
        big = name in BIG
        r, paths, nn = vlib.model_and_schedules(wd, "conc_" + name, mk_factory(scens), LABEL_RULES, seed, cap=3000 if quick else 25000,
                                                invariant_cfg={"specdirs": ["conc", "lib"]}, graph_cfg=None, maxlen=90,
                                                workers=min(vlib.NCPU, 8), timeout=1500, dump_graph=not big)
        states += r["distinct"]
        trans += r["states"]
        notes += nn
        for i, p in enumerate(paths):
            if not p or not p[0].startswith("scen:"):
                continue
            k = int(p[0][5:]) - 1
            sc = scen_of(scens[k])
            scheds.append({"name": "%s/%s/%d" % (name, scens[k]["name"], i), "scenario": sc, "labels": p[1:]})
        names += ["%s/%s" % (name, s["name"]) for s in scens]
    return states, trans, scheds, notes, names


FAM = dict(driver="conc", specdirs=["conc", "lib"], monitor="ConcQueuePTrace", property_of=PROPERTY_OF, models=models,
           n_random={"quick": 5000, "thorough": 250000},
           modes={"quick": [("burst", "burst", 3000, 4)], "thorough": [("burst", "burst", 100000, 4)]},
           x_specs=["conc/ConcQueue.tla"], p_monitor="conc/ConcQueueP.tla",
           advisory=lambda wd, binp, seed, tier: x_conformance(wd, binp, seed, XSCEN[tier], nrand=70 if tier == "quick" else 1000),
           assumptions=["ConcQueueP encodes the statement as read in its header (I1-I5): enqueue order = real-time order of Enqueue calls; "
                        "pairs of an unlimited queue unconstrained; no deadline for starting a job while others run; "
                        "only WaitIdle's nil result is constrained",
                        "nil jobs (I6): the statement is silent; nothing is demanded about a nil job itself (never lost, never the reason "
                        "for IdleEarly, transparent for the n=1 order, not counted as executing), everything else is demanded unchanged",
                        "the linkedlist is the sequential FIFO of C20 (Push tail / Pop head)"])


def run(prop, tier, seed):
    return vlib.standard_check(prop, tier, seed, FAM)


# --------------------------------------------------------------------------- advisory X-level conformance

def x_conformance(wd, binp, seed, names, nrand=100):
    """Replays controlled executions of every scenario of the named sets (seeded random schedules, controller
    steps logged) through the X spec itself (ConcQueueXTrace.tla): one harness run and one TLC run per set,
    the scenario of a run is chosen by the logged index (Choose(k)). The free-running burst mode has no
    controller steps and is not part of this. Returns a summary dict; never a verdict."""
    import subprocess, time
    total = dict(traces=0, events=0, steps=0, drift=0, wall_s=0.0, samples=[])
    t0 = time.time()
    for name in names:
        if not os.path.exists(scen_path(name)):
            continue
        scens = json.load(open(scen_path(name)))["scens"]
        scheds = [{"name": "%s/%s/x%d" % (name, s["name"], i), "scenario": dict(scen_of(s), xk=k + 1), "labels": []}
                  for k, s in enumerate(scens) for i in range(nrand)]
        sf = os.path.join(wd, "x-%s-scheds.json" % name)
        json.dump(scheds, open(sf, "w"))
        tf = os.path.join(wd, "x-%s.ndjson" % name)
        stf = os.path.join(wd, "x-%s.stats.json" % name)
        p = subprocess.run([binp, "-test.run", "^TestRun$", "-driver", "conc", "-out", tf, "-stats", stf, "-sched", sf, "-seed", str(seed), "-logsteps"],
                           cwd=wd, capture_output=True, text=True)
        if p.returncode != 0:
            total["samples"].append("%s: harness failed" % name)
            continue
        v = x_validate(wd, name, scens, tf)
        if isinstance(v, str):
            total["samples"].append("%s: X-trace validation did not finish: %s" % (name, v))
            continue
        total["traces"] += len(scheds)
        total["events"] += v["total"]
        total["steps"] += v["steps"]
        total["drift"] += len(v["drift"])
        total["samples"] += ["%s: %s" % (name, json.dumps(x)) for x in v["drift"][:3]]
    total["wall_s"] = round(time.time() - t0, 1)
    return total


def x_validate(wd, name, scens, tf):
    """One TLC run of ConcQueueXTrace over the trace file tf; returns the verdict dict or an error string."""
    import shutil
    d = vlib.spec_scratch(wd, "x-" + name, ["conc", "lib"])
    vlib.write_mc(d, "MCX", "ConcQueueXTrace", ["ScS == " + vlib.json2tla(tla_scens(scens))],
                  ["INIT TInit", "NEXT TNext", "CHECK_DEADLOCK FALSE", "CONSTANTS", " Scens <- ScS", " EagerWake = FALSE"])
    vf = os.path.join(d, "verdict.json")
    r = vlib.run_tlc(d, "MCX", "MCX.cfg", workers=1, timeout=1500,
                     env={"TRACE_FILE": tf, "VERDICT_FILE": vf,
                          "JAVA_TOOL_OPTIONS": "-DTLA-Library=%s -Xmx3g -Xss256m -Dtlc2.tool.impl.Tool.cdot=true" % vlib.TLA_LIB})
    if not os.path.exists(vf):
        return r["error"] or "no verdict (%s)" % r["out"][-300:]
    v = json.load(open(vf))
    shutil.rmtree(d, ignore_errors=True)
    return v
