"""C18: conc.ConcurrentQueue (specs/conc: ConcQueueP monitor, ConcQueue X spec)."""
import json, os
import vlib

PROPS = ["C18"]
PROPERTY_OF = {"Limit": "C18", "Twice": "C18", "Lost": "C18", "Order": "C18", "Pair": "C18", "IdleEarly": "C18"}
LABEL_RULES = [
    (r"Choose\((\d+)\)", "scen:{1}"),
    (r"Call\((\d+)\)", "call:p{1}"),
    (r"EnqCS\((\d+)\)", "grant:p{1}"),
    (r"Start\((\d+)\)", "enter:j{1}"),
    (r"Fin\((\d+)\)", "fin:j{1}"),
    (r"WorkerCS\((\d+)\)", "wcs:j{1}"),
    (r"CallWI", "call:wi"), (r"WICS", "grant:wi"), (r"CancelWI", "cancel:wi"), (r"FireErr", "errch"),
    (r"CallWS", "call:ws"), (r"WSCS", "grant:ws"), (r"CancelWS", "cancel:ws"),
    (r"(?:WIWake|WIWakeCtx|WIWakeErr|WSWake|WSWakeCtx)", None),
]
# each set stays below the engine's 80000-state guard for graph dumps
SCEN = {"quick": ["quick"], "thorough": ["quick", "thorough_a", "thorough_b", "thorough_c", "thorough_d"]}
BIG = ["big"]   # thorough: model checked only (graph too large to dump)
KEYS = ("lim", "init", "prods", "wic", "wsc")


def scen_path(n):
    return os.path.join(vlib.VERIF, "specs", "conc", "scenarios", n + ".json")


def mk_factory(scens):
    tl = []
    for s in scens:
        prods = list(s["prods"]) + [[]] * (2 - len(s["prods"]))
        tl.append(dict(lim=s["lim"], init=s["init"], prods=prods,
                       wic=dict(on=bool(s["wic"]["on"]), errch=s["wic"]["errch"], cancel=bool(s["wic"]["cancel"])),
                       wsc=dict(on=bool(s["wsc"]["on"]), script=s["wsc"]["script"], cancel=bool(s["wsc"]["cancel"]))))

    def mk(d, kind):
        graph = kind == "graph"
        cfg = ["INIT Init", "NEXT Next", "CHECK_DEADLOCK FALSE"]
        if graph:
            # the monitor's history variables do not influence the behaviour of X
            cfg += ["VIEW xvars"]
        cfg += ["CONSTANTS", " Scens <- ScS", " EagerWake = %s" % ("TRUE" if graph else "FALSE")]
        if not graph:
            cfg += ["INVARIANTS TypeOK Counter QueueAgree Full Bounded WIIdleWakes DoneAllRan QuietInv ModelSafe"]
        vlib.write_mc(d, "MC", "ConcQueue", ["ScS == " + vlib.json2tla(tl)], cfg)
    return mk


def models(wd, tier, seed):
    states = trans = 0
    scheds, notes, names = [], [], []
    quick = tier == "quick"
    for name in SCEN[tier] + ([] if quick else BIG):
        scens = json.load(open(scen_path(name)))["scens"]
        big = name in BIG
        r, paths, nn = vlib.model_and_schedules(wd, "conc_" + name, mk_factory(scens), LABEL_RULES, seed, cap=3000 if quick else 25000,
                                                invariant_cfg={"specdirs": ["conc", "lib"]}, graph_cfg=None, maxlen=90,
                                                workers=min(vlib.NCPU, 8), timeout=1500, dump_graph=not big)
        states += r["distinct"]
        trans += r["states"]
        notes += nn
        for i, p in enumerate(paths):
            if not p or not p[0].startswith("scen:"):
                continue
            k = int(p[0][5:]) - 1
            sc = {key: scens[k][key] for key in KEYS}
            scheds.append({"name": "%s/%s/%d" % (name, scens[k]["name"], i), "scenario": sc, "labels": p[1:]})
        names += ["%s/%s" % (name, s["name"]) for s in scens]
    return states, trans, scheds, notes, names


FAM = dict(driver="conc", specdirs=["conc", "lib"], monitor="ConcQueuePTrace", property_of=PROPERTY_OF, models=models,
           n_random={"quick": 5000, "thorough": 250000},
           modes={"quick": [("burst", "burst", 3000, 4)], "thorough": [("burst", "burst", 100000, 4)]},
           x_specs=["conc/ConcQueue.tla"], p_monitor="conc/ConcQueueP.tla",
           assumptions=["ConcQueueP encodes the statement as read in its header (I1-I5): enqueue order = real-time order of Enqueue calls; "
                        "pairs of an unlimited queue unconstrained; no deadline for starting a job while others run; "
                        "only WaitIdle's nil result is constrained",
                        "the linkedlist is the sequential FIFO of C20 (Push tail / Pop head)"])


def run(prop, tier, seed):
    return vlib.standard_check(prop, tier, seed, FAM)
