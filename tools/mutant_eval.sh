#!/bin/bash
# usage: mutant_eval.sh <seed-id> <mutant-dir> <pkgdir-for-demo> <demo-run-regex> <check> [<check>...]
# Confirms a sub-agent's mutant (patch applies, builds, existing tests pass, demo fails with / passes without),
# runs the given checks against it (VERIF_REPO = scratch worktree) and stores it under /verif/seeded/<seed-id>/.
set -u
id=$1; md=$2; pkg=$3; rx=$4; shift 4
wt=/tmp/ev_$id
rm -rf $wt; git -C /repo worktree prune; git -C /repo worktree add -q --detach $wt HEAD || exit 3
res=/verif/seeded/$id; mkdir -p $res
cp $md/patch.diff $res/patch.diff; cp $md/notes.md $res/notes.md 2>/dev/null
demos=$(ls $md/*_test.go.txt $md/*_test.go 2>/dev/null)
for d in $demos; do cp $d $res/; done
export GOFLAGS=-mod=mod GOPROXY=off GOSUMDB=off
demo_run() { # $1 = label
  mkdir -p $wt/$pkg; for d in $demos; do b=$(basename $d .txt); cp $d $wt/$pkg/$b; done
  (cd $wt && timeout 300 go test ${DEMO_FLAGS:-} -tags verif,mutdemo -count=1 -run "$rx" ./$pkg/ > $res/demo_$1.log 2>&1); rc=$?
  for d in $demos; do b=$(basename $d .txt); rm -f $wt/$pkg/$b; done
  return $rc
}
demo_run pristine; dp=$?
(cd $wt && git apply $res/patch.diff) || { echo "patch does not apply"; exit 3; }
(cd $wt && go build ./... && go test -vet=off -count=1 ./... > $res/suite_mutant.log 2>&1); suite=$?
demo_run mutant; dm=$?
echo "[$id] demo pristine rc=$dp (want 0), suite on mutant rc=$suite (want 0), demo on mutant rc=$dm (want !=0)"
declare -A out
for c in "$@"; do
  (cd /verif && VERIF_OUT=/tmp/evo_$id VERIF_REPO=$wt VERIF_CPUS=${VERIF_CPUS:-8} timeout 1500 ./check $c quick > $res/check_$c.log 2>&1); out[$c]=$?
  echo "[$id] check $c quick on mutant: rc=${out[$c]} $(grep -c '^VIOLATION' $res/check_$c.log) violation lines; $(grep -m1 'condition' $res/check_$c.log)"
done
python3 - "$id" "$dp" "$suite" "$dm" "$@" <<PY
import json,sys,os,re
id,dp,suite,dm=sys.argv[1],int(sys.argv[2]),int(sys.argv[3]),int(sys.argv[4])
checks=sys.argv[5:]
res='/verif/seeded/'+id
meta={"id":id,"confirmed":{"demo_passes_on_pristine":dp==0,"existing_suite_passes_on_mutant":suite==0,"demo_fails_on_mutant":dm!=0},"checks":{}}
for c in checks:
    log=open(os.path.join(res,'check_%s.log'%c)).read()
    conds=sorted(set(re.findall(r'condition (\S+) at',log)))
    meta["checks"][c]={"violations":len(re.findall(r'^VIOLATION',log,re.M)),"conditions":conds,"inconclusive":"INCONCLUSIVE" in log}
meta['breaks_property']=id.split('-')[0]
meta['source']='independent sub-agent: given only the property text and its own scratch worktree of /repo, nothing from /verif'
meta['needs_to_manifest']='see notes.md'
meta['what_was_run']='tools/mutant_eval.sh: patch applied to a scratch worktree of /repo HEAD; go build ./... && go test ./... (default go) on the mutant; demonstration test on pristine and on mutant; ./check <prop> quick with VERIF_REPO=<scratch worktree> (logs check_<prop>.log)'
old={}
p=os.path.join(res,'meta.json')
if os.path.exists(p): old=json.load(open(p))
ch=dict(old.get('checks',{})); ch.update(meta['checks']); meta['checks']=ch
old.update(meta)
json.dump(old,open(p,'w'),indent=1)
PY
git -C /repo worktree remove --force $wt
rm -rf /tmp/evo_$id
