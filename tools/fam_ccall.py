"""C17: ccall.CallConcurrently (specs/ccall: CCallP monitor, CCall X spec)."""
import json, os, re, shutil
import vlib

PROPS = ["C17"]
PROPERTY_OF = {"NilButError": "C17", "NilBeforeDone": "C17", "WrongErr": "C17", "ErrMasked": "C17", "Stuck": "C17",
               "Twice": "C17", "NotRun": "C17", "CtxLive": "C17", "Panic": "C17"}
LABEL_RULES = [
    (r"Choose\((\d+)\)", "scen:{1}"),
    (r"Call", "call:c1"),
    (r"(?:StartCS|Unl|LoopCS)", "grant:c1"),
    (r"Enter\((\d+)\)", "enter:f{1}"),
    (r"Fin\((\d+)\)", "fin:f{1}"),
    (r"WorkerCS\((\d+)\)", "wcs:f{1}"),
    (r"Cancel", "cancel"),
    (r"(?:Wake|WakeCtx|ImmRet|Ret1|Final|WaitWake\(\d+\))", None),
]
# X models the code as it is at the pinned commit (F10: unlocked read of `running`; F11: single nil
# entry is called). Set to True once the corresponding "fix:" commit is in /repo. VERIF_CCALL_FIXED=1
# overrides both (used to measure the follow rate against a scratch copy with the proposed fixes).
FIX_F10 = True
FIX_F11 = True
if os.environ.get("VERIF_CCALL_FIXED") == "1":
    FIX_F10 = FIX_F11 = True

SCEN = {"quick": ["quick"], "thorough": ["quick", "thorough"]}


def scen_path(n):
    return os.path.join(vlib.VERIF, "specs", "ccall", "scenarios", n + ".json")


def B(b):
    return "TRUE" if b else "FALSE"


def mk_factory(scens):
    tl = [dict(fns=[dict(isnil=bool(f["isnil"]), out=f.get("out", "")) for f in s["fns"]], cancel=bool(s["cancel"])) for s in scens]

    def mk(d, kind):
        # mc: the repaired model must satisfy the monitor (the monitor accepts a correct implementation);
        # graph / asis: the code as it is
        fixed = kind == "mc"
        consts = ["Scens <- ScS", "EagerWake = %s" % B(kind == "graph"),
                  "FixF10 = %s" % B(fixed or FIX_F10), "FixF11 = %s" % B(fixed or FIX_F11)]
        cfg = ["INIT Init", "NEXT Next", "CHECK_DEADLOCK FALSE", "CONSTANTS"] + [" " + c for c in consts]
        if kind in ("mc", "asis"):
            cfg += ["INVARIANTS TypeOK Counter QuietInv ModelSafe"]
        vlib.write_mc(d, "MC", "CCall", ["ScS == " + vlib.json2tla(tl)], cfg)
    return mk


def models(wd, tier, seed):
    states = trans = 0
    scheds, notes, names = [], [], []
    quick = tier == "quick"
    for name in SCEN[tier]:
        scens = json.load(open(scen_path(name)))["scens"]
        mk = mk_factory(scens)
        r, paths, nn = vlib.model_and_schedules(wd, "ccall_" + name, mk, LABEL_RULES, seed, cap=1500 if quick else 20000,
                                                invariant_cfg={"specdirs": ["ccall", "lib"]}, graph_cfg=None,
                                                workers=min(vlib.NCPU, 4), timeout=900)
        states += r["distinct"]
        trans += r["states"]
        notes += nn
        if not (FIX_F10 and FIX_F11):
            # model-level confirmation of the open defects: the code-as-it-is model must violate the monitor
            d = vlib.spec_scratch(wd, "ccall_" + name + "-asis", ["ccall", "lib"])
            mk(d, "asis")
            a = vlib.run_tlc(d, "MC", "MC.cfg", workers=1, timeout=600, extra=["-continue"])
            shutil.rmtree(d, ignore_errors=True)
            conds = sorted(set(re.findall(r'bad = \{([^}]*)\}', a["out"])) - {""})
            notes.append("model %s, code as pinned (FixF10=%s FixF11=%s): %d distinct states; monitor conditions reached at model level: %s"
                         % (name, FIX_F10, FIX_F11, a["distinct"], conds or "none"))
            vlib.log("[model] ccall_%s as pinned: %d distinct states, conditions reached: %s" % (name, a["distinct"], conds or "none"))
        for i, p in enumerate(paths):
            if not p or not p[0].startswith("scen:"):
                continue
            k = int(p[0][5:]) - 1
            sc = dict(fns=scens[k]["fns"], cancel=scens[k]["cancel"])
            scheds.append({"name": "%s/%s/%d" % (name, scens[k]["name"], i), "scenario": sc, "labels": p[1:]})
        names += ["%s/%s" % (name, s["name"]) for s in scens]
    return states, trans, scheds, notes, names


FAM = dict(driver="ccall", specdirs=["ccall", "lib"], monitor="CCallPTrace", property_of=PROPERTY_OF, models=models,
           n_random={"quick": 6000, "thorough": 400000},
           x_specs=["ccall/CCall.tla"], p_monitor="ccall/CCallP.tla",
           advisory=lambda wd, binp, seed, tier: x_conformance(wd, binp, seed, SCEN[tier], nrand=100 if tier == "quick" else 1500),
           assumptions=["CCallP encodes the statement as read in its header (I1-I6): overlapping error/cancel clauses accept either result; "
                        "the 'returns' clauses are read as obligations to return at library quiescence; a panic is not a return",
                        "harness-owned functions never panic and return only their scripted outcome"])


def run(prop, tier, seed):
    return vlib.standard_check(prop, tier, seed, FAM)


# --------------------------------------------------------------------------- advisory X-level conformance

def x_conformance(wd, binp, seed, names, nrand=100):
    """Replays executions of every scenario of the named sets (seeded random schedules, controller steps
    logged) through the X spec itself (CCallXTrace.tla): one harness run and one TLC run per set, the
    scenario of a run is chosen by the logged index (Choose(k)). Returns a summary dict; never a verdict."""
    import subprocess, time
    total = dict(traces=0, events=0, steps=0, drift=0, wall_s=0.0, samples=[])
    t0 = time.time()
    for name in names:
        scens = json.load(open(scen_path(name)))["scens"]
        scheds = [{"name": "%s/%s/x%d" % (name, s["name"], i), "scenario": dict(fns=s["fns"], cancel=s["cancel"], xk=k + 1), "labels": []}
                  for k, s in enumerate(scens) for i in range(nrand)]
        sf = os.path.join(wd, "x-%s-scheds.json" % name)
        json.dump(scheds, open(sf, "w"))
        tf = os.path.join(wd, "x-%s.ndjson" % name)
        stf = os.path.join(wd, "x-%s.stats.json" % name)
        p = subprocess.run([binp, "-test.run", "^TestRun$", "-driver", "ccall", "-out", tf, "-stats", stf, "-sched", sf, "-seed", str(seed), "-logsteps"],
                           cwd=wd, capture_output=True, text=True)
        if p.returncode != 0:
            total["samples"].append("%s: harness failed" % name)
            continue
        v = x_validate(wd, name, scens, tf)
        if isinstance(v, str):
            total["samples"].append("%s: X-trace validation did not finish: %s" % (name, v))
            continue
        total["traces"] += len(scheds)
        total["events"] += v["total"]
        total["steps"] += v["steps"]
        total["drift"] += len(v["drift"])
        total["samples"] += ["%s: %s" % (name, json.dumps(x)) for x in v["drift"][:3]]
    total["wall_s"] = round(time.time() - t0, 1)
    return total


def x_validate(wd, name, scens, tf):
    """One TLC run of CCallXTrace over the trace file tf; returns the verdict dict or an error string."""
    d = vlib.spec_scratch(wd, "x-" + name, ["ccall", "lib"])
    tl = [dict(fns=[dict(isnil=bool(f["isnil"]), out=f.get("out", "")) for f in s["fns"]], cancel=bool(s["cancel"])) for s in scens]
    consts = ["Scens <- ScS", "EagerWake = FALSE", "FixF10 = %s" % B(FIX_F10), "FixF11 = %s" % B(FIX_F11)]
    vlib.write_mc(d, "MCX", "CCallXTrace", ["ScS == " + vlib.json2tla(tl)],
                  ["INIT TInit", "NEXT TNext", "CHECK_DEADLOCK FALSE", "CONSTANTS"] + [" " + c for c in consts])
    vf = os.path.join(d, "verdict.json")
    r = vlib.run_tlc(d, "MCX", "MCX.cfg", workers=1, timeout=900,
                     env={"TRACE_FILE": tf, "VERDICT_FILE": vf,
                          "JAVA_TOOL_OPTIONS": "-DTLA-Library=%s -Xmx3g -Xss256m -Dtlc2.tool.impl.Tool.cdot=true" % vlib.TLA_LIB})
    if not os.path.exists(vf):
        return r["error"] or "no verdict (%s)" % r["out"][-300:]
    v = json.load(open(vf))
    shutil.rmtree(d, ignore_errors=True)
    return v
