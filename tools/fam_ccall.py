"""C17: ccall.CallConcurrently (specs/ccall: CCallP monitor, CCall X spec)."""
import json, os, re, shutil
import vlib

PROPS = ["C17"]
PROPERTY_OF = {"NilButError": "C17", "NilBeforeDone": "C17", "WrongErr": "C17", "ErrMasked": "C17", "Stuck": "C17",
               "Twice": "C17", "NotRun": "C17", "CtxLive": "C17", "Panic": "C17"}
LABEL_RULES = [
    (r"Choose\((\d+)\)", "scen:{1}"),
    (r"Call", "call:c1"),
    (r"(?:StartCS|Unl|LoopCS)", "grant:c1"),
    (r"Enter\((\d+)\)", "enter:f{1}"),
    (r"Fin\((\d+)\)", "fin:f{1}"),
    (r"WorkerCS\((\d+)\)", "wcs:f{1}"),
    (r"Cancel", "cancel"),
    (r"(?:Wake|WakeCtx|ImmRet|Ret1|Final|WaitWake\(\d+\))", None),
]
# X models the code as it is at the pinned commit (F10: unlocked read of `running`; F11: single nil
# entry is called). Set to True once the corresponding "fix:" commit is in /repo. VERIF_CCALL_FIXED=1
# overrides both (used to measure the follow rate against a scratch copy with the proposed fixes).
FIX_F10 = True
FIX_F11 = True
if os.environ.get("VERIF_CCALL_FIXED") == "1":
    FIX_F10 = FIX_F11 = True

SCEN = {"quick": ["quick"], "thorough": ["quick", "thorough"]}


def scen_path(n):
    return os.path.join(vlib.VERIF, "specs", "ccall", "scenarios", n + ".json")


def B(b):
    return "TRUE" if b else "FALSE"


def mk_factory(scens):
    tl = [dict(fns=[dict(isnil=bool(f["isnil"]), out=f.get("out", "")) for f in s["fns"]], cancel=bool(s["cancel"])) for s in scens]

    def mk(d, kind):
        # mc: the repaired model must satisfy the monitor (the monitor accepts a correct implementation);
        # graph / asis: the code as it is
        fixed = kind == "mc"
        consts = ["Scens <- ScS", "EagerWake = %s" % B(kind == "graph"),
                  "FixF10 = %s" % B(fixed or FIX_F10), "FixF11 = %s" % B(fixed or FIX_F11)]
        cfg = ["INIT Init", "NEXT Next", "CHECK_DEADLOCK FALSE", "CONSTANTS"] + [" " + c for c in consts]
        if kind in ("mc", "asis"):
            cfg += ["INVARIANTS TypeOK Counter QuietInv ModelSafe"]
        vlib.write_mc(d, "MC", "CCall", ["ScS == " + vlib.json2tla(tl)], cfg)
    return mk


def models(wd, tier, seed):
    states = trans = 0
    scheds, notes, names = [], [], []
    quick = tier == "quick"
    for name in SCEN[tier]:
        scens = json.load(open(scen_path(name)))["scens"]
        mk = mk_factory(scens)
        r, paths, nn = vlib.model_and_schedules(wd, "ccall_" + name, mk, LABEL_RULES, seed, cap=1500 if quick else 20000,
                                                invariant_cfg={"specdirs": ["ccall", "lib"]}, graph_cfg=None,
                                                workers=min(vlib.NCPU, 4), timeout=900)
        states += r["distinct"]
        trans += r["states"]
        notes += nn
        if not (FIX_F10 and FIX_F11):
            # model-level confirmation of the open defects: the code-as-it-is model must violate the monitor
            d = vlib.spec_scratch(wd, "ccall_" + name + "-asis", ["ccall", "lib"])
            mk(d, "asis")
            a = vlib.run_tlc(d, "MC", "MC.cfg", workers=1, timeout=600, extra=["-continue"])
            shutil.rmtree(d, ignore_errors=True)
            conds = sorted(set(re.findall(r'bad = \{([^}]*)\}', a["out"])) - {""})
            notes.append("model %s, code as pinned (FixF10=%s FixF11=%s): %d distinct states; monitor conditions reached at model level: %s"
                         % (name, FIX_F10, FIX_F11, a["distinct"], conds or "none"))
            vlib.log("[model] ccall_%s as pinned: %d distinct states, conditions reached: %s" % (name, a["distinct"], conds or "none"))
        for i, p in enumerate(paths):
            if not p or not p[0].startswith("scen:"):
                continue
            k = int(p[0][5:]) - 1
            sc = dict(fns=scens[k]["fns"], cancel=scens[k]["cancel"])
            scheds.append({"name": "%s/%s/%d" % (name, scens[k]["name"], i), "scenario": sc, "labels": p[1:]})
        names += ["%s/%s" % (name, s["name"]) for s in scens]
    return states, trans, scheds, notes, names


FAM = dict(driver="ccall", specdirs=["ccall", "lib"], monitor="CCallPTrace", property_of=PROPERTY_OF, models=models,
           n_random={"quick": 6000, "thorough": 400000},
           x_specs=["ccall/CCall.tla"], p_monitor="ccall/CCallP.tla",
           assumptions=["CCallP encodes the statement as read in its header (I1-I6): overlapping error/cancel clauses accept either result; "
                        "the 'returns' clauses are read as obligations to return at library quiescence; a panic is not a return",
                        "harness-owned functions never panic and return only their scripted outcome"])


def run(prop, tier, seed):
    return vlib.standard_check(prop, tier, seed, FAM)
