------------------------------- MODULE LifoP -------------------------------
(* Property monitor for cqueue.AtomicLIFO (C12): linearizability + conservation.            *)
(*                                                                                          *)
(* Statement: "Every concurrent history of Push and Pop on an AtomicLIFO is equivalent to    *)
(* some sequential last-in-first-out history that respects the real-time order of the       *)
(* calls, with Pop returning the zero value exactly when that sequential stack is empty.    *)
(* ... No pushed element is ever lost or returned twice."                                   *)
(*                                                                                          *)
(* The monitor is a linearizability checker.  Its events are call(id,op,arg) and            *)
(* ret(id,res).  The hidden step is Lin(id): a pending operation takes effect on the        *)
(* sequential stack and its result is fixed; ret(id,res) is possible only if res is the     *)
(* fixed result.  Instead of letting TLC search over the placement of the Lin steps the     *)
(* monitor is DETERMINISTIC: it tracks the set `cfgs` of ALL configurations                  *)
(*      [s |-> sequential stack, p |-> pending calls with (maybe) fixed results]            *)
(* that are consistent with the history so far.  Lin steps are taken lazily ("just in       *)
(* time"): only when a ret(i,res) arrives are the configurations extended by every          *)
(* sequence of Lin steps of other pending calls followed by Lin(i); the configurations in   *)
(* which i's fixed result differs from res are dropped.  A Lin step commutes backwards over *)
(* call events and over ret events of other calls, so nothing is lost by delaying it to     *)
(* the next ret.  The history is linearizable iff `cfgs` never becomes empty.               *)
(*                                                                                          *)
(* Values: ints; 0 is the zero value returned by Pop on an empty stack; the harness pushes   *)
(* pairwise distinct values >= 1 (a harness obligation, violations of it are "Harness").    *)
(*                                                                                          *)
(* Conservation is judged separately (it is implied by linearizability plus the final       *)
(* drain, but the separate names make a finding readable):                                   *)
(*   Dup      a Pop returned a non-zero value that an earlier Pop already returned           *)
(*   Phantom  a Pop returned a non-zero value that no Push call has been given so far        *)
(*   Lost     after every call returned and the stack was drained by sequential Pops until   *)
(*            one returned 0, some pushed value was never returned by any Pop                *)
(*   Panic    a Push/Pop panicked (no sequential history contains a panicking operation)     *)
(* Not constrained: progress (a Push/Pop that never returns makes the run "Incomplete",      *)
(* which is not a verdict), anything about the internal node structure.                     *)
EXTENDS Integers, FiniteSets, Sequences, TLC

VARIABLES
    cfgs,     \* set of configurations consistent with the history so far
    pushedV,  \* values given to Push calls so far
    poppedV,  \* non-zero values returned by Pop so far
    open,     \* ids of calls that have not returned
    used,     \* ids of all calls so far
    bad       \* names of event-level conditions that failed (sticky)

pvars == <<cfgs, pushedV, poppedV, open, used, bad>>

EmptyCfg == [s |-> <<>>, p |-> <<>>]

\* Guard against a blow-up of the configuration set (many concurrent pushes whose order nothing
\* has observed yet): beyond MaxCfgs configurations the run is given up -- condition "Overflow",
\* which is not a verdict -- and linearizability is no longer tracked until the next reset (the
\* conservation conditions still are).  The harness bounds the pushes per concurrent history so
\* that this does not happen.
MaxCfgs == 4000
Ovf == "Overflow" \in bad

\* the state after the values of sequence s (top first) have been pushed sequentially
PInitStack(s) ==
    /\ cfgs = {[s |-> s, p |-> <<>>]}
    /\ pushedV = {s[k] : k \in 1..Len(s)} /\ poppedV = {}
    /\ open = {} /\ used = {} /\ bad = {}

PInit == PInitStack(<<>>)

PReset ==
    /\ cfgs' = {EmptyCfg}
    /\ pushedV' = {} /\ poppedV' = {} /\ open' = {} /\ used' = {} /\ bad' = {}

-----------------------------------------------------------------------------
(* The sequential specification and the Lin step *)

\* pending entry: [op, arg, lin, res]
Unlin(c) == {j \in DOMAIN c.p : ~c.p[j].lin}

\* Lin(j) in configuration c
LinOne(c, j) ==
    LET o == c.p[j] IN
    IF o.op = "push"
    THEN [s |-> <<o.arg>> \o c.s, p |-> [c.p EXCEPT ![j] = [@ EXCEPT !.lin = TRUE, !.res = 0]]]
    ELSE IF c.s = <<>>
         THEN [s |-> c.s, p |-> [c.p EXCEPT ![j] = [@ EXCEPT !.lin = TRUE, !.res = 0]]]
         ELSE [s |-> Tail(c.s), p |-> [c.p EXCEPT ![j] = [@ EXCEPT !.lin = TRUE, !.res = Head(c.s)]]]

\* every configuration reachable from c by Lin steps of pending calls other than i, then Lin(i)
RECURSIVE LinUpTo(_, _)
LinUpTo(c, i) ==
    {LinOne(c, i)} \cup UNION {LinUpTo(LinOne(c, j), i) : j \in Unlin(c) \ {i}}

Drop(c, i) == [s |-> c.s, p |-> [j \in DOMAIN c.p \ {i} |-> c.p[j]]]

RetCfgs(c, i, res) ==
    LET cs == IF c.p[i].lin THEN {c} ELSE LinUpTo(c, i)
    IN {Drop(d, i) : d \in {d \in cs : d.p[i].res = res}}

-----------------------------------------------------------------------------
(* Events *)

\* the harness announces which structure this run exercises
PStart(kind) ==
    /\ bad' = bad \cup (IF kind = "lifo" THEN {} ELSE {"Harness"})
    /\ UNCHANGED <<cfgs, pushedV, poppedV, open, used>>

PCall(i, op, arg) ==
    LET ok == i \notin used /\ op \in {"push", "pop"}
              /\ (op = "push" => arg >= 1 /\ arg \notin pushedV)
    IN
    /\ bad' = bad \cup (IF ok THEN {} ELSE {"Harness"})
    /\ IF ok
       THEN /\ cfgs' = IF Ovf THEN cfgs ELSE
                      {[s |-> c.s, p |-> (i :> [op |-> op, arg |-> arg, lin |-> FALSE, res |-> 0]) @@ c.p] : c \in cfgs}
            /\ open' = open \cup {i}
            /\ used' = used \cup {i}
            /\ pushedV' = IF op = "push" THEN pushedV \cup {arg} ELSE pushedV
       ELSE UNCHANGED <<cfgs, open, used, pushedV>>
    /\ UNCHANGED poppedV

\* op is repeated in the ret event only for the conservation bookkeeping
PRet(i, op, res) ==
    IF i \notin open
    THEN /\ bad' = bad \cup {"Harness"}
         /\ UNCHANGED <<cfgs, pushedV, poppedV, open, used>>
    ELSE
    LET nc == IF Ovf THEN cfgs ELSE UNION {RetCfgs(c, i, res) : c \in cfgs}
        big == Cardinality(nc) > MaxCfgs
    IN
    /\ cfgs' = IF big THEN {EmptyCfg} ELSE nc
    /\ open' = open \ {i}
    /\ poppedV' = IF op = "pop" /\ res # 0 THEN poppedV \cup {res} ELSE poppedV
    /\ bad' = bad
        \cup (IF op = "pop" /\ res # 0 /\ res \in poppedV THEN {"Dup"} ELSE {})
        \cup (IF op = "pop" /\ res # 0 /\ res \notin pushedV THEN {"Phantom"} ELSE {})
        \cup (IF big THEN {"Overflow"} ELSE {})
    /\ UNCHANGED <<pushedV, used>>

\* A library call panicked (it never returns; whether it took effect is left open).  No
\* sequential history contains a panicking operation.
PPanic(i) ==
    /\ bad' = bad \cup {"Panic"}
    /\ open' = open \ {i}
    /\ UNCHANGED <<cfgs, pushedV, poppedV, used>>

\* End of the run.  complete: every issued call has returned (harness view); empty: the
\* harness then popped sequentially until a Pop returned 0.
PDrained(complete, empty) ==
    /\ bad' = bad
        \cup (IF complete /\ open # {} THEN {"Harness"} ELSE {})
        \cup (IF ~complete \/ ~empty THEN {"Incomplete"} ELSE {})
        \cup (IF complete /\ empty /\ open = {} /\ pushedV # poppedV THEN {"Lost"} ELSE {})
    /\ UNCHANGED <<cfgs, pushedV, poppedV, open, used>>

-----------------------------------------------------------------------------
(* The property *)

Linearizable == cfgs # {}

Safe_C12 == Linearizable /\ bad \cap {"Dup", "Phantom", "Lost", "Panic"} = {}
NoHarnessError == bad \cap {"Harness", "Incomplete", "Overflow"} = {}

Violated == (IF Linearizable THEN {} ELSE {"NotLinearizable"}) \cup bad

PropertyOf == [NotLinearizable |-> "C12", Dup |-> "C12", Phantom |-> "C12", Lost |-> "C12", Panic |-> "C12",
               Harness |-> "HARNESS", Incomplete |-> "HARNESS", Overflow |-> "HARNESS", Unexplained |-> "HARNESS"]
=============================================================================
