----------------------------- MODULE DequePTrace -----------------------------
(* Replays an ndjson trace recorded from the real linkedlist.LinkedList through the DequeP *)
(* monitor.  Deterministic, one state per event (DequeP carries the set of all             *)
(* configurations consistent with the history, so no search over linearization points is   *)
(* left to TLC); same structure as CsyncPTrace / LifoPTrace.                               *)
EXTENDS DequeP, TraceLib

VARIABLES l, viol, seen

tvars == <<l, viol, seen>>

TInit == PInit /\ l = 1 /\ viol = <<>> /\ seen = {}

Fresh == Violated \ seen
Recorded ==
    IF l > 1 /\ Fresh # {}
    THEN Append(viol, [run |-> Trace[l-1].run, seq |-> Trace[l-1].seq, names |-> Fresh, l |-> l - 1])
    ELSE viol

Apply(e) ==
    CASE e.ev = "reset"   -> PReset
      [] e.ev = "start"   -> PStart(e.kind)
      [] e.ev = "call"    -> PCall(e.id, e.op, e.arg)
      [] e.ev = "ret"     -> PRet(e.id, e.op, e.res, e.ok)
      [] e.ev = "panic"   -> PPanic(e.id)
      [] e.ev = "drained" -> PDrained(e.complete, e.empty)
      [] e.ev \in {"leak", "note", "end", "spin", "step", "teardown"} -> UNCHANGED pvars
      [] OTHER            -> /\ bad' = bad \cup {"Unexplained"}
                             /\ UNCHANGED <<cfgs, pushedV, poppedV, open, used, resets>>

TStep ==
    /\ l <= Len(Trace)
    /\ viol' = Recorded
    /\ seen' = IF Trace[l].ev = "reset" THEN {} ELSE seen \cup Violated
    /\ Apply(Trace[l])
    /\ l' = l + 1

TFinish ==
    /\ l = Len(Trace) + 1
    /\ viol' = Recorded
    /\ WriteVerdict(viol', Len(Trace))
    /\ l' = l + 1
    /\ UNCHANGED <<pvars, seen>>

TNext == TStep \/ TFinish
TSpec == TInit /\ [][TNext]_<<pvars, tvars>>
=============================================================================
