-------------------------------- MODULE Lifo --------------------------------
(* Implementation-shaped specification of cqueue.AtomicLIFO (cqueue/lifo.go): a Treiber      *)
(* stack.  One action per atomic operation of the code:                                      *)
(*                                                                                          *)
(*   Push(v): newNode := fresh node;                                                         *)
(*            loop { oldTop := top.Load()          -- Load(p)                                *)
(*                   newNode.next = oldTop         -- Link(p)  (node still private)          *)
(*                   <verifhook.Atomic "lifo.push">                                          *)
(*                   if top.CAS(oldTop,newNode) break }   -- CAS(p)                          *)
(*   Pop():   loop { oldTop := top.Load()          -- Load(p); nil => return zero value      *)
(*                   next := oldTop.next           -- Link(p)  (immutable once published)    *)
(*                   <verifhook.Atomic "lifo.pop">                                           *)
(*                   if top.CAS(oldTop,next) return oldTop.value }   -- CAS(p)               *)
(*                                                                                          *)
(* Nodes are identified by the id of the Push call that allocated them: a fresh node per     *)
(* push and no reuse while a reference exists -- the garbage collector's no-ABA guarantee    *)
(* is an explicit assumption of this model.                                                  *)
(*                                                                                          *)
(* The module EXTENDS the LifoP monitor and fires its events at the API-visible actions, so  *)
(* TLC checks that every history of the model is accepted by the monitor (ModelSafe:         *)
(* protects against a monitor that rejects a correct Treiber stack).  Independently a ghost  *)
(* sequential stack `gstk` is updated at the linearization points (successful CAS; the Load  *)
(* that reads nil) and TLC checks that it is the abstraction of the linked nodes (AbsOK) and *)
(* that each Pop returns what the ghost stack says at its linearization point (GhostOK).     *)
(*                                                                                          *)
(* Granularity.  Fine = TRUE: Call, Load, Link, CAS are separate steps (every interleaving   *)
(* of the individual atomic loads and compare-and-swaps; used for the invariant check).      *)
(* Fine = FALSE: the granularity of the controller, whose only park point is the hook        *)
(* between Link and CAS: Load and Link steps run before anything else (Gate), i.e. a step is *)
(* "call .. hook" or "CAS [.. hook]"; used for the schedule graph.  Nothing observable is     *)
(* lost: a failed CAS changes nothing, so it can be moved right before the following Load    *)
(* of the same process unless top has meanwhile returned to oldTop; in that case the         *)
(* re-Load/Link reads the same oldTop and the same next (next of a published node is         *)
(* immutable), so the execution is equivalent to one where the failed attempt is skipped.    *)
EXTENDS LifoP

CONSTANTS
    Prog,     \* Prog[p] = sequence of [op |-> "push"|"pop", v |-> value]
    InitStk,  \* values on the stack before the clients start (top first)
    Fine

Procs == 1..Len(Prog)
Id(p, j) == p * 100 + j
InitNode(k) == 9000 + k      \* node holding InitStk[k]

VARIABLES
    top,    \* AtomicLIFO.top: node id, 0 = nil
    nxt,    \* node id -> next node id
    val,    \* node id -> value
    pc,     \* p -> "idle" | "load" | "link" | "cas"
    ip,     \* p -> index of the current/next operation in Prog[p]
    old,    \* p -> oldTop (local)
    lnk,    \* p -> next (local variable of Pop)
    gstk,   \* ghost: sequential stack, updated at the linearization points
    gbad    \* ghost: a Pop returned something else than the ghost stack's answer

xvars == <<top, nxt, val, pc, ip, old, lnk, gstk, gbad>>
vars == <<xvars, pvars>>

Op(p) == Prog[p][ip[p]]
CurId(p) == Id(p, ip[p])
Done(p) == ip[p] > Len(Prog[p])

Init ==
    /\ PInitStack(InitStk)
    /\ top = IF Len(InitStk) = 0 THEN 0 ELSE InitNode(1)
    /\ nxt = [n \in {InitNode(k) : k \in 1..Len(InitStk)} |->
                IF n = InitNode(Len(InitStk)) THEN 0 ELSE n + 1]
    /\ val = [n \in {InitNode(k) : k \in 1..Len(InitStk)} |-> InitStk[n - 9000]]
    /\ pc = [p \in Procs |-> "idle"]
    /\ ip = [p \in Procs |-> 1]
    /\ old = [p \in Procs |-> 0]
    /\ lnk = [p \in Procs |-> 0]
    /\ gstk = InitStk
    /\ gbad = FALSE

\* controller granularity: local Load/Link steps run to the hook before anything else moves
Silent == \E q \in Procs : pc[q] \in {"load", "link"}
Gate == Fine \/ ~Silent

Return(p, res) ==
    /\ pc' = [pc EXCEPT ![p] = "idle"]
    /\ ip' = [ip EXCEPT ![p] = @ + 1]
    /\ PRet(CurId(p), Op(p).op, res)

\* the client calls Push(v) / Pop(); Push allocates its node
Call(p) ==
    /\ Gate
    /\ pc[p] = "idle" /\ ~Done(p)
    /\ pc' = [pc EXCEPT ![p] = "load"]
    /\ IF Op(p).op = "push"
       THEN /\ val' = (CurId(p) :> Op(p).v) @@ val
            /\ nxt' = (CurId(p) :> 0) @@ nxt
       ELSE UNCHANGED <<val, nxt>>
    /\ PCall(CurId(p), Op(p).op, IF Op(p).op = "push" THEN Op(p).v ELSE 0)
    /\ UNCHANGED <<top, ip, old, lnk, gstk, gbad>>

\* oldTop := q.top.Load()
Load(p) ==
    /\ pc[p] = "load"
    /\ old' = [old EXCEPT ![p] = top]
    /\ IF Op(p).op = "pop" /\ top = 0
       THEN \* linearization point of a Pop on the empty stack
            /\ gbad' = (gbad \/ gstk # <<>>)
            /\ Return(p, 0)
       ELSE /\ pc' = [pc EXCEPT ![p] = "link"]
            /\ UNCHANGED <<ip, gbad, pvars>>
    /\ UNCHANGED <<top, nxt, val, lnk, gstk>>

\* newNode.next = oldTop   |   next := oldTop.next
Link(p) ==
    /\ pc[p] = "link"
    /\ pc' = [pc EXCEPT ![p] = "cas"]
    /\ IF Op(p).op = "push"
       THEN /\ nxt' = [nxt EXCEPT ![CurId(p)] = old[p]] /\ UNCHANGED lnk
       ELSE /\ lnk' = [lnk EXCEPT ![p] = nxt[old[p]]] /\ UNCHANGED nxt
    /\ UNCHANGED <<top, val, ip, old, gstk, gbad, pvars>>

\* q.top.CompareAndSwap(oldTop, newNode | next)
CAS(p) ==
    /\ Gate
    /\ pc[p] = "cas"
    /\ IF top # old[p]
       THEN /\ pc' = [pc EXCEPT ![p] = "load"]
            /\ UNCHANGED <<top, ip, gstk, gbad, pvars>>
       ELSE IF Op(p).op = "push"
       THEN /\ top' = CurId(p)
            /\ gstk' = <<Op(p).v>> \o gstk
            /\ Return(p, 0)
            /\ UNCHANGED gbad
       ELSE /\ top' = lnk[p]
            /\ gstk' = IF gstk = <<>> THEN gstk ELSE Tail(gstk)
            /\ gbad' = (gbad \/ gstk = <<>> \/ (gstk # <<>> /\ Head(gstk) # val[old[p]]))
            /\ Return(p, val[old[p]])
    /\ UNCHANGED <<nxt, val, old, lnk>>

Next ==
    \E p \in Procs : Call(p) \/ Load(p) \/ Link(p) \/ CAS(p)

Spec == Init /\ [][Next]_vars

-----------------------------------------------------------------------------
(* Invariants *)

Nodes == DOMAIN val

TypeOK ==
    /\ top \in Nodes \cup {0}
    /\ DOMAIN nxt = Nodes
    /\ \A n \in Nodes : nxt[n] \in Nodes \cup {0}
    /\ \A p \in Procs : pc[p] \in {"idle", "load", "link", "cas"} /\ old[p] \in Nodes \cup {0}

\* values along the chain from node n
RECURSIVE Chain(_)
Chain(n) == IF n = 0 THEN <<>> ELSE <<val[n]>> \o Chain(nxt[n])

\* the ghost stack is the abstraction of the linked nodes
AbsOK == Chain(top) = gstk
\* every Pop returned the ghost stack's answer at its linearization point
GhostOK == ~gbad
\* the monitor accepts every history of the model (linearizable, nothing duplicated/invented)
ModelSafe == Safe_C12 /\ NoHarnessError
\* conservation in the model: what was pushed is on the stack or was popped
AllIdle == \A p \in Procs : pc[p] = "idle"
Conserve == AllIdle => pushedV = poppedV \cup {gstk[k] : k \in 1..Len(gstk)}
=============================================================================
