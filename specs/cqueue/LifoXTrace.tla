----------------------------- MODULE LifoXTrace -----------------------------
(* X-level trace validation (advisory, DESIGN §2.5): controlled (M1) executions of ONE       *)
(* scenario (the constants Prog, InitStk) recorded from the real cqueue.AtomicLIFO with every *)
(* controller step logged are replayed through the actions of Lifo.tla itself.                *)
(*                                                                                            *)
(* Steps.  The only park point of the code is the verifhook.Atomic hook between the top load  *)
(* (+ the private next link) and the CAS, so one controller step is                           *)
(*     "call:cN"   Call(N)  . Load(N) . [Link(N)]             (call .. hook | empty Pop returns) *)
(*     "grant:cN"  CAS(N) . [Load(N) . [Link(N)]]             (CAS [failed: re-load .. hook])    *)
(* The Load/Link steps, which the real goroutine performs within the same controller step,    *)
(* are taken eagerly by action composition (TLC option tlc2.tool.impl.Tool.cdot): `S` is      *)
(* "the one process that is at load/link moves, or nothing".  A step whose first action is    *)
(* not enabled in the spec (process not idle / not parked before its CAS, program exhausted)  *)
(* is DRIFT.                                                                                  *)
(*                                                                                            *)
(* Assertion events (recorded between the steps):                                             *)
(*   call   the call was issued by the spec in this step with the same operation and argument *)
(*   ret    the call has returned in the spec as well (a CAS that fails in the spec but        *)
(*          succeeds in the code, or a hook that is no longer between load and CAS, shows up   *)
(*          here), and the logged result is the GHOST ANSWER: what the ghost sequential stack  *)
(*          `gstk` of Lifo.tla said at the linearization point of that call (successful CAS /  *)
(*          the load that read nil).  `gans` records it when the spec's action makes the call  *)
(*          return; ~gbad says that the spec's node structure gave the same answer.            *)
(*   step boundary (every "step", the first drain call, "drained")                            *)
(*          the spec's stack content -- the ghost stack and the chain of nodes from top --     *)
(*          equals `rstk`, the sequential stack obtained from the RECORDED events alone         *)
(*          (recorded push returned: its recorded argument on top; recorded pop returned v#0:  *)
(*          v removed from the top).  In a controlled execution a call's linearization point   *)
(*          and its ret event lie in the same controller step, so ret order = linearization    *)
(*          order and the comparison is exact.                                                *)
(*   the controller's own calls: the initial pushes (ids 1..k, before the first step) must be *)
(*          InitStk; the final sequential Pops (ids > 9000, after the last step) must return   *)
(*          the spec's stack top first, down to the zero value -- they are applied to the spec *)
(*          as sequential pops (top, gstk), so the whole final content is compared in order.   *)
(*   panic / spin / leak are not behaviours of the spec: drift.                               *)
(* A mismatch is DRIFT: the code no longer takes the steps the spec describes (or the spec is *)
(* wrong); it never is a verdict by itself.  After a drift the rest of that run is skipped.   *)
EXTENDS Lifo, TraceLib

VARIABLES
    l, drift, live,
    gans,   \* call id -> ghost answer fixed by the spec at the linearization point
    rstk,   \* sequential stack replayed from the recorded events alone (top first)
    rarg    \* call id -> [op, arg] as recorded by the "call" event
tv == <<l, drift, live, gans, rstk, rarg>>

XReset ==
    /\ cfgs' = {[s |-> InitStk, p |-> <<>>]}
    /\ pushedV' = {InitStk[k] : k \in 1..Len(InitStk)} /\ poppedV' = {}
    /\ open' = {} /\ used' = {} /\ bad' = {}
    /\ top' = IF Len(InitStk) = 0 THEN 0 ELSE InitNode(1)
    /\ nxt' = [n \in {InitNode(k) : k \in 1..Len(InitStk)} |-> IF n = InitNode(Len(InitStk)) THEN 0 ELSE n + 1]
    /\ val' = [n \in {InitNode(k) : k \in 1..Len(InitStk)} |-> InitStk[n - 9000]]
    /\ pc' = [p \in Procs |-> "idle"]
    /\ ip' = [p \in Procs |-> 1]
    /\ old' = [p \in Procs |-> 0]
    /\ lnk' = [p \in Procs |-> 0]
    /\ gstk' = InitStk
    /\ gbad' = FALSE

TInit == Init /\ l = 1 /\ drift = <<>> /\ live = TRUE /\ gans = <<>> /\ rstk = <<>> /\ rarg = <<>>

\* "call:c2" -> <<"call", 2>>
Kind(lbl) == IF Len(lbl) > 5 /\ SubSeq(lbl, 1, 5) = "call:" THEN "call"
             ELSE IF Len(lbl) > 6 /\ SubSeq(lbl, 1, 6) = "grant:" THEN "grant" ELSE "?"
Digit(c) == CASE c = "1" -> 1 [] c = "2" -> 2 [] c = "3" -> 3 [] c = "4" -> 4 [] c = "5" -> 5 [] c = "6" -> 6 [] OTHER -> 0
Proc(lbl) == Digit(SubSeq(lbl, Len(lbl), Len(lbl)))

\* what the ghost sequential stack answers to a Pop now
GhostPop == IF gstk = <<>> THEN 0 ELSE Head(gstk)

CanAct(k, p) ==
    /\ p \in Procs
    /\ ~Silent          \* at a step boundary nobody is between two park points
    /\ CASE k = "call" -> pc[p] = "idle" /\ ~Done(p)
         [] k = "grant" -> pc[p] = "cas"
         [] OTHER -> FALSE

\* An action A of process p of the spec + the ghost answer of the call if A makes it return
\* (ip[p] advances): the answer of the ghost stack in the state in which A is taken.
Ans(p, A) ==
    /\ A
    /\ gans' = IF ip'[p] # ip[p]
               THEN (CurId(p) :> (IF Op(p).op = "pop" THEN GhostPop ELSE 0)) @@ gans
               ELSE gans
    /\ UNCHANGED <<l, drift, live, rstk, rarg>>

Act(k, p) ==
    CASE k = "call" -> Ans(p, Call(p))
      [] k = "grant" -> Ans(p, CAS(p))

\* one eager local step (Load, Link) of the process that is between two park points, or nothing
S ==
    IF Silent
    THEN LET p == CHOOSE q \in Procs : pc[q] \in {"load", "link"} IN Ans(p, Load(p) \/ Link(p))
    ELSE UNCHANGED <<vars, tv>>

Fin == UNCHANGED <<vars, drift, live, gans, rstk, rarg>> /\ l' = l + 1

Drift(why) ==
    /\ drift' = Append(drift, [run |-> Trace[l].run, seq |-> Trace[l].seq, why |-> why])
    /\ live' = FALSE
    /\ l' = l + 1
    /\ UNCHANGED <<vars, gans, rstk, rarg>>

\* the spec's stack content (ghost stack and linked nodes) is the stack of the recorded returns
Consistent == gstk = rstk /\ Chain(top) = rstk /\ ~gbad
AllDone == \A p \in Procs : pc[p] = "idle" /\ Done(p)

IsInit(e) == e.actor = "ctl" /\ e.id >= 1 /\ e.id <= Len(InitStk)
IsDrain(e) == e.actor = "ctl" /\ e.id > 9000
ProcOf(id) == id \div 100
IdxOf(id) == id % 100
InProg(id) == ProcOf(id) \in Procs /\ IdxOf(id) \in 1..Len(Prog[ProcOf(id)])
ProgOp(id) == Prog[ProcOf(id)][IdxOf(id)]

Remember(e) == rarg' = (e.id :> [op |-> e.op, arg |-> e.arg]) @@ rarg

\* "call" event
OnCall(e) ==
    IF IsInit(e)
    THEN IF e.op = "push" /\ e.arg = InitStk[Len(InitStk) - e.id + 1] /\ e.id \notin DOMAIN rarg
         THEN Remember(e) /\ l' = l + 1 /\ UNCHANGED <<vars, drift, live, gans, rstk>>
         ELSE Drift("initial push differs from InitStk")
    ELSE IF IsDrain(e)
    THEN IF AllDone /\ Consistent /\ e.op = "pop" /\ e.id \notin DOMAIN rarg
         THEN Remember(e) /\ l' = l + 1 /\ UNCHANGED <<vars, drift, live, gans, rstk>>
         ELSE Drift("final drain: programs not finished in the spec or stack content differs")
    ELSE IF /\ e.id \notin DOMAIN rarg /\ InProg(e.id) /\ e.id \in used
            /\ e.actor = "c" \o ToString(ProcOf(e.id))
            /\ e.op = ProgOp(e.id).op /\ (e.op = "push" => e.arg = ProgOp(e.id).v /\ val[e.id] = e.arg)
         THEN Remember(e) /\ l' = l + 1 /\ UNCHANGED <<vars, drift, live, gans, rstk>>
         ELSE Drift("call not issued by the spec in this step")

\* the recorded sequential stack after a recorded return
RPush(v) == <<v>> \o rstk
RPopOK(res) == IF res = 0 THEN TRUE ELSE rstk # <<>> /\ Head(rstk) = res
RPop(res) == IF res = 0 THEN rstk ELSE Tail(rstk)

\* "ret" event
OnRet(e) ==
    IF e.id \notin DOMAIN rarg \/ rarg[e.id].op # e.op THEN Drift("return without a recorded call")
    ELSE IF IsInit(e)
    THEN rstk' = RPush(rarg[e.id].arg) /\ l' = l + 1 /\ UNCHANGED <<vars, drift, live, gans, rarg>>
    ELSE IF IsDrain(e)
    THEN \* sequential Pop by the controller: applied to the spec's stack
         IF e.res = GhostPop /\ e.res = (IF top = 0 THEN 0 ELSE val[top]) /\ RPopOK(e.res)
         THEN /\ top' = IF top = 0 THEN 0 ELSE nxt[top]
              /\ gstk' = IF gstk = <<>> THEN gstk ELSE Tail(gstk)
              /\ rstk' = RPop(e.res)
              /\ l' = l + 1
              /\ UNCHANGED <<nxt, val, pc, ip, old, lnk, gbad, pvars, drift, live, gans, rarg>>
         ELSE Drift("final drain: Pop differs from the spec's stack")
    ELSE IF e.id \notin used \/ e.id \in open \/ e.id \notin DOMAIN gans
    THEN Drift("return not explained by the spec: the call has not returned there")
    ELSE IF gans[e.id] # e.res \/ gbad
    THEN Drift("return differs from the ghost answer")
    ELSE IF e.op = "pop" /\ ~RPopOK(e.res)
    THEN Drift("returned value is not the top of the recorded stack")
    ELSE /\ rstk' = IF e.op = "push" THEN RPush(rarg[e.id].arg) ELSE RPop(e.res)
         /\ l' = l + 1
         /\ UNCHANGED <<vars, drift, live, gans, rarg>>

TStep ==
    /\ l <= Len(Trace)
    /\ LET e == Trace[l] IN
       CASE e.ev = "reset" -> /\ XReset /\ l' = l + 1 /\ live' = TRUE /\ UNCHANGED drift
                              /\ gans' = <<>> /\ rstk' = <<>> /\ rarg' = <<>>
         [] ~live -> UNCHANGED <<vars, drift, live, gans, rstk, rarg>> /\ l' = l + 1
         [] e.ev = "start" ->
              IF e.kind = "lifo" /\ e.mode = "m1" THEN Fin ELSE Drift("not a controlled AtomicLIFO execution")
         [] e.ev = "step" ->
              LET k == Kind(e.label) p == Proc(e.label) IN
              IF ~Consistent THEN Drift("stack content differs from the recorded returns")
              ELSE IF CanAct(k, p) THEN Act(k, p) \cdot S \cdot S \cdot Fin
              ELSE Drift("step not enabled: " \o e.label)
         [] e.ev = "call" -> OnCall(e)
         [] e.ev = "ret" -> OnRet(e)
         [] e.ev = "drained" ->
              IF ~e.complete \/ ~e.empty THEN Drift("execution did not complete")
              ELSE IF AllDone /\ Consistent /\ gstk = <<>> /\ top = 0 /\ open = {} THEN Fin
              ELSE Drift("end of the execution: the spec's stack is not empty or a call is open")
         [] e.ev \in {"panic", "spin", "leak"} -> Drift("not a behaviour of the spec: " \o e.ev)
         [] e.ev = "teardown" -> UNCHANGED <<vars, drift, gans, rstk, rarg>> /\ live' = FALSE /\ l' = l + 1
         [] OTHER -> Fin

TFinish ==
    /\ l = Len(Trace) + 1
    /\ JsonSerialize(IOEnv.VERDICT_FILE, [drift |-> drift, consumed |-> Len(Trace), total |-> Len(Trace)])
    /\ l' = l + 1
    /\ UNCHANGED <<vars, drift, live, gans, rstk, rarg>>

TNext == TStep \/ TFinish
=============================================================================
