------------------------------- MODULE DequeP -------------------------------
(* Property monitor for linkedlist.LinkedList (C12): linearizability w.r.t. a sequential     *)
(* double-ended queue + conservation.  Same construction as LifoP (read its header first):   *)
(* a deterministic set-of-configurations linearizability checker with just-in-time Lin       *)
(* steps.                                                                                    *)
(*                                                                                          *)
(* Sequential deque `s` (head first; head = least recently Push-ed):                         *)
(*   push(v)      append v at the tail                          -> (0, TRUE)                 *)
(*   pushfront(v) insert v at the head                          -> (0, TRUE)                 *)
(*   pop          remove the head                               -> (head, TRUE) | (0, FALSE) *)
(*   peek         look at the head                              -> (head, TRUE) | (0, FALSE) *)
(*   peektail     look at the tail                              -> (tail, TRUE) | (0, FALSE) *)
(*   isempty                                                    -> (1, TRUE) if empty else (0, TRUE) *)
(*   reset        drop everything                               -> (0, TRUE)                 *)
(* A result is the pair (res, ok): ok is the `bool` of the Go API for pop/peek/peektail      *)
(* (TRUE for the others), res the value (the zero value 0 when ok is FALSE).                 *)
(* The harness pushes pairwise distinct values >= 1.                                         *)
(*                                                                                          *)
(* Conservation: Dup (a Pop returned a value an earlier Pop returned), Phantom (pop / peek / *)
(* peektail returned a value no Push/PushFront call has been given so far), Lost (run        *)
(* complete, no Reset was ever called, drained by sequential Pops until (_, FALSE), and a    *)
(* pushed value was never popped).  With a Reset in the history elements may legitimately    *)
(* disappear; which ones is decided by the linearization, so only NotLinearizable speaks.    *)
EXTENDS Integers, FiniteSets, Sequences, TLC

VARIABLES
    cfgs,     \* set of configurations [s, p] consistent with the history so far
    pushedV,  \* values given to push/pushfront calls so far
    poppedV,  \* values returned by successful Pops so far
    open,     \* ids of calls that have not returned
    used,     \* ids of all calls so far
    resets,   \* number of reset calls so far
    bad

pvars == <<cfgs, pushedV, poppedV, open, used, resets, bad>>

EmptyCfg == [s |-> <<>>, p |-> <<>>]

\* Guard against a blow-up of the configuration set (many concurrent pushes whose order nothing
\* has observed yet): beyond MaxCfgs configurations the run is given up -- condition "Overflow",
\* which is not a verdict -- and linearizability is no longer tracked until the next reset (the
\* conservation conditions still are).  The harness bounds the pushes per concurrent history so
\* that this does not happen.
MaxCfgs == 4000
Ovf == "Overflow" \in bad
Ops == {"push", "pushfront", "pop", "peek", "peektail", "isempty", "reset"}

PInit ==
    /\ cfgs = {EmptyCfg}
    /\ pushedV = {} /\ poppedV = {} /\ open = {} /\ used = {} /\ resets = 0 /\ bad = {}

PReset ==
    /\ cfgs' = {EmptyCfg}
    /\ pushedV' = {} /\ poppedV' = {} /\ open' = {} /\ used' = {} /\ resets' = 0 /\ bad' = {}

-----------------------------------------------------------------------------
(* The sequential specification and the Lin step *)

Unlin(c) == {j \in DOMAIN c.p : ~c.p[j].lin}

\* <<new deque, res, ok>> of applying operation o to deque s
SeqApply(s, o) ==
    CASE o.op = "push"      -> <<Append(s, o.arg), 0, TRUE>>
      [] o.op = "pushfront" -> <<(<<o.arg>> \o s), 0, TRUE>>
      [] o.op = "pop"       -> IF s = <<>> THEN <<s, 0, FALSE>> ELSE <<Tail(s), Head(s), TRUE>>
      [] o.op = "peek"      -> IF s = <<>> THEN <<s, 0, FALSE>> ELSE <<s, Head(s), TRUE>>
      [] o.op = "peektail"  -> IF s = <<>> THEN <<s, 0, FALSE>> ELSE <<s, s[Len(s)], TRUE>>
      [] o.op = "isempty"   -> <<s, IF s = <<>> THEN 1 ELSE 0, TRUE>>
      [] o.op = "reset"     -> << <<>>, 0, TRUE>>

LinOne(c, j) ==
    LET r == SeqApply(c.s, c.p[j]) IN
    [s |-> r[1], p |-> [c.p EXCEPT ![j] = [@ EXCEPT !.lin = TRUE, !.res = r[2], !.ok = r[3]]]]

RECURSIVE LinUpTo(_, _)
LinUpTo(c, i) ==
    {LinOne(c, i)} \cup UNION {LinUpTo(LinOne(c, j), i) : j \in Unlin(c) \ {i}}

Drop(c, i) == [s |-> c.s, p |-> [j \in DOMAIN c.p \ {i} |-> c.p[j]]]

RetCfgs(c, i, res, ok) ==
    LET cs == IF c.p[i].lin THEN {c} ELSE LinUpTo(c, i)
    IN {Drop(d, i) : d \in {d \in cs : d.p[i].res = res /\ d.p[i].ok = ok}}

-----------------------------------------------------------------------------
(* Events *)

PStart(kind) ==
    /\ bad' = bad \cup (IF kind = "deque" THEN {} ELSE {"Harness"})
    /\ UNCHANGED <<cfgs, pushedV, poppedV, open, used, resets>>

PCall(i, op, arg) ==
    LET isPush == op \in {"push", "pushfront"}
        good == i \notin used /\ op \in Ops /\ (isPush => arg >= 1 /\ arg \notin pushedV)
    IN
    /\ bad' = bad \cup (IF good THEN {} ELSE {"Harness"})
    /\ IF good
       THEN /\ cfgs' = IF Ovf THEN cfgs ELSE
                      {[s |-> c.s, p |-> (i :> [op |-> op, arg |-> arg, lin |-> FALSE, res |-> 0, ok |-> TRUE]) @@ c.p] : c \in cfgs}
            /\ open' = open \cup {i}
            /\ used' = used \cup {i}
            /\ pushedV' = IF isPush THEN pushedV \cup {arg} ELSE pushedV
            /\ resets' = IF op = "reset" THEN resets + 1 ELSE resets
       ELSE UNCHANGED <<cfgs, open, used, pushedV, resets>>
    /\ UNCHANGED poppedV

PRet(i, op, res, ok) ==
    IF i \notin open
    THEN /\ bad' = bad \cup {"Harness"}
         /\ UNCHANGED <<cfgs, pushedV, poppedV, open, used, resets>>
    ELSE
    LET gotVal == op \in {"pop", "peek", "peektail"} /\ ok
        nc == IF Ovf THEN cfgs ELSE UNION {RetCfgs(c, i, res, ok) : c \in cfgs}
        big == Cardinality(nc) > MaxCfgs
    IN
    /\ cfgs' = IF big THEN {EmptyCfg} ELSE nc
    /\ open' = open \ {i}
    /\ poppedV' = IF op = "pop" /\ ok THEN poppedV \cup {res} ELSE poppedV
    /\ bad' = bad
        \cup (IF op = "pop" /\ ok /\ res \in poppedV THEN {"Dup"} ELSE {})
        \cup (IF gotVal /\ res \notin pushedV THEN {"Phantom"} ELSE {})
        \cup (IF big THEN {"Overflow"} ELSE {})
    /\ UNCHANGED <<pushedV, used, resets>>

\* A library call panicked (it never returns; whether it took effect is left open).  No
\* sequential history contains a panicking operation.
PPanic(i) ==
    /\ bad' = bad \cup {"Panic"}
    /\ open' = open \ {i}
    /\ UNCHANGED <<cfgs, pushedV, poppedV, used, resets>>

PDrained(complete, empty) ==
    /\ bad' = bad
        \cup (IF complete /\ open # {} THEN {"Harness"} ELSE {})
        \cup (IF ~complete \/ ~empty THEN {"Incomplete"} ELSE {})
        \cup (IF complete /\ empty /\ open = {} /\ resets = 0 /\ pushedV # poppedV THEN {"Lost"} ELSE {})
    /\ UNCHANGED <<cfgs, pushedV, poppedV, open, used, resets>>

-----------------------------------------------------------------------------
Linearizable == cfgs # {}

Safe_C12 == Linearizable /\ bad \cap {"Dup", "Phantom", "Lost", "Panic"} = {}
NoHarnessError == bad \cap {"Harness", "Incomplete", "Overflow"} = {}

Violated == (IF Linearizable THEN {} ELSE {"NotLinearizable"}) \cup bad

PropertyOf == [NotLinearizable |-> "C12", Dup |-> "C12", Phantom |-> "C12", Lost |-> "C12", Panic |-> "C12",
               Harness |-> "HARNESS", Incomplete |-> "HARNESS", Overflow |-> "HARNESS", Unexplained |-> "HARNESS"]
=============================================================================
