---------------------------- MODULE KeyedPTrace ----------------------------
(* Replays an ndjson trace recorded from the real keyed code through the KeyedP monitor.     *)
(* Deterministic: one state per event.                                                       *)
EXTENDS KeyedP, TraceLib

VARIABLES l, viol, seen
tvars == <<l, viol, seen>>

TInit == PInit /\ l = 1 /\ viol = <<>> /\ seen = {}

Fresh == Violated \ seen
Recorded ==
    IF l > 1 /\ Fresh # {}
    THEN Append(viol, [run |-> Trace[l-1].run, seq |-> Trace[l-1].seq, names |-> Fresh, l |-> l - 1])
    ELSE viol

\* JSON arrays -> sets
Norm(e) == [op |-> e.op, k |-> e.k, s |-> e.s, r |-> e.r, ref |-> e.ref, c |-> e.c,
            data |-> e.data, existed |-> e.existed,
            ks |-> SeqToSet(e.ks), added |-> SeqToSet(e.added), removed |-> SeqToSet(e.removed),
            keys |-> SeqToSet(e.keys), nkeys |-> e.nkeys,
            kd |-> {<<e.kd[i][1], e.kd[i][2]>> : i \in 1..Len(e.kd)}]

Apply(e) ==
    CASE e.ev = "reset"    -> PReset
      [] e.ev = "config"   -> ps' = Cfg5(ps, e.seqmode, e.delay, e.retry, e.rc, IF "boexp" \in DOMAIN e THEN e.boexp ELSE FALSE)
      [] e.ev = "ctor"     -> ps' = Ctor(ps, e.k, e.tok)
      [] e.ev = "api"      -> ps' = Api(ps, Norm(e))
      [] e.ev = "snap"     -> ps' = Snap(ps, SeqToSet(e.keys), SeqToSet(e.active), SeqToSet(e.live))
      [] e.ev = "enter"    -> ps' = Enter(ps, e.inst, e.k, e.tok, e.dead)
      [] e.ev = "leave"    -> ps' = Leave(ps, e.inst, e.out, e.dead)
      [] e.ev = "tick"     -> ps' = Tick(ps, e.d)
      [] e.ev = "ctxcancel" -> ps' = CtxCancel(ps, e.c)
      [] e.ev = "quiet"    -> ps' = Quiet(ps)
      [] e.ev = "teardown" -> ps' = Teardown(ps)
      [] e.ev = "rcburst"  -> ps' = Teardown(ps)     \* free-running burst: only the final observation is judged
      [] e.ev = "rcfinal"  -> ps' = RcFinal(ps, SeqToSet(e.held), SeqToSet(e.keys))
      [] e.ev \in {"leak", "note", "end", "spin", "bo"} -> UNCHANGED ps
      [] OTHER             -> ps' = [ps EXCEPT !.bad = @ \cup {"Unexplained"}]

TStep ==
    /\ l <= Len(Trace)
    /\ viol' = Recorded
    /\ seen' = IF Trace[l].ev = "reset" THEN {} ELSE seen \cup Violated
    /\ Apply(Trace[l])
    /\ l' = l + 1

TFinish ==
    /\ l = Len(Trace) + 1
    /\ viol' = Recorded
    /\ WriteVerdict(viol', Len(Trace))
    /\ l' = l + 1
    /\ UNCHANGED <<pvars, seen>>

TNext == TStep \/ TFinish
=============================================================================
