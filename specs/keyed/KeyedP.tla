------------------------------- MODULE KeyedP -------------------------------
(* Property monitor for keyed.Keyed / keyed.KeyedRefCount (C06, C07).                        *)
(*                                                                                          *)
(* The whole monitor state is ONE record `ps`; every observable event is a pure operator     *)
(* state -> state.  (An API call is one critical section that produces several events -      *)
(* constructor calls, the result, a snapshot - so the X spec must be able to compose event   *)
(* operators inside one action; with record-valued state that is function composition.)      *)
(* Keyed.tla fires these operators at its API-visible actions, KeyedPTrace.tla fires them    *)
(* from events recorded from the real code.                                                  *)
(*                                                                                          *)
(* C06 part: a deterministic reference model of the key set (judged only in sequential       *)
(* histories, cfg.seq: the library is settled after every call and time is observed away     *)
(* from deadlines).  C07 part: per-key instance bookkeeping from enter/leave/snapshot events.*)
(*                                                                                          *)
(* Interpretation notes (weaker readings taken, see DESIGN §3 C06/C07):                      *)
(*  * "routine has failed" is observational: the last run of the key's routine that          *)
(*    returned with a live context returned an error and no later run has been entered.      *)
(*  * a key whose routine fails WHILE its delayed removal is pending is `fuzzy` until the     *)
(*    deadline has passed or it is requested again: the statement does not say whether it    *)
(*    stays, so nothing about that key is judged meanwhile.                                  *)
(*  * ResetRoutine is not an operation of C06: a reset of a key with a pending removal       *)
(*    (O4) switches the C06 judgement off for the rest of the execution.                     *)
(*  * membership epochs of C07 come from the OBSERVED key set (snapshot after every step),   *)
(*    so overlap is only claimed for two instances of one uninterrupted membership.          *)
(*  * an instance that enters its function with an already cancelled context is not          *)
(*    "started again" (but it does count for overlap).                                       *)
(*  * the retry obligation is dropped by every restarting call, by every SetContext/         *)
(*    ClearContext and when the key leaves the set; its deadline counts from the first       *)
(*    quiescent point after the failing return (never earlier than the real timer).          *)
EXTENDS Integers, FiniteSets, Sequences, TLC

VARIABLE ps
pvars == <<ps>>

BackoffUnit == 10
BackoffMax == 80

Drop(f, S)   == [x \in DOMAIN f \ S |-> f[x]]
Put(f, k, v) == (k :> v) @@ f
Flag(s, holds, name) == IF holds THEN s ELSE [s EXCEPT !.bad = @ \cup {name}]

P0 == [cfg    |-> [seq |-> FALSE, delay |-> 0, retry |-> FALSE, rc |-> FALSE],
       off    |-> FALSE,   \* teardown reached: nothing is judged any more
       c06    |-> TRUE,    \* C06 reference model still applicable
       now    |-> 0,
       pctx   |-> 0,       \* tag of the context last set (0: none)
       \* ---- C06 reference model
       pres   |-> <<>>,    \* key -> data token of the entry
       pend   |-> <<>>,    \* key -> deadline of the pending delayed removal
       pmax   |-> <<>>,    \* key -> latest possible deadline, if it was removed AGAIN while pending
       failed |-> {},      \* keys whose routine has failed (see above)
       fuzzy  |-> {},      \* keys about which nothing is judged
       deadctx |-> {},     \* contexts the application has cancelled itself (event "ctxcancel")
       refs   |-> <<>>,    \* unreleased reference id -> key
       newTok |-> <<>>,    \* key -> token of the constructor call made during the current API call
       \* ---- C07
       kset   |-> {},      \* key set as last observed
       epoch  |-> <<>>,    \* key -> number of times it was observed leaving the set
       tokEp  |-> <<>>,    \* constructor token -> [k, ep] membership it was made in
       act    |-> <<>>,    \* active instance -> [k, ep]
       mustDie|-> {},      \* instances that must be cancelled in the next snapshot
       retry  |-> <<>>,    \* key -> deadline of the owed re-run (-1, -2: not yet fixed)
       boexp  |-> FALSE, fresh |-> {},   \* see Cfg5
       want   |-> {},      \* keys requested (SetKey / SyncKeys) and not removed since: they must stay present
                           \* whatever timers fire meanwhile (judged in every mode; not with reference counting)
       bad    |-> {}]

PInit  == ps = P0
PReset == ps' = P0

Ep(s, k) == IF k \in DOMAIN s.epoch THEN s.epoch[k] ELSE 0
Present(s) == DOMAIN s.pres
Judge06(s) == s.cfg.seq /\ s.c06 /\ ~s.off

-----------------------------------------------------------------------------
(* C06 reference model.  e is a normalised API event: ks, added, removed, keys are SETS,      *)
(* kd is a set of <<key, data>> pairs, nkeys the length of the reported key list.            *)

\* RemoveKey semantics for the keys of S that are present and not already pending
\* (a second removal of a key whose removal is pending: the statement does not say from which
\* removal the delay counts, so the key is fuzzy between the two possible deadlines)
RmSet(s, S) ==
    LET todo == {k \in S \cap Present(s) : k \notin DOMAIN s.pend}
        imm  == {k \in todo : s.cfg.delay = 0 \/ k \in s.failed}
        del  == todo \ imm
        again == S \cap DOMAIN s.pend
    IN [s EXCEPT !.pres = Drop(@, imm), !.failed = @ \ imm, !.fuzzy = @ \ imm,
                 !.pend = [k \in del |-> s.now + s.cfg.delay] @@ @,
                 !.pmax = [k \in again |-> s.now + s.cfg.delay] @@ @]

\* the entry of k after a request (SetKey / AddKeyRef / SyncKeys member)
TokAfter(s, k) ==
    IF k \in s.fuzzy /\ k \in DOMAIN s.newTok THEN s.newTok[k]
    ELSE IF k \in Present(s) THEN s.pres[k]
    ELSE IF k \in DOMAIN s.newTok THEN s.newTok[k] ELSE 0

Request(s, K) ==
    [s EXCEPT !.pres = [k \in K |-> TokAfter(s, k)] @@ @, !.pend = Drop(@, K), !.pmax = Drop(@, K), !.fuzzy = @ \ K]

M_SetKey(s, e, name) ==
    LET k == e.k
        ok == k \in s.fuzzy \/ (e.existed = (k \in Present(s)) /\ e.data = TokAfter(s, k) /\ e.data # 0)
    IN Flag(Request(s, {k}), ok, name)

M_RemoveKey(s, e, name) ==
    Flag(RmSet(s, {e.k}), e.k \in s.fuzzy \/ e.existed = (e.k \in Present(s)), name)

M_SyncKeys(s, e) ==
    LET add == e.ks \ Present(s)
        rem == Present(s) \ e.ks
        ok  == /\ e.added \ s.fuzzy = add \ s.fuzzy
               /\ e.removed \ s.fuzzy = rem \ s.fuzzy
               /\ \A k \in add : k \in DOMAIN s.newTok
    IN Flag(RmSet(Request(s, e.ks), rem), ok, "SyncKeysResult")

M_GetKey(s, e) ==
    LET was == e.k \in Present(s)
    IN Flag(s, e.k \in s.fuzzy \/ (e.existed = was /\ e.data = (IF was THEN s.pres[e.k] ELSE 0)), "GetKeyResult")

M_GetKeys(s, e) ==
    Flag(s, e.keys \ s.fuzzy = Present(s) \ s.fuzzy /\ e.nkeys = Cardinality(e.keys), "GetKeysResult")

M_GetKeysData(s, e) ==
    LET exp == {<<k, s.pres[k]>> : k \in Present(s) \ s.fuzzy}
        got == {p \in e.kd : p[1] \notin s.fuzzy}
    IN Flag(s, got = exp /\ e.nkeys = Cardinality(e.kd), "GetKeysDataResult")

M_AddRef(s, e) ==
    LET s1 == M_SetKey(s, e, "AddKeyRefResult") IN [s1 EXCEPT !.refs = Put(@, e.ref, e.k)]

M_Release(s, e) ==
    IF e.ref \notin DOMAIN s.refs THEN s      \* second release / released by RemoveKey: no-op
    ELSE LET k == s.refs[e.ref]
             r2 == Drop(s.refs, {e.ref})
             s1 == [s EXCEPT !.refs = r2]
         IN IF \E j \in DOMAIN r2 : r2[j] = k THEN s1 ELSE RmSet(s1, {k})

M_RcRemove(s, e) ==
    LET s1 == [s EXCEPT !.refs = Drop(@, {j \in DOMAIN @ : @[j] = e.k})]
    IN M_RemoveKey(s1, e, "RcRemoveKeyResult")

\* ResetRoutine: the data of a present key is replaced; on a key pending removal see O4
M_Reset(s, e) ==
    IF e.k \in DOMAIN s.pend THEN [s EXCEPT !.c06 = FALSE]
    ELSE IF e.k \in Present(s) /\ e.k \in DOMAIN s.newTok
         THEN [s EXCEPT !.pres[e.k] = s.newTok[e.k], !.failed = @ \ {e.k}] ELSE s

Model06(s, e) ==
    CASE e.op = "setkey"      -> M_SetKey(s, e, "SetKeyResult")
      [] e.op = "removekey"   -> M_RemoveKey(s, e, "RemoveKeyResult")
      [] e.op = "synckeys"    -> M_SyncKeys(s, e)
      [] e.op = "getkey"      -> M_GetKey(s, e)
      [] e.op = "getkeys"     -> M_GetKeys(s, e)
      [] e.op = "getkeysdata" -> M_GetKeysData(s, e)
      [] e.op = "addref"      -> M_AddRef(s, e)
      [] e.op = "release"     -> M_Release(s, e)
      [] e.op = "rcremove"    -> M_RcRemove(s, e)
      [] e.op = "reset"       -> M_Reset(s, e)
      [] OTHER                -> s

-----------------------------------------------------------------------------
(* Events *)

\* boexp: the retry backoff is the library's own exponential one (WithRetry: 10, 20, 40, 80, 80, ...; one
\* object per key, constructed with the key's routine) instead of the harness's constant one.  Only the
\* first failure after a key's routine was constructed has a sharp deadline then (10); later ones are
\* bounded by the maximal interval (which failures advanced the sequence is not always decidable).
Cfg5(s, seq, delay, retry, rc, boexp) ==
    [s EXCEPT !.cfg = [seq |-> seq, delay |-> delay, retry |-> retry, rc |-> rc], !.boexp = boexp]
Cfg(s, seq, delay, retry, rc) == Cfg5(s, seq, delay, retry, rc, FALSE)

\* the harness-owned constructor was called for key k and returned data token tok
Ctor(s, k, tok) ==
    [s EXCEPT !.newTok = Put(@, k, tok), !.tokEp = Put(@, tok, [k |-> k, ep |-> Ep(s, k)]),
              \* (once a context has been cancelled in place a start may fail without entering the routine and
              \* consume a backoff interval unseen: no key counts as fresh any more)
              !.fresh = IF s.deadctx = {} THEN @ \cup {k} ELSE @]

\* keys on which the call restarts a failed routine (the retry obligation is dropped)
Restarts(e) ==
    CASE e.op \in {"addref", "restart", "reset"}  -> {e.k}
      [] e.op = "setkey"   -> IF e.s THEN {e.k} ELSE {}
      [] e.op = "synckeys" -> IF e.r THEN e.ks ELSE {}
      [] OTHER             -> {}

Api07(s, e) ==
    IF e.op \in {"setctx", "clearctx"}
    THEN [s EXCEPT !.pctx = e.c, !.retry = <<>>,
                   !.mustDie = IF e.c = 0 THEN DOMAIN s.act ELSE @]
    ELSE [s EXCEPT !.retry = Drop(@, Restarts(e))]

\* C06 "kept for good if it is requested again": order-insensitive part of the key-set claim, judged
\* also when timer callbacks and API calls interleave (a SetKey landing while a fired removal
\* timer's callback is pending must still keep the key)
Want(s, e) ==
    IF s.cfg.rc THEN s
    ELSE CASE e.op = "setkey"    -> [s EXCEPT !.want = @ \cup {e.k}]
           [] e.op = "removekey" -> [s EXCEPT !.want = @ \ {e.k}]
           [] e.op = "synckeys"  -> [s EXCEPT !.want = e.ks]
           [] OTHER              -> s

Api(s, e) ==
    IF s.off THEN s
    ELSE LET s1 == IF Judge06(s) THEN Model06(s, e) ELSE s
         IN [Api07(Want(s1, e), e) EXCEPT !.newTok = <<>>]

\* observed after a step: key set, instances inside the function, those with a live context
Snap(s, keys, active, live) ==
    IF s.off THEN s
    ELSE LET gone == s.kset \ keys
             s1 == Flag(s, ~\E i \in DOMAIN s.act : i \in live /\ s.act[i].k \in gone, "LiveAfterRemove")
             s2 == Flag(s1, s.mustDie \cap live = {}, "LiveAfterClear")
             s3a == Flag(s2, active = DOMAIN s.act, "Harness")
             s3 == Flag(s3a, s.want \subseteq keys, "WantedKeyLost")
         IN [s3 EXCEPT !.kset = keys, !.mustDie = {}, !.retry = Drop(@, gone),
                       !.epoch = [k \in gone |-> Ep(s, k) + 1] @@ @]

Enter(s, i, k, tok, dead) ==
    IF s.off THEN s
    ELSE LET known == tok \in DOMAIN s.tokEp
             ep == IF known THEN s.tokEp[tok].ep ELSE -1
             s1 == Flag(s, known /\ i \notin DOMAIN s.act, "Harness")
             s2 == Flag(s1, ~\E j \in DOMAIN s.act : s.act[j].k = k /\ s.act[j].ep = ep, "Overlap")
             s3 == Flag(s2, dead \/ ~known \/ ep = Ep(s, k), "StartedAfterRemove")
             s4 == Flag(s3, dead \/ s.pctx # 0, "StartedAfterClear")
         IN [s4 EXCEPT !.act = Put(@, i, [k |-> k, ep |-> ep]),
                       !.failed = IF dead THEN @ ELSE @ \ {k},
                       !.retry = Drop(@, {k})]

Leave(s, i, out, dead) ==
    IF s.off THEN s
    ELSE IF i \notin DOMAIN s.act THEN Flag(s, FALSE, "Harness")
    ELSE LET k == s.act[i].k
             cur == s.act[i].ep = Ep(s, k) /\ k \in s.kset
             fail == out = "err" /\ ~dead
             s1 == [s EXCEPT !.act = Drop(@, {i}), !.mustDie = @ \ {i}]
             s2 == IF fail /\ k \in Present(s1)
                   THEN [s1 EXCEPT !.failed = @ \cup {k},
                                   !.fuzzy = IF k \in DOMAIN s1.pend THEN @ \cup {k} ELSE @]
                   ELSE s1
             \* -1: deadline = next quiescent point + BackoffUnit; -2: + BackoffMax (see Cfg5)
             s3 == IF fail THEN [s2 EXCEPT !.fresh = @ \ {k}] ELSE s2
         IN IF fail /\ s.cfg.retry /\ cur /\ s.pctx # 0 /\ s.pctx \notin s.deadctx
            THEN [s3 EXCEPT !.retry = Put(@, k, IF s.boexp /\ k \notin s.fresh THEN -2 ELSE -1)] ELSE s3

\* The application cancels context c itself.  The container keeps c if it is its context, but a re-run
\* under a context that has ended never enters the routine function: retries owed under it cannot be
\* observed any more and are not demanded.
CtxCancel(s, c) ==
    IF s.off THEN s
    ELSE [s EXCEPT !.deadctx = @ \cup {c}, !.retry = IF c = s.pctx THEN <<>> ELSE @, !.fresh = {}]

Tick(s, d) ==
    LET t == s.now + d
        due == {k \in DOMAIN s.pend : s.pend[k] < t}
        fz  == {k \in due : k \in DOMAIN s.pmax /\ ~(s.pmax[k] < t)}
        exp == due \ fz
    IN [s EXCEPT !.now = t, !.pres = Drop(@, exp), !.pend = Drop(@, exp), !.pmax = Drop(@, exp),
                 !.failed = @ \ exp, !.fuzzy = (@ \ exp) \cup fz]

\* no library step is possible (nothing parked at a hook, no timer callback pending)
Quiet(s) ==
    IF s.off THEN s
    ELSE LET late == {k \in DOMAIN s.retry : s.retry[k] >= 0 /\ s.now > s.retry[k]}
             s1 == Flag(s, late = {}, "RetryLost")
         IN [s1 EXCEPT !.retry = [k \in DOMAIN @ \ late |-> IF @[k] = -1 THEN s.now + BackoffUnit
                                                         ELSE IF @[k] = -2 THEN s.now + BackoffMax ELSE @[k]]]

Teardown(s) == [s EXCEPT !.off = TRUE]

\* after a free-running burst of AddKeyRef / Release calls (mode M2), at exact quiescence: every key
\* for which some reference was never released is present (C06: "a reference-counted key is present
\* while at least one unreleased reference exists") -- order-insensitive, judged once
RcFinal(s, held, keys) == Flag(s, held \subseteq keys, "RefKeyLost")

-----------------------------------------------------------------------------
C06Names == {"WantedKeyLost", "RefKeyLost", "SetKeyResult", "RemoveKeyResult", "SyncKeysResult", "GetKeyResult", "GetKeysResult",
             "GetKeysDataResult", "AddKeyRefResult", "RcRemoveKeyResult"}
C07Names == {"Overlap", "LiveAfterRemove", "LiveAfterClear", "StartedAfterRemove", "StartedAfterClear", "RetryLost"}

Safe_C06 == ps.bad \cap C06Names = {}
Safe_C07 == ps.bad \cap C07Names = {}
NoHarnessError == "Harness" \notin ps.bad
Violated == ps.bad
=============================================================================
