-------------------------------- MODULE Keyed --------------------------------
(* Implementation-shaped specification of keyed.Keyed / keyed.KeyedRefCount                   *)
(* (keyed/keyed.go, keyed/routine.go, keyed/keyed-refcount.go).                               *)
(*                                                                                            *)
(* Every API method is ONE critical section (k.mtx; KeyedRefCount nests rc.mtx around it), so  *)
(* a call is one action Do(o), o an index into the operation alphabet of the scenario.         *)
(* Library steps: ExecStart (goroutine start of execute, up to its select / the routine       *)
(* body), ExecWake / ExecWakePred (select wake-ups), ExecBook (bookkeeping section after the   *)
(* routine returned), RemCb / RetCb (critical sections of the two timer callbacks).           *)
(* Environment: Do(o) (API calls, clock ticks, scripted outcomes in sequential mode),         *)
(* InstReturn (a routine body returns: ok / err at any time, ctxret once cancelled -          *)
(* unbounded exit latency).                                                                   *)
(*                                                                                            *)
(* The library state is one record L so that the code's helper functions (start, remove,      *)
(* removeNow ...) can be written as functions L -> L and composed inside one action.          *)
(* The code as it is at the pinned commit is modelled with all Fix* constants FALSE:          *)
(*   FixF3  execute(): a cancelled successor still waits for its predecessor                  *)
(*   FixF3b resetRoutineLocked keeps the predecessor's exited channel when ctx == nil         *)
(*   FixF6  SyncKeys cancels a pending delayed removal of a re-requested key                  *)
(*   FixF7  SetKey does not stop the retry timer                                              *)
EXTENDS KeyedP

CONSTANTS
    Alphabet,   \* sequence of [op, k, s, ks, r, ref, c, d, out]
    MaxOps,     \* number of Do steps
    NK,         \* keys 1..NK
    Delay,      \* release delay (0 | 10)
    Retry,      \* backoff configured
    RC,         \* KeyedRefCount
    SeqMode,    \* sequential histories: the library settles (deterministically) before the next Do
    Outs,       \* outcomes offered by InstReturn besides ctxret (m1 mode)
    MaxInst,    \* bound on execute goroutines per record
    MaxTok,     \* bound on constructor calls
    FixF3, FixF3b, FixF6, FixF7,
    Eager       \* select wake-ups first (controller granularity; graph dumps)

Keys    == 1..NK
Toks    == 1..MaxTok
InstIds == {t * 100 + n : t \in Toks, n \in 1..MaxInst}

VARIABLES L, nops
vars == <<L, nops, ps>>

NewRec(k) == [key |-> k, ctx |-> 0, canc |-> 0, exch |-> 0, err |-> FALSE, success |-> FALSE,
              exited |-> FALSE, dRem |-> FALSE, dRet |-> FALSE, n |-> 0]

L0 == [now |-> 0, kctx |-> 0, kmap |-> [k \in Keys |-> 0], recs |-> <<>>, inst |-> <<>>,
       timers |-> {}, refs |-> <<>>]

\* finished instances are dropped from L.inst: their context is cancelled, their channel closed
Canc(l, i)   == IF i \in DOMAIN l.inst THEN l.inst[i].canc ELSE TRUE
Closed(l, i) == IF i \in DOMAIN l.inst THEN l.inst[i].closed ELSE TRUE
CancelI(l, i) == IF i # 0 /\ i \in DOMAIN l.inst THEN [l EXCEPT !.inst[i].canc = TRUE] ELSE l
StopT(l, kind, t) == [l EXCEPT !.timers = {x \in @ : ~(x.kind = kind /\ x.tok = t /\ x.st = "armed")}]
Arm(l, kind, t, d) == [l EXCEPT !.timers = @ \cup {[kind |-> kind, tok |-> t, due |-> l.now + d, st |-> "armed"]}]

\* runningRoutine.start (routine.go:72-95)
Start(l, t, w, force) ==
    LET r == l.recs[t] IN
    IF ~force /\ r.success THEN l
    ELSE IF ~force /\ r.ctx # 0 /\ ~r.exited /\ ~Canc(l, r.ctx) THEN l
    ELSE LET i  == t * 100 + r.n + 1
             l1 == CancelI(StopT(l, "ret", t), r.canc)
             ni == [tok |-> t, key |-> r.key, wait |-> w, pc |-> "spawned", canc |-> FALSE,
                    closed |-> FALSE, res |-> "", tag |-> l.kctx]
         IN [l1 EXCEPT !.inst = (i :> ni) @@ @,
                       !.recs[t] = [r EXCEPT !.dRet = FALSE, !.err = FALSE, !.success = FALSE, !.exited = FALSE,
                                             !.exch = i, !.ctx = i, !.canc = i, !.n = @ + 1]]

\* removeNow / remove (routine.go:156-186)
RemoveNow(l, t) ==
    LET r == l.recs[t]
        l1 == StopT(CancelI(l, r.canc), "ret", t)
    IN [l1 EXCEPT !.recs[t].dRet = FALSE, !.kmap[r.key] = 0]

Remove(l, t) ==
    LET r == l.recs[t] IN
    IF r.dRem THEN l
    ELSE IF Delay = 0 \/ (r.exited /\ ~r.success) THEN RemoveNow(l, t)
    ELSE [Arm(l, "rem", t, Delay) EXCEPT !.recs[t].dRem = TRUE]

AddRec(l, k) == [l EXCEPT !.recs = Append(@, NewRec(k)), !.kmap[k] = Len(l.recs) + 1]

-----------------------------------------------------------------------------
(* The API methods as functions on L (each is one critical section). *)
Range(s) == {s[j] : j \in 1..Len(s)}
Pres(l) == {k \in Keys : l.kmap[k] # 0}
CancelRem(l, t) == [StopT(l, "rem", t) EXCEPT !.recs[t].dRem = FALSE]

\* Keyed.SetKey (keyed.go:156-183)
SetKeyL(l, k, s) ==
    LET t == l.kmap[k] IN
    IF t = 0
    THEN LET l1 == AddRec(l, k) IN IF l.kctx # 0 THEN Start(l1, Len(l1.recs), 0, FALSE) ELSE l1
    ELSE LET l1 == CancelRem(l, t)
             l2 == IF FixF7 THEN l1 ELSE [StopT(l1, "ret", t) EXCEPT !.recs[t].dRet = FALSE]
         IN IF s /\ l.kctx # 0 THEN Start(l2, t, l2.recs[t].exch, FALSE) ELSE l2

RemoveKeyL(l, k) == IF l.kmap[k] = 0 THEN l ELSE Remove(l, l.kmap[k])

\* Keyed.SyncKeys (keyed.go:200-237): first loop over the list, then removal of the others
RECURSIVE SyncAdd(_, _, _, _)
SyncAdd(l, ks, j, restart) ==
    IF j > Len(ks) THEN l
    ELSE LET k   == ks[j]
             dup == \E m \in 1..(j-1) : ks[m] = k
             t   == l.kmap[k]
             l1  == IF dup THEN l
                    ELSE IF t = 0 THEN AddRec(l, k)
                    ELSE IF FixF6 THEN CancelRem(l, t) ELSE l
             t1  == l1.kmap[k]
             l2  == IF ~dup /\ (t = 0 \/ restart) /\ l.kctx # 0
                    THEN Start(l1, t1, l1.recs[t1].exch, FALSE) ELSE l1
         IN SyncAdd(l2, ks, j + 1, restart)

RECURSIVE RemoveKeys(_, _)
RemoveKeys(l, S) ==
    IF S = {} THEN l
    ELSE LET k == CHOOSE x \in S : TRUE IN RemoveKeys(RemoveKeyL(l, k), S \ {k})

SyncKeysL(l, ks, restart) == RemoveKeys(SyncAdd(l, ks, 1, restart), Pres(l) \ Range(ks))

\* setContextLocked (keyed.go:89-111)
RECURSIVE SetCtxRecs(_, _, _, _, _)
SetCtxRecs(l, S, same, c, restart) ==
    IF S = {} THEN l
    ELSE LET k == CHOOSE x \in S : TRUE
             t == l.kmap[k]
             r == l.recs[t]
             l1 == [CancelI(l, r.canc) EXCEPT !.recs[t].ctx = 0, !.recs[t].canc = 0]
             l2 == IF (~r.err \/ restart) /\ c # 0 THEN Start(l1, t, r.exch, FALSE) ELSE l1
         IN SetCtxRecs(IF same /\ ~r.err THEN l ELSE l2, S \ {k}, same, c, restart)

SetCtxL(l, c, restart) ==
    LET same == l.kctx = c IN
    IF same /\ ~restart THEN l ELSE SetCtxRecs([l EXCEPT !.kctx = c], Pres(l), same, c, restart)

\* restartRoutineLocked (keyed.go:345-390, no conds)
RestartL(l, k) ==
    LET t == l.kmap[k] IN
    IF t = 0 \/ l.kctx = 0 THEN l
    ELSE LET r == l.recs[t]
             l1 == [CancelI(l, r.canc) EXCEPT !.recs[t].canc = 0]
         IN Start(l1, t, r.exch, TRUE)

\* resetRoutineLocked (keyed.go:291-327, no conds)
ResetL(l, k) ==
    LET t == l.kmap[k] IN
    IF t = 0 THEN l
    ELSE LET r  == l.recs[t]
             l1 == AddRec(CancelI(l, r.canc), k)
             t2 == Len(l1.recs)
         IN IF l.kctx # 0 THEN Start(l1, t2, r.exch, FALSE)
            ELSE IF FixF3b THEN [l1 EXCEPT !.recs[t2].exch = r.exch] ELSE l1

\* KeyedRefCount (keyed-refcount.go): refs[j] = [key, rel]
AddRefL(l, k) == [SetKeyL(l, k, TRUE) EXCEPT !.refs = Append(@, [key |-> k, rel |-> FALSE])]
ReleaseL(l, j) ==
    IF j < 1 \/ j > Len(l.refs) \/ l.refs[j].rel THEN l
    ELSE LET k  == l.refs[j].key
             l1 == [l EXCEPT !.refs[j].rel = TRUE]
         IN IF \E m \in 1..Len(l1.refs) : l1.refs[m].key = k /\ ~l1.refs[m].rel THEN l1 ELSE RemoveKeyL(l1, k)
RcRemoveL(l, k) ==
    RemoveKeyL([l EXCEPT !.refs = [m \in 1..Len(@) |-> IF @[m].key = k THEN [@[m] EXCEPT !.rel = TRUE] ELSE @[m]]], k)

\* clock tick: armed timers whose deadline has passed fire (their callbacks park before their lock)
TickL(l, d) ==
    [l EXCEPT !.now = @ + d,
              !.timers = {IF x.st = "armed" /\ x.due < l.now + d THEN [x EXCEPT !.st = "fired"] ELSE x : x \in @}]

-----------------------------------------------------------------------------
(* What the harness observes. *)
ActiveOf(l) == {i \in DOMAIN l.inst : l.inst[i].pc = "running"}
LiveOf(l)   == {i \in ActiveOf(l) : ~l.inst[i].canc}
Ready(l, i) == Closed(l, l.inst[i].wait) \/ l.inst[i].canc
WakeAny(l)  == \E i \in DOMAIN l.inst : \/ (l.inst[i].pc = "waiting" /\ Ready(l, i))
                                         \/ (l.inst[i].pc = "waitpred" /\ Closed(l, l.inst[i].wait))
LibBusy(l)  == \/ \E i \in DOMAIN l.inst : l.inst[i].pc \in {"spawned", "book"}
               \/ \E x \in l.timers : x.st = "fired"
\* sequential mode: a cancelled instance returns promptly (part of settling)
MustReturn(l) == {i \in ActiveOf(l) : l.inst[i].canc}

\* snapshot after every step; quiet when nothing is parked at a library hook
Obs(l, s) ==
    LET s1 == Snap(s, Pres(l), ActiveOf(l), LiveOf(l))
    IN IF LibBusy(l) \/ WakeAny(l) THEN s1 ELSE Quiet(s1)

RECURSIVE Ctors(_, _, _, _)
Ctors(s, l, a, b) == IF a > b THEN s ELSE Ctors(Ctor(s, l.recs[a].key, a), l, a + 1, b)

E0 == [op |-> "noop", k |-> 0, s |-> FALSE, r |-> FALSE, ref |-> 0, c |-> 0, data |-> 0, existed |-> FALSE,
       ks |-> {}, added |-> {}, removed |-> {}, keys |-> {}, nkeys |-> 0, kd |-> {}]

\* the api event of operation o executed in state l with result state l2
EvOf(o, l, l2) ==
    LET b == [E0 EXCEPT !.op = o.op, !.k = o.k, !.s = o.s, !.r = o.r, !.c = o.c, !.ks = Range(o.ks)]
        ex == o.k \in Keys /\ l.kmap[o.k] # 0
    IN CASE o.op \in {"setkey", "addref"} ->
                [b EXCEPT !.existed = ex, !.data = l2.kmap[o.k], !.ref = IF o.op = "addref" THEN Len(l2.refs) ELSE 0]
         [] o.op \in {"removekey", "rcremove", "restart", "reset"} -> [b EXCEPT !.existed = ex]
         [] o.op = "synckeys" -> [b EXCEPT !.added = Range(o.ks) \ Pres(l), !.removed = Pres(l) \ Range(o.ks)]
         [] o.op = "getkey"   -> [b EXCEPT !.existed = ex, !.data = l.kmap[o.k]]
         [] o.op = "getkeys"  -> [b EXCEPT !.keys = Pres(l), !.nkeys = Cardinality(Pres(l))]
         [] o.op = "getkeysdata" -> [b EXCEPT !.kd = {<<k, l.kmap[k]>> : k \in Pres(l)}, !.nkeys = Cardinality(Pres(l))]
         [] o.op = "release"  -> [b EXCEPT !.ref = o.ref, !.op = IF o.ref > Len(l.refs) THEN "noop" ELSE "release"]
         [] o.op = "clearctx" -> [b EXCEPT !.c = 0]
         [] OTHER -> b

ApplyOp(l, o) ==
    CASE o.op = "setkey"    -> SetKeyL(l, o.k, o.s)
      [] o.op = "removekey" -> RemoveKeyL(l, o.k)
      [] o.op = "synckeys"  -> SyncKeysL(l, o.ks, o.r)
      [] o.op = "addref"    -> AddRefL(l, o.k)
      [] o.op = "release"   -> ReleaseL(l, o.ref)
      [] o.op = "rcremove"  -> RcRemoveL(l, o.k)
      [] o.op = "setctx"    -> SetCtxL(l, o.c, o.r)
      [] o.op = "clearctx"  -> SetCtxL(l, 0, FALSE)
      [] o.op = "restart"   -> RestartL(l, o.k)
      [] o.op = "reset"     -> ResetL(l, o.k)
      [] OTHER              -> l      \* getkey, getkeys, getkeysdata

Applicable(o) ==
    CASE o.op \in {"setkey", "removekey", "synckeys"} -> ~RC
      [] o.op \in {"addref", "release", "rcremove"}   -> RC
      [] OTHER -> TRUE

\* the data token is the index of the record: the constructor's token
Init == L = L0 /\ nops = 0 /\ ps = Obs(L0, Cfg(P0, SeqMode, Delay, Retry, RC))

Gate == ~(Eager /\ WakeAny(L))
Settled == ~LibBusy(L) /\ ~WakeAny(L) /\ MustReturn(L) = {}

\* the live running instance of key k (sequential "out" operation), 0 if none
LiveInstOf(l, k) ==
    LET S == {i \in LiveOf(l) : l.inst[i].key = k} IN IF S = {} THEN 0 ELSE CHOOSE i \in S : TRUE

ReturnL(l, i, out) ==
    [l EXCEPT !.inst[i].pc = "book", !.inst[i].canc = TRUE, !.inst[i].closed = TRUE,
              !.inst[i].res = IF out = "ok" THEN "ok" ELSE "err"]

-----------------------------------------------------------------------------
(* Environment *)

\* the o-th operation of the alphabet
Do(o) ==
    /\ Gate
    /\ nops < MaxOps /\ Applicable(Alphabet[o])
    /\ SeqMode => Settled
    /\ nops' = nops + 1
    /\ LET op == Alphabet[o] IN
       CASE op.op = "tick" ->
              /\ ~LibBusy(L)
              /\ L' = TickL(L, op.d)
              /\ ps' = Obs(L', Tick(ps, op.d))
         [] op.op = "out" ->
              LET i == LiveInstOf(L, op.k) IN
              IF i = 0 THEN L' = L /\ ps' = Obs(L', Api(ps, E0))
              ELSE L' = ReturnL(L, i, op.out) /\ ps' = Obs(L', Leave(ps, i, op.out, FALSE))
         [] OTHER ->
              /\ L' = ApplyOp(L, op)
              /\ Len(L'.recs) <= MaxTok /\ \A t \in 1..Len(L'.recs) : L'.recs[t].n <= MaxInst
              /\ ps' = Obs(L', Api(Ctors(ps, L', Len(L.recs) + 1, Len(L'.recs)), EvOf(op, L, L')))

\* a routine body returns: with a verdict at any time, with its context's error once cancelled
InstReturn(i, out) ==
    /\ Gate
    /\ i \in DOMAIN L.inst /\ L.inst[i].pc = "running"
    /\ IF out = "ctxret" THEN L.inst[i].canc ELSE out \in Outs /\ ~SeqMode
    /\ L' = ReturnL(L, i, out)
    /\ ps' = Obs(L', Leave(ps, i, out, L.inst[i].canc))
    /\ UNCHANGED nops

-----------------------------------------------------------------------------
(* Library *)

EnterI(i) ==
    /\ L' = [L EXCEPT !.inst[i].pc = "running"]
    /\ ps' = Obs(L', Enter(ps, i, L.inst[i].key, L.inst[i].tok, L.inst[i].canc))
SkipI(i) ==
    /\ L' = ReturnL(L, i, "skip")
    /\ ps' = Obs(L', ps)
\* the select of execute() took branch b ("w": predecessor exited, "c": own context done)
Proceed(i, b) ==
    IF b = "w" THEN EnterI(i)
    ELSE IF ~FixF3 \/ Closed(L, L.inst[i].wait) THEN SkipI(i)
    ELSE L' = [L EXCEPT !.inst[i].pc = "waitpred"] /\ ps' = Obs(L', ps)
Select(i) ==
    \E b \in {"w", "c"} :
        /\ IF b = "w" THEN Closed(L, L.inst[i].wait) ELSE L.inst[i].canc
        /\ Proceed(i, b)

\* goroutine start of execute (parked at its Go hook) up to the select / the routine body
ExecStart(i) ==
    /\ Gate
    /\ i \in DOMAIN L.inst /\ L.inst[i].pc = "spawned"
    /\ IF L.inst[i].wait = 0
       THEN IF L.inst[i].canc THEN SkipI(i) ELSE EnterI(i)
       ELSE IF Ready(L, i) THEN Select(i)
            ELSE L' = [L EXCEPT !.inst[i].pc = "waiting"] /\ ps' = Obs(L', ps)
    /\ UNCHANGED nops

ExecWake(i) ==
    /\ i \in DOMAIN L.inst /\ L.inst[i].pc = "waiting" /\ Ready(L, i)
    /\ Select(i)
    /\ UNCHANGED nops

ExecWakePred(i) ==
    /\ i \in DOMAIN L.inst /\ L.inst[i].pc = "waitpred" /\ Closed(L, L.inst[i].wait)
    /\ SkipI(i)
    /\ UNCHANGED nops

\* bookkeeping section of execute (routine.go:120-151)
ExecBook(i) ==
    /\ Gate
    /\ i \in DOMAIN L.inst /\ L.inst[i].pc = "book"
    /\ LET t  == L.inst[i].tok
           r  == L.recs[t]
           ok == L.inst[i].res = "ok"
           l0 == [L EXCEPT !.inst = [j \in DOMAIN @ \ {i} |-> @[j]]]
           l1 == [l0 EXCEPT !.recs[t] = [r EXCEPT !.err = ~ok, !.success = ok, !.exited = TRUE, !.exch = 0]]
           l2 == [StopT(l1, "ret", t) EXCEPT !.recs[t].dRet = FALSE]
           l3 == IF ~ok /\ L.kmap[r.key] = t THEN [Arm(l2, "ret", t, BackoffUnit) EXCEPT !.recs[t].dRet = TRUE] ELSE l2
       IN L' = IF r.ctx # i THEN l0 ELSE IF Retry THEN l3 ELSE l1
    /\ ps' = Obs(L', ps)
    /\ UNCHANGED nops

Fired(kind, t) == {x \in L.timers : x.kind = kind /\ x.tok = t /\ x.st = "fired"}
Oldest(S) == CHOOSE x \in S : \A y \in S : x.due <= y.due

\* critical section of the delayed-removal timer callback (routine.go:176-184)
RemCb(t) ==
    /\ Gate
    /\ Fired("rem", t) # {}
    /\ LET l0 == [L EXCEPT !.timers = @ \ {Oldest(Fired("rem", t))}]
           r  == L.recs[t]
       IN L' = IF L.kmap[r.key] = t /\ r.dRem THEN RemoveNow(CancelRem(l0, t), t) ELSE l0
    /\ ps' = Obs(L', ps)
    /\ UNCHANGED nops

\* critical section of the retry timer callback (routine.go:136-142)
RetCb(t) ==
    /\ Gate
    /\ Fired("ret", t) # {}
    /\ LET l0 == [L EXCEPT !.timers = @ \ {Oldest(Fired("ret", t))}]
           r  == L.recs[t]
       IN L' = IF L.kctx # 0 /\ L.kmap[r.key] = t /\ r.exited THEN Start(l0, t, r.exch, TRUE) ELSE l0
    /\ \A u \in 1..Len(L'.recs) : L'.recs[u].n <= MaxInst
    /\ ps' = Obs(L', ps)
    /\ UNCHANGED nops

-----------------------------------------------------------------------------
\* sequential mode: the library settles before the next operation; nothing else is restricted
LibStep ==
    \/ \E i \in InstIds : ExecStart(i) \/ ExecWake(i) \/ ExecWakePred(i) \/ ExecBook(i)
    \/ \E t \in Toks : RemCb(t) \/ RetCb(t)

Next ==
    \/ \E o \in 1..Len(Alphabet) : Do(o)
    \/ \E i \in InstIds : \E out \in {"ok", "err", "ctxret"} : InstReturn(i, out)
    \/ \E i \in InstIds : ExecStart(i) \/ ExecWake(i) \/ ExecWakePred(i) \/ ExecBook(i)
    \/ \E t \in Toks : RemCb(t) \/ RetCb(t)

Spec == Init /\ [][Next]_vars

-----------------------------------------------------------------------------
(* Invariants *)
ModelSafe06 == Safe_C06
ModelSafe07 == Safe_C07
ModelHarness == NoHarnessError

\* implementation invariants
Agree ==
    /\ \A k \in Keys : L.kmap[k] # 0 => L.kmap[k] <= Len(L.recs) /\ L.recs[L.kmap[k]].key = k
    /\ \A x \in L.timers : x.tok <= Len(L.recs)
    /\ \A i \in DOMAIN L.inst : L.inst[i].tok <= Len(L.recs)
\* the reference model and the implementation agree on the key set at settle points of
\* sequential histories (modulo fuzzy keys)
KeySetAgree ==
    (SeqMode /\ Settled /\ ps.c06) => (Pres(L) \ ps.fuzzy = DOMAIN ps.pres \ ps.fuzzy)
=============================================================================
