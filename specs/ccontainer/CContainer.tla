------------------------------ MODULE CContainer ------------------------------
(* Implementation-shaped specification of ccontainer.CContainer (ccontainer/ccontainer.go)    *)
(* on top of broadcast.Broadcast.  One action per critical section (HoldLock callback) and    *)
(* per select wake-up; client programs, cancellation and error-channel deliveries are the     *)
(* environment.  Broadcast abstraction: wch[p] \in {"none","cur","closed"} (justified in       *)
(* specs/broadcast/Broadcast.tla).  The CContainerP monitor is fed at the API-visible points. *)
(*                                                                                          *)
(* Client operations (Prog[p] is a sequence of records):                                      *)
(*   [op |-> "set", v]      SetValue(v)                                                       *)
(*   [op |-> "swap", d, long]  SwapValue(func(x) { return x + d }); long: the callback stays   *)
(*                          inside the critical section (Broadcast.mtx really held: no other  *)
(*                          critical section of the cell can run) until the environment lets  *)
(*                          it go (LongEnter / LongExit)                                      *)
(*   [op |-> "swapnil"]     SwapValue(nil)            [op |-> "get"]   GetValue()             *)
(*   [op |-> "wait", kind, old, k, ve, c, fires]                                              *)
(*        kind: value | change | empty | valid | validnil (WaitValueWithValidator(nil))       *)
(*        c: the context may be cancelled; fires: sequence over {"err","nil","close"}: what    *)
(*        the environment may deliver (once each, any order) on the call's error channel      *)
EXTENDS CContainerP

CONSTANTS
    Prog,        \* client programs
    InitVal,     \* initial value of the cell
    M,           \* equality modulus (0: NewCContainer, > 0: NewCContainerWithEqual)
    EagerWake    \* TRUE: select wake-ups are taken before anything else (controller granularity)

Procs == 1..Len(Prog)
Id(p, j) == p * 100 + j

VARIABLES
    val,      \* CContainer.val
    mtx,      \* Broadcast.mtx: 0 free; p > 0: held by the long SwapValue callback of process p
    wch,      \* per process: the wait channel sampled by its waiter loop
    pc, ip, ctxc,
    ech,      \* per process: items buffered in the error channel of the call in flight
    ecl,      \* per process: that channel is closed
    fired     \* per process: deliveries already made during the call in flight

xvars == <<val, mtx, wch, pc, ip, ctxc, ech, ecl, fired>>
vars == <<xvars, pvars>>

Op(p) == Prog[p][ip[p]]
CurId(p) == Id(p, ip[p])
Done(p) == ip[p] > Len(Prog[p])

Init ==
    /\ ps = FInit(PS0, InitVal, M)
    /\ val = InitVal
    /\ mtx = 0
    /\ wch = [p \in Procs |-> "none"]
    /\ pc = [p \in Procs |-> "idle"]
    /\ ip = [p \in Procs |-> 1]
    /\ ctxc = [p \in Procs |-> FALSE]
    /\ ech = [p \in Procs |-> <<>>]
    /\ ecl = [p \in Procs |-> FALSE]
    /\ fired = [p \in Procs |-> {}]

Bcast(w) == [q \in Procs |-> IF w[q] = "cur" THEN "closed" ELSE w[q]]
\* CContainer.compare
Compare(a, b) == Eq(M, a, b)
BlockedIds == {CurId(q) : q \in {r \in Procs : pc[r] = "sel"}}
Advance(p) == ip' = [ip EXCEPT ![p] = @ + 1]

-----------------------------------------------------------------------------
ErrReady(p) == ech[p] # <<>> \/ ecl[p]
WakeAny == \E p \in Procs : pc[p] = "sel" /\ (wch[p] = "closed" \/ ctxc[p] \/ ErrReady(p))
Gate == ~(EagerWake /\ WakeAny)

(* Environment: the client issues its next operation. *)
Call(p) ==
    /\ Gate
    /\ pc[p] = "idle" /\ ~Done(p)
    /\ pc' = [pc EXCEPT ![p] = IF Op(p).op = "wait" THEN "cs" ELSE "w"]
    /\ ctxc' = [ctxc EXCEPT ![p] = FALSE]
    /\ ech' = [ech EXCEPT ![p] = <<>>]
    /\ ecl' = [ecl EXCEPT ![p] = FALSE]
    /\ fired' = [fired EXCEPT ![p] = {}]
    /\ ps' = FCall(ps, CurId(p), Op(p))
    /\ UNCHANGED <<val, mtx, wch, ip>>

IsLong(p) == Op(p).op = "swap" /\ Op(p).long

\* the single critical section of GetValue / SetValue / SwapValue (ccontainer.go:33-68); every
\* critical section is a Broadcast.HoldLock: it can only start while the mutex is free
WriteCS(p) ==
    /\ Gate
    /\ pc[p] = "w" /\ mtx = 0 /\ ~IsLong(p)
    /\ LET o == Op(p) IN
       CASE o.op = "set" ->
              /\ IF ~Compare(val, o.v)
                 THEN val' = o.v /\ wch' = Bcast(wch)
                 ELSE UNCHANGED <<val, wch>>
              /\ ps' = FRet(ps, CurId(p), "ok", -1)
         [] o.op = "swap" ->
              LET out == val + o.d IN
              /\ IF ~Compare(val, out)
                 THEN val' = out /\ wch' = Bcast(wch)
                 ELSE UNCHANGED <<val, wch>>
              /\ ps' = FRet(FSwapCb(ps, CurId(p), val, out), CurId(p), "ok", out)
         [] o.op \in {"get", "swapnil"} ->
              /\ ps' = FRet(ps, CurId(p), "ok", val)
              /\ UNCHANGED <<val, wch>>
    /\ pc' = [pc EXCEPT ![p] = "idle"] /\ Advance(p)
    /\ UNCHANGED <<mtx, ctxc, ech, ecl, fired>>

\* SwapValue with a long callback: the critical section starts (HoldLock, val read, callback
\* entered) and stays open
LongEnter(p) ==
    /\ Gate
    /\ pc[p] = "w" /\ mtx = 0 /\ IsLong(p)
    /\ mtx' = p
    /\ pc' = [pc EXCEPT ![p] = "inlong"]
    /\ ps' = FSwapIn(ps, CurId(p), val)
    /\ UNCHANGED <<val, wch, ip, ctxc, ech, ecl, fired>>

\* environment: the callback returns; the rest of the critical section (compare, store,
\* broadcast), the unlock and the return of the call
LongExit(p) ==
    /\ Gate
    /\ pc[p] = "inlong"
    /\ LET out == val + Op(p).d IN
       /\ IF ~Compare(val, out)
          THEN val' = out /\ wch' = Bcast(wch)
          ELSE UNCHANGED <<val, wch>>
       /\ ps' = FRet(FSwapCb(ps, CurId(p), val, out), CurId(p), "ok", out)
    /\ mtx' = 0
    /\ pc' = [pc EXCEPT ![p] = "idle"] /\ Advance(p)
    /\ UNCHANGED <<ctxc, ech, ecl, fired>>

Return(p, s, res, v) ==
    /\ pc' = [pc EXCEPT ![p] = "idle"] /\ Advance(p)
    /\ wch' = [wch EXCEPT ![p] = "none"]
    /\ ps' = FRet(s, CurId(p), res, v)

\* the critical section of the waiter loop (ccontainer.go:83-86: value and wait channel in
\* one section) followed by the validation outside the lock (:87-98)
SampleCS(p) ==
    /\ Gate
    /\ pc[p] = "cs" /\ mtx = 0
    /\ LET o == Op(p)
           id == CurId(p)
           vres == IF o.kind = "valid"
                   THEN (IF val = o.ve THEN "e" ELSE IF val >= o.k THEN "t" ELSE "f")
                   ELSE (IF Cond(M, o, val) THEN "t" ELSE "f")
           s1 == IF o.kind = "valid" THEN FValid(ps, id, val, vres) ELSE ps
       IN CASE vres = "e" -> Return(p, s1, "verr", 0)
            [] vres = "t" -> Return(p, s1, "ok", IF o.kind = "empty" THEN -1 ELSE val)
            [] vres = "f" -> /\ wch' = [wch EXCEPT ![p] = "cur"]
                             /\ pc' = [pc EXCEPT ![p] = "sel"]
                             /\ ps' = s1
                             /\ UNCHANGED ip
    /\ UNCHANGED <<val, mtx, ctxc, ech, ecl, fired>>

\* select: the wait channel fired
Wake(p) ==
    /\ pc[p] = "sel" /\ wch[p] = "closed"
    /\ pc' = [pc EXCEPT ![p] = "cs"]
    /\ UNCHANGED <<val, mtx, wch, ip, ctxc, ech, ecl, fired, ps>>

\* select: ctx.Done() fired -> ctx.Err()
WakeCtx(p) ==
    /\ pc[p] = "sel" /\ ctxc[p]
    /\ Return(p, ps, "canceled", 0)
    /\ UNCHANGED <<val, mtx, ctxc, ech, ecl, fired>>

\* select: the error channel is ready (ccontainer.go:103-111): a non-nil error is returned, a
\* nil error makes the waiter loop again, a closed channel is treated as context canceled
WakeErr(p) ==
    /\ pc[p] = "sel" /\ ErrReady(p)
    /\ IF ech[p] # <<>>
       THEN /\ ech' = [ech EXCEPT ![p] = Tail(@)]
            /\ IF Head(ech[p]) = "err"
               THEN Return(p, ps, "errch", 0)
               ELSE /\ pc' = [pc EXCEPT ![p] = "cs"]
                    /\ UNCHANGED <<wch, ip, ps>>
       ELSE /\ Return(p, ps, "canceled", 0)
            /\ UNCHANGED ech
    /\ UNCHANGED <<val, mtx, ctxc, ecl, fired>>

\* environment: cancellation and error-channel deliveries, at any point of the call
InWait(p) == pc[p] \in {"cs", "sel"}

Cancel(p) ==
    /\ Gate
    /\ InWait(p) /\ Op(p).c /\ ~ctxc[p]
    /\ ctxc' = [ctxc EXCEPT ![p] = TRUE]
    /\ ps' = FCancel(ps, CurId(p))
    /\ UNCHANGED <<val, mtx, wch, pc, ip, ech, ecl, fired>>

Fire(p, what) ==
    /\ Gate
    /\ InWait(p) /\ what \in {Op(p).fires[i] : i \in 1..Len(Op(p).fires)}
    /\ what \notin fired[p] /\ ~ecl[p]
    /\ fired' = [fired EXCEPT ![p] = @ \cup {what}]
    /\ IF what = "close"
       THEN ecl' = [ecl EXCEPT ![p] = TRUE] /\ UNCHANGED ech
       ELSE ech' = [ech EXCEPT ![p] = Append(@, what)] /\ UNCHANGED ecl
    /\ ps' = FFire(ps, CurId(p), what)
    /\ UNCHANGED <<val, mtx, wch, pc, ip, ctxc>>

FireErr(p) == Fire(p, "err")
FireNil(p) == Fire(p, "nil")
FireClose(p) == Fire(p, "close")

-----------------------------------------------------------------------------
Next ==
    \E p \in Procs :
        \/ Call(p) \/ Cancel(p) \/ FireErr(p) \/ FireNil(p) \/ FireClose(p) \/ LongExit(p)
        \/ WriteCS(p) \/ SampleCS(p) \/ LongEnter(p)
        \/ Wake(p) \/ WakeCtx(p) \/ WakeErr(p)

Spec == Init /\ [][Next]_vars

\* (a callback that stays inside its critical section is not a library step waiting to be taken)
LibQuiet == (\A p \in Procs : pc[p] \in {"idle", "sel", "inlong"}) /\ ~WakeAny

-----------------------------------------------------------------------------
(* Invariants *)
TypeOK ==
    /\ val \in Nat
    /\ mtx \in {0} \cup Procs
    /\ \A p \in Procs : wch[p] \in {"none", "cur", "closed"}

\* the monitor's idea of the cell agrees with the implementation's field
\* (the spec returns a call in the step of its critical section, so the configuration in which
\* no call in flight has taken effect is the real one.  The monitor may keep others: it does not
\* know that SetValue / GetValue take effect in the step of their return)
CellAgree == /\ \E c \in ps.cfgs : c.v = val /\ c.lin = {}
             /\ Hidden(ps) = {} => \A c \in ps.cfgs : c.lin = {}

\* the mutex is held exactly while a long callback is inside
MtxAgree == \A p \in Procs : (pc[p] = "inlong") = (mtx = p)

\* a waiter in its select holds the current channel unless the value changed since it sampled
NoLostWake == \A p \in Procs : pc[p] = "sel" => wch[p] \in {"cur", "closed"}

\* C15 at quiescent points, through the monitor's own definition
\* (as the driver does it: where no long callback holds the mutex the controller first reads the
\* cell -- an ordinary GetValue, id 0 -- which tells the monitor the real content)
Probe == FRet(FCall(ps, 0, [op |-> "get"]), 0, "ok", val)
QuietInv == LibQuiet => /\ QuietBad(IF mtx = 0 THEN Probe ELSE ps, BlockedIds) = {}
                        /\ mtx = 0 => Probe.bad = {}

ModelSafe == Safe_C15 /\ NoHarnessError
=============================================================================
