--------------------------- MODULE CContainerPTrace ---------------------------
(* Replays an ndjson trace recorded from the real ccontainer.CContainer through the CContainerP   *)
(* monitor.  Deterministic: one state per event; every failed condition is collected and      *)
(* written to VERDICT_FILE.                                                                   *)
EXTENDS CContainerP, TraceLib

VARIABLES l, viol, seen

tvars == <<l, viol, seen>>

TInit == PInit /\ l = 1 /\ viol = <<>> /\ seen = {}

Fresh == Violated \ seen
Recorded ==
    IF l > 1 /\ Fresh # {}
    THEN Append(viol, [run |-> Trace[l-1].run, seq |-> Trace[l-1].seq, names |-> Fresh, l |-> l - 1])
    ELSE viol

Apply(e) ==
    CASE e.ev = "reset"  -> PReset
      [] e.ev = "init"   -> PInitC(e.val, e.m)
      [] e.ev = "call"   -> PCall(e.id, e)
      [] e.ev = "swapin" -> PSwapIn(e.id, e.in)
      [] e.ev = "swapcb" -> PSwapCb(e.id, e.in, e.out)
      [] e.ev = "valid"  -> PValid(e.id, e.v, e.res)
      [] e.ev = "ret"    -> PRet(e.id, e.res, e.val)
      [] e.ev = "cancel" -> PCancel(e.id)
      [] e.ev = "fire"   -> PFire(e.id, e.what)
      [] e.ev = "quiet"  -> PQuiet(SeqToSet(e.blk))
      [] e.ev \in {"leak", "note", "end"} -> UNCHANGED pvars
      [] e.ev \in {"step", "teardown"} -> UNCHANGED pvars   \* only in traces recorded for CContainerXTrace
      [] OTHER           -> PUnexplained

TStep ==
    /\ l <= Len(Trace)
    /\ viol' = Recorded
    /\ seen' = IF Trace[l].ev = "reset" THEN {} ELSE seen \cup Violated
    /\ Apply(Trace[l])
    /\ l' = l + 1

TFinish ==
    /\ l = Len(Trace) + 1
    /\ viol' = Recorded
    /\ WriteVerdict(viol', Len(Trace))
    /\ l' = l + 1
    /\ UNCHANGED <<pvars, seen>>

TNext == TStep \/ TFinish
TSpec == TInit /\ [][TNext]_<<pvars, tvars>>
=============================================================================
