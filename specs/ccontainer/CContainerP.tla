------------------------------ MODULE CContainerP ------------------------------
(* Property monitor for ccontainer.CContainer (C15).                                          *)
(*                                                                                          *)
(* API-level facts only: the content of the cell as far as the statement determines it, the   *)
(* calls in flight, for every waiter the values the cell may have held since its call, the    *)
(* cancellations and the error-channel deliveries.  Values are integers, the empty value is   *)
(* 0; the custom equality (NewCContainerWithEqual) is "equal modulo M" (M = 0: plain ==).      *)
(* The monitor state is one record `ps`; every event is a pure function F..(ps, ..), so the   *)
(* implementation-shaped spec CContainer.tla can fire several events in one atomic action.    *)
(*                                                                                          *)
(* Linearisation points.  A SwapValue callback is harness-owned and logs `swapcb` from inside *)
(* the critical section: that event IS the swap.  SetValue / GetValue / SwapValue(nil) give   *)
(* the harness no callback; they are linearised at their `ret` event.  This is exact under    *)
(* the deterministic controller, where the critical section and the return of a call happen   *)
(* within one controller step and no other access to the cell can run in between.             *)
(*                                                                                          *)
(* Reading of the statement (weaker readings where it is silent):                            *)
(*  R1 SetValue(v) / a swap result v when v is equal to the content under the equality but    *)
(*     not identical: the cell may afterwards hold either the old value or v.  `cell` is      *)
(*     therefore the SET of values the cell may hold (all equal under the equality); a read   *)
(*     narrows it to the value read.                                                         *)
(*  R2 SwapValue's return value is not constrained.                                           *)
(*  R3 a waiter's value must be in `seen` (everything the cell may have held since the call   *)
(*     event) and satisfy the wait condition, evaluated by the monitor itself:                *)
(*       value, validnil: not Eq(0, v)   change: not Eq(old, v)   empty: Eq(0, v)             *)
(*       valid: harness validator  v = ve -> error,  v >= k -> true                           *)
(*     WaitValueEmpty returns no value: some member of `seen` must be empty.                  *)
(*  R4 errors: context.Canceled only if the context was cancelled or the error channel was    *)
(*     closed (documented: a closed errCh is treated as context canceled); the error sent on  *)
(*     the error channel (identical value) only if it was sent; the validator's error only    *)
(*     if the validator returned it during the call.  Nothing demands that a waiter whose     *)
(*     context was cancelled / whose error channel fired returns (the statement says "only    *)
(*     if"); a nil error on the channel need not have any effect.                             *)
(*  R5 "never remain blocked while the content satisfies the condition": at library-quiescent *)
(*     points a blocked waiter is reported only if EVERY value the cell may hold satisfies    *)
(*     its condition.                                                                        *)
EXTENDS Integers, FiniteSets, Sequences, TLC

VARIABLE ps
pvars == <<ps>>

PS0 == [ cell  |-> {0},     \* values the cell may hold now (R1)
         m     |-> 0,       \* equality modulus, 0 = plain ==
         calls |-> <<>>,    \* call id -> record (op-specific fields + st, seen, sent, ecl, verr)
         canc  |-> {},      \* waiter ids whose context was cancelled
         bad   |-> {} ]

PInit == ps = PS0
PReset == ps' = PS0

Flag(s, c, name) == IF c THEN [s EXCEPT !.bad = @ \cup {name}] ELSE s
Ids(s) == DOMAIN s.calls
Eq(m, a, b) == a = b \/ (m > 0 /\ a % m = b % m)

IsWait(r) == r.op = "wait"
PendingWaits(s) == {i \in Ids(s) : IsWait(s.calls[i]) /\ s.calls[i].st = "pending"}

\* the wait condition of waiter record r on value v
Cond(m, r, v) ==
    CASE r.kind \in {"value", "validnil"} -> ~Eq(m, 0, v)
      [] r.kind = "change" -> ~Eq(m, r.old, v)
      [] r.kind = "empty"  -> Eq(m, 0, v)
      [] r.kind = "valid"  -> v # r.ve /\ v >= r.k

\* the cell may now hold the values in c: every pending waiter may have seen them
SetCell(s, c) ==
    [s EXCEPT !.cell = c,
              !.calls = [i \in Ids(s) |->
                           IF IsWait(s.calls[i]) /\ s.calls[i].st = "pending"
                           THEN [s.calls[i] EXCEPT !.seen = @ \cup c] ELSE s.calls[i]]]

\* v is stored over a cell that may hold the values base (R1)
Stored(m, base, v) == IF \E c \in base : Eq(m, c, v) THEN base \cup {v} ELSE {v}

-----------------------------------------------------------------------------
(* Events as functions *)

\* the container is created with value v and equality modulus m
FInit(s, v, m) == [s EXCEPT !.cell = {v}, !.m = m]

\* a call starts; e carries op ("set": v | "swap": d | "swapnil" | "get" |
\* "wait": kind, old, k, ve) -- only the fields of its op are read
FCall(s, id, e) ==
    LET s1 == Flag(s, id \in Ids(s), "Harness")
        r == IF e.op = "wait"
             THEN [op |-> "wait", kind |-> e.kind, old |-> e.old, k |-> e.k, ve |-> e.ve, st |-> "pending",
                   seen |-> s.cell, sent |-> FALSE, ecl |-> FALSE, verr |-> FALSE]
             ELSE IF e.op = "set" THEN [op |-> "set", v |-> e.v, st |-> "pending"]
             ELSE [op |-> e.op, st |-> "pending"]
    IN [s1 EXCEPT !.calls = (id :> r) @@ @]

\* the SwapValue callback of call id runs (under the lock) on value in and returns out
FSwapCb(s, id, in, out) ==
    LET s1 == Flag(Flag(s, in \notin s.cell, "SwapStale"),
                   id \notin Ids(s) \/ s.calls[id].op # "swap" \/ s.calls[id].st # "pending", "Harness")
        base == IF in \in s.cell THEN {in} ELSE s.cell
    IN SetCell(s1, Stored(s.m, base, out))

\* the harness validator of waiter id was called with v and returned res ("t" | "f" | "e")
FValid(s, id, v, res) ==
    IF id \in Ids(s) /\ res = "e" THEN [s EXCEPT !.calls[id].verr = TRUE] ELSE s

\* a call returns.  res: "ok" (nil error; val = returned value, -1 if none), "canceled",
\* "errch" (the identical error sent on errCh), "verr" (the validator's), or something else
FRet(s, id, res, val) ==
    IF id \notin Ids(s) \/ s.calls[id].st # "pending" THEN Flag(s, TRUE, "Harness") ELSE
    LET r == s.calls[id]
        done == [s EXCEPT !.calls[id].st = "returned"]
    IN CASE r.op = "set" -> SetCell(done, Stored(s.m, s.cell, r.v))
         [] r.op \in {"get", "swapnil"} ->
                IF val \in s.cell THEN SetCell(done, {val}) ELSE Flag(done, TRUE, "ReadWrong")
         [] r.op = "swap" -> done
         [] r.op = "wait" ->
                LET c == id \in s.canc \/ r.ecl
                    held == IF r.kind = "empty" THEN TRUE ELSE val \in r.seen
                    sat == IF r.kind = "empty" THEN \E v \in r.seen : Cond(s.m, r, v)
                           ELSE Cond(s.m, r, val)
                    s1 == Flag(done, res = "ok" /\ ~held, "WaitNeverHeld")
                    s2 == Flag(s1, res = "ok" /\ held /\ ~sat, "WaitUnsatisfied")
                    s3 == Flag(s2, res = "canceled" /\ ~c, "SpuriousCancel")
                    s4 == Flag(s3, res = "errch" /\ ~r.sent, "SpuriousErr")
                    s5 == Flag(s4, res = "verr" /\ ~r.verr, "SpuriousErr")
                IN Flag(s5, res \notin {"ok", "canceled", "errch", "verr"}, "UnknownResult")

FCancel(s, id) == [s EXCEPT !.canc = @ \cup {id}]

\* something is delivered on the error channel of waiter id: "err" | "nil" | "close"
FFire(s, id, what) ==
    IF id \notin Ids(s) THEN Flag(s, TRUE, "Harness")
    ELSE CASE what = "err"   -> [s EXCEPT !.calls[id].sent = TRUE]
           [] what = "close" -> [s EXCEPT !.calls[id].ecl = TRUE]
           [] OTHER          -> s

\* no library step is possible and exactly the waiters in B are blocked
QuietBad(s, B) ==
    (IF \E b \in B \cap PendingWaits(s) : \A v \in s.cell : Cond(s.m, s.calls[b], v)
     THEN {"Stuck"} ELSE {})
    \cup (IF B \subseteq PendingWaits(s) THEN {} ELSE {"Harness"})

FQuiet(s, B) == [s EXCEPT !.bad = @ \cup QuietBad(s, B)]

-----------------------------------------------------------------------------
(* Events as actions (trace spec) *)
PInitC(v, m) == ps' = FInit(ps, v, m)
PCall(id, e) == ps' = FCall(ps, id, e)
PSwapCb(id, in, out) == ps' = FSwapCb(ps, id, in, out)
PValid(id, v, res) == ps' = FValid(ps, id, v, res)
PRet(id, res, val) == ps' = FRet(ps, id, res, val)
PCancel(id) == ps' = FCancel(ps, id)
PFire(id, what) == ps' = FFire(ps, id, what)
PQuiet(B) == ps' = FQuiet(ps, B)
PUnexplained == ps' = Flag(ps, TRUE, "Unexplained")

-----------------------------------------------------------------------------
(* The property *)
bad == ps.bad
C15Names == {"SwapStale", "ReadWrong", "WaitNeverHeld", "WaitUnsatisfied", "SpuriousCancel",
             "SpuriousErr", "UnknownResult", "Stuck"}
Safe_C15 == bad \cap C15Names = {}
NoHarnessError == "Harness" \notin bad
Violated == bad
=============================================================================
