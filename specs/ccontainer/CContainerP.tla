------------------------------ MODULE CContainerP ------------------------------
(* Property monitor for ccontainer.CContainer (C15).                                          *)
(*                                                                                          *)
(* API-level facts only: the content of the cell as far as the statement determines it, the   *)
(* calls in flight, for every waiter the values the cell may have held since its call, the    *)
(* cancellations and the error-channel deliveries.  Values are integers, the empty value is   *)
(* 0; the custom equality (NewCContainerWithEqual) is "equal modulo M" (M = 0: plain ==).      *)
(* The monitor state is one record `ps`; every event is a pure function F..(ps, ..), so the   *)
(* implementation-shaped spec CContainer.tla can fire several events in one atomic action.    *)
(*                                                                                          *)
(* Atomicity (first sentence of the statement) is read as LINEARIZABILITY of GetValue,        *)
(* SetValue and SwapValue on one cell: every call takes effect at one instant between its     *)
(* `call` and its `ret` event; in particular a call that has RETURNED has taken effect before *)
(* any call ISSUED afterwards.  What the trace shows about that instant:                      *)
(*   * SwapValue(cb): the harness-owned callback logs `swapcb` (in, out) from INSIDE the      *)
(*     critical section, immediately before it returns `out`: that event IS the swap (exact,  *)
(*     whatever the scheduler does between the critical section and the return of the call).  *)
(*     A LONG callback stays inside the critical section over several controller steps and    *)
(*     logs `swapcb` when it is let go; the `swapin` event it logs on entry is not used here  *)
(*     (weaker reading W1 below).                                                            *)
(*   * SetValue / GetValue / SwapValue(nil) give the harness no callback.  The monitor does    *)
(*     NOT take their logged return as the instant (the logged return can be separated from   *)
(*     the critical section by other clients' steps: sched.Exec.ParkUnl, or a goroutine that  *)
(*     merely has not logged yet).  It keeps the SET `cfgs` of all configurations             *)
(*     [v: content, lin: {<<id, value read>>} calls in flight that have already taken effect]  *)
(*     that some linearization of the events so far allows (closed under "a call in flight    *)
(*     takes effect now").  `ret` of a call keeps the configurations in which it has taken    *)
(*     effect (with the value it returned, for reads); `swapcb` keeps those whose content is  *)
(*     the callback's input.  No configuration left = no linearization exists.                *)
(*                                                                                          *)
(* Reading of the statement (weaker readings where it is silent):                            *)
(*  R1 SetValue(v) / a swap result v when v is equal to the content under the equality but    *)
(*     not identical: the cell may afterwards hold either the old value or v (two             *)
(*     configurations); a read keeps the one it saw.                                          *)
(*  R2 SwapValue's return value is not constrained.                                           *)
(*  R3 a waiter's value must be in `seen` (everything the cell may have held since the call   *)
(*     event, in any configuration) and satisfy the wait condition, evaluated by the monitor: *)
(*       value, validnil: not Eq(0, v)   change: not Eq(old, v)   empty: Eq(0, v)             *)
(*       valid: harness validator  v = ve -> error,  v >= k -> true                           *)
(*     WaitValueEmpty returns no value: some member of `seen` must be empty.                  *)
(*  R4 errors: context.Canceled only if the context was cancelled or the error channel was    *)
(*     closed (documented: a closed errCh is treated as context canceled); the error sent on  *)
(*     the error channel (identical value) only if it was sent; the validator's error only    *)
(*     if the validator returned it during the call.  Nothing demands that a waiter whose     *)
(*     context was cancelled / whose error channel fired returns (the statement says "only    *)
(*     if"); a nil error on the channel need not have any effect.                             *)
(*  R5 "never remain blocked while the content satisfies the condition": at library-quiescent *)
(*     points a blocked waiter is reported only if the content satisfies its condition in     *)
(*     EVERY configuration.                                                                  *)
(*  W1 "a SwapValue callback's update is never lost or interleaved with another writer" is    *)
(*     judged as linearizability as well: the swap is ONE instant (the callback's return);    *)
(*     SwapStale = at that instant no linearization gives the cell the callback's input.  A   *)
(*     writer that took effect while a long callback was running is reported only through     *)
(*     that (a write that restores the input value, or a read, in between is not reported).   *)
(*  W2 the monitor is sound under sched.Exec.Double / ParkUnl: it never uses the position of  *)
(*     a `ret` event for more than "the call has taken effect by now"; waiters are judged by  *)
(*     `seen` (monotone) and quiescence only when nothing is parked anywhere.                 *)
EXTENDS Integers, FiniteSets, Sequences, TLC

VARIABLE ps
pvars == <<ps>>

Cfg0(v) == [v |-> v, lin |-> {}]

PS0 == [ cfgs  |-> {Cfg0(0)},  \* possible configurations (see above)
         m     |-> 0,       \* equality modulus, 0 = plain ==
         calls |-> <<>>,    \* call id -> record (op-specific fields + st, seen, sent, ecl, verr)
         canc  |-> {},      \* waiter ids whose context was cancelled
         bad   |-> {} ]

PInit == ps = PS0
PReset == ps' = PS0

Flag(s, c, name) == IF c THEN [s EXCEPT !.bad = @ \cup {name}] ELSE s
Ids(s) == DOMAIN s.calls
\* m > 0: the custom equality is "equal modulo m"; m < 0: "equal modulo -m, and false whenever an
\* argument is the zero value" (the usual nil-guard comparator; the library compares identical
\* values as equal before it asks the comparator, which is the reading taken here)
Eq(m, a, b) == a = b \/ (m > 0 /\ a % m = b % m) \/ (m < 0 /\ a # 0 /\ b # 0 /\ a % (0 - m) = b % (0 - m))

IsWait(r) == r.op = "wait"
PendingWaits(s) == {i \in Ids(s) : IsWait(s.calls[i]) /\ s.calls[i].st = "pending"}

\* the wait condition of waiter record r on value v
Cond(m, r, v) ==
    CASE r.kind \in {"value", "validnil"} -> ~Eq(m, 0, v)
      [] r.kind = "change" -> ~Eq(m, r.old, v)
      [] r.kind = "empty"  -> Eq(m, 0, v)
      [] r.kind = "valid"  -> v # r.ve /\ v >= r.k

-----------------------------------------------------------------------------
(* Configurations *)

Vals(C) == {c.v : c \in C}
LinIds(c) == {x[1] : x \in c.lin}
Unlin(c, id) == [c EXCEPT !.lin = {x \in @ : x[1] # id}]

\* calls in flight whose instant of effect the trace does not show
Hidden(s) == {i \in Ids(s) : s.calls[i].op \in {"set", "get", "swapnil"} /\ s.calls[i].st = "pending"}

\* contents after v is stored over content old (R1)
StoreV(m, old, v) == IF old = v THEN {v} ELSE IF Eq(m, old, v) THEN {old, v} ELSE {v}

\* call i (in flight, hidden) takes effect in configuration c
Lin1(s, c, i) ==
    LET r == s.calls[i] IN
    IF r.op = "set"
    THEN {[v |-> w, lin |-> c.lin \cup {<<i, -1>>}] : w \in StoreV(s.m, c.v, r.v)}
    ELSE {[v |-> c.v, lin |-> c.lin \cup {<<i, c.v>>}]}

Expand(s, C) == C \cup UNION {UNION {Lin1(s, c, i) : i \in Hidden(s) \ LinIds(c)} : c \in C}
RECURSIVE Close(_, _)
Close(s, C) == LET D == Expand(s, C) IN IF D = C THEN C ELSE Close(s, D)

\* the possible configurations are now C: every pending waiter may have seen their contents
SetCfgs(s, C) ==
    [s EXCEPT !.cfgs = C,
              !.calls = [i \in Ids(s) |->
                           IF IsWait(s.calls[i]) /\ s.calls[i].st = "pending"
                           THEN [s.calls[i] EXCEPT !.seen = @ \cup Vals(C)] ELSE s.calls[i]]]

Reclose(s) == SetCfgs(s, Close(s, s.cfgs))

-----------------------------------------------------------------------------
(* Events as functions *)

\* the container is created with value v and equality modulus m
FInit(s, v, m) == [s EXCEPT !.cfgs = {Cfg0(v)}, !.m = m]

\* a call starts; e carries op ("set": v | "swap": d | "swapnil" | "get" |
\* "wait": kind, old, k, ve) -- only the fields of its op are read
FCall(s, id, e) ==
    LET s1 == Flag(s, id \in Ids(s), "Harness")
        r == IF e.op = "wait"
             THEN [op |-> "wait", kind |-> e.kind, old |-> e.old, k |-> e.k, ve |-> e.ve, st |-> "pending",
                   seen |-> Vals(s.cfgs), sent |-> FALSE, ecl |-> FALSE, verr |-> FALSE]
             ELSE IF e.op = "set" THEN [op |-> "set", v |-> e.v, st |-> "pending"]
             ELSE [op |-> e.op, st |-> "pending"]
        s2 == [s1 EXCEPT !.calls = (id :> r) @@ @]
    IN IF e.op \in {"set", "get", "swapnil"} THEN Reclose(s2) ELSE s2

PendingSwap(s, id) == id \in Ids(s) /\ s.calls[id].op = "swap" /\ s.calls[id].st = "pending"

\* the (long) SwapValue callback of call id has been entered with value in: not judged (W1)
FSwapIn(s, id, in) == Flag(s, ~PendingSwap(s, id), "Harness")

\* the SwapValue callback of call id (under the lock) was given value in and now returns out:
\* the swap takes effect.  When no configuration has content `in` the result is stored over
\* whatever the cell may hold (that is what a non-atomic swap does) and the monitor goes on.
FSwapCb(s, id, in, out) ==
    LET K == {c \in s.cfgs : c.v = in}
        late == id \in Ids(s) /\ s.calls[id].op = "swap" /\ s.calls[id].st = "returned"
        \* the callback of a SwapValue call that has already returned: the call returned before
        \* it took effect (never in a SwapValue that runs its callback itself)
        s0 == Flag(Flag(s, K = {}, "SwapStale"), late, "SwapAfterReturn")
        s1 == Flag(s0, ~late /\ ~PendingSwap(s, id), "Harness")
        base == IF K # {} THEN K ELSE s.cfgs
        C == UNION {{[c EXCEPT !.v = w] : w \in StoreV(s.m, c.v, out)} : c \in base}
    IN SetCfgs(s1, Close(s1, C))

\* the harness validator of waiter id was called with v and returned res ("t" | "f" | "e")
FValid(s, id, v, res) ==
    IF id \in Ids(s) /\ res = "e" THEN [s EXCEPT !.calls[id].verr = TRUE] ELSE s

\* a call returns.  res: "ok" (nil error; val = returned value, -1 if none), "canceled",
\* "errch" (the identical error sent on errCh), "verr" (the validator's), or something else
FRet(s, id, res, val) ==
    IF id \notin Ids(s) \/ s.calls[id].st # "pending" THEN Flag(s, TRUE, "Harness") ELSE
    LET r == s.calls[id]
        done == [s EXCEPT !.calls[id].st = "returned"]
        L == {c \in s.cfgs : id \in LinIds(c)}     \* the configurations in which it has taken effect
        Keep(C) == [done EXCEPT !.cfgs = {Unlin(c, id) : c \in C}]
    IN CASE r.op = "set" -> IF L = {} THEN Flag(done, TRUE, "Harness") ELSE Keep(L)
         [] r.op \in {"get", "swapnil"} ->
                LET K == {c \in L : <<id, val>> \in c.lin} IN
                IF K # {} THEN Keep(K)
                ELSE IF L = {} THEN Flag(done, TRUE, "Harness")
                ELSE Flag(Keep(L), TRUE, "ReadWrong")
         [] r.op = "swap" -> done
         [] r.op = "wait" ->
                LET cx == id \in s.canc \/ r.ecl
                    held == IF r.kind = "empty" THEN TRUE ELSE val \in r.seen
                    sat == IF r.kind = "empty" THEN \E v \in r.seen : Cond(s.m, r, v)
                           ELSE Cond(s.m, r, val)
                    s1 == Flag(done, res = "ok" /\ ~held, "WaitNeverHeld")
                    s2 == Flag(s1, res = "ok" /\ held /\ ~sat, "WaitUnsatisfied")
                    s3 == Flag(s2, res = "canceled" /\ ~cx, "SpuriousCancel")
                    s4 == Flag(s3, res = "errch" /\ ~r.sent, "SpuriousErr")
                    s5 == Flag(s4, res = "verr" /\ ~r.verr, "SpuriousErr")
                IN Flag(s5, res \notin {"ok", "canceled", "errch", "verr"}, "UnknownResult")

FCancel(s, id) == [s EXCEPT !.canc = @ \cup {id}]

\* something is delivered on the error channel of waiter id: "err" | "nil" | "close"
FFire(s, id, what) ==
    IF id \notin Ids(s) THEN Flag(s, TRUE, "Harness")
    ELSE CASE what = "err"   -> [s EXCEPT !.calls[id].sent = TRUE]
           [] what = "close" -> [s EXCEPT !.calls[id].ecl = TRUE]
           [] OTHER          -> s

\* no library step is possible and exactly the waiters in B are blocked
QuietBad(s, B) ==
    (IF \E b \in B \cap PendingWaits(s) : \A v \in Vals(s.cfgs) : Cond(s.m, s.calls[b], v)
     THEN {"Stuck"} ELSE {})
    \cup (IF B \subseteq PendingWaits(s) THEN {} ELSE {"Harness"})

FQuiet(s, B) == [s EXCEPT !.bad = @ \cup QuietBad(s, B)]

-----------------------------------------------------------------------------
(* Events as actions (trace spec) *)
PInitC(v, m) == ps' = FInit(ps, v, m)
PCall(id, e) == ps' = FCall(ps, id, e)
PSwapIn(id, in) == ps' = FSwapIn(ps, id, in)
PSwapCb(id, in, out) == ps' = FSwapCb(ps, id, in, out)
PValid(id, v, res) == ps' = FValid(ps, id, v, res)
PRet(id, res, val) == ps' = FRet(ps, id, res, val)
PCancel(id) == ps' = FCancel(ps, id)
PFire(id, what) == ps' = FFire(ps, id, what)
PQuiet(B) == ps' = FQuiet(ps, B)
PUnexplained == ps' = Flag(ps, TRUE, "Unexplained")

-----------------------------------------------------------------------------
(* The property *)
bad == ps.bad
C15Names == {"SwapStale", "SwapAfterReturn", "ReadWrong", "WaitNeverHeld", "WaitUnsatisfied", "SpuriousCancel",
             "SpuriousErr", "UnknownResult", "Stuck"}
Safe_C15 == bad \cap C15Names = {}
NoHarnessError == "Harness" \notin bad
Violated == bad
=============================================================================
