--------------------------- MODULE CContainerXTrace ---------------------------
(* X-level trace validation (advisory, DESIGN §2.5): executions of ONE scenario (the constants *)
(* Prog, InitVal, M) recorded from the real ccontainer.CContainer with every controller step     *)
(* logged are replayed through the actions of CContainer.tla itself.                            *)
(*                                                                                            *)
(* step events.  A "step" event must be an enabled action of the spec, chosen by the kind of   *)
(* the label and the process:                                                                  *)
(*    call:cP -> Call(P)     cancel:cP -> Cancel(P)     fire:cP:what -> Fire(P, what)           *)
(*    grant:cP -> the critical section P is parked at: WriteCS | SampleCS | LongEnter (by pc[P] *)
(*                and the operation); not enabled while a long callback holds the mutex         *)
(*    unhold:cP -> LongExit(P)                                                                  *)
(* The select wake-ups that the real goroutines perform within the same controller step (Wake, *)
(* WakeCtx, WakeErr) are taken eagerly by action composition (TLC option                       *)
(* tlc2.tool.impl.Tool.cdot).  One of them is a genuine choice of the Go runtime: a waiter that *)
(* enters its select with the context already cancelled AND something buffered in / the close   *)
(* of its error channel (both delivered while it was parked before its critical section) may    *)
(* take either case.  The spec allows both (WakeCtx, WakeErr); the replay takes the one the     *)
(* code took, read off the recorded events of the same step (RetIn: the result with which that  *)
(* call returns within the step, or "none").  If no enabled wake-up explains the recorded       *)
(* outcome a fixed one is taken and the comparison below reports the drift.                     *)
(*                                                                                            *)
(* API-level events.  CContainerP is a single record `ps` updated by pure functions, and         *)
(* CContainer.tla fires those functions itself inside its actions.  So instead of asserting      *)
(* single fields, the recorded API events (call, swapcb, valid, ret, cancel, fire, quiet) are    *)
(* replayed through the SAME monitor functions into a second copy `ps2`, with the spec's own ids *)
(* (xid), and at every step boundary (next step / teardown) the two must be identical:           *)
(* ps = ps2.  That compares the possible cell contents, every call record with the values its   *)
(* waiter may have seen, validator outcomes, deliveries, cancellations and returns between what *)
(* the spec says the step did and what the code logged while doing it.  On top of that:         *)
(*    init   -> the container was created with the scenario's constants                         *)
(*    quiet  -> LibQuiet with exactly the logged blocked set                                    *)
(*    ret    -> that call has returned in the spec, with the value the spec's step returns      *)
(*    swapcb -> the callback saw the spec's cell value                                          *)
(*    swapin -> the long callback was entered with the spec's cell value                        *)
(*    valid  -> the validator saw the spec's cell value                                         *)
(* A mismatch is DRIFT: the code no longer takes the steps the spec describes (or the spec is   *)
(* wrong); it never is a verdict by itself.  After a drift the rest of that run is skipped.     *)
EXTENDS CContainer, TraceLib

VARIABLES l, drift, live, ps2, sseq, val0
\* val0: the spec's cell value before the current step (what a callback / validator of the step saw)
tv == <<l, drift, live, ps2, sseq, val0>>

XReset ==
    /\ ps' = FInit(PS0, InitVal, M)
    /\ val' = InitVal
    /\ mtx' = 0
    /\ wch' = [p \in Procs |-> "none"]
    /\ pc' = [p \in Procs |-> "idle"]
    /\ ip' = [p \in Procs |-> 1]
    /\ ctxc' = [p \in Procs |-> FALSE]
    /\ ech' = [p \in Procs |-> <<>>]
    /\ ecl' = [p \in Procs |-> FALSE]
    /\ fired' = [p \in Procs |-> {}]

TInit == Init /\ l = 1 /\ drift = <<>> /\ live = TRUE /\ ps2 = FInit(PS0, InitVal, M) /\ sseq = 0 /\ val0 = InitVal

-----------------------------------------------------------------------------
(* labels *)
Pre(lbl, s) == Len(lbl) > Len(s) /\ SubSeq(lbl, 1, Len(s)) = s
Kind(lbl) == IF Pre(lbl, "call:c") THEN "call"
             ELSE IF Pre(lbl, "grant:c") THEN "grant"
             ELSE IF Pre(lbl, "cancel:c") THEN "cancel"
             ELSE IF Pre(lbl, "unhold:c") THEN "unhold"
             ELSE IF Pre(lbl, "fire:c") /\ Len(lbl) > 8 THEN "fire" ELSE "?"
Digit(c) == CASE c = "1" -> 1 [] c = "2" -> 2 [] c = "3" -> 3 [] c = "4" -> 4 [] c = "5" -> 5
              [] c = "6" -> 6 [] c = "7" -> 7 [] c = "8" -> 8 [] c = "9" -> 9 [] OTHER -> 0
\* "fire:c3:err": process = 7th character, what = from the 9th; otherwise process = last character
Num(k, lbl) == IF k = "fire" THEN Digit(SubSeq(lbl, 7, 7)) ELSE Digit(SubSeq(lbl, Len(lbl), Len(lbl)))
What(lbl) == SubSeq(lbl, 9, Len(lbl))

CanAct(k, p, lbl) ==
    /\ p \in Procs
    /\ CASE k = "call"   -> pc[p] = "idle" /\ ~Done(p)
         [] k = "grant"  -> pc[p] \in {"w", "cs"} /\ mtx = 0
         [] k = "unhold" -> pc[p] = "inlong"
         [] k = "cancel" -> InWait(p) /\ Op(p).c /\ ~ctxc[p]
         [] k = "fire"   -> /\ InWait(p) /\ What(lbl) \in {Op(p).fires[i] : i \in 1..Len(Op(p).fires)}
                            /\ What(lbl) \notin fired[p] /\ ~ecl[p]
         [] OTHER -> FALSE

Act(k, p, lbl) ==
    /\ UNCHANGED <<l, drift, live, ps2, sseq>>
    /\ val0' = val
    /\ CASE k = "call"   -> Call(p)
         [] k = "grant"  -> WriteCS(p) \/ SampleCS(p) \/ LongEnter(p)
         [] k = "unhold" -> LongExit(p)
         [] k = "cancel" -> Cancel(p)
         [] k = "fire"   -> Fire(p, What(lbl))

\* the result with which call id returns within the current step according to the recorded
\* events ("none": it does not return in this step)
RECURSIVE Scan(_, _)
Scan(j, id) ==
    IF j > Len(Trace) THEN "none"
    ELSE LET e == Trace[j] IN
         IF e.ev \in {"step", "reset", "teardown", "end"} THEN "none"
         ELSE IF e.ev = "ret" /\ e.xid = id THEN e.res
         ELSE Scan(j + 1, id)
RetIn(id) == Scan(l + 1, id)

\* one eager wake-up (of the least woken process), or nothing
Woken(q) == pc[q] = "sel" /\ (wch[q] = "closed" \/ ctxc[q] \/ ErrReady(q))
W ==
    /\ UNCHANGED tv
    /\ IF WakeAny
       THEN LET p == CHOOSE q \in Procs : Woken(q) /\ \A r \in Procs : Woken(r) => q <= r
                r == RetIn(CurId(p))
                \* what taking the error-channel case leads to
                errOut == IF ech[p] # <<>> THEN (IF Head(ech[p]) = "err" THEN "errch" ELSE "none") ELSE "canceled"
            IN IF wch[p] = "closed" /\ r = "none" THEN Wake(p)
               ELSE IF ctxc[p] /\ r = "canceled" THEN WakeCtx(p)
               ELSE IF ErrReady(p) /\ r = errOut THEN WakeErr(p)
               \* nothing enabled explains the recording: take a fixed one, the comparison will report it
               ELSE IF wch[p] = "closed" THEN Wake(p) ELSE IF ctxc[p] THEN WakeCtx(p) ELSE WakeErr(p)
       ELSE UNCHANGED vars

Fin == UNCHANGED <<vars, drift, live, ps2, val0>> /\ l' = l + 1 /\ sseq' = Trace[l].seq

-----------------------------------------------------------------------------
\* seq: the event at which the drift was noticed; step: seq of the step event whose effects differ
Drift(why) ==
    /\ drift' = Append(drift, [run |-> Trace[l].run, seq |-> Trace[l].seq, step |-> sseq, why |-> why])
    /\ live' = FALSE
    /\ l' = l + 1
    /\ UNCHANGED <<vars, ps2, sseq, val0>>

DiffName == IF ps.bad # ps2.bad THEN "bad" ELSE IF ps.cfgs # ps2.cfgs THEN "cfgs" ELSE IF ps.canc # ps2.canc THEN "canc"
            ELSE IF DOMAIN ps.calls # DOMAIN ps2.calls THEN "calls (ids)" ELSE IF ps.calls # ps2.calls THEN "calls" ELSE "m"
Differs == "monitor state after the step differs from the recorded events (first differing field: " \o DiffName \o ")"

\* a recorded API event: through the monitor function into ps2
\* (`bad` only grows and the two records must agree at the end of the step, so a condition flagged
\* by a recorded event that the spec's step did not flag is a drift at exactly that event)
Rec(s) == IF s.bad \subseteq ps.bad
          THEN ps2' = s /\ l' = l + 1 /\ UNCHANGED <<vars, drift, live, sseq, val0>>
          ELSE Drift("the monitor flags this recorded event, the spec's step flags nothing")

Returned(id) == id \in Ids(ps) /\ ps.calls[id].st = "returned"
\* the value the spec's step returned from call id (reads and swaps happen in the step itself, so
\* val0 / val are the cell before / after it; a waiter returns the value it sampled = val)
OpOf(id) == Prog[id \div 100][id % 100]
RetVal(id, res) ==
    LET o == OpOf(id) IN
    CASE o.op = "set" -> -1
      [] o.op = "swap" -> val0 + o.d
      [] o.op \in {"get", "swapnil"} -> val
      [] o.op = "wait" -> IF res # "ok" \/ o.kind = "empty" THEN -1 ELSE val

TStep ==
    /\ l <= Len(Trace)
    /\ LET e == Trace[l] IN
       CASE e.ev = "reset" -> /\ XReset /\ ps2' = FInit(PS0, InitVal, M) /\ val0' = InitVal
                              /\ l' = l + 1 /\ live' = TRUE /\ sseq' = e.seq /\ UNCHANGED drift
         [] ~live -> UNCHANGED <<vars, drift, live, ps2, sseq, val0>> /\ l' = l + 1
         [] e.ev = "step" ->
              LET k == Kind(e.label) p == Num(k, e.label) IN
              IF ps # ps2 THEN Drift(Differs)
              ELSE IF CanAct(k, p, e.label)
                   THEN Act(k, p, e.label) \cdot W \cdot W \cdot W \cdot W \cdot W \cdot W \cdot Fin
                   ELSE Drift("step not enabled: " \o e.label)
         [] e.ev = "teardown" ->
              IF ps # ps2 THEN Drift(Differs)
              ELSE UNCHANGED <<vars, drift, ps2, sseq, val0>> /\ live' = FALSE /\ l' = l + 1
         [] e.ev = "init" ->
              IF e.val = InitVal /\ e.m = M THEN Rec(ps2) ELSE Drift("container not created with the scenario's constants")
         [] e.ev = "call"   -> Rec(FCall(ps2, e.xid, e))
         [] e.ev = "cancel" -> Rec(FCancel(ps2, e.xid))
         [] e.ev = "fire"   -> Rec(FFire(ps2, e.xid, e.what))
         [] e.ev = "swapin" ->
              IF e.in = val0 THEN Rec(FSwapIn(ps2, e.xid, e.in)) ELSE Drift("long swap callback was not entered with the spec's value")
         [] e.ev = "swapcb" ->
              IF e.in = val0 THEN Rec(FSwapCb(ps2, e.xid, e.in, e.out)) ELSE Drift("swap callback did not see the spec's value")
         [] e.ev = "valid" ->
              IF e.v = val0 THEN Rec(FValid(ps2, e.xid, e.v, e.res)) ELSE Drift("validator did not see the spec's value")
         [] e.ev = "ret" ->
              IF Returned(e.xid) /\ e.val = RetVal(e.xid, e.res)
              THEN Rec(FRet(ps2, e.xid, e.res, e.val))
              ELSE Drift("return not explained by the spec")
         [] e.ev = "quiet" ->
              IF LibQuiet /\ BlockedIds = SeqToSet(e.xblk) THEN Rec(FQuiet(ps2, SeqToSet(e.xblk)))
              ELSE Drift("quiescent observation differs")
         [] e.ev \in {"panic", "spin"} -> Drift("unexpected event: " \o e.ev)
         [] OTHER -> Rec(ps2)

TFinish ==
    /\ l = Len(Trace) + 1
    /\ JsonSerialize(IOEnv.VERDICT_FILE, [drift |-> drift, consumed |-> Len(Trace), total |-> Len(Trace)])
    /\ l' = l + 1
    /\ UNCHANGED <<vars, drift, live, ps2, sseq, val0>>

TNext == TStep \/ TFinish
=============================================================================
