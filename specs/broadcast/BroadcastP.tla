------------------------------ MODULE BroadcastP ------------------------------
(* Property monitor for broadcast.Broadcast (C03).                                            *)
(*                                                                                          *)
(* API-level facts only: which wait-channel handles were handed out in which critical        *)
(* section, which broadcasts happened after that, the harness-owned guarded counter n, the    *)
(* Wait calls in flight with the outcome of their last predicate evaluation, cancellations.  *)
(* Events are logged by harness-owned callbacks running inside the critical sections (in      *)
(* program order), by the clients around their calls, and by the controller between steps     *)
(* (non-blocking receive on every handle: "probes"; exact quiescence: "quiet").              *)
(*                                                                                          *)
(* The monitor state is ONE record `ps`, and every event is a pure function F..(ps, ..) on it,*)
(* so that the implementation-shaped spec Broadcast.tla can fire several events inside one    *)
(* atomic action (a critical section is csin, body events, csout, probes).  The P.. actions   *)
(* are the usual wrappers.                                                                   *)
(*                                                                                          *)
(* Reading of the statement (weaker readings where it is silent):                            *)
(*  R1 "closed by the first broadcast performed in any LATER critical section": a broadcast   *)
(*     in the SAME critical section after the get may or may not close the handle ("either"); *)
(*     the handle must be open before it, and closed after the first broadcast of a later     *)
(*     critical section.                                                                     *)
(*  R2 channel identity is not constrained (two gets without a broadcast between need not     *)
(*     return the identical channel; both must be open and both closed by the next one).     *)
(*  R3 "critical section" presupposes mutual exclusion: a callback entered while another      *)
(*     callback of the same Broadcast is inside is reported (CsOverlap).                      *)
(*  R4 Wait result rules refer to the LAST predicate evaluation of the call: nil => it        *)
(*     returned true; the predicate's error (identical value) => it returned that error;      *)
(*     after a predicate error the only other admissible result is context.Canceled of a      *)
(*     cancelled context.  context.Canceled => the context was cancelled.                     *)
(*  R5 "never stays blocked while the guarded state satisfies the predicate" is judged at     *)
(*     library-quiescent points only, only when no critical section is open, and only if the  *)
(*     last change of the guarded state was followed (same or later critical section) by a    *)
(*     broadcast -- changing the state without broadcasting is a client error, not judged.    *)
(*     Nothing demands that a cancelled Wait returns (the statement has "only if").           *)
(*  TryHoldLock's result and HoldLockMaybeAsync's eventual execution are not constrained.     *)
EXTENDS Naturals, FiniteSets, Sequences, TLC

VARIABLE ps
pvars == <<ps>>

PS0 == [ hst   |-> <<>>,    \* handle -> "open" | "either" | "closed"   (what the statement demands)
         hcs   |-> <<>>,    \* handle -> id of the critical section in which it was obtained
         cs    |-> {},      \* ids of the critical sections currently open
         cInc  |-> FALSE,   \* the open critical section changed the guarded state
         cB    |-> FALSE,   \* the open critical section broadcast (before or after: same effect)
         dirty |-> FALSE,   \* guarded state changed and no broadcast since (client error window)
         n     |-> 0,       \* mirror of the guarded counter
         w     |-> <<>>,    \* wait id -> [op, k, e, st, last]
         canc  |-> {},      \* wait ids whose context was cancelled
         bad   |-> {} ]     \* names of failed conditions (sticky)

PInit == ps = PS0
PReset == ps' = PS0

Handles(s) == DOMAIN s.hst
Waits(s) == DOMAIN s.w
Flag(s, c, name) == IF c THEN [s EXCEPT !.bad = @ \cup {name}] ELSE s

\* predicate of wait record r on counter value n: "e" error, "t" true, "f" false
PredOf(r, n) == IF r.e > 0 /\ n = r.e THEN "e" ELSE IF n >= r.k THEN "t" ELSE "f"

-----------------------------------------------------------------------------
(* Events as functions *)

\* a callback starts running inside critical section c
FCsIn(s, c) ==
    LET s1 == Flag(Flag(s, s.cs # {}, "CsOverlap"), c \in s.cs, "Harness")
    IN [s1 EXCEPT !.cs = @ \cup {c}, !.cInc = FALSE, !.cB = FALSE]

\* ... and ends
FCsOut(s, c) ==
    LET s1 == Flag(s, c \notin s.cs, "Harness")
    IN [s1 EXCEPT !.cs = @ \ {c},
                  !.dirty = IF s.cB THEN FALSE ELSE IF s.cInc THEN TRUE ELSE @]

\* getWaitCh() called inside critical section c; the returned channel is kept as handle h
FGet(s, h, c) ==
    LET s1 == Flag(s, h \in Handles(s) \/ c \notin s.cs, "Harness")
    IN [s1 EXCEPT !.hst = (h :> "open") @@ @, !.hcs = (h :> c) @@ @]

\* broadcast() called inside critical section c
FBcast(s, c) ==
    LET s1 == Flag(s, c \notin s.cs, "Harness")
    IN [s1 EXCEPT !.hst = [h \in Handles(s) |->
                             IF s.hst[h] = "open" THEN (IF s.hcs[h] = c THEN "either" ELSE "closed")
                             ELSE IF s.hst[h] = "either" /\ s.hcs[h] # c THEN "closed"
                             ELSE s.hst[h]],
                  !.cB = TRUE]

\* the guarded counter is incremented inside a critical section
FInc(s) == [s EXCEPT !.n = @ + 1, !.cInc = TRUE]

\* controller observation between two steps: non-blocking receive on every handle
FProbes(s, open, closed) ==
    LET s1 == Flag(s, ~((open \cup closed) \subseteq Handles(s)), "Harness")
        known == Handles(s)
    IN Flag(Flag(s1, \E h \in closed \cap known : s.hst[h] = "open", "ClosedEarly"),
            \E h \in open \cap known : s.hst[h] = "closed", "NotClosed")

\* a Wait call (op "wait": Broadcast.Wait; op "raw": the sample-then-block loop written
\* directly on HoldLock, as every other package of the library does) with predicate n >= k,
\* error when n = e (e > 0)
FWCall(s, id, op, k, e) ==
    LET s1 == Flag(s, id \in Waits(s), "Harness")
    IN [s1 EXCEPT !.w = (id :> [op |-> op, k |-> k, e |-> e, st |-> "pending", last |-> "none"]) @@ @]

\* the predicate of wait id was evaluated (inside a critical section) with result res
FPred(s, id, res) ==
    IF id \in Waits(s) /\ s.w[id].st = "pending"
    THEN [s EXCEPT !.w[id].last = res]
    ELSE Flag(s, TRUE, "Harness")

\* wait id returned: "ok" (nil) | "perr" (the identical error the predicate returned) |
\* "canceled" (context.Canceled) | anything else
FWRet(s, id, res) ==
    IF id \notin Waits(s) \/ s.w[id].st # "pending" THEN Flag(s, TRUE, "Harness") ELSE
    LET last == s.w[id].last
        c == id \in s.canc
        s1 == Flag(s, res = "ok" /\ last # "t", "NilWithoutPred")
        s2 == Flag(s1, res = "perr" /\ last # "e", "SpuriousErr")
        s3 == Flag(s2, res = "canceled" /\ ~c, "SpuriousCancel")
        s4 == Flag(s3, last = "e" /\ ~(res = "perr" \/ (res = "canceled" /\ c)), "PredErrLost")
        s5 == Flag(s4, res \notin {"ok", "perr", "canceled"}, "UnknownResult")
    IN [s5 EXCEPT !.w[id].st = "returned"]

FCancel(s, id) == [s EXCEPT !.canc = @ \cup {id}]

Pending(s) == {i \in Waits(s) : s.w[i].st = "pending"}

\* what must hold when no library step is possible and exactly the waits in B are blocked
QuietBad(s, B) ==
    (IF s.cs = {} /\ ~s.dirty /\ \E b \in B \cap Pending(s) : PredOf(s.w[b], s.n) = "t"
     THEN {"Stuck"} ELSE {})
    \cup (IF B \subseteq Pending(s) THEN {} ELSE {"Harness"})

FQuiet(s, B) == [s EXCEPT !.bad = @ \cup QuietBad(s, B)]

-----------------------------------------------------------------------------
(* Events as actions (trace spec) *)
PCsIn(c) == ps' = FCsIn(ps, c)
PCsOut(c) == ps' = FCsOut(ps, c)
PGet(h, c) == ps' = FGet(ps, h, c)
PBcast(c) == ps' = FBcast(ps, c)
PInc == ps' = FInc(ps)
PProbes(o, c) == ps' = FProbes(ps, o, c)
PWCall(id, op, k, e) == ps' = FWCall(ps, id, op, k, e)
PPred(id, res) == ps' = FPred(ps, id, res)
PWRet(id, res) == ps' = FWRet(ps, id, res)
PCancel(id) == ps' = FCancel(ps, id)
PQuiet(B) == ps' = FQuiet(ps, B)
PUnexplained == ps' = Flag(ps, TRUE, "Unexplained")

-----------------------------------------------------------------------------
(* The property *)
bad == ps.bad
C03Names == {"ClosedEarly", "NotClosed", "CsOverlap", "NilWithoutPred", "SpuriousErr",
             "SpuriousCancel", "PredErrLost", "UnknownResult", "Stuck"}
Safe_C03 == bad \cap C03Names = {}
NoHarnessError == "Harness" \notin bad
Violated == bad
=============================================================================
