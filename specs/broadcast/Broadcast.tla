------------------------------ MODULE Broadcast ------------------------------
(* Implementation-shaped specification of broadcast.Broadcast (broadcast/broadcast.go).       *)
(*                                                                                          *)
(* One action per critical section (a callback run under Broadcast.mtx), per goroutine        *)
(* start and per select wake-up; client programs, cancellation and the end of a long-held     *)
(* critical section are the environment.  Unlike every other X spec, which uses the           *)
(* abstraction wch[p] \in {"none","cur","closed"}, this one carries explicit channel          *)
(* identities 1..K exactly as the code creates them (make in getWaitChLocked, close-and-      *)
(* forget in broadcastLocked), and TLC checks the invariant that justifies the abstraction:   *)
(* every channel ever created, other than the current one, is closed (AbsOK), and a held      *)
(* channel only ever moves cur -> closed (AbsStep).                                           *)
(*                                                                                          *)
(* Client operations (Prog[p] is a sequence of records):                                      *)
(*   [op |-> "hold",  body]   HoldLock(cb)                   body: sequence of letters        *)
(*   [op |-> "try",   body]   TryHoldLock(cb)                  "i"  guarded counter n++       *)
(*   [op |-> "maybe", body]   HoldLockMaybeAsync(cb)           "b"  broadcast()                *)
(*   [op |-> "long",  body]   HoldLock(cb), cb stays inside    "g"  keep getWaitCh() as handle *)
(*                            until the environment lets it go (the only way TryLock fails)   *)
(*   [op |-> "wait", k, e, c, g] Broadcast.Wait with predicate n = e -> error, n >= k -> true *)
(*                            (g: a predicate returning false also keeps getWaitCh() as handle)*)
(*   [op |-> "raw",  k, e, c, g] the same loop written directly on HoldLock (sample-then-block)*)
(* The BroadcastP monitor is fed at the API-visible points, through its event functions.      *)
EXTENDS BroadcastP, Integers

CONSTANTS
    Prog,        \* client programs
    K,           \* bound on channel identities (checked, not imposed)
    EagerWake    \* TRUE: select wake-ups are taken before anything else (controller granularity)

Procs == 1..Len(Prog)
Id(p, j) == p * 100 + j

VARIABLES
    mtx,      \* 0: Broadcast.mtx free; c > 0: held by the long critical section with id c
    ch,       \* Broadcast.ch: current wait channel id, 0 = nil
    nxt,      \* next fresh channel id (make(chan struct{}))
    closed,   \* channel ids that have been closed
    n,        \* the guarded state: a harness-owned counter
    hch,      \* sequence: handle h -> channel id (handles kept by "g" bodies and raw waiters)
    hnd,      \* per process: the channel its Wait / raw loop will select on (0: none)
    pc, ip, ctxc,
    asy,      \* goroutines spawned by HoldLockMaybeAsync: sequence of [body, st]  st: go|lock|done
    ncs       \* critical sections (callbacks) started so far

xvars == <<mtx, ch, nxt, closed, n, hch, hnd, pc, ip, ctxc, asy, ncs>>
vars == <<xvars, pvars>>

Op(p) == Prog[p][ip[p]]
CurId(p) == Id(p, ip[p])
\* at most one goroutine per "maybe" operation is ever spawned
AllOps == UNION {{<<p, j>> : j \in 1..Len(Prog[p])} : p \in Procs}
AsyIdx == 1..Cardinality({x \in AllOps : Prog[x[1]][x[2]].op = "maybe"})
Done(p) == ip[p] > Len(Prog[p])

Init ==
    /\ PInit
    /\ mtx = 0 /\ ch = 0 /\ nxt = 1 /\ closed = {} /\ n = 0 /\ hch = <<>>
    /\ hnd = [p \in Procs |-> 0]
    /\ pc = [p \in Procs |-> "idle"]
    /\ ip = [p \in Procs |-> 1]
    /\ ctxc = [p \in Procs |-> FALSE]
    /\ asy = <<>> /\ ncs = 0

-----------------------------------------------------------------------------
(* The code under the mutex, on a record of the guarded fields + monitor state *)

Snap == [n |-> n, ch |-> ch, nxt |-> nxt, closed |-> closed, hch |-> hch, ps |-> ps]

\* broadcastLocked (broadcast.go:109-114)
DoBcast(r) == IF r.ch # 0 THEN [r EXCEPT !.closed = @ \cup {r.ch}, !.ch = 0] ELSE r
\* getWaitChLocked (broadcast.go:117-122): result channel id, new record
GetId(r) == IF r.ch = 0 THEN r.nxt ELSE r.ch
DoGet(r) == IF r.ch = 0 THEN [r EXCEPT !.ch = r.nxt, !.nxt = @ + 1] ELSE r

Letter(r, x, c) ==
    CASE x = "i" -> [r EXCEPT !.n = @ + 1, !.ps = FInc(@)]
      [] x = "b" -> [DoBcast(r) EXCEPT !.ps = FBcast(@, c)]
      [] x = "g" -> [DoGet(r) EXCEPT !.hch = Append(@, GetId(r)), !.ps = FGet(@, Len(r.hch) + 1, c)]

RECURSIVE RunBody(_, _, _)
RunBody(r, body, c) == IF body = <<>> THEN r ELSE RunBody(Letter(r, Head(body), c), Tail(body), c)

\* callback entered in critical section c, body run (callback not yet left)
Enter(body, c) == RunBody([Snap EXCEPT !.ps = FCsIn(@, c)], body, c)
Leave(r, c) == [r EXCEPT !.ps = FCsOut(@, c)]

\* the controller's probes after the step: status of every handle
Probed(r) ==
    LET H == 1..Len(r.hch) IN
    FProbes(r.ps, {h \in H : r.hch[h] \notin r.closed}, {h \in H : r.hch[h] \in r.closed})

Commit(r) ==
    /\ n' = r.n /\ ch' = r.ch /\ nxt' = r.nxt /\ closed' = r.closed /\ hch' = r.hch
    /\ ps' = Probed(r)

Advance(p) == ip' = [ip EXCEPT ![p] = @ + 1]
BlockedIds == {CurId(q) : q \in {r \in Procs : pc[r] = "sel"}}

-----------------------------------------------------------------------------
WakeAny == \E p \in Procs : pc[p] = "sel" /\ (hnd[p] \in closed \/ ctxc[p])
Gate == ~(EagerWake /\ WakeAny)

(* Environment: the client issues its next operation (and runs up to its first lock hook). *)
Call(p) ==
    /\ Gate
    /\ pc[p] = "idle" /\ ~Done(p)
    /\ LET o == Op(p) IN
       IF o.op \in {"wait", "raw"}
       THEN \* fresh context: the ctx.Err() check at the top of the loop passes
            /\ pc' = [pc EXCEPT ![p] = "cs"]
            /\ ctxc' = [ctxc EXCEPT ![p] = FALSE]
            /\ ps' = FWCall(ps, CurId(p), o.op, o.k, o.e)
       ELSE /\ pc' = [pc EXCEPT ![p] = o.op]
            /\ UNCHANGED <<ctxc, ps>>
    /\ UNCHANGED <<mtx, ch, nxt, closed, n, hch, hnd, ip, asy, ncs>>

\* HoldLock(cb): one critical section (broadcast.go:23-29)
HoldCS(p) ==
    /\ Gate
    /\ pc[p] = "hold" /\ mtx = 0
    /\ Commit(Leave(Enter(Op(p).body, ncs + 1), ncs + 1))
    /\ ncs' = ncs + 1
    /\ pc' = [pc EXCEPT ![p] = "idle"] /\ Advance(p)
    /\ UNCHANGED <<mtx, hnd, ctxc, asy>>

\* TryHoldLock(cb) (broadcast.go:33-43): the callback runs only if the mutex is free
TryCS(p) ==
    /\ Gate
    /\ pc[p] = "try"
    /\ IF mtx = 0
       THEN /\ Commit(Leave(Enter(Op(p).body, ncs + 1), ncs + 1))
            /\ ncs' = ncs + 1
       ELSE UNCHANGED <<n, ch, nxt, closed, hch, ps, ncs>>
    /\ pc' = [pc EXCEPT ![p] = "idle"] /\ Advance(p)
    /\ UNCHANGED <<mtx, hnd, ctxc, asy>>

\* HoldLockMaybeAsync(cb) (broadcast.go:47-69): inline if the mutex is free, else a goroutine
MaybeCS(p) ==
    /\ Gate
    /\ pc[p] = "maybe"
    /\ IF mtx = 0
       THEN /\ Commit(Leave(Enter(Op(p).body, ncs + 1), ncs + 1))
            /\ ncs' = ncs + 1
            /\ UNCHANGED asy
       ELSE /\ asy' = Append(asy, [body |-> Op(p).body, st |-> "go"])
            /\ UNCHANGED <<n, ch, nxt, closed, hch, ps, ncs>>
    /\ pc' = [pc EXCEPT ![p] = "idle"] /\ Advance(p)
    /\ UNCHANGED <<mtx, hnd, ctxc>>

\* the spawned goroutine starts (verifhook.Go) ...
AsyncGo(i) ==
    /\ Gate
    /\ i \in 1..Len(asy) /\ asy[i].st = "go"
    /\ asy' = [asy EXCEPT ![i].st = "lock"]
    /\ UNCHANGED <<mtx, ch, nxt, closed, n, hch, hnd, pc, ip, ctxc, ncs, ps>>

\* ... and runs the callback under the mutex
AsyncCS(i) ==
    /\ Gate
    /\ i \in 1..Len(asy) /\ asy[i].st = "lock" /\ mtx = 0
    /\ Commit(Leave(Enter(asy[i].body, ncs + 1), ncs + 1))
    /\ ncs' = ncs + 1
    /\ asy' = [asy EXCEPT ![i].st = "done"]
    /\ UNCHANGED <<mtx, hnd, pc, ip, ctxc>>

\* HoldLock(cb) whose callback stays inside the critical section
LongEnter(p) ==
    /\ Gate
    /\ pc[p] = "long" /\ mtx = 0
    /\ Commit(Enter(Op(p).body, ncs + 1))
    /\ ncs' = ncs + 1 /\ mtx' = ncs + 1
    /\ pc' = [pc EXCEPT ![p] = "inlong"]
    /\ UNCHANGED <<hnd, ip, ctxc, asy>>

\* environment: the callback returns, the mutex is released
LongExit(p) ==
    /\ Gate
    /\ pc[p] = "inlong"
    /\ Commit(Leave(Snap, mtx))
    /\ mtx' = 0
    /\ pc' = [pc EXCEPT ![p] = "idle"] /\ Advance(p)
    /\ UNCHANGED <<hnd, ctxc, asy, ncs>>

Return(p, r, res) ==
    /\ pc' = [pc EXCEPT ![p] = "idle"] /\ Advance(p)
    /\ hnd' = [hnd EXCEPT ![p] = 0]
    /\ Commit([r EXCEPT !.ps = FWRet(@, CurId(p), res)])

\* the critical section of the Wait loop (broadcast.go:89-94): predicate, then getWaitCh
\* if it neither succeeded nor failed; the raw loop does the same and keeps a handle
WaitCS(p) ==
    /\ Gate
    /\ pc[p] = "cs" /\ mtx = 0
    /\ LET o == Op(p)
           c == ncs + 1
           res == PredOf(o, n)
           r0 == [Snap EXCEPT !.ps = FPred(FCsIn(@, c), CurId(p), res)]
       IN IF res = "f"
          THEN LET r1 == IF o.op = "raw" \/ o.g THEN Letter(r0, "g", c) ELSE DoGet(r0) IN
               /\ hnd' = [hnd EXCEPT ![p] = GetId(r0)]
               /\ pc' = [pc EXCEPT ![p] = "sel"]
               /\ Commit(Leave(r1, c))
               /\ UNCHANGED ip
          ELSE Return(p, Leave(r0, c), IF res = "t" THEN "ok" ELSE "perr")
    /\ ncs' = ncs + 1
    /\ UNCHANGED <<mtx, ctxc, asy>>

\* select: the wait channel fired; back to the top of the loop, where ctx.Err() is checked
Wake(p) ==
    /\ pc[p] = "sel" /\ hnd[p] \in closed
    /\ IF ctxc[p]
       THEN Return(p, Snap, "canceled")
       ELSE /\ pc' = [pc EXCEPT ![p] = "cs"]
            /\ UNCHANGED <<n, ch, nxt, closed, hch, hnd, ip, ps>>
    /\ UNCHANGED <<mtx, ctxc, asy, ncs>>

\* select: ctx.Done() fired
WakeCtx(p) ==
    /\ pc[p] = "sel" /\ ctxc[p]
    /\ Return(p, Snap, "canceled")
    /\ UNCHANGED <<mtx, ctxc, asy, ncs>>

\* environment: the context of a Wait / raw call is cancelled
Cancel(p) ==
    /\ Gate
    /\ pc[p] \in {"cs", "sel"} /\ Op(p).c /\ ~ctxc[p]
    /\ ctxc' = [ctxc EXCEPT ![p] = TRUE]
    /\ ps' = FCancel(ps, CurId(p))
    /\ UNCHANGED <<mtx, ch, nxt, closed, n, hch, hnd, pc, ip, asy, ncs>>

-----------------------------------------------------------------------------
Next ==
    \/ \E p \in Procs :
        \/ Call(p) \/ Cancel(p) \/ LongExit(p)
        \/ HoldCS(p) \/ TryCS(p) \/ MaybeCS(p) \/ LongEnter(p) \/ WaitCS(p)
        \/ Wake(p) \/ WakeCtx(p)
    \/ \E i \in AsyIdx : AsyncGo(i) \/ AsyncCS(i)

Spec == Init /\ [][Next]_vars

\* no library-internal step is possible (a goroutine waiting for the mutex of a long critical
\* section is not quiet: it is parked at its lock hook)
LibQuiet ==
    /\ \A p \in Procs : pc[p] \in {"idle", "sel", "inlong"}
    /\ \A i \in 1..Len(asy) : asy[i].st = "done"
    /\ ~WakeAny

-----------------------------------------------------------------------------
(* Invariants *)
TypeOK ==
    /\ ch \in 0..K /\ nxt \in 1..(K + 1) /\ closed \subseteq 1..K
    /\ \A p \in Procs : hnd[p] \in 0..K

\* The justification of the Broadcast abstraction used by all other X specs: at most one
\* channel is open, namely the current one; every other channel ever handed out is closed.
AbsOK ==
    /\ \A c \in 1..(nxt - 1) : c # ch => c \in closed
    /\ ch # 0 => (ch < nxt /\ ch \notin closed)

Abs(c, cur, cl) == IF c = 0 THEN "none" ELSE IF c = cur THEN "cur" ELSE "closed"
\* a channel somebody holds is "cur" or "closed" and only ever moves cur -> closed
AbsStep ==
    [][\A p \in Procs : (hnd'[p] = hnd[p] /\ hnd[p] # 0) =>
          \/ Abs(hnd[p], ch', closed') = Abs(hnd[p], ch, closed)
          \/ (Abs(hnd[p], ch, closed) = "cur" /\ Abs(hnd[p], ch', closed') = "closed" /\ hnd[p] \in closed')]_vars

\* the mutex is held exactly while a long critical section is open, and the monitor sees it
MtxAgree == (mtx # 0) = (\E p \in Procs : pc[p] = "inlong") /\ ps.cs = (IF mtx = 0 THEN {} ELSE {mtx})

\* the monitor's mirror of the guarded counter is exact
Mirror == ps.n = n

\* C03 at quiescent points, through the monitor's own definition
QuietInv == LibQuiet => QuietBad(ps, BlockedIds) = {}

ModelSafe == Safe_C03 /\ NoHarnessError
=============================================================================
