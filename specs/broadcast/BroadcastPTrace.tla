--------------------------- MODULE BroadcastPTrace ---------------------------
(* Replays an ndjson trace recorded from the real broadcast.Broadcast through the BroadcastP   *)
(* monitor.  Deterministic: one state per event; every failed condition is collected and      *)
(* written to VERDICT_FILE.                                                                   *)
EXTENDS BroadcastP, TraceLib

VARIABLES l, viol, seen

tvars == <<l, viol, seen>>

TInit == PInit /\ l = 1 /\ viol = <<>> /\ seen = {}

Fresh == Violated \ seen
Recorded ==
    IF l > 1 /\ Fresh # {}
    THEN Append(viol, [run |-> Trace[l-1].run, seq |-> Trace[l-1].seq, names |-> Fresh, l |-> l - 1])
    ELSE viol

Apply(e) ==
    CASE e.ev = "reset"  -> PReset
      [] e.ev = "csin"   -> PCsIn(e.cs)
      [] e.ev = "csout"  -> PCsOut(e.cs)
      [] e.ev = "get"    -> PGet(e.h, e.cs)
      [] e.ev = "bcast"  -> PBcast(e.cs)
      [] e.ev = "inc"    -> PInc
      [] e.ev = "probes" -> PProbes(SeqToSet(e.open), SeqToSet(e.closed))
      [] e.ev = "wcall"  -> PWCall(e.id, e.op, e.k, e.e)
      [] e.ev = "pred"   -> PPred(e.id, e.res)
      [] e.ev = "wret"   -> PWRet(e.id, e.res)
      [] e.ev = "cancel" -> PCancel(e.id)
      [] e.ev = "quiet"  -> PQuiet(SeqToSet(e.blk))
      [] e.ev \in {"call", "ret", "leak", "note", "end"} -> UNCHANGED pvars
      [] e.ev \in {"step", "teardown"} -> UNCHANGED pvars   \* only in traces recorded for BroadcastXTrace
      [] OTHER           -> PUnexplained

TStep ==
    /\ l <= Len(Trace)
    /\ viol' = Recorded
    /\ seen' = IF Trace[l].ev = "reset" THEN {} ELSE seen \cup Violated
    /\ Apply(Trace[l])
    /\ l' = l + 1

TFinish ==
    /\ l = Len(Trace) + 1
    /\ viol' = Recorded
    /\ WriteVerdict(viol', Len(Trace))
    /\ l' = l + 1
    /\ UNCHANGED <<pvars, seen>>

TNext == TStep \/ TFinish
TSpec == TInit /\ [][TNext]_<<pvars, tvars>>
=============================================================================
