--------------------------- MODULE BroadcastXTrace ---------------------------
(* X-level trace validation (advisory, DESIGN §2.5): executions of ONE scenario (the constant  *)
(* Prog) recorded from the real broadcast.Broadcast with every controller step logged are       *)
(* replayed through the actions of Broadcast.tla itself.                                        *)
(*                                                                                            *)
(* step events.  A "step" event must be an enabled action of the spec, chosen by the kind of   *)
(* the label and the process:                                                                  *)
(*    call:cP    -> Call(P)                 cancel:cP -> Cancel(P)      unhold:cP -> LongExit(P) *)
(*    grant:cP   -> the critical section P is parked at: HoldCS | TryCS | MaybeCS | LongEnter  *)
(*                  | WaitCS (by pc[P]; at most one of them is enabled)                        *)
(*    grant:broadcast.holdasync#I -> AsyncGo(I) | AsyncCS(I) (by asy[I].st)                    *)
(* The select wake-ups that the real goroutines perform within the same controller step (Wake, *)
(* WakeCtx) are taken eagerly by action composition (TLC option tlc2.tool.impl.Tool.cdot).     *)
(*                                                                                            *)
(* API-level events.  BroadcastP is a single record `ps` updated by pure functions, and         *)
(* Broadcast.tla fires those functions itself inside its actions.  So instead of asserting      *)
(* single fields, the recorded API events (csin, inc, bcast, get, csout, probes, wcall, pred,   *)
(* wret, cancel, quiet) are replayed through the SAME monitor functions into a second copy      *)
(* `ps2`, with the spec's own ids (xid), and at every step boundary (next step / teardown) the  *)
(* two must be identical: ps = ps2.  That compares everything the monitor knows -- critical     *)
(* section numbering, which handle was obtained in which section, the broadcasts, the guarded   *)
(* counter, every predicate outcome, every return, every cancellation -- between what the spec *)
(* says the step did and what the code logged while doing it.  On top of that a few events are  *)
(* assertions on implementation state that the monitor does not hold:                          *)
(*    probes -> the logged open/closed vector is exactly the spec's channel state (hch, closed) *)
(*    quiet  -> LibQuiet with exactly the logged blocked set                                    *)
(*    wret   -> that call has returned in the spec, with the result the spec computed           *)
(*    pred   -> the outcome is the spec's last predicate outcome of that call                   *)
(*    get    -> the spec obtained that handle in that critical section                          *)
(*    ret of a TryHoldLock -> ok iff the spec's mutex is free                                   *)
(* A mismatch is DRIFT: the code no longer takes the steps the spec describes (or the spec is   *)
(* wrong); it never is a verdict by itself.  After a drift the rest of that run is skipped.     *)
EXTENDS Broadcast, TraceLib

VARIABLES l, drift, live, ps2, sseq
tv == <<l, drift, live, ps2, sseq>>

XReset ==
    /\ PReset
    /\ mtx' = 0 /\ ch' = 0 /\ nxt' = 1 /\ closed' = {} /\ n' = 0 /\ hch' = <<>>
    /\ hnd' = [p \in Procs |-> 0]
    /\ pc' = [p \in Procs |-> "idle"]
    /\ ip' = [p \in Procs |-> 1]
    /\ ctxc' = [p \in Procs |-> FALSE]
    /\ asy' = <<>> /\ ncs' = 0

TInit == Init /\ l = 1 /\ drift = <<>> /\ live = TRUE /\ ps2 = PS0 /\ sseq = 0

-----------------------------------------------------------------------------
(* labels *)
Pre(lbl, s) == Len(lbl) > Len(s) /\ SubSeq(lbl, 1, Len(s)) = s
Kind(lbl) == IF Pre(lbl, "call:c") THEN "call"
             ELSE IF Pre(lbl, "grant:broadcast.holdasync#") THEN "agrant"
             ELSE IF Pre(lbl, "grant:c") THEN "grant"
             ELSE IF Pre(lbl, "cancel:c") THEN "cancel"
             ELSE IF Pre(lbl, "unhold:c") THEN "unhold" ELSE "?"
Digit(c) == CASE c = "1" -> 1 [] c = "2" -> 2 [] c = "3" -> 3 [] c = "4" -> 4 [] c = "5" -> 5
              [] c = "6" -> 6 [] c = "7" -> 7 [] c = "8" -> 8 [] c = "9" -> 9 [] OTHER -> 0
\* process number / goroutine number: the last character of the label
Num(lbl) == Digit(SubSeq(lbl, Len(lbl), Len(lbl)))

CanAct(k, p) ==
    CASE k = "call"   -> p \in Procs /\ pc[p] = "idle" /\ ~Done(p)
      [] k = "grant"  -> p \in Procs /\ (pc[p] \in {"try", "maybe"} \/ (pc[p] \in {"hold", "long", "cs"} /\ mtx = 0))
      [] k = "cancel" -> p \in Procs /\ pc[p] \in {"cs", "sel"} /\ Op(p).c /\ ~ctxc[p]
      [] k = "unhold" -> p \in Procs /\ pc[p] = "inlong"
      [] k = "agrant" -> p \in 1..Len(asy) /\ (asy[p].st = "go" \/ (asy[p].st = "lock" /\ mtx = 0))
      [] OTHER -> FALSE

Act(k, p) ==
    /\ UNCHANGED tv
    /\ CASE k = "call"   -> Call(p)
         [] k = "grant"  -> HoldCS(p) \/ TryCS(p) \/ MaybeCS(p) \/ LongEnter(p) \/ WaitCS(p)
         [] k = "cancel" -> Cancel(p)
         [] k = "unhold" -> LongExit(p)
         [] k = "agrant" -> AsyncGo(p) \/ AsyncCS(p)

\* one eager wake-up (of the least woken process), or nothing.  When both the channel and the
\* context are ready Wake and WakeCtx have the same successor (the ctx.Err() check at the top of
\* the loop), so this is deterministic.
Woken(q) == pc[q] = "sel" /\ (hnd[q] \in closed \/ ctxc[q])
W ==
    /\ UNCHANGED tv
    /\ IF WakeAny
       THEN LET p == CHOOSE q \in Procs : Woken(q) /\ \A r \in Procs : Woken(r) => q <= r
            IN Wake(p) \/ WakeCtx(p)
       ELSE UNCHANGED vars

Fin == UNCHANGED <<vars, drift, live, ps2>> /\ l' = l + 1 /\ sseq' = Trace[l].seq

-----------------------------------------------------------------------------
\* seq: the event at which the drift was noticed; step: seq of the step event whose effects differ
Drift(why) ==
    /\ drift' = Append(drift, [run |-> Trace[l].run, seq |-> Trace[l].seq, step |-> sseq, why |-> why])
    /\ live' = FALSE
    /\ l' = l + 1
    /\ UNCHANGED <<vars, ps2, sseq>>

\* the fields of the monitor record in which spec and recorded events disagree
DiffName == IF ps.bad # ps2.bad THEN "bad" ELSE IF ps.w # ps2.w THEN "w" ELSE IF ps.n # ps2.n THEN "n"
            ELSE IF ps.hst # ps2.hst THEN "hst" ELSE IF ps.hcs # ps2.hcs THEN "hcs" ELSE IF ps.cs # ps2.cs THEN "cs"
            ELSE IF ps.canc # ps2.canc THEN "canc" ELSE "cInc/cB/dirty"
Differs == "monitor state after the step differs from the recorded events (first differing field: " \o DiffName \o ")"

\* a recorded API event: through the monitor function into ps2
\* (`bad` only grows and the two records must agree at the end of the step, so a condition flagged
\* by a recorded event that the spec's step did not flag is a drift at exactly that event)
Rec(s) == IF s.bad \subseteq ps.bad
          THEN ps2' = s /\ l' = l + 1 /\ UNCHANGED <<vars, drift, live, sseq>>
          ELSE Drift("the monitor flags this recorded event, the spec's step flags nothing")

\* the result the spec computed for a returned wait: a function of its last predicate outcome
ResOf(last) == IF last = "t" THEN "ok" ELSE IF last = "e" THEN "perr" ELSE "canceled"

TStep ==
    /\ l <= Len(Trace)
    /\ LET e == Trace[l] IN
       CASE e.ev = "reset" -> XReset /\ ps2' = PS0 /\ l' = l + 1 /\ live' = TRUE /\ sseq' = e.seq /\ UNCHANGED drift
         [] ~live -> UNCHANGED <<vars, drift, live, ps2, sseq>> /\ l' = l + 1
         [] e.ev = "step" ->
              LET k == Kind(e.label) p == Num(e.label) IN
              IF ps # ps2 THEN Drift(Differs)
              ELSE IF CanAct(k, p) THEN Act(k, p) \cdot W \cdot W \cdot W \cdot W \cdot W \cdot W \cdot Fin
              ELSE Drift("step not enabled: " \o e.label)
         [] e.ev = "teardown" ->
              IF ps # ps2 THEN Drift(Differs)
              ELSE UNCHANGED <<vars, drift, ps2, sseq>> /\ live' = FALSE /\ l' = l + 1
         [] e.ev = "csin"   -> Rec(FCsIn(ps2, e.cs))
         [] e.ev = "csout"  -> Rec(FCsOut(ps2, e.cs))
         [] e.ev = "get" ->
              IF e.h \in Handles(ps) /\ ps.hcs[e.h] = e.cs THEN Rec(FGet(ps2, e.h, e.cs))
              ELSE Drift("handle not obtained in that critical section in the spec")
         [] e.ev = "bcast"  -> Rec(FBcast(ps2, e.cs))
         [] e.ev = "inc"    -> Rec(FInc(ps2))
         [] e.ev = "wcall"  -> Rec(FWCall(ps2, e.xid, e.op, e.k, e.e))
         [] e.ev = "pred" ->   \* at most one evaluation per call and step: it is the spec's last outcome
              IF e.xid \in Waits(ps) /\ ps.w[e.xid].last = e.res THEN Rec(FPred(ps2, e.xid, e.res))
              ELSE Drift("predicate outcome differs from the spec's")
         [] e.ev = "cancel" -> Rec(FCancel(ps2, e.xid))
         [] e.ev = "wret" ->
              IF e.xid \in Waits(ps) /\ ps.w[e.xid].st = "returned" /\ e.res = ResOf(ps.w[e.xid].last)
              THEN Rec(FWRet(ps2, e.xid, e.res))
              ELSE Drift("return not explained by the spec")
         [] e.ev = "probes" ->
              LET H == 1..Len(hch) IN
              IF SeqToSet(e.open) = {h \in H : hch[h] \notin closed} /\ SeqToSet(e.closed) = {h \in H : hch[h] \in closed}
              THEN Rec(FProbes(ps2, SeqToSet(e.open), SeqToSet(e.closed)))
              ELSE Drift("probed channel states differ from the spec's channels")
         [] e.ev = "quiet" ->
              IF LibQuiet /\ BlockedIds = SeqToSet(e.xblk) THEN Rec(FQuiet(ps2, SeqToSet(e.xblk)))
              ELSE Drift("quiescent observation differs")
         [] e.ev = "ret" ->
              IF e.op = "try" /\ e.ok # (mtx = 0) THEN Drift("TryHoldLock result differs") ELSE Rec(ps2)
         [] e.ev \in {"panic", "spin"} -> Drift("unexpected event: " \o e.ev)
         [] OTHER -> Rec(ps2)

TFinish ==
    /\ l = Len(Trace) + 1
    /\ JsonSerialize(IOEnv.VERDICT_FILE, [drift |-> drift, consumed |-> Len(Trace), total |-> Len(Trace)])
    /\ l' = l + 1
    /\ UNCHANGED <<vars, drift, live, ps2, sseq>>

TNext == TStep \/ TFinish
=============================================================================
