------------------------------- MODULE Routine -------------------------------
(* Implementation-shaped specification of routine.RoutineContainer and of the state variant   *)
(* (routine/routine.go, routine/state.go).  One action per Broadcast.HoldLock critical        *)
(* section, per goroutine start, per select wake-up, per timer callback; the environment       *)
(* issues API calls, decides how and when an instance of the managed function returns, and     *)
(* advances time.  The RoutineP monitor is updated at every API-visible step, so C04/C05/C14   *)
(* have one definition.                                                                        *)
(*                                                                                            *)
(* Goroutine g of execute() is identified by its spawn number; "its context" is the context    *)
(* derived for it by start(); closed[g] says its exited channel is closed.                     *)
(* Steps that do not end at a park point of the deterministic controller (running the exit     *)
(* callbacks after the bookkeeping section, logging the context snapshot after a call, select  *)
(* wake-ups) are "transient": with Eager = TRUE they are taken before anything else, which is  *)
(* the granularity at which the controller steps the real code.                                *)
EXTENDS RoutineP

CONSTANTS
    Prog,      \* Prog[p]: sequence of op records [op, c, r, f, s, rin]
    Variant,   \* "plain" | "state"
    Retry,     \* BOOLEAN: backoff configured (constant 10 time units)
    MaxG,      \* bound on execute() goroutines
    MaxTicks,  \* bound on Tick steps (7 time units each)
    FixF2,     \* TRUE: the code after "fix: routine: a new instance waits for every earlier instance"
    FixF14,    \* TRUE: the state container takes the routine container's lock and uses ITS broadcast
    RootCancel,\* TRUE: the client may cancel the root contexts it handed to SetContext (environment action)
    Eager

Procs == 1..Len(Prog)
CallId(p, j) == p * 100 + j

VARIABLES
    kctx,     \* RoutineContainer.ctx as a context tag (0 = nil)
    cur,      \* RoutineContainer.routine as a record id (0 = nil)
    kprev,    \* RoutineContainer.prevExitedCh as a goroutine id (0 = nil)       [post-fix field]
    rec,      \* record id -> [key, rctx, cgo, ech, err, success, exited, tmr]
    g,        \* goroutine id -> [rec, waitOn, pc, canc, tag, closed, einst]
    ninst,    \* number of instances that entered the function so far
    timers,   \* sequence of [rec, st, due, cbn]: st \in {"armed", "stopped", "fired", "done"}; cbn: callback number
    nfired,   \* number of timer callbacks started so far (= number of anon goroutines)
    tnow, nticks,
    sstate,   \* StateRoutineContainer.s
    pc, ip,   \* clients
    wch,      \* wait channel sampled by a WaitExited caller
    wcanc,    \* WaitExited caller's own context cancelled
    chmap,    \* handle -> goroutine id whose exited channel was returned
    nch,
    pend,     \* per client: data of the API call in progress (result to log)
    ctxdead   \* tags of the root contexts the client has cancelled

xvars == <<kctx, cur, kprev, rec, g, ninst, timers, nfired, tnow, nticks, sstate, pc, ip, wch, wcanc, chmap, nch, pend, ctxdead>>
vars == <<xvars, pvars>>

Recs == DOMAIN rec
Gs == DOMAIN g
NG == Cardinality(Gs)

Op(p) == Prog[p][ip[p]]

NoRec == [key |-> 0, rctx |-> 0, cgo |-> 0, ech |-> 0, err |-> "none", success |-> FALSE, exited |-> FALSE, tmr |-> 0]

Init ==
    /\ PInitCfg(Variant, Retry)
    /\ kctx = 0 /\ cur = 0 /\ kprev = 0 /\ rec = <<>> /\ g = <<>> /\ ninst = 0
    /\ timers = <<>> /\ nfired = 0 /\ tnow = 0 /\ nticks = 0 /\ sstate = 0
    /\ pc = [p \in Procs |-> "idle"] /\ ip = [p \in Procs |-> 1]
    /\ wch = [p \in Procs |-> "none"] /\ wcanc = [p \in Procs |-> FALSE]
    /\ chmap = <<>> /\ nch = 0
    /\ pend = [p \in Procs |-> <<>>]
    /\ ctxdead = {}

-----------------------------------------------------------------------------
(* Pure helpers on a bundle B = [rec, g, timers] *)

Bundle == [rec |-> rec, g |-> g, timers |-> timers]

CancelG(B, x) == IF x = 0 THEN B ELSE [B EXCEPT !.g[x].canc = TRUE]
StopTimer(B, r) ==
    LET t == B.rec[r].tmr IN
    IF t = 0 THEN B
    ELSE [B EXCEPT !.rec[r].tmr = 0,
                   !.timers[t].st = IF B.timers[t].st = "armed" THEN "stopped" ELSE B.timers[t].st]

\* runningRoutine.stop()
Stop(B, r) ==
    LET B1 == CancelG([B EXCEPT !.rec[r].rctx = 0], B.rec[r].cgo) IN
    StopTimer([B1 EXCEPT !.rec[r].cgo = 0], r)

\* is the context stored in record r live?  (r.ctx != nil && r.ctx.Err() == nil)
CtxLive(B, r) == B.rec[r].rctx # 0 /\ ~B.g[B.rec[r].rctx].canc

\* runningRoutine.start(ctx with tag, waitCh = goroutine w, forceRestart)
Start(B, r, tag, w, force) ==
    IF (~force /\ B.rec[r].success) \/ B.rec[r].key = 0 THEN B
    ELSE IF ~force /\ CtxLive(B, r) /\ ~B.rec[r].exited THEN B
    ELSE
      LET B1 == Stop(B, r)
          n == Cardinality(DOMAIN B1.g) + 1
      IN [B1 EXCEPT !.rec[r] = [@ EXCEPT !.err = "none", !.success = FALSE, !.exited = FALSE,
                                          !.ech = n, !.rctx = n, !.cgo = n],
                    !.g = (n :> [rec |-> r, waitOn |-> w, pc |-> "spawned", canc |-> (tag \in ctxdead), tag |-> tag,
                                 closed |-> FALSE, einst |-> 0, out |-> ""]) @@ @]

\* "if k.ctx != nil && k.ctx.Err() != nil { k.ctx = nil }" at the top of WaitExited's section,
\* setRoutineLocked and restartRoutineLocked (SetContext and the timer callback do not do it)
KC == IF kctx # 0 /\ kctx \in ctxdead THEN 0 ELSE kctx
Closed(B, x) == x = 0 \/ B.g[x].closed

SetBundle(B) == rec' = B.rec /\ g' = B.g /\ timers' = B.timers

-----------------------------------------------------------------------------
(* Transient steps and the gate *)
TransientG == {x \in Gs : g[x].pc \in {"cb1", "cb2"}
                  \/ (g[x].pc = "waiting" /\ (g[x].canc \/ Closed(Bundle, g[x].waitOn)))
                  \/ (g[x].pc = "cwait" /\ Closed(Bundle, g[x].waitOn))}
TransientP == {p \in Procs : pc[p] \in {"ret", "snap"} \/ (pc[p] = "wsel" /\ (wch[p] = "closed" \/ wcanc[p]))}
Gate == ~(Eager /\ (TransientG # {} \/ TransientP # {}))

Bcast(w) == [q \in Procs |-> IF w[q] = "cur" THEN "closed" ELSE w[q]]

Advance(p) == ip' = [ip EXCEPT ![p] = @ + 1]

-----------------------------------------------------------------------------
(* Clients *)

\* the client logs the call and parks before Broadcast.HoldLock
Call(p) ==
    /\ Gate
    /\ pc[p] = "idle" /\ ip[p] <= Len(Prog[p])
    /\ LET o == Op(p) IN
       /\ PCall([id |-> CallId(p, ip[p]), op |-> o.op, actor |-> p, rin |-> o.rin, r |-> o.r, c |-> o.c, f |-> o.f, s |-> o.s])
       /\ pc' = [pc EXCEPT ![p] = IF o.op = "waitexited" THEN "wcs" ELSE "cs"]
       /\ wcanc' = [wcanc EXCEPT ![p] = FALSE]
    /\ UNCHANGED <<kctx, cur, kprev, rec, g, ninst, timers, nfired, tnow, nticks, sstate, ip, wch, chmap, nch, pend, ctxdead>>

\* setRoutineLocked(key) on bundle B; returns [B, cur, kprev, ch (goroutine id of returned channel), reset]
SetRoutineLocked(B, key) ==
    LET prev == cur
        prevCh == IF prev # 0 THEN B.rec[prev].ech ELSE 0
        wasReset == prev # 0 /\ KC # 0 /\ ~B.rec[prev].exited
        B1 == IF prev # 0 THEN [CancelG(B, B.rec[prev].cgo) EXCEPT !.rec[prev].cgo = 0] ELSE B
        waitCh == IF FixF2 THEN (IF prev = 0 THEN kprev ELSE prevCh) ELSE prevCh
        nr == Cardinality(DOMAIN B1.rec) + 1
    IN
    IF key # 0
    THEN LET B2 == [B1 EXCEPT !.rec = (nr :> [NoRec EXCEPT !.key = key, !.ech = IF FixF2 THEN waitCh ELSE 0]) @@ @]
             B3 == IF KC # 0 THEN Start(B2, nr, KC, waitCh, FALSE) ELSE B2
         IN [B |-> B3, cur |-> nr, kprev |-> 0, ch |-> prevCh, reset |-> wasReset, bc |-> TRUE]
    ELSE [B |-> B1, cur |-> 0, kprev |-> IF FixF2 THEN waitCh ELSE 0, ch |-> prevCh, reset |-> wasReset, bc |-> wasReset]

Running(B, c, k) == k # 0 /\ c # 0 /\ ~B.rec[c].exited

\* the critical section of a non-waiting API call; the result is kept in pend and logged by Ret
CS(p) ==
    /\ Gate
    /\ pc[p] = "cs"
    /\ LET o == Op(p) IN
       CASE o.op \in {"setctx", "clearctx"} ->
              LET same == kctx = o.c IN
              IF same /\ ~o.r
              THEN /\ pend' = [pend EXCEPT ![p] = [changed |-> FALSE]]
                   /\ UNCHANGED <<kctx, cur, kprev, rec, g, timers, wch, sstate, ctxdead>>
              ELSE /\ kctx' = o.c
                   /\ IF cur = 0 \/ (same /\ rec[cur].err = "none")
                      THEN /\ pend' = [pend EXCEPT ![p] = [changed |-> FALSE]]
                           /\ UNCHANGED <<cur, kprev, rec, g, timers, wch, sstate>>
                      ELSE LET B1 == Stop(Bundle, cur)
                               B2 == IF (rec[cur].err = "none" \/ o.r) /\ o.c # 0
                                     THEN Start(B1, cur, o.c, B1.rec[cur].ech, FALSE) ELSE B1
                           IN /\ SetBundle(B2)
                              /\ wch' = Bcast(wch)
                              /\ pend' = [pend EXCEPT ![p] = [changed |-> TRUE]]
                              /\ UNCHANGED <<cur, kprev, sstate>>
         [] o.op = "setroutine" ->
              LET R == SetRoutineLocked(Bundle, o.f) IN
              /\ SetBundle(R.B) /\ cur' = R.cur /\ kprev' = R.kprev
              /\ wch' = IF R.bc THEN Bcast(wch) ELSE wch
              /\ pend' = [pend EXCEPT ![p] = [reset |-> R.reset, chg |-> R.ch]]
              /\ kctx' = KC /\ UNCHANGED sstate
         [] o.op = "setsr" ->       \* SetStateRoutine(same function): re-installs the routine for the stored state
              LET R == SetRoutineLocked(Bundle, sstate) IN
              /\ SetBundle(R.B) /\ cur' = R.cur /\ kprev' = R.kprev
              /\ wch' = IF FixF14 /\ R.bc THEN Bcast(wch) ELSE wch
              /\ pend' = [pend EXCEPT ![p] = [reset |-> R.reset, chg |-> R.ch]]
              /\ kctx' = KC /\ UNCHANGED sstate
         [] o.op = "setstate" ->
              IF sstate = o.s
              THEN /\ pend' = [pend EXCEPT ![p] = [changed |-> FALSE, reset |-> FALSE, running |-> FALSE, chg |-> 0]]
                   /\ UNCHANGED <<kctx, cur, kprev, rec, g, timers, wch, sstate, ctxdead>>
              ELSE LET R == SetRoutineLocked(Bundle, o.s) IN
                   /\ sstate' = o.s
                   /\ SetBundle(R.B) /\ cur' = R.cur /\ kprev' = R.kprev
                   \* (before the F14 fix the state container passed its own broadcast func: rc waiters were not woken)
                   /\ wch' = IF FixF14 /\ R.bc THEN Bcast(wch) ELSE wch
                   /\ pend' = [pend EXCEPT ![p] = [changed |-> TRUE, reset |-> R.reset,
                                                    running |-> Running(R.B, R.cur, KC), chg |-> R.ch]]
                   /\ kctx' = KC
         [] o.op = "restart" ->
              IF cur = 0
              THEN /\ pend' = [pend EXCEPT ![p] = [ok |-> FALSE]]
                   /\ kctx' = KC /\ UNCHANGED <<cur, kprev, rec, g, timers, wch, sstate, ctxdead>>
              ELSE LET B1 == [CancelG(Bundle, rec[cur].cgo) EXCEPT !.rec[cur].cgo = 0] IN
                   IF KC = 0
                   THEN /\ SetBundle(B1)
                        /\ pend' = [pend EXCEPT ![p] = [ok |-> FALSE]]
                        /\ kctx' = KC /\ UNCHANGED <<cur, kprev, wch, sstate, ctxdead>>
                   ELSE LET w == B1.rec[cur].ech
                            B2 == Start([B1 EXCEPT !.rec[cur].ech = 0], cur, KC, w, TRUE)
                        IN /\ SetBundle(B2)
                           /\ wch' = Bcast(wch)
                           /\ pend' = [pend EXCEPT ![p] = [ok |-> TRUE]]
                           /\ kctx' = KC /\ UNCHANGED <<cur, kprev, sstate, ctxdead>>
    /\ pc' = [pc EXCEPT ![p] = "ret"]
    /\ UNCHANGED <<ninst, nfired, tnow, nticks, ip, wcanc, chmap, nch, ctxdead, pvars>>

\* the call returns: log the result (same controller step as CS: transient)
Ret(p) ==
    /\ pc[p] = "ret"
    /\ LET o == Op(p)
           hasCh == o.op \in {"setroutine", "setstate", "setsr"} /\ pend[p].chg # 0
           h == IF hasCh THEN nch + 1 ELSE 0
           e == [id |-> CallId(p, ip[p]), ch |-> h,
                 changed |-> IF "changed" \in DOMAIN pend[p] THEN pend[p].changed ELSE FALSE,
                 ok |-> IF "ok" \in DOMAIN pend[p] THEN pend[p].ok ELSE FALSE]
       IN /\ PRet(e)
          /\ nch' = IF hasCh THEN nch + 1 ELSE nch
          /\ chmap' = IF hasCh THEN (h :> pend[p].chg) @@ chmap ELSE chmap
    /\ pc' = [pc EXCEPT ![p] = "snap"]
    /\ UNCHANGED <<kctx, cur, kprev, rec, g, ninst, timers, nfired, tnow, nticks, sstate, ip, wch, wcanc, pend, ctxdead>>

LiveInsts == {g[x].einst : x \in {y \in Gs : g[y].pc = "running" /\ ~g[y].canc}}
ActiveInsts == {g[x].einst : x \in {y \in Gs : g[y].pc = "running"}}

Snap(p) ==
    /\ pc[p] = "snap"
    /\ PCtxSnap(p, LiveInsts)
    /\ pc' = [pc EXCEPT ![p] = "idle"]
    /\ Advance(p)
    /\ UNCHANGED <<kctx, cur, kprev, rec, g, ninst, timers, nfired, tnow, nticks, sstate, wch, wcanc, chmap, nch, pend, ctxdead>>

\* WaitExited: sample under the lock (routine.go:63-76)
WCS(p) ==
    /\ Gate
    /\ pc[p] = "wcs"
    /\ LET o == Op(p)
           has == cur # 0 /\ KC # 0
           exited == IF has THEN rec[cur].exited \/ rec[cur].success ELSE o.rin
           res == IF has /\ exited
                  THEN (IF rec[cur].err = "none" THEN "nil" ELSE IF rec[cur].err = "ctx" THEN "canceled" ELSE rec[cur].err)
                  ELSE "nil"
       IN IF exited
          THEN /\ PRet([id |-> CallId(p, ip[p]), res |-> res])
               /\ pc' = [pc EXCEPT ![p] = "idle"] /\ Advance(p)
               /\ UNCHANGED wch
          ELSE /\ wch' = [wch EXCEPT ![p] = "cur"]
               /\ pc' = [pc EXCEPT ![p] = "wsel"]
               /\ UNCHANGED <<ip, pvars>>
    /\ kctx' = KC /\ UNCHANGED <<cur, kprev, rec, g, ninst, timers, nfired, tnow, nticks, sstate, wcanc, chmap, nch, pend, ctxdead>>

WWake(p) ==
    /\ pc[p] = "wsel" /\ wch[p] = "closed"
    /\ pc' = [pc EXCEPT ![p] = "wcs"]
    /\ UNCHANGED <<kctx, cur, kprev, rec, g, ninst, timers, nfired, tnow, nticks, sstate, ip, wch, wcanc, chmap, nch, pend, pvars, ctxdead>>

WWakeCtx(p) ==
    /\ pc[p] = "wsel" /\ wcanc[p]
    /\ PRet([id |-> CallId(p, ip[p]), res |-> "canceled"])
    /\ pc' = [pc EXCEPT ![p] = "idle"] /\ Advance(p)
    /\ UNCHANGED <<kctx, cur, kprev, rec, g, ninst, timers, nfired, tnow, nticks, sstate, wch, wcanc, chmap, nch, pend, ctxdead>>

Cancel(p) ==
    /\ Gate
    /\ pc[p] = "wsel" /\ ~wcanc[p]
    /\ wcanc' = [wcanc EXCEPT ![p] = TRUE]
    /\ PCancel(CallId(p, ip[p]))
    /\ UNCHANGED <<kctx, cur, kprev, rec, g, ninst, timers, nfired, tnow, nticks, sstate, pc, ip, wch, chmap, nch, pend, ctxdead>>

-----------------------------------------------------------------------------
(* execute() goroutines *)

GKeyName(x) == rec[g[x].rec].key

\* enter the managed function
Enter(x) ==
    /\ PEnter(ninst + 1, g[x].tag, GKeyName(x), g[x].canc)
    /\ ninst' = ninst + 1
    /\ g' = [g EXCEPT ![x].pc = "running", ![x].einst = ninst + 1]

\* skip the function (context cancelled before it was entered): cancel(); close(exitedCh)
Skip(x) == g' = [g EXCEPT ![x].pc = "rec", ![x].closed = TRUE, ![x].canc = TRUE] /\ UNCHANGED <<ninst, pvars>>

\* first step of the goroutine (it was parked at its Go hook)
ExecStart(x) ==
    /\ Gate
    /\ x \in Gs
    /\ g[x].pc = "spawned"
    /\ LET w == g[x].waitOn IN
       IF w = 0
       THEN IF g[x].canc THEN Skip(x) ELSE Enter(x)
       ELSE \/ /\ g[x].canc                                   \* select: ctx.Done
               /\ IF FixF2 /\ ~Closed(Bundle, w)
                  THEN g' = [g EXCEPT ![x].pc = "cwait"] /\ UNCHANGED <<ninst, pvars>>
                  ELSE Skip(x)
            \/ /\ Closed(Bundle, w)                          \* select: predecessor exited
               /\ Enter(x)
            \/ /\ ~g[x].canc /\ ~Closed(Bundle, w)
               /\ g' = [g EXCEPT ![x].pc = "waiting"] /\ UNCHANGED <<ninst, pvars>>
    /\ UNCHANGED <<kctx, cur, kprev, rec, timers, nfired, tnow, nticks, sstate, pc, ip, wch, wcanc, chmap, nch, pend, ctxdead>>

\* blocked in the select: woken by the predecessor's exit or by its own cancellation
ExecWake(x) ==
    /\ x \in Gs
    /\ g[x].pc = "waiting"
    /\ LET w == g[x].waitOn IN
       \/ /\ g[x].canc
          /\ IF FixF2 /\ ~Closed(Bundle, w)
             THEN g' = [g EXCEPT ![x].pc = "cwait"] /\ UNCHANGED <<ninst, pvars>>
             ELSE Skip(x)
       \/ /\ Closed(Bundle, w) /\ Enter(x)
    /\ UNCHANGED <<kctx, cur, kprev, rec, timers, nfired, tnow, nticks, sstate, pc, ip, wch, wcanc, chmap, nch, pend, ctxdead>>

\* (fixed code) cancelled while waiting: still wait for the predecessor before closing
ExecCWake(x) ==
    /\ x \in Gs
    /\ g[x].pc = "cwait" /\ Closed(Bundle, g[x].waitOn)
    /\ Skip(x)
    /\ UNCHANGED <<kctx, cur, kprev, rec, timers, nfired, tnow, nticks, sstate, pc, ip, wch, wcanc, chmap, nch, pend, ctxdead>>

\* Environment: the instance returns; then cancel(); close(exitedCh); park before the bookkeeping
InstReturn(x, out) ==
    /\ Gate
    /\ x \in Gs
    /\ g[x].pc = "running"
    /\ out \in {"ok", "err", "ctxret"} /\ (out = "ctxret" => g[x].canc)
    /\ PLeave(g[x].einst, out)
    /\ g' = [g EXCEPT ![x].pc = "rec", ![x].closed = TRUE, ![x].canc = TRUE, ![x].out = out]
    /\ UNCHANGED <<kctx, cur, kprev, rec, ninst, timers, nfired, tnow, nticks, sstate, pc, ip, wch, wcanc, chmap, nch, pend, ctxdead>>

\* the bookkeeping critical section of execute() (routine.go:311-344)
ExecRecord(x) ==
    /\ Gate
    /\ x \in Gs
    /\ g[x].pc = "rec"
    /\ LET r == g[x].rec
           o == IF g[x].out = "" THEN "ctxret" ELSE g[x].out
           e == IF o = "ok" THEN "none" ELSE IF o = "err" THEN "E" \o ToString(g[x].einst) ELSE "ctx"
       IN
       IF rec[r].rctx = x
       THEN LET B1 == [Bundle EXCEPT !.rec[r] = [@ EXCEPT !.err = e, !.success = (o = "ok"), !.exited = TRUE, !.ech = 0]]
                B2 == IF Retry THEN StopTimer(B1, r) ELSE B1
                arm == Retry /\ o # "ok" /\ cur = r
                B3 == IF arm
                      THEN [B2 EXCEPT !.timers = Append(@, [rec |-> r, st |-> "armed", due |-> tnow + 10, cbn |-> 0]),
                                      !.rec[r].tmr = Len(B2.timers) + 1]
                      ELSE B2
            IN /\ SetBundle([B3 EXCEPT !.g[x].pc = "cb1"])
               /\ wch' = Bcast(wch)
               /\ IF Retry /\ o = "ok" THEN PBo("reset") ELSE UNCHANGED pvars
       ELSE /\ g' = [g EXCEPT ![x].pc = "done"]
            /\ UNCHANGED <<rec, timers, wch, pvars>>
    /\ UNCHANGED <<kctx, cur, kprev, ninst, nfired, tnow, nticks, sstate, pc, ip, wcanc, chmap, nch, pend, ctxdead>>

ErrOf(x) == LET o == IF g[x].out = "" THEN "ctxret" ELSE g[x].out IN
            IF o = "ok" THEN "nil" ELSE IF o = "err" THEN "E" \o ToString(g[x].einst) ELSE "canceled"

\* the exit callbacks run after the lock is released (deferred), in registration order
ExitCb(x, k) ==
    /\ x \in Gs
    /\ g[x].pc = (IF k = 1 THEN "cb1" ELSE "cb2")
    /\ PExitCb(k, g[x].einst, ErrOf(x))
    /\ g' = [g EXCEPT ![x].pc = IF k = 1 THEN "cb2" ELSE "done"]
    /\ UNCHANGED <<kctx, cur, kprev, rec, ninst, timers, nfired, tnow, nticks, sstate, pc, ip, wch, wcanc, chmap, nch, pend, ctxdead>>

-----------------------------------------------------------------------------
(* Time and the retry timer *)

TickT ==
    /\ Gate
    /\ Retry /\ nticks < MaxTicks
    \* the controller only advances time when no goroutine is parked at a library hook
    /\ \A x \in Gs : g[x].pc \notin {"spawned", "rec"}
    /\ \A p \in Procs : pc[p] \notin {"cs", "wcs"}
    /\ \A t \in 1..Len(timers) : timers[t].st # "fired"
    /\ tnow' = tnow + 7 /\ nticks' = nticks + 1
    /\ PTick(7)
    \* timers whose deadline passed fire: their callbacks park before Broadcast.HoldLock
    /\ timers' = [t \in 1..Len(timers) |->
                    IF timers[t].st = "armed" /\ timers[t].due <= tnow + 7
                    THEN [timers[t] EXCEPT !.st = "fired",
                            !.cbn = nfired + Cardinality({u \in 1..t : timers[u].st = "armed" /\ timers[u].due <= tnow + 7})]
                    ELSE timers[t]]
    /\ nfired' = nfired + Cardinality({t \in 1..Len(timers) : timers[t].st = "armed" /\ timers[t].due <= tnow + 7})
    /\ UNCHANGED <<kctx, cur, kprev, rec, g, ninst, sstate, pc, ip, wch, wcanc, chmap, nch, pend, ctxdead>>

\* retry timer callback (routine.go:327-334)
TimerCb(n) ==
    /\ Gate
    /\ \E u \in 1..Len(timers) : timers[u].st = "fired" /\ timers[u].cbn = n
    /\ LET t == CHOOSE u \in 1..Len(timers) : timers[u].st = "fired" /\ timers[u].cbn = n
           r == timers[t].rec
           B0 == [Bundle EXCEPT !.timers[t].st = "done"]
       IN IF kctx # 0 /\ cur = r /\ rec[r].exited
          THEN SetBundle(Start(B0, r, kctx, rec[r].ech, TRUE))
          ELSE SetBundle(B0)
    /\ wch' = Bcast(wch)
    /\ UNCHANGED <<kctx, cur, kprev, ninst, nfired, tnow, nticks, sstate, pc, ip, wcanc, chmap, nch, pend, pvars, ctxdead>>

\* Environment: the client cancels a root context it handed (or will hand) to SetContext.  Every
\* context derived from it is cancelled with it; the container itself notices lazily (KC).
\* (a model configuration may override this with TRUE: contexts are then cancelled only before the
\* first client call -- "a context that is already cancelled when it is handed over" -- which keeps
\* the state space of longer programs small)
RootEarlyOnly == FALSE

CancelRoot(c) ==
    /\ Gate
    /\ RootCancel /\ c \notin ctxdead
    /\ RootEarlyOnly => \A p \in Procs : ip[p] = 1 /\ pc[p] = "idle"
    /\ ctxdead' = ctxdead \cup {c}
    /\ g' = [x \in Gs |-> IF g[x].tag = c THEN [g[x] EXCEPT !.canc = TRUE] ELSE g[x]]
    /\ PRootCancel(c)
    /\ UNCHANGED <<kctx, cur, kprev, rec, ninst, timers, nfired, tnow, nticks, sstate, pc, ip, wch, wcanc, chmap, nch, pend>>

-----------------------------------------------------------------------------
Next ==
    \/ \E p \in Procs : Call(p) \/ CS(p) \/ Ret(p) \/ Snap(p) \/ WCS(p) \/ WWake(p) \/ WWakeCtx(p) \/ Cancel(p)
    \/ \E x \in 1..MaxG : ExecStart(x) \/ ExecWake(x) \/ ExecCWake(x) \/ ExecRecord(x) \/ ExitCb(x, 1) \/ ExitCb(x, 2)
    \/ \E x \in 1..MaxG, out \in {"ok", "err", "ctxret"} : InstReturn(x, out)
    \/ TickT
    \/ \E n \in 1..MaxG : TimerCb(n)
    \/ \E c \in 1..2 : CancelRoot(c)

Spec == Init /\ [][Next]_vars

\* bound for model checking
Bounded == NG <= MaxG

-----------------------------------------------------------------------------
(* Invariants *)

LibQuiet ==
    /\ \A p \in Procs : pc[p] \in {"idle", "wsel"}
    /\ \A x \in Gs : g[x].pc \in {"waiting", "cwait", "running", "done"}
    /\ TransientG = {} /\ TransientP = {}
    /\ \A t \in 1..Len(timers) : timers[t].st # "fired"

BlockedCalls == {CallId(p, ip[p]) : p \in {q \in Procs : pc[q] = "wsel"}}

\* C05 / C14 at quiescent points, through the monitor's own definition
QuietInv == LibQuiet => QuietBad(LiveInsts, ActiveInsts, BlockedCalls, IF Variant = "state" THEN sstate ELSE -1) = {}

\* C04: a channel returned by SetRoutine/SetState is closed only after the earlier instances returned
ChInv == \A h \in DOMAIN chmap : g[chmap[h]].closed => (h \in DOMAIN chs => chs[h] \cap Active = {})

ModelSafe == Safe_C04 /\ Safe_C05 /\ Safe_C14 /\ NoHarnessError

\* implementation invariants
OneCurrentCtx == \A r \in Recs : rec[r].rctx # 0 => g[rec[r].rctx].rec = r
ActiveAgree == ActiveInsts = Active
=============================================================================
