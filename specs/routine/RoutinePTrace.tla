---------------------------- MODULE RoutinePTrace ----------------------------
(* Replays an ndjson trace recorded from the real routine containers through RoutineP.       *)
EXTENDS RoutineP, TraceLib

VARIABLES l, viol, seen
tvars == <<l, viol, seen>>

TInit == PInit /\ l = 1 /\ viol = <<>> /\ seen = {}

Fresh == Violated \ seen
Recorded ==
    \* (at most 300 records per trace file: the state carries the list, so an unbounded list would
    \* make validation quadratic when a defect fires in most runs)
    IF l > 1 /\ Fresh # {} /\ Len(viol) < 300
    THEN Append(viol, [run |-> Trace[l-1].run, seq |-> Trace[l-1].seq, names |-> Fresh, l |-> l - 1])
    ELSE viol

Apply(e) ==
    CASE e.ev = "reset"    -> PReset
      [] e.ev = "config"   -> PConfigBo(e.variant, e.retry, e.burst, IF "boconf" \in DOMAIN e THEN e.boconf = "" ELSE TRUE)
      [] e.ev = "call"     -> PCall(e)
      [] e.ev = "ret"      -> IF e.id \in DOMAIN calls THEN PRet(e)
                              ELSE bad' = bad \cup {"Harness"} /\ UNCHANGED <<cfg, clk, now, pctx, prt, epoch, inst, calls, snapw, chs, credit, creditR, needEnter, ctxTouch, status, cbseen, boReset, boStop, rootdead, td>>
      [] e.ev = "ctxsnap"  -> PCtxSnap(e.actor, SeqToSet(e.live))
      [] e.ev = "enter"    -> PEnter(e.inst, e.tag, e.key, e.dead)
      [] e.ev = "leave"    -> PLeave(e.inst, e.out)
      [] e.ev = "exitcb"   -> PExitCb(e.k, e.inst, e.err)
      [] e.ev = "chclosed" -> PChClosed(e.ch)
      [] e.ev = "cancel"   -> PCancel(e.id)
      [] e.ev = "tick"     -> PTick(e.d)
      [] e.ev = "bo"       -> PBo(e.op)
      [] e.ev = "teardown" -> PTeardown
      [] e.ev = "rootcancel" -> PRootCancel(e.tag)
      [] e.ev = "cstate"   -> PCState(SeqToSet(e.live), SeqToSet(e.active))
      [] e.ev = "quiet"    -> PQuiet(SeqToSet(e.live), SeqToSet(e.active), SeqToSet(e.blk), e.gstate)
      [] e.ev \in {"leak", "note", "end", "spin", "panic"} -> UNCHANGED pvars
      [] OTHER             -> bad' = bad \cup {"Unexplained"} /\ UNCHANGED <<cfg, clk, now, pctx, prt, epoch, inst, calls, snapw, chs, credit, creditR, needEnter, ctxTouch, status, cbseen, boReset, boStop, rootdead, td>>

TStep ==
    /\ l <= Len(Trace)
    /\ viol' = Recorded
    /\ seen' = IF Trace[l].ev = "reset" THEN {} ELSE seen \cup Violated
    /\ Apply(Trace[l])
    /\ l' = l + 1

TFinish ==
    /\ l = Len(Trace) + 1
    /\ viol' = Recorded
    /\ WriteVerdict(viol', Len(Trace))
    /\ l' = l + 1
    /\ UNCHANGED <<pvars, seen>>

TNext == TStep \/ TFinish
=============================================================================
