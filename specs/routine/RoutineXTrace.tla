--------------------------- MODULE RoutineXTrace ---------------------------
(* X-level trace validation (advisory, DESIGN §2.5 / §8.1): executions of ONE scenario (the   *)
(* constants Prog, Variant, Retry) recorded from the real routine containers with every       *)
(* controller step logged are replayed through the actions of Routine.tla itself.             *)
(*                                                                                           *)
(*   step label                  X action                                                    *)
(*   call:cN                     Call(N)                                                     *)
(*   grant:cN                    CS(N) | WCS(N)          (the section the client is parked at) *)
(*   cancel:cN                   Cancel(N)                                                   *)
(*   grant:routine.execute#x     ExecStart(x) | ExecRecord(x)                                *)
(*   out:x:o                     InstReturn(x, o)                                            *)
(*   tick                        TickT                                                       *)
(*   grant:anon#n                TimerCb(n)                                                  *)
(*   cancelroot:c                CancelRoot(c)                                               *)
(*                                                                                           *)
(* The transient steps (Ret, Snap, select wake-ups, exit callbacks) that the real goroutines  *)
(* perform within the same controller step are taken eagerly by action composition.  The      *)
(* API-level events recorded between steps are assertions on the spec's state (which already   *)
(* contains the RoutineP monitor updated by the X actions): an entered / left instance, an exit *)
(* callback report, a logged return, a quiescent observation must be what the spec predicts.   *)
(* A mismatch is DRIFT (reported in the evidence, never a verdict).                            *)
EXTENDS Routine, TraceLib

VARIABLES l, drift, live
tv == <<l, drift, live>>

XReset ==
    /\ PResetCfg(Variant, Retry)
    /\ kctx' = 0 /\ cur' = 0 /\ kprev' = 0 /\ rec' = <<>> /\ g' = <<>> /\ ninst' = 0
    /\ timers' = <<>> /\ nfired' = 0 /\ tnow' = 0 /\ nticks' = 0 /\ sstate' = 0
    /\ pc' = [p \in Procs |-> "idle"] /\ ip' = [p \in Procs |-> 1]
    /\ wch' = [p \in Procs |-> "none"] /\ wcanc' = [p \in Procs |-> FALSE]
    /\ chmap' = <<>> /\ nch' = 0
    /\ pend' = [p \in Procs |-> <<>>]
    /\ ctxdead' = {}

TInit == Init /\ l = 1 /\ drift = <<>> /\ live = TRUE

\* ---- label parsing -------------------------------------------------------------------------
Digit(c) == CASE c = "0" -> 0 [] c = "1" -> 1 [] c = "2" -> 2 [] c = "3" -> 3 [] c = "4" -> 4
              [] c = "5" -> 5 [] c = "6" -> 6 [] c = "7" -> 7 [] c = "8" -> 8 [] c = "9" -> 9 [] OTHER -> -1
Pre(s, p) == Len(s) >= Len(p) /\ SubSeq(s, 1, Len(p)) = p
\* the number formed by the digits of s from position i on, up to the first non-digit
RECURSIVE Num(_, _, _)
Num(s, i, acc) == IF i > Len(s) \/ Digit(SubSeq(s, i, i)) < 0 THEN acc ELSE Num(s, i + 1, acc * 10 + Digit(SubSeq(s, i, i)))
\* text after the last ":" 
RECURSIVE LastColon(_, _)
LastColon(s, i) == IF i = 0 THEN 0 ELSE IF SubSeq(s, i, i) = ":" THEN i ELSE LastColon(s, i - 1)
LblTail(s) == SubSeq(s, LastColon(s, Len(s)) + 1, Len(s))

Kind(lbl) ==
    CASE Pre(lbl, "call:c") -> "call"
      [] Pre(lbl, "grant:c") -> "grantc"
      [] Pre(lbl, "cancel:c") -> "cancel"
      [] Pre(lbl, "grant:routine.execute#") -> "grantx"
      [] Pre(lbl, "grant:anon#") -> "timercb"
      [] Pre(lbl, "out:") -> "out"
      [] lbl = "tick" -> "tick"
      [] Pre(lbl, "cancelroot:") -> "cancelroot"
      [] OTHER -> "?"
Arg(lbl) ==
    CASE Pre(lbl, "call:c") -> Num(lbl, 7, 0)
      [] Pre(lbl, "grant:c") -> Num(lbl, 8, 0)
      [] Pre(lbl, "cancel:c") -> Num(lbl, 9, 0)
      [] Pre(lbl, "grant:routine.execute#") -> Num(lbl, 23, 0)
      [] Pre(lbl, "grant:anon#") -> Num(lbl, 12, 0)
      [] Pre(lbl, "out:") -> Num(lbl, 5, 0)
      [] Pre(lbl, "cancelroot:") -> Num(lbl, 12, 0)
      [] OTHER -> 0

\* ---- enabledness of the step the controller took ------------------------------------------------
NextIsDeadEnter == l < Len(Trace) /\ Trace[l + 1].ev = "enter" /\ Trace[l + 1].dead

CanAct(k, a, o) ==
    CASE k = "call"    -> a \in Procs /\ pc[a] = "idle" /\ ip[a] <= Len(Prog[a])
      [] k = "grantc"  -> a \in Procs /\ pc[a] \in {"cs", "wcs"}
      [] k = "cancel"  -> a \in Procs /\ pc[a] = "wsel" /\ ~wcanc[a]
      [] k = "grantx"  -> a \in Gs /\ g[a].pc \in {"spawned", "rec"}
      [] k = "out"     -> a \in Gs /\ g[a].pc = "running" /\ o \in {"ok", "err", "ctxret"} /\ (o = "ctxret" => g[a].canc)
      [] k = "tick"    -> Retry
      [] k = "cancelroot" -> RootCancel /\ a \in 1..2 /\ a \notin ctxdead
      [] k = "timercb" -> \E u \in 1..Len(timers) : timers[u].st = "fired" /\ timers[u].cbn = a
      [] OTHER -> FALSE

Act(k, a, o) ==
    /\ UNCHANGED tv
    /\ CASE k = "call"    -> Call(a)
         [] k = "grantc"  -> CS(a) \/ WCS(a)
         [] k = "cancel"  -> Cancel(a)
         \* (when both the goroutine's context is cancelled and its predecessor has exited Go's select
         \* may take either branch: the recorded next event tells which one the real goroutine took)
         [] k = "grantx"  -> \/ ExecRecord(a)
                             \/ /\ ExecStart(a)
                                /\ (g[a].pc = "spawned" /\ g[a].waitOn # 0 /\ g[a].canc /\ Closed(Bundle, g[a].waitOn))
                                      => ((g'[a].pc = "running") = NextIsDeadEnter)
         [] k = "out"     -> InstReturn(a, o)
         [] k = "tick"    -> TickT
         [] k = "cancelroot" -> CancelRoot(a)
         [] k = "timercb" -> TimerCb(a)

\* one transient step (least process / goroutine first), or nothing
W ==
    /\ UNCHANGED tv
    /\ IF TransientP # {}
       THEN LET p == CHOOSE q \in TransientP : \A r \in TransientP : q <= r
            IN Ret(p) \/ Snap(p) \/ WWake(p) \/ WWakeCtx(p)
       ELSE IF TransientG # {}
       THEN LET x == CHOOSE y \in TransientG : \A z \in TransientG : y <= z
            IN ExecWake(x) \/ ExecCWake(x) \/ ExitCb(x, 1) \/ ExitCb(x, 2)
       ELSE UNCHANGED vars

Fin == UNCHANGED <<vars, drift, live>> /\ l' = l + 1

Drift(why) ==
    /\ drift' = Append(drift, [run |-> Trace[l].run, seq |-> Trace[l].seq, why |-> why])
    /\ live' = FALSE
    /\ l' = l + 1
    /\ UNCHANGED vars

OutOf(o) == IF o = "ctxret" THEN "ctx" ELSE o

TStep ==
    /\ l <= Len(Trace)
    /\ LET e == Trace[l] IN
       CASE e.ev = "reset" -> XReset /\ l' = l + 1 /\ live' = TRUE /\ UNCHANGED drift
         [] ~live -> UNCHANGED <<vars, drift, live>> /\ l' = l + 1
         [] e.ev = "step" ->
              LET k == Kind(e.label) a == Arg(e.label) o == LblTail(e.label) IN
              IF CanAct(k, a, o)
              THEN Act(k, a, o) \cdot W \cdot W \cdot W \cdot W \cdot W \cdot W \cdot W \cdot W \cdot Fin
              ELSE Drift("step not enabled in the spec: " \o e.label)
         [] e.ev = "enter" ->
              IF e.inst \in Insts /\ inst[e.inst].key = e.key /\ inst[e.inst].tag = e.tag /\ inst[e.inst].dead = e.dead
              THEN Fin ELSE Drift("entry of an instance the spec does not predict")
         [] e.ev = "leave" ->
              IF e.inst \in Insts /\ ~inst[e.inst].act /\ inst[e.inst].out = OutOf(e.out)
              THEN Fin ELSE Drift("instance return not explained by the spec")
         [] e.ev = "exitcb" ->
              IF e.inst = 0 \/ <<e.k, e.inst>> \in cbseen THEN Fin ELSE Drift("exit callback the spec does not predict")
         [] e.ev = "ret" ->
              IF e.xid \in DOMAIN calls /\ calls[e.xid].done THEN Fin ELSE Drift("return not explained by the spec")
         [] e.ev = "chclosed" ->
              IF e.ch \in DOMAIN chmap /\ g[chmap[e.ch]].closed THEN Fin ELSE Drift("channel closed earlier than in the spec")
         [] e.ev = "quiet" ->
              IF LibQuiet /\ LiveInsts = SeqToSet(e.live) /\ ActiveInsts = SeqToSet(e.active) /\ BlockedCalls = SeqToSet(e.xblk)
              THEN Fin ELSE Drift("quiescent observation differs")
         [] e.ev = "cstate" ->
              IF LiveInsts = SeqToSet(e.live) /\ ActiveInsts = SeqToSet(e.active) THEN Fin ELSE Drift("instances inside the function differ")
         [] e.ev = "teardown" -> UNCHANGED <<vars, drift>> /\ live' = FALSE /\ l' = l + 1
         [] OTHER -> Fin

TFinish ==
    /\ l = Len(Trace) + 1
    /\ JsonSerialize(IOEnv.VERDICT_FILE, [drift |-> drift, consumed |-> Len(Trace), total |-> Len(Trace)])
    /\ l' = l + 1
    /\ UNCHANGED <<vars, drift, live>>

TNext == TStep \/ TFinish
=============================================================================
