------------------------------ MODULE RoutineP ------------------------------
(* Property monitor for routine.RoutineContainer / StateRoutineContainer (C04, C05, C14).     *)
(*                                                                                           *)
(* API-level state only: the last context / routine / state a caller stored (in the order in  *)
(* which the calls returned), the instances of the managed function that were observed         *)
(* entering and leaving it, what each call returned, what the exit callbacks received.         *)
(*  epoch   counts the calls that superseded the running instance (cancelled it);             *)
(*  status  is the instance whose exit is the container's recorded exit status: set when the   *)
(*          exit callbacks of an instance run, cleared by everything that starts the routine   *)
(*          afresh (new routine/state, RestartRoutine, SetContext(restart) of an errored       *)
(*          routine, a retry entering).                                                        *)
(*                                                                                           *)
(* Deliberately unconstrained (weaker reading taken, DESIGN §3 C14 interpretation):            *)
(*  - whether SetContext(other ctx, restart=false) keeps or drops a pending backoff retry;     *)
(*  - instances that enter the function with an already cancelled context;                     *)
(*  - root contexts cancelled by the client (the driver never does that).                      *)
EXTENDS Integers, FiniteSets, Sequences, TLC

VARIABLES
    cfg,      \* [variant, retry]
    clk,      \* event counter (order stamps)
    now,      \* virtual time (sum of ticks)
    pctx,     \* context tag stored last (0 = nil)
    prt,      \* plain: routine id stored last (0 = nil); state: state value stored last (0 = empty)
    epoch,    \* number of superseding calls that returned so far
    inst,     \* instance id -> [act, out, tag, key, eclk, ep, lclk, ltime, cur]
    calls,    \* call id -> [op, pre, actor, rin, r, c, k, canc, nilok, errok, done]
    snapw,    \* actor -> set of instances that must be dead in the actor's next ctxsnap
    chs,      \* channel handle -> instances active when the call that returned it returned
    credit,   \* clk of the latest return of a call that may (re)run the routine
    creditR,  \* same, also counting SetContext(restart=true)
    needEnter,\* clk of a restart that must be followed by an entry (0 = none)
    ctxTouch, \* clk of the latest context / routine / state / restart call event
    status,   \* see above (0 = none)
    cbseen,   \* set of <<k, instance>> exit-callback reports seen
    boReset,  \* clk of the latest backoff Reset
    boStop,   \* clk of the latest NextBackOff that returned Stop (the backoff gave up)
    rootdead, \* tags of root contexts that the client has cancelled
    td,       \* teardown started
    bad

pvars == <<cfg, clk, now, pctx, prt, epoch, inst, calls, snapw, chs, credit, creditR, needEnter,
           ctxTouch, status, cbseen, boReset, boStop, rootdead, td, bad>>

PInitCfg(variant, retry) ==
    /\ cfg = [variant |-> variant, retry |-> retry, burst |-> FALSE, stub |-> TRUE, ld |-> 7] /\ clk = 0 /\ now = 0 /\ pctx = 0 /\ prt = 0 /\ epoch = 0
    /\ inst = <<>> /\ calls = <<>> /\ snapw = <<>> /\ chs = <<>>
    /\ credit = 0 /\ creditR = 0 /\ needEnter = 0 /\ ctxTouch = 0 /\ status = 0 /\ cbseen = {} /\ boReset = 0 /\ boStop = 0 /\ rootdead = {}
    /\ td = FALSE /\ bad = {}

PInit == PInitCfg("plain", FALSE)

PResetCfg(variant, retry) ==
    /\ cfg' = [variant |-> variant, retry |-> retry, burst |-> FALSE, stub |-> TRUE, ld |-> 7] /\ clk' = 0 /\ now' = 0 /\ pctx' = 0 /\ prt' = 0 /\ epoch' = 0
    /\ inst' = <<>> /\ calls' = <<>> /\ snapw' = <<>> /\ chs' = <<>>
    /\ credit' = 0 /\ creditR' = 0 /\ needEnter' = 0 /\ ctxTouch' = 0 /\ status' = 0 /\ cbseen' = {} /\ boReset' = 0 /\ boStop' = 0 /\ rootdead' = {}
    /\ td' = FALSE /\ bad' = {}

PReset == PResetCfg("plain", FALSE)

Insts   == DOMAIN inst
Active  == {i \in Insts : inst[i].act}

\* the latest instance that entered (0 if none)
\* (instances that entered with an already cancelled context are stragglers of an earlier
\* generation -- Go's select took the predecessor-exited branch although the context was
\* cancelled too -- and are never "current")
LiveBorn == {i \in Insts : ~inst[i].dead}
Latest == IF LiveBorn = {} THEN 0 ELSE CHOOSE i \in LiveBorn : \A j \in LiveBorn : inst[j].eclk <= inst[i].eclk
\* instance i is the current one: entered in the present epoch and nothing entered after it
IsCurrent(i) == i # 0 /\ i \in Insts /\ ~inst[i].dead /\ inst[i].ep = epoch /\ i = Latest

\* the context the container can still use: a stored context that the client cancelled counts as none
\* (the code drops it lazily; instances derived from it are cancelled with it)
EffCtx == IF pctx \in rootdead THEN 0 ELSE pctx

\* what a WaitExited call may return, given the container state (ctx tag c, routine/state r, status s)
NilOK(rin, c, r, s) == (rin /\ (c = 0 \/ r = 0)) \/ (c # 0 /\ r # 0 /\ s # 0 /\ inst[s].out = "ok")
ErrOK(c, r, s) == IF c # 0 /\ r # 0 /\ s # 0 /\ inst[s].out # "ok" THEN {s} ELSE {}

\* widen the "what may be returned" windows of the pending WaitExited calls with the state (c, r, s)
Refresh(cs, c, r, s) ==
    [id \in DOMAIN cs |->
        IF cs[id].op = "waitexited" /\ ~cs[id].done
        THEN [cs[id] EXCEPT !.nilok = @ \/ NilOK(cs[id].rin, c, r, s), !.errok = @ \cup ErrOK(c, r, s)]
        ELSE cs[id]]

\* a call that may (re)run the routine has been issued and has not returned yet (its critical
\* section may already have run: the new instance can enter before the caller logs the return)
PendingRerun(withCtx) ==
    \E id \in DOMAIN calls : ~calls[id].done /\
        (calls[id].op \in {"setroutine", "setstate", "setsr", "restart"} \/ (withCtx /\ calls[id].op = "setctx" /\ calls[id].r))

\* A backoff retry is due "now": some run of this routine/state returned an error and its backoff
\* interval (10) ended within the last advance of the clock (cfg.ld: 7, or 20 minutes).  While a fired timer's callback
\* is pending no further time passes, so every entry caused by a retry timer satisfies this.
\* This also accepts the code's stale-timer behaviour (O5 in DESIGN.md: a timer that fired but
\* whose callback was overtaken by a RestartRoutine still restarts the routine once the restarted
\* instance has exited -- even successfully): it depends on the schedule, which C14 does not
\* quantify over; the weaker reading is taken.
\* some recorded run of this routine/state returned an error at least one backoff interval ago: a
\* later entry is attributable to the backoff retry even if it was deferred (e.g. the retry fired,
\* ClearContext cancelled the restarted instance before it entered, a later SetContext ran it)
\* The retry timer armed when run j returned its error was certainly stopped before it could fire:
\* a call that (by its result) stopped or replaced the routine was issued after j returned and
\* before j's backoff deadline.  (A call issued at or after the deadline only overtakes the fired
\* timer's callback: O5.)  Entries after that are not attributable to j's retry.
\* Two states of a StateRoutineContainer are "the same state" when its compare function says so (the
\* harness's compares modulo 10: s and s+10 are equal but not identical); routines are identified as such.
KClass(k) == IF cfg.variant = "state" THEN k % 10 ELSE k

Stopped(j) == \E id \in DOMAIN calls : calls[id].done /\ calls[id].sup /\ calls[id].cclk > inst[j].lclk
                                        /\ calls[id].t < inst[j].ltime + 10

BackoffElapsed(key) == \E j \in Insts : KClass(inst[j].key) = KClass(key) /\ ~inst[j].act /\ inst[j].out = "err" /\ now >= inst[j].ltime + 10
                                        /\ ~Stopped(j)

RetryDueNow(key) ==
    \E j \in Insts : KClass(inst[j].key) = KClass(key) /\ ~inst[j].act /\ inst[j].out = "err"
                      /\ now - cfg.ld < inst[j].ltime + 10 /\ inst[j].ltime + 10 <= now /\ ~Stopped(j)

Tick == clk' = clk + 1

ErrName(i) == IF inst[i].out = "ok" THEN "nil" ELSE IF inst[i].out = "err" THEN "E" \o ToString(i) ELSE "canceled"

-----------------------------------------------------------------------------
(* Events.  Every operator specifies all of pvars. *)

\* burst: the clients ran freely in parallel (mode M2): the order of the logged returns is not
\* the order of the critical sections, so only order-insensitive conditions are judged
\* stub: the backoff is the harness's scripted one (interval 10, its Reset / NextBackOff calls are
\* logged as "bo" events); otherwise it is the library's own backoff.Backoff.Construct() of a
\* configuration that means "10 ms, forever" -- then only its effect (the retries) is observable.
PConfigBo(variant, retry, burst, stub) ==
    /\ cfg' = [variant |-> variant, retry |-> retry, burst |-> burst, stub |-> stub, ld |-> 7]
    /\ Tick
    /\ UNCHANGED <<now, pctx, prt, epoch, inst, calls, snapw, chs, credit, creditR, needEnter, ctxTouch, status, cbseen, boReset, boStop, rootdead, td, bad>>

PConfig(variant, retry, burst) == PConfigBo(variant, retry, burst, TRUE)

\* e: the call event record
PCall(e) ==
    LET w == e.op = "waitexited"
        rec == [op |-> e.op, pre |-> Active, actor |-> e.actor,
                rin |-> IF w THEN e.rin ELSE FALSE,
                r |-> IF e.op \in {"setctx", "clearctx"} THEN e.r ELSE FALSE,
                c |-> IF e.op \in {"setctx", "clearctx"} THEN e.c ELSE 0,
                k |-> IF e.op = "setroutine" THEN e.f ELSE IF e.op = "setstate" THEN e.s ELSE 0,
                canc |-> FALSE, cclk |-> clk + 1, t |-> now, sup |-> FALSE,
                \* no other call that changes the container was in flight when this one was issued
                solo |-> ~\E d \in DOMAIN calls : ~calls[d].done /\ calls[d].op # "waitexited",
                nilok |-> IF w THEN NilOK(e.rin, EffCtx, prt, status) ELSE FALSE,
                errok |-> IF w THEN ErrOK(EffCtx, prt, status) ELSE {},
                done |-> FALSE]
    IN
    /\ calls' = (e.id :> rec) @@ calls
    /\ ctxTouch' = IF w THEN ctxTouch ELSE clk + 1
    /\ Tick
    /\ bad' = bad \cup (IF e.id \in DOMAIN calls THEN {"Harness"} ELSE {})
    /\ UNCHANGED <<cfg, now, pctx, prt, epoch, inst, snapw, chs, credit, creditR, needEnter, status, cbseen, boReset, boStop, rootdead, td>>

\* did the call (by its result) supersede the running instance?
Superseded(c, e) ==
    CASE c.op \in {"setroutine", "setsr"} -> TRUE
      [] c.op = "setstate"   -> e.changed
      [] c.op = "restart"    -> e.ok
      [] c.op \in {"setctx", "clearctx"} -> e.changed
      [] OTHER -> FALSE

PRet(e) ==
    LET c == calls[e.id] IN
    IF c.op = "waitexited"
    THEN /\ calls' = [calls EXCEPT ![e.id].done = TRUE]
         /\ bad' = bad \cup
              (IF cfg.burst THEN {}
               \* (context.Canceled is also the recorded exit error of an instance whose root context the
               \* client cancelled -- possibly one that never entered the function and so has no id here)
               ELSE IF e.res = "canceled" THEN (IF c.canc \/ rootdead # {} THEN {} ELSE {"WaitWrong"})
               ELSE IF e.res = "nil" THEN (IF c.nilok THEN {} ELSE {"WaitWrong"})
               ELSE IF \E i \in c.errok : e.res = ErrName(i) THEN {} ELSE {"WaitWrong"})
         /\ Tick
         /\ UNCHANGED <<cfg, now, pctx, prt, epoch, inst, snapw, chs, credit, creditR, needEnter, ctxTouch, status, cbseen, boReset, boStop, rootdead, td>>
    ELSE
    LET sup == Superseded(c, e)
        pctx2 == IF c.op \in {"setctx", "clearctx"} THEN c.c ELSE pctx
        prt2 == IF c.op = "setroutine" THEN c.k
                ELSE IF c.op = "setstate" /\ e.changed THEN c.k ELSE prt
        \* (a SetState / SwapValue that the code reports as a change re-runs the routine only if the new
        \* state really is a new state under the compare function)
        rerun == \/ c.op \in {"setroutine", "setsr"}
                 \/ (c.op = "setstate" /\ e.changed /\ KClass(c.k) # KClass(prt))
                 \/ (c.op = "restart" /\ e.ok)
        errNow == status # 0 /\ inst[status].out # "ok"
        rerunR == rerun \/ (c.op = "setctx" /\ c.r /\ e.changed)
        \* the recorded status survives context changes unless they re-run an errored routine
        status2 == IF rerun \/ (c.op = "setctx" /\ c.r /\ c.c # 0 /\ e.changed /\ errNow) THEN 0 ELSE status
        chid == IF c.op \in {"setroutine", "setstate", "setsr"} THEN e.ch ELSE 0
        \* a restart / a restarting SetContext on an errored routine must be followed by an entry
        \* (unless the new instance already entered before the caller logged the return)
        enteredSince == \E i \in Insts : inst[i].eclk > c.cclk
        need == /\ ~enteredSince
                /\ \/ (c.op = "restart" /\ e.ok)
                   \/ (c.op = "setctx" /\ c.r /\ c.c # 0 /\ e.changed /\ errNow /\ prt # 0)
    IN
    /\ pctx' = pctx2 /\ prt' = prt2 /\ epoch' = IF sup THEN epoch + 1 ELSE epoch
    /\ status' = status2
    /\ credit' = IF rerun THEN clk + 1 ELSE credit
    /\ creditR' = IF rerunR THEN clk + 1 ELSE creditR
    /\ needEnter' = IF need THEN clk + 1 ELSE 0
    /\ snapw' = IF sup THEN (c.actor :> c.pre) @@ snapw ELSE snapw
    \* earlier instances: those that had entered the function when the call was issued
    /\ chs' = IF chid # 0 THEN (chid :> (c.pre \cap Active)) @@ chs ELSE chs
    /\ calls' = Refresh([calls EXCEPT ![e.id].done = TRUE, ![e.id].sup = sup], IF pctx2 \in rootdead THEN 0 ELSE pctx2, prt2, status2)
    /\ Tick
    /\ bad' = bad \cup (IF calls[e.id].done THEN {"Harness"} ELSE {})
         \* C14 "SetContext with restart=true [re-runs] one that returned an error ... and nothing else": the
         \* container's own context is given again, alone (no other call in flight from its start to its
         \* return), while the current instance -- entered under that context before the call, still inside the
         \* function, so it has not returned anything -- is running: nothing may be stopped or re-run, the
         \* call reports no change
         \cup (LET q == Latest IN
               IF ~td /\ ~cfg.burst /\ c.op = "setctx" /\ e.changed /\ c.c # 0 /\ c.c = pctx /\ c.c \notin rootdead
                  /\ c.solo /\ (\A d \in DOMAIN calls : calls[d].cclk > c.cclk => calls[d].op = "waitexited")
                  /\ IsCurrent(q) /\ inst[q].act /\ inst[q].eclk < c.cclk /\ inst[q].tag = c.c
               THEN {"CancelNoCause"} ELSE {})
    /\ UNCHANGED <<cfg, now, inst, ctxTouch, cbseen, boReset, boStop, rootdead, td>>

\* right after a superseding call returned: which active instances still have a live context
PCtxSnap(actor, live) ==
    /\ bad' = bad \cup (IF actor \in DOMAIN snapw /\ snapw[actor] \cap live # {} THEN {"NotCancelled"} ELSE {})
    /\ snapw' = [a \in (DOMAIN snapw) \ {actor} |-> snapw[a]]
    /\ Tick
    /\ UNCHANGED <<cfg, now, pctx, prt, epoch, inst, calls, chs, credit, creditR, needEnter, ctxTouch, status, cbseen, boReset, boStop, rootdead, td>>

PEnter(i, tag, key, dead0) ==
    \* earlier runs of the same routine/state whose exit the container recorded (its exit callbacks
    \* ran): an exit that was overtaken by a superseding call before it was recorded is not an
    \* "exit status" of the container (weaker reading)
    LET same == {j \in Insts : KClass(inst[j].key) = KClass(key) /\ ~inst[j].act /\ inst[j].cur /\ <<1, j>> \in cbseen}
        prev == IF same = {} THEN 0 ELSE CHOOSE j \in same : \A k \in same : inst[k].eclk <= inst[j].eclk
        dead == dead0
        rec == [act |-> TRUE, out |-> "", tag |-> tag, key |-> key, eclk |-> clk + 1, ep |-> epoch,
                lclk |-> 0, ltime |-> 0, cur |-> FALSE, dead |-> dead]
    IN
    /\ inst' = (i :> rec) @@ inst
    /\ needEnter' = IF dead THEN needEnter ELSE 0
    /\ status' = IF dead THEN status ELSE 0    \* a new run is in progress: the old exit status is gone
    /\ Tick
    /\ bad' = bad
         \cup (IF i \in Insts THEN {"Harness"} ELSE {})
         \* C14: a routine that returned nil is not run again until RestartRoutine / a new routine or state
         \cup (IF ~td /\ ~cfg.burst /\ ~dead /\ prev # 0 /\ inst[prev].out = "ok" /\ credit < inst[prev].eclk /\ ~PendingRerun(FALSE)
                  /\ ~(cfg.retry /\ RetryDueNow(key))
               THEN {"RerunAfterSuccess"} ELSE {})
         \* C14: an errored routine is re-run only by RestartRoutine, SetContext(restart), a new
         \* routine/state or (with retry) after a backoff interval
         \cup (IF ~td /\ ~cfg.burst /\ ~dead /\ prev # 0 /\ inst[prev].out = "err" /\ creditR < inst[prev].eclk /\ ~PendingRerun(TRUE)
                  /\ ~(cfg.retry /\ BackoffElapsed(key))
               THEN {"RerunAfterError"} ELSE {})
         \* C14 "and by nothing else": the routine is entered again although the latest instance
         \* entered in the present epoch (no superseding call returned since), no call that may
         \* re-run it returned or is pending, and no backoff retry of a recorded error is due
         \cup (LET q == Latest IN
               IF ~td /\ ~cfg.burst /\ ~dead /\ q # 0 /\ KClass(inst[q].key) = KClass(key) /\ inst[q].ep = epoch
                  /\ creditR < inst[q].eclk /\ ~PendingRerun(TRUE)
                  /\ ~(cfg.retry /\ ~inst[q].act /\ inst[q].out \in {"ok", "err"} /\ RetryDueNow(key))
               THEN {"RerunNoCause"} ELSE {})
    /\ calls' = calls
    /\ UNCHANGED <<cfg, now, pctx, prt, epoch, snapw, chs, credit, creditR, ctxTouch, cbseen, boReset, boStop, rootdead, td>>

PLeave(i, out) ==
    LET o == IF out = "ctxret" THEN "ctx" ELSE out IN
    /\ inst' = [inst EXCEPT ![i] = [@ EXCEPT !.act = FALSE, !.out = o, !.lclk = clk + 1, !.ltime = now, !.cur = IsCurrent(i)]]
    /\ Tick
    /\ bad' = bad \cup (IF i \notin Insts \/ ~inst[i].act THEN {"Harness"} ELSE {})
    /\ UNCHANGED <<cfg, now, pctx, prt, epoch, calls, snapw, chs, credit, creditR, needEnter, ctxTouch, status, cbseen, boReset, boStop, rootdead, td>>

\* exit callback k ran for the exit of instance i (0: an instance that never entered the function)
OwnDead(i) == /\ i # 0 /\ i \in Insts /\ inst[i].dead /\ inst[i].tag = pctx /\ pctx \in rootdead
              /\ inst[i].key = prt /\ inst[i].ep = epoch

PExitCb(k, i, err) ==
    /\ cbseen' = IF i # 0 THEN cbseen \cup {<<k, i>>} ELSE cbseen
    \* (the exit of an instance that was superseded meanwhile may still be reported, but it is
    \* not the container's exit status)
    \* ... unless the container's present context is one the CLIENT cancelled (rootdead): a run born under
    \* it is born with a cancelled context like a straggler, yet if it is the present routine's, entered
    \* in the present epoch, and its exit is reported, it is the container's own run and its result the
    \* container's exit status (found by ./check C14 thorough: WaitExited rightly returned its nil)
    /\ status' = IF IsCurrent(i) \/ OwnDead(i) THEN i ELSE status
    /\ Tick
    /\ bad' = bad
         \cup (IF i # 0 /\ <<k, i>> \in cbseen THEN {"ExitCbDup"} ELSE {})
         \cup (IF i # 0 /\ (i \notin Insts \/ inst[i].act) THEN {"ExitCbFabricated"}
               ELSE IF i # 0 /\ err # ErrName(i) THEN {"ExitCbWrongErr"} ELSE {})
    \* the bookkeeping of the instance is done: its status is now visible to WaitExited
    /\ calls' = IF IsCurrent(i) THEN Refresh(calls, EffCtx, prt, i)
               ELSE IF OwnDead(i) THEN Refresh(calls, pctx, prt, i) ELSE calls
    /\ UNCHANGED <<cfg, now, pctx, prt, epoch, inst, snapw, chs, credit, creditR, needEnter, ctxTouch, boReset, boStop, rootdead, td>>

\* C04: the channel returned by SetRoutine/SetState closed
PChClosed(ch) ==
    /\ bad' = bad \cup (IF ch \in DOMAIN chs /\ chs[ch] \cap Active # {} THEN {"ChEarly"} ELSE {})
    /\ Tick
    /\ UNCHANGED <<cfg, now, pctx, prt, epoch, inst, calls, snapw, chs, credit, creditR, needEnter, ctxTouch, status, cbseen, boReset, boStop, rootdead, td>>

PCancel(id) ==
    /\ calls' = IF id \in DOMAIN calls THEN [calls EXCEPT ![id].canc = TRUE] ELSE calls
    /\ Tick
    /\ UNCHANGED <<cfg, now, pctx, prt, epoch, inst, snapw, chs, credit, creditR, needEnter, ctxTouch, status, cbseen, boReset, boStop, rootdead, td, bad>>

PTick(d) ==
    /\ now' = now + d
    /\ cfg' = [cfg EXCEPT !.ld = d]
    /\ Tick
    /\ UNCHANGED <<pctx, prt, epoch, inst, calls, snapw, chs, credit, creditR, needEnter, ctxTouch, status, cbseen, boReset, boStop, rootdead, td, bad>>

\* (op = "next": the container asked its backoff for the next interval.  "After each backoff interval ...
\* the backoff being reset by a success": an interval is consumed by the failed exit of a current instance
\* and by nothing else -- one that left the function, was current when it did, did not succeed, and
\* whose exit has not been reported yet (the callbacks run after the bookkeeping section).  Not judged
\* once the client cancelled a root context itself: instances may then fail without entering.)
PBo(op) ==
    /\ boReset' = IF op = "reset" THEN clk + 1 ELSE boReset
    /\ boStop' = IF op = "stop" THEN clk + 1 ELSE boStop
    /\ Tick
    /\ bad' = bad \cup (IF op = "next" /\ ~td /\ ~cfg.burst /\ rootdead = {}
                           /\ ~\E i \in Insts : ~inst[i].act /\ inst[i].out # "ok" /\ inst[i].cur /\ <<1, i>> \notin cbseen
                        THEN {"BackoffNoFailure"} ELSE {})
    /\ UNCHANGED <<cfg, now, pctx, prt, epoch, inst, calls, snapw, chs, credit, creditR, needEnter, ctxTouch, status, cbseen, rootdead, td>>

\* The client cancelled root context `tag` (every context derived from it is cancelled with it).
PRootCancel(tag) ==
    /\ rootdead' = rootdead \cup {tag}
    /\ needEnter' = IF tag = pctx THEN 0 ELSE needEnter
    \* a pending WaitExited(returnIfNotRunning) may now return nil: nothing can run any more
    /\ calls' = Refresh(calls, IF pctx \in rootdead \cup {tag} THEN 0 ELSE pctx, prt, status)
    /\ Tick
    /\ UNCHANGED <<cfg, now, pctx, prt, epoch, inst, snapw, chs, credit, creditR, ctxTouch, status, cbseen, boReset, boStop, td, bad>>

PTeardown ==
    /\ td' = TRUE
    /\ Tick
    /\ UNCHANGED <<cfg, now, pctx, prt, epoch, inst, calls, snapw, chs, credit, creditR, needEnter, ctxTouch, status, cbseen, boReset, boStop, rootdead, bad>>

\* Observation at a point where no library-internal step is possible.
\* live/active: instances inside the function (with a live context); blk: blocked call ids;
\* gstate: GetState() (state variant, else -1).
QuietBad(live, active, blk, gstate) ==
    LET L == Latest
        curLeft == L # 0 /\ IsCurrent(L) /\ ~inst[L].act /\ inst[L].cur
        untouched == L # 0 /\ ctxTouch < inst[L].eclk
    IN
    (IF Cardinality(live) > 1 THEN {"LiveMany"} ELSE {})
    \cup (IF live # {} /\ (EffCtx = 0 \/ prt = 0) THEN {"LiveOrphan"} ELSE {})
    \cup (IF \E i \in live : EffCtx # 0 /\ inst[i].tag # pctx THEN {"LiveStaleCtx"} ELSE {})
    \cup (IF \E i \in live : prt # 0 /\ inst[i].key # prt THEN {"LiveStale"} ELSE {})
    \cup (IF gstate >= 0 /\ gstate # prt THEN {"StateLost"} ELSE {})
    \cup (IF active # Active \/ ~(live \subseteq active) THEN {"Harness"} ELSE {})
    \* C14 "by nothing else": the current instance (no superseding call returned since it entered, nothing
    \* entered after it) is inside the function with a cancelled context although the container has a
    \* context: something other than an API call took it down (first half of an illegitimate re-run)
    \cup (IF \E i \in active \ live : IsCurrent(i) /\ EffCtx # 0 THEN {"CancelNoCause"} ELSE {})
    \* C14 liveness, only while nothing is inside the function
    \cup (IF needEnter # 0 /\ active = {} /\ EffCtx # 0 /\ prt # 0 THEN {"RestartLost"} ELSE {})
    \cup (IF cfg.retry /\ curLeft /\ inst[L].out = "err" /\ active = {} /\ EffCtx # 0 /\ prt # 0
              /\ untouched /\ now >= inst[L].ltime + 13 /\ boStop < inst[L].lclk
          THEN {"RetryLost"} ELSE {})
    \cup (IF cfg.retry /\ cfg.stub /\ curLeft /\ inst[L].out = "ok" /\ untouched /\ boReset < inst[L].lclk THEN {"BackoffNotReset"} ELSE {})
    \cup (IF \E id \in blk : id \in DOMAIN calls /\ calls[id].op = "waitexited"
                 \* (a context cancelled by the client is noticed lazily: the waiter is only woken by
                 \* the exit bookkeeping of the instance, so it may stay blocked while one is inside)
                 /\ \/ (calls[id].rin /\ (pctx = 0 \/ prt = 0))
                    \/ (calls[id].rin /\ pctx \in rootdead /\ active = {})
                    \/ (EffCtx # 0 /\ prt # 0 /\ status # 0)
          THEN {"WaitStuck"} ELSE {})
    \* every exit of a current instance is reported once to each exit callback
    \cup (IF curLeft /\ untouched /\ EffCtx # 0 /\ prt # 0 /\ inst[L].out # "ctx"
              /\ (<<1, L>> \notin cbseen \/ <<2, L>> \notin cbseen)
          THEN {"ExitCbMissing"} ELSE {})

\* after a free-running burst: only the survivor conditions of C05, with GetState() as the stored state
BurstQuietBad(live, active, gstate) ==
    (IF Cardinality(live) > 1 THEN {"LiveMany"} ELSE {})
    \cup (IF live # {} /\ (pctx = 0 \/ gstate = 0) THEN {"LiveOrphan"} ELSE {})
    \cup (IF \E i \in live : EffCtx # 0 /\ inst[i].tag # pctx THEN {"LiveStaleCtx"} ELSE {})
    \cup (IF \E i \in live : gstate > 0 /\ inst[i].key # gstate THEN {"LiveStale"} ELSE {})
    \cup (IF active # Active \/ ~(live \subseteq active) THEN {"Harness"} ELSE {})

\* Observation after a controller step that is not a quiescent point (M1 only): instances inside the
\* function / with a live context.  A call's critical section and its return are one step, so no
\* superseding call can be half done here.
PCState(live, active) ==
    /\ bad' = bad \cup (IF ~td /\ ~cfg.burst /\ \E i \in active \ live : IsCurrent(i) /\ EffCtx # 0 THEN {"CancelNoCause"} ELSE {})
    /\ Tick
    /\ UNCHANGED <<cfg, now, pctx, prt, epoch, inst, calls, snapw, chs, credit, creditR, needEnter, ctxTouch, status, cbseen, boReset, boStop, rootdead, td>>

PQuiet(live, active, blk, gstate) ==
    /\ bad' = bad \cup (IF td THEN {} ELSE IF cfg.burst THEN BurstQuietBad(live, active, gstate) ELSE QuietBad(live, active, blk, gstate))
    /\ Tick
    /\ UNCHANGED <<cfg, now, pctx, prt, epoch, inst, calls, snapw, chs, credit, creditR, needEnter, ctxTouch, status, cbseen, boReset, boStop, rootdead, td>>

-----------------------------------------------------------------------------
(* Properties *)

\* C04: the managed function is never executing in two instances at once
NoOverlap == Cardinality(Active) <= 1

Violated == (IF NoOverlap THEN {} ELSE {"Overlap"}) \cup bad

C04Names == {"Overlap", "ChEarly"}
C05Names == {"NotCancelled", "LiveMany", "LiveOrphan", "LiveStaleCtx", "LiveStale", "StateLost"}
C14Names == {"RerunAfterSuccess", "RerunAfterError", "RerunNoCause", "CancelNoCause", "RestartLost", "RetryLost", "BackoffNotReset", "BackoffNoFailure",
             "WaitWrong", "WaitStuck", "ExitCbDup", "ExitCbFabricated", "ExitCbWrongErr", "ExitCbMissing"}
Safe_C04 == NoOverlap /\ bad \cap C04Names = {}
Safe_C05 == bad \cap C05Names = {}
Safe_C14 == bad \cap C14Names = {}
NoHarnessError == "Harness" \notin bad
=============================================================================
