---------------------------- MODULE OnceXTrace ----------------------------
(* X-level trace validation (advisory, DESIGN §2.5): executions of ONE scenario (the constants  *)
(* Prog, MaxCalls, Outs) recorded from the real promise.Once code with every controller step    *)
(* logged (-logsteps) are replayed through the actions of Once.tla itself.                      *)
(*                                                                                              *)
(* "step" event (one controller move): no wake-up may be pending in the spec (the real           *)
(* goroutines take every wake-up within the step that enabled it) and the move must be an       *)
(* enabled action of the spec:                                                                  *)
(*     call:cN             -> Call(N)         cancel:cN -> Cancel(N)                             *)
(*     grant:cN            -> CS(N)           (the caller is parked at the o.mtx hook)           *)
(*     grant:once.worker#W -> the action worker W is parked at: Start (Go hook), ErrCS (o.mtx    *)
(*                            hook of the error path), SetWrite | SetClose (promise.set/close)   *)
(*     fn:K:out            -> FnRet(K, out)   (the harness-owned function returns)               *)
(* The transient step that does not end in a logged return -- AwRes of a promise resolved with   *)
(* context.Canceled while the caller's context is live: `continue`, back to the lock -- is taken *)
(* eagerly by action composition (\cdot, TLC option tlc2.tool.impl.Tool.cdot).  The transient    *)
(* steps that end in a return (AwRes, AwCtx) are taken when the "ret" event is consumed: the     *)
(* event must be an enabled wake-up of that caller in the spec's current state with exactly the *)
(* logged result (Go's select chooses when result and cancellation are both ready: the spec      *)
(* allows both, the trace says which).  That none is left over is checked at the next step/quiet.*)
(*                                                                                              *)
(* The other API-level events are assertions on the spec's state: logged call / cancel /         *)
(* function entry / function return must be what the spec's own monitor variables say, a         *)
(* quiescent observation must be LibQuiet with exactly the logged blocked set.  A mismatch is    *)
(* DRIFT (never a verdict); the rest of a drifted run is skipped.                                *)
EXTENDS Once, TraceLib

VARIABLES l, drift, nd, live    \* position, recorded drifts (bounded list), number of drifts, run still being followed
tv == <<l, drift, nd, live>>

XReset ==
    /\ kind' = "once" /\ fnst' = <<>> /\ fnval' = <<>> /\ cst' = <<>> /\ cinfo' = <<>>
    /\ canc' = {} /\ errRet' = {} /\ bad' = {}
    /\ prom' = 0 /\ nw' = 0
    /\ wpc' = [w \in Workers |-> "none"]
    /\ winit' = [w \in Workers |-> 0]
    /\ wres' = [w \in Workers |-> <<>>]
    /\ wclosed' = [w \in Workers |-> FALSE]
    /\ pc' = [c \in Callers |-> "idle"]
    /\ ip' = [c \in Callers |-> 1]
    /\ joined' = [c \in Callers |-> 0]
    /\ cctx' = {}

TInit == Init /\ l = 1 /\ drift = <<>> /\ nd = 0 /\ live = TRUE

Pre(lbl, s) == Len(lbl) > Len(s) /\ SubSeq(lbl, 1, Len(s)) = s
Kind(lbl) == IF Pre(lbl, "call:c") THEN "call"
             ELSE IF Pre(lbl, "grant:c") THEN "grantc"
             ELSE IF Pre(lbl, "grant:once.worker#") THEN "grantw"
             ELSE IF Pre(lbl, "cancel:c") THEN "cancel"
             ELSE IF Pre(lbl, "fn:") /\ Len(lbl) > 5 THEN "fn" ELSE "?"
Digit(c) == CASE c = "1" -> 1 [] c = "2" -> 2 [] c = "3" -> 3 [] c = "4" -> 4 [] c = "5" -> 5 [] c = "6" -> 6
              [] c = "7" -> 7 [] c = "8" -> 8 [] c = "9" -> 9 [] OTHER -> 0
\* the process / worker / function call a label names: its last character, except "fn:K:out"
Num(lbl) == IF Kind(lbl) = "fn" THEN Digit(SubSeq(lbl, 4, 4)) ELSE Digit(SubSeq(lbl, Len(lbl), Len(lbl)))
Out(lbl) == SubSeq(lbl, 6, Len(lbl))

CanAct(k, n, out) ==
    CASE k = "call"   -> n \in Callers /\ pc[n] = "idle" /\ ~Done(n)
      [] k = "grantc" -> n \in Callers /\ pc[n] = "cs" /\ (prom = 0 => nw < MaxCalls)
      [] k = "grantw" -> n \in Workers /\ wpc[n] \in {"spawned", "errcs", "set1", "set2"}
      [] k = "cancel" -> n \in Callers /\ pc[n] \in {"cs", "aw"} /\ Op(n).c /\ ~Ctxc(n)
      [] k = "fn"     -> /\ n \in Workers /\ wpc[n] = "infn" /\ out \in Outs
                         /\ out = "ctxerr" => winit[n] \in cctx
                         /\ n = MaxCalls => out \in {"ok", "ok0"}
      [] OTHER -> FALSE

Act(k, n, out) ==
    /\ UNCHANGED tv
    /\ CASE k = "call"   -> Call(n)
         [] k = "grantc" -> CS(n)
         [] k = "grantw" -> Start(n) \/ ErrCS(n) \/ SetWrite(n) \/ SetClose(n)
         [] k = "cancel" -> Cancel(n)
         [] k = "fn"     -> FnRet(n, out)

-----------------------------------------------------------------------------
\* the transient step that does not end in a return: taken eagerly
NonRet(c) == pc[c] = "aw" /\ wclosed[joined[c]] /\ wres[joined[c]][2] = "C" /\ ~Ctxc(c)

T ==
    /\ UNCHANGED tv
    /\ IF \E d \in Callers : NonRet(d)
       THEN LET c == CHOOSE d \in Callers : NonRet(d) /\ \A r \in Callers : NonRet(r) => d <= r
            IN AwRes(c)
       ELSE UNCHANGED vars

\* transient steps that end in a return: taken at the "ret" event, which must name a result that
\* an enabled wake-up of the spec produces
CanRet(c, res, v) ==
    \/ pc[c] = "aw" /\ wclosed[joined[c]] /\ wres[joined[c]][2] = "nil" /\ res = "ok" /\ v = wres[joined[c]][1]
    \/ pc[c] = "aw" /\ wclosed[joined[c]] /\ wres[joined[c]][2] = "E" /\ res = "err" /\ v = joined[c]
    \/ pc[c] = "aw" /\ Ctxc(c) /\ res = "canceled" /\ v = 0

AwRet(c, res, v) ==
    \/ (res \in {"ok", "err"} /\ AwRes(c))
    \/ (res = "canceled" /\ AwCtx(c))

-----------------------------------------------------------------------------
Fin == UNCHANGED <<vars, drift, nd, live>> /\ l' = l + 1
Adv == UNCHANGED <<drift, nd, live>> /\ l' = l + 1

\* every drift is counted; only the first MaxRecords are kept (the list is part of every later state)
MaxRecords == 50
Drift(why) ==
    /\ drift' = IF Len(drift) < MaxRecords THEN Append(drift, [run |-> Trace[l].run, seq |-> Trace[l].seq, why |-> why]) ELSE drift
    /\ nd' = nd + 1
    /\ live' = FALSE
    /\ l' = l + 1
    /\ UNCHANGED vars

TStep ==
    /\ l <= Len(Trace)
    /\ LET e == Trace[l] IN
       CASE e.ev = "reset" -> XReset /\ l' = l + 1 /\ live' = TRUE /\ UNCHANGED <<drift, nd>>
         [] ~live -> UNCHANGED <<vars, drift, nd, live>> /\ l' = l + 1
         [] e.ev = "init" ->
              IF e.kind = "once" THEN Fin ELSE Drift("the scenario of the run is not the scenario of the spec")
         [] e.ev = "step" ->
              LET k == Kind(e.label) n == Num(e.label) out == Out(e.label) IN
              IF WakeAny THEN Drift("a wake-up is pending in the spec that the code did not take, before " \o e.label)
              ELSE IF CanAct(k, n, out) THEN Act(k, n, out) \cdot T \cdot T \cdot T \cdot T \cdot T \cdot T \cdot Fin
              ELSE Drift("step not enabled: " \o e.label)
         [] e.ev = "call" ->
              IF e.xid \in Ids /\ cst[e.xid] = "pending" /\ e.op = "resolve" /\ cinfo[e.xid].actor = e.xid \div 100
              THEN Fin ELSE Drift("logged call is not the call the spec issued")
         [] e.ev = "ret" ->
              LET c == e.xid \div 100 IN
              IF c \in Callers /\ e.xid \in Ids /\ cst[e.xid] = "pending" /\ CurId(c) = e.xid /\ CanRet(c, e.res, e.v)
              THEN AwRet(c, e.res, e.v) /\ Adv
              ELSE Drift("return not explained by an enabled wake-up of the spec")
         [] e.ev = "fnenter" ->
              IF e.k \in Calls /\ fnst[e.k] = "active" THEN Fin ELSE Drift("function entry not explained by the spec")
         [] e.ev = "fnleave" ->
              IF e.k \in Calls /\ fnst[e.k] = (IF e.out \in {"ok", "ok0"} THEN "ok" ELSE "err") /\ fnval[e.k] = e.v
              THEN Fin ELSE Drift("function return not explained by the spec")
         [] e.ev = "cancel" ->
              IF e.xid \in canc THEN Fin ELSE Drift("cancel not recorded by the spec")
         [] e.ev = "quiet" ->
              IF LibQuiet /\ BlockedIds = SeqToSet(e.xblk) THEN Fin ELSE Drift("quiescent observation differs")
         [] e.ev = "panic" -> Drift("panic out of the library")
         [] e.ev = "teardown" -> UNCHANGED <<vars, drift, nd>> /\ live' = FALSE /\ l' = l + 1
         [] OTHER -> Fin

TFinish ==
    /\ l = Len(Trace) + 1
    /\ JsonSerialize(IOEnv.VERDICT_FILE, [drift |-> drift, ndrift |-> nd, consumed |-> Len(Trace), total |-> Len(Trace)])
    /\ l' = l + 1
    /\ UNCHANGED <<vars, drift, nd, live>>

TNext == TStep \/ TFinish
=============================================================================
