-------------------------------- MODULE Memo --------------------------------
(* Implementation-shaped specification of memo.MemoizeFunc (memo/memo.go): an atomic swap     *)
(* elects the single caller of fn; the others wait for the done channel, which the winner     *)
(* closes (deferred) after the result variables are written.  Hooks: "memo.won" (after the    *)
(* swap, before fn) and "memo.lost" (before <-done).                                          *)
EXTENDS OnceP, Integers

CONSTANTS
    Prog,       \* Prog[c]: sequence of [op] records (op = "call")
    Outs,       \* outcomes of fn: subset of {"ok", "err"}
    EagerWake

Callers == 1..Len(Prog)
Id(c, j) == c * 100 + j

VARIABLES
    started, closed,   \* the atomic flag, the done channel
    res,               \* <<>> | <<res, v>>: the result variables
    nfn,               \* number of fn calls so far
    pc, ip             \* caller -> "idle" | "won" | "infn" | "wret" | "lost" | "msel"

xvars == <<started, closed, res, nfn, pc, ip>>
vars == <<xvars, pvars>>

CurId(c) == Id(c, ip[c])
Done(c) == ip[c] > Len(Prog[c])

Init ==
    /\ PInitScen("memo")
    /\ started = FALSE /\ closed = FALSE /\ res = <<>> /\ nfn = 0
    /\ pc = [c \in Callers |-> "idle"]
    /\ ip = [c \in Callers |-> 1]

BlockedIds == {CurId(c) : c \in {d \in Callers : pc[d] = "msel"}}
WakeAny == \E c \in Callers : pc[c] = "wret" \/ (pc[c] = "msel" /\ closed)
Gate == ~(EagerWake /\ WakeAny)

Ret(c) ==
    /\ pc' = [pc EXCEPT ![c] = "idle"]
    /\ ip' = [ip EXCEPT ![c] = @ + 1]
    /\ PRet(CurId(c), res[1], res[2])
    /\ UNCHANGED <<started, closed, res, nfn>>

\* the call starts with the swap
Call(c) ==
    /\ Gate
    /\ pc[c] = "idle" /\ ~Done(c)
    /\ started' = TRUE
    /\ pc' = [pc EXCEPT ![c] = IF started THEN "lost" ELSE "won"]
    /\ PCall(CurId(c), c)
    /\ UNCHANGED <<closed, res, nfn, ip>>

Won(c) ==
    /\ Gate
    /\ pc[c] = "won"
    /\ nfn' = nfn + 1
    /\ pc' = [pc EXCEPT ![c] = "infn"]
    /\ PFnEnter(nfn + 1)
    /\ UNCHANGED <<started, closed, res, ip>>

\* fn returns: result, doneErr = ...; deferred close(done)
FnRet(c, out) ==
    /\ Gate
    /\ pc[c] = "infn" /\ out \in Outs
    /\ res' = IF out = "ok" THEN <<"ok", 100 + nfn>> ELSE <<"err", nfn>>
    /\ closed' = TRUE
    /\ pc' = [pc EXCEPT ![c] = "wret"]
    /\ PFnLeave(nfn, out, IF out = "ok" THEN 100 + nfn ELSE nfn)
    /\ UNCHANGED <<started, nfn, ip>>

WRet(c) == pc[c] = "wret" /\ Ret(c)

Lost(c) ==
    /\ Gate
    /\ pc[c] = "lost"
    /\ pc' = [pc EXCEPT ![c] = "msel"]
    /\ UNCHANGED <<started, closed, res, nfn, ip, pvars>>

MWake(c) == pc[c] = "msel" /\ closed /\ Ret(c)

Next ==
    \/ \E c \in Callers : Call(c) \/ Won(c) \/ WRet(c) \/ Lost(c) \/ MWake(c)
    \/ \E c \in Callers : \E out \in {"ok", "err"} : FnRet(c, out)

Spec == Init /\ [][Next]_vars

LibQuiet ==
    /\ \A c \in Callers : pc[c] \in {"idle", "infn", "msel"}
    /\ ~WakeAny

TypeOK == nfn \in 0..1 /\ (closed => res # <<>>)
ModelSafe == bad = {}
QuietInv == LibQuiet => QuietOK(BlockedIds)
=============================================================================
