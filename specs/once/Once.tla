-------------------------------- MODULE Once --------------------------------
(* Implementation-shaped specification of promise.Once (promise/once.go) on top of            *)
(* promise.Promise.  One action per critical section of o.mtx (the start-or-join decision of *)
(* Resolve; the `o.prom = nil` section of the worker's error path), per goroutine start, per *)
(* atomic step of the worker's Promise.SetResult (swap / field writes / close), and per      *)
(* select wake-up of a caller's prom.Await(ctx).  The wrapped function is harness-owned: its  *)
(* outcomes (ok / ok0: success with the zero value / err / "ctxerr": returns its context's    *)
(* error once that context is cancelled; "late success": ok after the initiator's context    *)
(* was cancelled) and the callers' cancellations are environment actions.                    *)
(* Fine = TRUE: the granularity of sched.Exec.ParkUnl executions: the END of a critical        *)
(* section of o.mtx is a scheduling point too.  For a caller nothing changes (its section CS   *)
(* and the select of prom.Await are separate actions anyway: the select may be entered with    *)
(* both the result and the cancellation ready); the worker's error path splits into the        *)
(* `o.prom = nil` section (ErrCS) and the later `ctx.Err()` decision + swap (ErrSet), so a      *)
(* cancellation or a new Resolve can land in between.  Model check only.                       *)
EXTENDS OnceP, Integers

CONSTANTS
    Prog,       \* Prog[c]: sequence of [op, c] records: op = "resolve", c: context may be cancelled
    MaxCalls,   \* bound on function calls: call MaxCalls can only succeed
    Outs,       \* outcomes the function may choose from: subset of {"ok", "ok0", "err", "ctxerr"}
    Fine,       \* TRUE: the end of a critical section is a scheduling point too (see above)
    EagerWake

Callers == 1..Len(Prog)
Workers == 1..MaxCalls
Id(c, j) == c * 100 + j

VARIABLES
    prom,     \* o.prom: 0 = nil, w = the promise created for worker w
    nw,       \* workers spawned so far
    wpc,      \* worker -> "none" | "spawned" | "infn" | "errcs" | "errset" (Fine) | "set1" | "set2" | "done"
    winit,    \* worker -> call id whose context the function runs with
    wres,     \* worker -> <<>> | <<v, e>>: the pair its SetResult carries (e: "nil" | "E" | "C")
    wclosed,  \* worker -> done channel of its promise closed
    pc, ip,   \* caller -> "idle" | "cs" | "aw";  index of the current/next op
    joined,   \* caller -> promise it awaits
    cctx      \* call ids whose context is cancelled

xvars == <<prom, nw, wpc, winit, wres, wclosed, pc, ip, joined, cctx>>
vars == <<xvars, pvars>>

Op(c) == Prog[c][ip[c]]
CurId(c) == Id(c, ip[c])
Done(c) == ip[c] > Len(Prog[c])
Ctxc(c) == CurId(c) \in cctx

Init ==
    /\ PInitScen("once")
    /\ prom = 0 /\ nw = 0
    /\ wpc = [w \in Workers |-> "none"]
    /\ winit = [w \in Workers |-> 0]
    /\ wres = [w \in Workers |-> <<>>]
    /\ wclosed = [w \in Workers |-> FALSE]
    /\ pc = [c \in Callers |-> "idle"]
    /\ ip = [c \in Callers |-> 1]
    /\ joined = [c \in Callers |-> 0]
    /\ cctx = {}

BlockedIds == {CurId(c) : c \in {d \in Callers : pc[d] = "aw"}}

WakeAny == \E c \in Callers : pc[c] = "aw" /\ (wclosed[joined[c]] \/ Ctxc(c))
Gate == ~(EagerWake /\ WakeAny)

Ret(c, res, v) ==
    /\ pc' = [pc EXCEPT ![c] = "idle"]
    /\ ip' = [ip EXCEPT ![c] = @ + 1]
    /\ PRet(CurId(c), res, v)
    /\ UNCHANGED <<prom, nw, wpc, winit, wres, wclosed, joined, cctx>>

-----------------------------------------------------------------------------
(* Environment: Resolve(ctx) is called with a live context; it passes the ctx.Err() check and *)
(* reaches the lock (hook).                                                                   *)
Call(c) ==
    /\ Gate
    /\ pc[c] = "idle" /\ ~Done(c)
    /\ pc' = [pc EXCEPT ![c] = "cs"]
    /\ PCall(CurId(c), c)
    /\ UNCHANGED <<prom, nw, wpc, winit, wres, wclosed, ip, joined, cctx>>

\* once.go:35-62: start if not running, else join; then prom.Await(ctx)
CS(c) ==
    /\ Gate
    /\ pc[c] = "cs"
    /\ IF prom = 0
       THEN /\ nw < MaxCalls
            /\ nw' = nw + 1
            /\ prom' = nw + 1
            /\ wpc' = [wpc EXCEPT ![nw + 1] = "spawned"]
            /\ winit' = [winit EXCEPT ![nw + 1] = CurId(c)]
            /\ joined' = [joined EXCEPT ![c] = nw + 1]
       ELSE /\ joined' = [joined EXCEPT ![c] = prom]
            /\ UNCHANGED <<prom, nw, wpc, winit>>
    /\ pc' = [pc EXCEPT ![c] = "aw"]
    /\ UNCHANGED <<wres, wclosed, ip, cctx, pvars>>

\* select in prom.Await: the result is there
AwRes(c) ==
    /\ pc[c] = "aw" /\ wclosed[joined[c]]
    /\ LET pair == wres[joined[c]] IN
       CASE pair[2] = "nil" -> Ret(c, "ok", pair[1])
         [] pair[2] = "E"   -> Ret(c, "err", joined[c])
         [] OTHER ->     \* context.Canceled: `continue`; the loop top returns if ctx is done
              IF Ctxc(c) THEN Ret(c, "canceled", 0)
              ELSE /\ pc' = [pc EXCEPT ![c] = "cs"]
                   /\ UNCHANGED <<prom, nw, wpc, winit, wres, wclosed, ip, joined, cctx, pvars>>

\* select in prom.Await: ctx.Done -> Canceled -> continue -> ctx.Err() != nil -> return Canceled
AwCtx(c) == pc[c] = "aw" /\ Ctxc(c) /\ Ret(c, "canceled", 0)

Cancel(c) ==
    /\ Gate
    /\ pc[c] \in {"cs", "aw"} /\ Op(c).c /\ ~Ctxc(c)
    /\ cctx' = cctx \cup {CurId(c)}
    /\ PCancel(CurId(c))
    /\ UNCHANGED <<prom, nw, wpc, winit, wres, wclosed, pc, ip, joined>>

-----------------------------------------------------------------------------
(* The worker goroutine (once.go:42-61) *)
Start(w) ==
    /\ Gate
    /\ wpc[w] = "spawned"
    /\ wpc' = [wpc EXCEPT ![w] = "infn"]
    /\ PFnEnter(w)
    /\ UNCHANGED <<prom, nw, winit, wres, wclosed, pc, ip, joined, cctx>>

\* the function returns; on success the worker goes straight into SetResult (swap), on error
\* it reaches the lock of the error path
FnRet(w, out) ==
    /\ Gate
    /\ wpc[w] = "infn" /\ out \in Outs
    /\ out = "ctxerr" => winit[w] \in cctx
    /\ w = MaxCalls => out \in {"ok", "ok0"}
    /\ IF out \in {"ok", "ok0"}
       THEN /\ wres' = [wres EXCEPT ![w] = <<IF out = "ok" THEN 100 + w ELSE 0, "nil">>]
            /\ wpc' = [wpc EXCEPT ![w] = "set1"]
            /\ PFnLeave(w, out, IF out = "ok" THEN 100 + w ELSE 0)
       ELSE /\ wpc' = [wpc EXCEPT ![w] = "errcs"]
            /\ PFnLeave(w, out, w)
            /\ UNCHANGED wres
    /\ UNCHANGED <<prom, nw, winit, wclosed, pc, ip, joined, cctx>>

\* error path: lock; if o.prom == prom { o.prom = nil }; unlock; then ctx.Err() decides what
\* SetResult carries, and SetResult's swap is done
ErrCS(w) ==
    /\ Gate
    /\ wpc[w] = "errcs"
    /\ prom' = IF prom = w THEN 0 ELSE prom
    /\ IF Fine
       THEN wpc' = [wpc EXCEPT ![w] = "errset"] /\ UNCHANGED wres
       ELSE /\ wres' = [wres EXCEPT ![w] = IF winit[w] \in cctx THEN <<0, "C">> ELSE <<0, "E">>]
            /\ wpc' = [wpc EXCEPT ![w] = "set1"]
    /\ UNCHANGED <<nw, winit, wclosed, pc, ip, joined, cctx, pvars>>

\* Fine only: the worker was parked at the end of the error path's critical section; now
\* ctx.Err() decides what SetResult carries, and the swap is done
ErrSet(w) ==
    /\ Gate
    /\ wpc[w] = "errset"
    /\ wres' = [wres EXCEPT ![w] = IF winit[w] \in cctx THEN <<0, "C">> ELSE <<0, "E">>]
    /\ wpc' = [wpc EXCEPT ![w] = "set1"]
    /\ UNCHANGED <<prom, nw, winit, wclosed, pc, ip, joined, cctx, pvars>>

SetWrite(w) ==
    /\ Gate
    /\ wpc[w] = "set1"
    /\ wpc' = [wpc EXCEPT ![w] = "set2"]
    /\ UNCHANGED <<prom, nw, winit, wres, wclosed, pc, ip, joined, cctx, pvars>>

SetClose(w) ==
    /\ Gate
    /\ wpc[w] = "set2"
    /\ wclosed' = [wclosed EXCEPT ![w] = TRUE]
    /\ wpc' = [wpc EXCEPT ![w] = "done"]
    /\ UNCHANGED <<prom, nw, winit, wres, pc, ip, joined, cctx, pvars>>

-----------------------------------------------------------------------------
Next ==
    \/ \E c \in Callers : Call(c) \/ CS(c) \/ AwRes(c) \/ AwCtx(c) \/ Cancel(c)
    \/ \E w \in Workers : Start(w) \/ ErrCS(w) \/ ErrSet(w) \/ SetWrite(w) \/ SetClose(w)
    \/ \E w \in Workers : \E out \in {"ok", "ok0", "err", "ctxerr"} : FnRet(w, out)

Spec == Init /\ [][Next]_vars

LibQuiet ==
    /\ \A c \in Callers : pc[c] \in {"idle", "aw"}
    /\ \A w \in Workers : wpc[w] \in {"none", "infn", "done"}
    /\ ~WakeAny

-----------------------------------------------------------------------------
TypeOK ==
    /\ prom \in 0..MaxCalls /\ nw \in 0..MaxCalls
    /\ \A w \in Workers : wclosed[w] => wres[w] # <<>>

\* the bound on function calls is never what stops the model (the last call can only succeed)
BoundNotHit == \A c \in Callers : pc[c] = "cs" /\ prom = 0 => nw < MaxCalls

\* o.prom is nil, the promise of the call in flight, or the promise of the successful call
PromOK == prom # 0 => wpc[prom] \in {"spawned", "infn", "errcs"} \/ (wres[prom] # <<>> /\ wres[prom][2] = "nil")

ModelSafe == bad = {}
QuietInv == LibQuiet => QuietOK(BlockedIds)
=============================================================================
