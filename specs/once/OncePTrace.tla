------------------------------ MODULE OncePTrace ------------------------------
(* Replays an ndjson trace recorded from the real Once / MemoizeFunc code through OnceP.      *)
EXTENDS OnceP, TraceLib

VARIABLES l, viol, seen

tvars == <<l, viol, seen>>

TInit == PInit /\ l = 1 /\ viol = <<>> /\ seen = {}

Fresh == Violated \ seen
\* Every failed condition is recorded, but the list is bounded: beyond MaxRecords records only
\* conditions with a name not yet recorded are added (a tree with an open defect produces tens
\* of thousands of identical findings, and the growing list would dominate validation time).
MaxRecords == 400
RecordedNames == UNION {viol[k].names : k \in 1..Len(viol)}
Recorded ==
    IF l > 1 /\ Fresh # {} /\ (Len(viol) < MaxRecords \/ ~(Fresh \subseteq RecordedNames))
    THEN Append(viol, [run |-> Trace[l-1].run, seq |-> Trace[l-1].seq, names |-> Fresh, l |-> l - 1])
    ELSE viol

Apply(e) ==
    CASE e.ev = "reset"   -> PReset
      [] e.ev = "init"    -> PScen(e.kind)
      [] e.ev = "call"    -> PCall(e.id, e.actor)
      [] e.ev = "ret"     -> PRet(e.id, e.res, e.v)
      [] e.ev = "panic"   -> PPanic(e.id)
      [] e.ev = "fnenter" -> PFnEnter(e.k)
      [] e.ev = "fnleave" -> PFnLeave(e.k, e.out, e.v)
      [] e.ev = "cancel"  -> PCancel(e.id)
      [] e.ev = "quiet"   -> PQuiet(SeqToSet(e.blk))
      [] e.ev = "spin"    -> PSpin(e.actor)
      \* "step" / "teardown": controller steps logged for X-level trace validation (Once/MemoXTrace.tla)
      \* "cfg": granularity of the execution; no condition of OnceP depends on it (OnceP header)
      [] e.ev \in {"leak", "note", "end", "step", "teardown", "cfg"} -> UNCHANGED pvars
      [] OTHER            -> /\ bad' = bad \cup {"Unexplained"}
                             /\ UNCHANGED <<kind, fnst, fnval, cst, cinfo, canc, errRet>>

TStep ==
    /\ l <= Len(Trace)
    /\ viol' = Recorded
    /\ seen' = IF Trace[l].ev = "reset" THEN {} ELSE seen \cup Violated
    /\ Apply(Trace[l])
    /\ l' = l + 1

TFinish ==
    /\ l = Len(Trace) + 1
    /\ viol' = Recorded
    /\ WriteVerdict(viol', Len(Trace))
    /\ l' = l + 1
    /\ UNCHANGED <<pvars, seen>>

TNext == TStep \/ TFinish
TSpec == TInit /\ [][TNext]_<<pvars, tvars>>
=============================================================================
