-------------------------------- MODULE OnceP --------------------------------
(* Property monitor for promise.Once and memo.MemoizeFunc (C16).                              *)
(*                                                                                          *)
(* API-level state only: entries and returns of the wrapped (harness-owned) function, calls  *)
(* of Resolve / of the memoized function with their results, cancellations, and the          *)
(* controller's exact observations (callers blocked at a library-quiescent point, a          *)
(* spinning caller).  Function call k returns the value 100+k (or, outcome "ok0", the zero     *)
(* value) on success and an error that carries k on failure, so a result a caller receives    *)
(* names the call it came from.                                                               *)
(*                                                                                          *)
(* Reading of the statement (weaker reading wherever it is ambiguous):                      *)
(*  R1 "never running twice at the same time": no fnenter while another call is active.      *)
(*  R2 "after the function has returned without error it is never called again": no fnenter  *)
(*     after an fnleave(ok).                                                                  *)
(*  R3 "every Resolve with a live context, concurrent or later, returns that value": a       *)
(*     Resolve that STARTED after the success returns the value unless its own context was   *)
(*     cancelled; a Resolve that overlaps the success may still return the error of a failed *)
(*     call that ended during the Resolve (it had joined that call).  A value returned is    *)
(*     always the value of a successful call.                                                *)
(*  R4 "after it returned an error a later Resolve calls it again": "later" is taken         *)
(*     relative to what a client can observe - a Resolve that starts after some Resolve has  *)
(*     RETURNED the error of call k must not return the error of call k again (it must run a *)
(*     new call or join a newer one).  A Resolve that starts in the window between the       *)
(*     function's return and the first delivery of its error may still be handed that error. *)
(*  R5 "a caller whose own context is cancelled gets context.Canceled": a cancelled caller   *)
(*     does not stay blocked; racing with a result it may return either.  Conversely a       *)
(*     caller whose context was never cancelled does not get context.Canceled ("without      *)
(*     preventing other callers from obtaining a result").                                   *)
(*  R6 liveness at quiescent points: with no function call active and no library step        *)
(*     possible, no live-context caller is blocked; a live caller does not spin.             *)
(*  Memo: the function is entered at most once; every caller returns that call's pair; no    *)
(*     caller is blocked once the call has returned.                                         *)
(*                                                                                          *)
(* What the logged events bound.  "fnenter" / "fnleave" are logged by the harness-owned      *)
(* function itself: they ARE the entry and the return of the wrapped function (exact, at any *)
(* granularity).  "call" is logged before Resolve / the memoized function is entered, "ret"   *)
(* after it has returned, "cancel" before cancel() is called:                                 *)
(*   B1  the critical section in which a Resolve reads o.prom (and every later one of its     *)
(*       loop) lies after its logged call; the promise it returns from was read there;        *)
(*   B2  a result delivered to a caller was produced by a function call whose "fnleave" is    *)
(*       logged before the caller's "ret"; the error of call k is delivered only after k's    *)
(*       worker has cleared o.prom, so a Resolve logged-started after a logged "ret" with     *)
(*       that error cannot read k's promise any more;                                         *)
(*   B3  after the "fnleave" of a successful call k, o.prom is k's promise for ever (only     *)
(*       k's own error path would clear it): every Resolve logged-started after it joins k;   *)
(*   B4  a context is not cancelled before its logged "cancel";                               *)
(*   B5  a "quiet" observation is exact: no goroutine is parked at any hook (in executions    *)
(*       where the end of a critical section is a park point, sched.Exec.ParkUnl: not there   *)
(*       either), every caller in flight is durably blocked in its select, nothing ready.     *)
(* Every condition below rests on these bounds only - none takes the logged return of a call  *)
(* as its linearization point - so the monitor is the same for coarse executions, for         *)
(* executions with park points at the END of critical sections (a caller stops between its    *)
(* section and its select and enters the select with result and cancellation both ready; the  *)
(* worker stops between `o.prom = nil` and its ctx.Err() check), for combined "grant &        *)
(* cancel" steps (sched.Exec.Double) and for the free-running burst; the "cfg" event the      *)
(* driver logs (granularity of the execution) is not needed by any condition and is ignored:  *)
(*   Overlap, CalledAfterSuccess, MemoCalledTwice     exact events only.                      *)
(*   ValueFromNowhere, ErrorFromNowhere, MemoWrongResult   B2.                                *)
(*   NotMemoized      B1 + B3 (success known at the logged call).                             *)
(*   StaleError       B1 + B2 (error already delivered at the logged call).                   *)
(*   SpuriousCancel   B4 (Resolve returns Canceled only after reading ctx.Err() # nil).       *)
(*   CancelStuck, Stuck, MemoStuck   B5 + exact fnenter/fnleave + B4; a cancelled caller that *)
(*                    raced with a result may have returned either (R5), nothing is demanded  *)
(*                    of which.                                                                *)
(*   Spin             the controller's observation.                                           *)
EXTENDS Naturals, FiniteSets, Sequences, TLC

VARIABLES
    kind,    \* "" | "once" | "memo"
    fnst,    \* function call k -> "active" | "ok" | "err"
    fnval,   \* function call k -> value returned (ok) / k (err)
    cst,     \* caller call id -> "pending" | "done"
    cinfo,   \* caller call id -> [succ, stale, actor]: a success was known / the errors already
             \*   delivered to some caller, when this call started
    canc,    \* caller call ids whose context has been cancelled
    errRet,  \* function calls whose error has been returned to some caller
    bad

pvars == <<kind, fnst, fnval, cst, cinfo, canc, errRet, bad>>

PInit ==
    /\ kind = "" /\ fnst = <<>> /\ fnval = <<>> /\ cst = <<>> /\ cinfo = <<>>
    /\ canc = {} /\ errRet = {} /\ bad = {}

PInitScen(k) ==
    /\ kind = k /\ fnst = <<>> /\ fnval = <<>> /\ cst = <<>> /\ cinfo = <<>>
    /\ canc = {} /\ errRet = {} /\ bad = {}

PReset ==
    /\ kind' = "" /\ fnst' = <<>> /\ fnval' = <<>> /\ cst' = <<>> /\ cinfo' = <<>>
    /\ canc' = {} /\ errRet' = {} /\ bad' = {}

PScen(k) ==
    /\ kind' = k
    /\ bad' = bad \cup (IF cst # <<>> \/ fnst # <<>> \/ k \notin {"once", "memo"} THEN {"Harness"} ELSE {})
    /\ UNCHANGED <<fnst, fnval, cst, cinfo, canc, errRet>>

Ids     == DOMAIN cst
Calls   == DOMAIN fnst
Active  == {k \in Calls : fnst[k] = "active"}
Succ    == {k \in Calls : fnst[k] = "ok"}
Pending == {i \in Ids : cst[i] = "pending"}

-----------------------------------------------------------------------------
PCall(i, actor) ==
    /\ cst' = (i :> "pending") @@ cst
    /\ cinfo' = (i :> [succ |-> Succ # {}, stale |-> errRet, actor |-> actor]) @@ cinfo
    /\ bad' = bad \cup (IF i \in Ids \/ kind = "" THEN {"Harness"} ELSE {})
    /\ UNCHANGED <<kind, fnst, fnval, canc, errRet>>

PFnEnter(k) ==
    /\ fnst' = (k :> "active") @@ fnst
    /\ fnval' = (k :> 0) @@ fnval
    /\ bad' = bad
        \cup (IF k \in Calls THEN {"Harness"} ELSE {})
        \cup (IF kind = "once" /\ Active # {} THEN {"Overlap"} ELSE {})
        \cup (IF kind = "once" /\ Succ # {} THEN {"CalledAfterSuccess"} ELSE {})
        \cup (IF kind = "memo" /\ Calls # {} THEN {"MemoCalledTwice"} ELSE {})
    /\ UNCHANGED <<kind, cst, cinfo, canc, errRet>>

\* out: "ok" | "ok0" (success with the zero value) | "err" | "ctxerr" (the function returned
\* its context's error)
PFnLeave(k, out, v) ==
    /\ fnst' = [fnst EXCEPT ![k] = IF out \in {"ok", "ok0"} THEN "ok" ELSE "err"]
    /\ fnval' = [fnval EXCEPT ![k] = v]
    /\ bad' = bad \cup (IF k \notin Active THEN {"Harness"} ELSE {})
    /\ UNCHANGED <<kind, cst, cinfo, canc, errRet>>

\* res: "ok" (v: the value) | "err" (v: the function call whose error it is) | "canceled" | "other"
OnceRetBad(i, res, v) ==
    CASE res = "ok" -> IF \E k \in Succ : fnval[k] = v THEN {} ELSE {"ValueFromNowhere"}
      [] res = "err" ->
               (IF v \in Calls /\ fnst[v] = "err" THEN {} ELSE {"ErrorFromNowhere"})
          \cup (IF cinfo[i].succ THEN {"NotMemoized"} ELSE {})
          \cup (IF v \in cinfo[i].stale THEN {"StaleError"} ELSE {})
      [] res = "canceled" -> IF i \in canc THEN {} ELSE {"SpuriousCancel"}
      [] OTHER -> {"ErrorFromNowhere"}

MemoRetBad(i, res, v) ==
    IF /\ 1 \in Calls
       /\ \/ res = "ok" /\ fnst[1] = "ok" /\ fnval[1] = v
          \/ res = "err" /\ fnst[1] = "err" /\ v = 1
    THEN {} ELSE {"MemoWrongResult"}

PRet(i, res, v) ==
    /\ cst' = [cst EXCEPT ![i] = "done"]
    /\ errRet' = IF res = "err" THEN errRet \cup {v} ELSE errRet
    /\ bad' = bad
        \cup (IF i \notin Pending THEN {"Harness"} ELSE {})
        \cup (IF kind = "memo" THEN MemoRetBad(i, res, v) ELSE OnceRetBad(i, res, v))
    /\ UNCHANGED <<kind, fnst, fnval, cinfo, canc>>

PCancel(i) ==
    /\ canc' = canc \cup {i}
    /\ bad' = bad \cup (IF i \notin Ids \/ kind # "once" THEN {"Harness"} ELSE {})
    /\ UNCHANGED <<kind, fnst, fnval, cst, cinfo, errRet>>

PPanic(i) ==
    /\ cst' = [cst EXCEPT ![i] = "done"]
    /\ bad' = bad \cup (IF i \notin Pending THEN {"Harness"} ELSE {"Panic"})
    /\ UNCHANGED <<kind, fnst, fnval, cinfo, canc, errRet>>

\* No library-internal step is possible and exactly the callers in B are blocked.
QuietBad(B) ==
    (IF kind = "once" /\ B \cap canc # {} THEN {"CancelStuck"} ELSE {})
    \cup (IF kind = "once" /\ Active = {} /\ B \ canc # {} THEN {"Stuck"} ELSE {})
    \cup (IF kind = "memo" /\ Active = {} /\ B # {} THEN {"MemoStuck"} ELSE {})
    \cup (IF B \subseteq Pending THEN {} ELSE {"Harness"})

QuietOK(B) == QuietBad(B) = {}

PQuiet(B) ==
    /\ bad' = bad \cup QuietBad(B)
    /\ UNCHANGED <<kind, fnst, fnval, cst, cinfo, canc, errRet>>

\* The controller saw this actor pass SpinK critical sections in a row while nothing else moved.
\* (A caller whose context is cancelled must come out with context.Canceled; one that keeps taking
\* critical sections instead is as stuck as one found blocked at a quiet point.)
PSpin(actor) ==
    LET S == {i \in Pending : cinfo[i].actor = actor} IN
    /\ bad' = bad \cup (IF S = {} THEN {"Harness"} ELSE IF S \subseteq canc THEN {"CancelStuck"} ELSE {"Spin"})
    /\ UNCHANGED <<kind, fnst, fnval, cst, cinfo, canc, errRet>>

-----------------------------------------------------------------------------
Protocol == {"Harness", "Unexplained"}
Safe_C16 == bad \subseteq Protocol
NoHarnessError == bad \cap Protocol = {}
Violated == bad

PropertyOf == [Overlap |-> "C16", CalledAfterSuccess |-> "C16", ValueFromNowhere |-> "C16", ErrorFromNowhere |-> "C16",
               NotMemoized |-> "C16", StaleError |-> "C16", SpuriousCancel |-> "C16", CancelStuck |-> "C16",
               Stuck |-> "C16", Spin |-> "C16", Panic |-> "C16",
               MemoCalledTwice |-> "C16", MemoWrongResult |-> "C16", MemoStuck |-> "C16",
               Harness |-> "HARNESS", Unexplained |-> "HARNESS"]
=============================================================================
