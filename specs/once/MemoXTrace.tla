---------------------------- MODULE MemoXTrace ----------------------------
(* X-level trace validation (advisory, DESIGN §2.5): executions of ONE scenario (the constants  *)
(* Prog, Outs) recorded from the real memo.MemoizeFunc code with every controller step logged   *)
(* (-logsteps) are replayed through the actions of Memo.tla itself.                             *)
(*                                                                                              *)
(* "step" event: no wake-up may be pending in the spec, and the move must be an enabled action:  *)
(*     call:cN  -> Call(N)  (the swap; the caller runs on to its memo.won / memo.lost hook)      *)
(*     grant:cN -> Won(N) | Lost(N)                                                              *)
(*     fn:1:out -> FnRet(c, out) for the caller c that is inside fn                              *)
(* Every transient step of Memo.tla ends in a return (WRet: the winner returns after the         *)
(* deferred close; MWake: a loser's receive from the done channel): it is taken when the "ret"  *)
(* event is consumed, which must be an enabled such step with exactly the logged result (same    *)
(* scheme as OnceXTrace / PromiseXTrace); that none is left over is checked at the next step /   *)
(* quiet.  Logged call / function entry / function return are assertions on the spec's monitor   *)
(* variables; a quiescent observation must be LibQuiet with exactly the logged blocked set.      *)
(* A mismatch is DRIFT (never a verdict); the rest of a drifted run is skipped.                  *)
EXTENDS Memo, TraceLib

VARIABLES l, drift, nd, live    \* position, recorded drifts (bounded list), number of drifts, run still being followed
tv == <<l, drift, nd, live>>

XReset ==
    /\ kind' = "memo" /\ fnst' = <<>> /\ fnval' = <<>> /\ cst' = <<>> /\ cinfo' = <<>>
    /\ canc' = {} /\ errRet' = {} /\ bad' = {}
    /\ started' = FALSE /\ closed' = FALSE /\ res' = <<>> /\ nfn' = 0
    /\ pc' = [c \in Callers |-> "idle"]
    /\ ip' = [c \in Callers |-> 1]

TInit == Init /\ l = 1 /\ drift = <<>> /\ nd = 0 /\ live = TRUE

Pre(lbl, s) == Len(lbl) > Len(s) /\ SubSeq(lbl, 1, Len(s)) = s
Kind(lbl) == IF Pre(lbl, "call:c") THEN "call"
             ELSE IF Pre(lbl, "grant:c") THEN "grant"
             ELSE IF Pre(lbl, "fn:1:") THEN "fn" ELSE "?"
Digit(c) == CASE c = "1" -> 1 [] c = "2" -> 2 [] c = "3" -> 3 [] c = "4" -> 4 [] c = "5" -> 5 [] c = "6" -> 6
              [] c = "7" -> 7 [] c = "8" -> 8 [] c = "9" -> 9 [] OTHER -> 0
Num(lbl) == Digit(SubSeq(lbl, Len(lbl), Len(lbl)))
Out(lbl) == SubSeq(lbl, 6, Len(lbl))
InFn == {c \in Callers : pc[c] = "infn"}

CanAct(k, n, out) ==
    CASE k = "call"  -> n \in Callers /\ pc[n] = "idle" /\ ~Done(n)
      [] k = "grant" -> n \in Callers /\ pc[n] \in {"won", "lost"}
      [] k = "fn"    -> InFn # {} /\ out \in Outs
      [] OTHER -> FALSE

Act(k, n, out) ==
    CASE k = "call"  -> Call(n)
      [] k = "grant" -> Won(n) \/ Lost(n)
      [] k = "fn"    -> FnRet(CHOOSE c \in InFn : TRUE, out)

CanRet(c, r, v) == (pc[c] = "wret" \/ (pc[c] = "msel" /\ closed)) /\ res = <<r, v>>
AwRet(c) == WRet(c) \/ MWake(c)

-----------------------------------------------------------------------------
Fin == UNCHANGED <<vars, drift, nd, live>> /\ l' = l + 1
Adv == UNCHANGED <<drift, nd, live>> /\ l' = l + 1

\* every drift is counted; only the first MaxRecords are kept (the list is part of every later state)
MaxRecords == 50
Drift(why) ==
    /\ drift' = IF Len(drift) < MaxRecords THEN Append(drift, [run |-> Trace[l].run, seq |-> Trace[l].seq, why |-> why]) ELSE drift
    /\ nd' = nd + 1
    /\ live' = FALSE
    /\ l' = l + 1
    /\ UNCHANGED vars

TStep ==
    /\ l <= Len(Trace)
    /\ LET e == Trace[l] IN
       CASE e.ev = "reset" -> XReset /\ l' = l + 1 /\ live' = TRUE /\ UNCHANGED <<drift, nd>>
         [] ~live -> UNCHANGED <<vars, drift, nd, live>> /\ l' = l + 1
         [] e.ev = "init" ->
              IF e.kind = "memo" THEN Fin ELSE Drift("the scenario of the run is not the scenario of the spec")
         [] e.ev = "step" ->
              LET k == Kind(e.label) n == Num(e.label) out == Out(e.label) IN
              IF WakeAny THEN Drift("a wake-up is pending in the spec that the code did not take, before " \o e.label)
              ELSE IF CanAct(k, n, out) THEN Act(k, n, out) /\ Adv
              ELSE Drift("step not enabled: " \o e.label)
         [] e.ev = "call" ->
              IF e.xid \in Ids /\ cst[e.xid] = "pending" /\ e.op = "call" /\ cinfo[e.xid].actor = e.xid \div 100
              THEN Fin ELSE Drift("logged call is not the call the spec issued")
         [] e.ev = "ret" ->
              LET c == e.xid \div 100 IN
              IF c \in Callers /\ e.xid \in Ids /\ cst[e.xid] = "pending" /\ CurId(c) = e.xid /\ CanRet(c, e.res, e.v)
              THEN AwRet(c) /\ Adv
              ELSE Drift("return not explained by an enabled wake-up of the spec")
         [] e.ev = "fnenter" ->
              IF e.k \in Calls /\ fnst[e.k] = "active" THEN Fin ELSE Drift("function entry not explained by the spec")
         [] e.ev = "fnleave" ->
              IF e.k \in Calls /\ fnst[e.k] = (IF e.out \in {"ok", "ok0"} THEN "ok" ELSE "err") /\ fnval[e.k] = e.v
              THEN Fin ELSE Drift("function return not explained by the spec")
         [] e.ev = "quiet" ->
              IF LibQuiet /\ BlockedIds = SeqToSet(e.xblk) THEN Fin ELSE Drift("quiescent observation differs")
         [] e.ev = "panic" -> Drift("panic out of the library")
         [] e.ev = "teardown" -> UNCHANGED <<vars, drift, nd>> /\ live' = FALSE /\ l' = l + 1
         [] OTHER -> Fin

TFinish ==
    /\ l = Len(Trace) + 1
    /\ JsonSerialize(IOEnv.VERDICT_FILE, [drift |-> drift, ndrift |-> nd, consumed |-> Len(Trace), total |-> Len(Trace)])
    /\ l' = l + 1
    /\ UNCHANGED <<vars, drift, nd, live>>

TNext == TStep \/ TFinish
=============================================================================
