------------------------------ MODULE TraceLib ------------------------------
(* Shared plumbing of every <Comp>PTrace specification (DESIGN §2.5).                       *)
(* The ndjson file named by the environment variable TRACE_FILE is a concatenation of       *)
(* executions recorded from the real code; a "reset" event starts each one.                 *)
EXTENDS Naturals, Sequences, TLC, Json, IOUtils

Trace == ndJsonDeserialize(IOEnv.TRACE_FILE)

\* Write the verdict file (list of violation records + how much of the trace was consumed).
WriteVerdict(viol, consumed) ==
    JsonSerialize(IOEnv.VERDICT_FILE, [violations |-> viol, consumed |-> consumed, total |-> Len(Trace)])

\* Conversions from JSON arrays.
SeqToSet(s) == {s[i] : i \in 1..Len(s)}
=============================================================================
