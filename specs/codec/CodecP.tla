------------------------------- MODULE CodecP -------------------------------
(* Property monitor / expectation calculator for C19 (padding, commonprefix, prng).          *)
(*                                                                                          *)
(* The functions under test are pure; an "event" is one evaluation of a real function,      *)
(* logged as (input, output | error | panic).  The monitor recomputes from the INPUT what   *)
(* the statement of C19 allows and collects the names of the clauses that fail in `bad`.    *)
(* Byte strings are sequences of integers 0..255.                                           *)
(*                                                                                          *)
(* Reading of the statement (the monitor demands nothing beyond it):                        *)
(*  - PadInPlace(x): length a positive multiple of 32, starts with x.  Zero fill, minimal   *)
(*    length and "in place" are NOT demanded (they are what the code does, not what C19      *)
(*    says).                                                                                *)
(*  - UnpadInPlace(PadInPlace(x)) = x, no error.                                            *)
(*  - UnpadInPlace(any d): never a panic; a non-error result never reaches outside d, i.e.  *)
(*    it is a prefix of d.  Which inputs are rejected is left open.                         *)
(*  - Prefix(s1..sn), n >= 1: the longest common prefix as BYTE strings; TrimPrefix removes *)
(*    exactly that from every argument.  n = 0 is left unconstrained ("prefix of all of     *)
(*    zero arguments" is vacuous).                                                          *)
(*  - prng: readers built from equal seed data (equal `datas` lists) yield the same byte    *)
(*    stream whatever the chunking; sources built from equal seed data yield the same       *)
(*    Uint64 sequence.  Advisory only (mapped to no property): the reader's stream is the   *)
(*    little-endian byte string of the source's words; the same seed bytes split           *)
(*    differently across `datas` give the same stream (the statement does not say so).      *)
EXTENDS Integers, Sequences, FiniteSets, TLC

VARIABLES
    last,   \* the last PadInPlace evaluation (for the round trip): [has, x, out]
    rd,     \* prng reader id -> [seed |-> datas, bytes |-> concatenation of everything read]
    src,    \* prng source id -> [seed |-> datas, words |-> sequence of Uint64 as 4 16-bit limbs]
    bad     \* names of the clauses failed by the LAST event (one execution is a batch of
            \* independent evaluations, so `bad` is per event, not sticky)

pvars == <<last, rd, src, bad>>

NoPad == [has |-> FALSE, x |-> <<>>, out |-> <<>>]

PInit  == last = NoPad /\ rd = <<>> /\ src = <<>> /\ bad = {}
PReset == last' = NoPad /\ rd' = <<>> /\ src' = <<>> /\ bad' = {}

-----------------------------------------------------------------------------
(* Sequence helpers (linear time in TLC: SubSeq and tuple equality are native) *)

Min2(a, b) == IF a < b THEN a ELSE b
Take(s, n) == SubSeq(s, 1, n)
Drop(s, n) == SubSeq(s, n + 1, Len(s))
IsPrefixOf(p, s) == Len(p) <= Len(s) /\ Take(s, Len(p)) = p
AgreeOnCommon(s, t) == LET n == Min2(Len(s), Len(t)) IN Take(s, n) = Take(t, n)

Flat(ss) ==                       \* concatenation of a sequence of sequences
    LET f[i \in 0..Len(ss)] == IF i = 0 THEN <<>> ELSE f[i-1] \o ss[i] IN f[Len(ss)]

-----------------------------------------------------------------------------
(* padding *)

PadBad(x, res, out) ==
    IF res # "ok" THEN {"PadPanic"}
    ELSE (IF Len(out) > 0 /\ Len(out) % 32 = 0 THEN {} ELSE {"PadLen"})
         \cup (IF IsPrefixOf(x, out) THEN {} ELSE {"PadPrefix"})

\* Detail after ':' classifies the INPUT, so that an open finding can be listed by an exact
\* signature ("UnpadPanic:empty") while any other failure of the same clause still alarms.
RoundTripBad(x, res, out) ==
    IF res = "panic" THEN {"UnpadPanic"}
    ELSE IF res = "ok" /\ out = x THEN {}
    ELSE IF x = <<>> THEN {"UnpadRoundTrip:empty"} ELSE {"UnpadRoundTrip"}

UnpadBad(d, res, out) ==
    IF res = "panic" THEN (IF d = <<>> THEN {"UnpadPanic:empty"} ELSE {"UnpadPanic"})
    ELSE IF res = "ok" /\ ~IsPrefixOf(out, d) THEN {"UnpadOverread"} ELSE {}

\* PadInPlace(x) was evaluated.
PPad(x, res, out) ==
    /\ last' = [has |-> res = "ok", x |-> x, out |-> out]
    /\ bad' = PadBad(x, res, out)
    /\ UNCHANGED <<rd, src>>

\* UnpadInPlace was evaluated on the output of the last PadInPlace.
PUnpadRT(res, out) ==
    /\ bad' = (IF last.has THEN RoundTripBad(last.x, res, out) ELSE {"Harness"})
    /\ last' = NoPad
    /\ UNCHANGED <<rd, src>>

\* UnpadInPlace was evaluated on an arbitrary input d.
PUnpad(d, res, out) ==
    /\ bad' = UnpadBad(d, res, out)
    /\ UNCHANGED <<last, rd, src>>

-----------------------------------------------------------------------------
(* commonprefix *)

MinLen(strs) ==
    LET f[i \in 1..Len(strs)] == IF i = 1 THEN Len(strs[1]) ELSE Min2(f[i-1], Len(strs[i]))
    IN f[Len(strs)]

\* length of the longest common prefix of a non-empty sequence of byte strings
LCPLen(strs) ==
    LET m == MinLen(strs)
        mism == {i \in 1..m : \E k \in 2..Len(strs) : strs[k][i] # strs[1][i]}
    IN IF mism = {} THEN m ELSE (CHOOSE i \in mism : \A j \in mism : i <= j) - 1

LCP(strs) == Take(strs[1], LCPLen(strs))

\* ":highbyte" = the longest common prefix of the arguments contains a byte >= 0x80
HighLCP(strs) == \E i \in 1..LCPLen(strs) : strs[1][i] >= 128

PrefixBad(strs, res, pre) ==
    IF Len(strs) = 0 THEN {}
    ELSE IF res = "ok" /\ pre = LCP(strs) THEN {}
    ELSE IF HighLCP(strs) THEN {"PrefixNotLongest:highbyte"} ELSE {"PrefixNotLongest"}

TrimBad(strs, res, trim) ==
    IF Len(strs) = 0 THEN {}
    ELSE LET n == LCPLen(strs) IN
         IF res = "ok" /\ Len(trim) = Len(strs) /\ \A k \in 1..Len(strs) : trim[k] = Drop(strs[k], n)
         THEN {}
         ELSE IF HighLCP(strs) THEN {"TrimWrong:highbyte"} ELSE {"TrimWrong"}

\* Prefix(strs...) and TrimPrefix(strs...) were evaluated on the same arguments.
PCommon(strs, pres, pre, tres, trim) ==
    /\ bad' = PrefixBad(strs, pres, pre) \cup TrimBad(strs, tres, trim)
    /\ UNCHANGED <<last, rd, src>>

-----------------------------------------------------------------------------
(* prng *)

\* little-endian bytes of a Uint64 given as four 16-bit limbs, least significant first
WordBytes(w) == << w[1] % 256, w[1] \div 256, w[2] % 256, w[2] \div 256,
                   w[3] % 256, w[3] \div 256, w[4] % 256, w[4] \div 256 >>
WordsBytes(ws) == Flat([i \in 1..Len(ws) |-> WordBytes(ws[i])])

\* A new group of readers / sources begins (ids are local to a group).
PPrngBegin == rd' = <<>> /\ src' = <<>> /\ bad' = {} /\ UNCHANGED last

\* A reader was built from seed data `seed` (a sequence of byte strings).
PPrngNew(id, seed) ==
    /\ rd' = (id :> [seed |-> seed, bytes |-> <<>>]) @@ rd
    /\ bad' = (IF id \in DOMAIN rd THEN {"Harness"} ELSE {})
    /\ UNCHANGED <<last, src>>

ReaderBad(id, seed, bytes) ==
    (IF \E j \in DOMAIN rd \ {id} : rd[j].seed = seed /\ ~AgreeOnCommon(bytes, rd[j].bytes)
     THEN {"PrngChunking"} ELSE {})
    \cup (IF \E j \in DOMAIN rd \ {id} : rd[j].seed # seed /\ Flat(rd[j].seed) = Flat(seed)
                                         /\ ~AgreeOnCommon(bytes, rd[j].bytes)
          THEN {"PrngSplit"} ELSE {})
    \cup (IF \E s \in DOMAIN src : src[s].seed = seed /\ ~AgreeOnCommon(bytes, WordsBytes(src[s].words))
          THEN {"PrngWordLE"} ELSE {})

\* Read(p) with len(p) = n returned: `got` are the bytes it delivered (p[:count]).
PPrngRead(id, n, res, got) ==
    IF id \notin DOMAIN rd \/ Len(got) > n
    THEN bad' = {"Harness"} /\ UNCHANGED <<last, rd, src>>
    ELSE LET nb == rd[id].bytes \o got IN
         /\ rd' = [rd EXCEPT ![id].bytes = nb]
         /\ bad' = (IF res = "panic" THEN {"PrngChunking"} ELSE {})
                        \cup ReaderBad(id, rd[id].seed, nb)
         /\ UNCHANGED <<last, src>>

\* A source was built from seed data `seed` and its first Len(words) Uint64 values were drawn.
PPrngSrc(id, seed, res, words) ==
    /\ src' = (id :> [seed |-> seed, words |-> words]) @@ src
    /\ bad' = (IF id \in DOMAIN src THEN {"Harness"} ELSE {})
         \cup (IF res # "ok" \/ \E j \in DOMAIN src : src[j].seed = seed /\ ~AgreeOnCommon(words, src[j].words)
               THEN {"PrngSeed"} ELSE {})
         \cup (IF \E j \in DOMAIN src : src[j].seed # seed /\ Flat(src[j].seed) = Flat(seed)
                                         /\ ~AgreeOnCommon(words, src[j].words)
               THEN {"PrngSplit"} ELSE {})
         \cup (IF \E r \in DOMAIN rd : rd[r].seed = seed /\ ~AgreeOnCommon(rd[r].bytes, WordsBytes(words))
               THEN {"PrngWordLE"} ELSE {})
    /\ UNCHANGED <<last, rd>>

-----------------------------------------------------------------------------
Violated == bad

\* Everything in `bad` except the advisory and harness names is a failed clause of C19.
Safe_C19 == bad \subseteq {"PrngSplit", "PrngWordLE", "Harness", "Unexplained"}

\* name of violated condition -> property id ("ADVISORY": recorded, never judged)
PropertyOf == [PadPanic |-> "C19", PadLen |-> "C19", PadPrefix |-> "C19", UnpadRoundTrip |-> "C19",
               UnpadPanic |-> "C19", UnpadOverread |-> "C19", PrefixNotLongest |-> "C19",
               TrimWrong |-> "C19", PrngChunking |-> "C19", PrngSeed |-> "C19",
               PrngSplit |-> "ADVISORY", PrngWordLE |-> "ADVISORY",
               Harness |-> "HARNESS", Unexplained |-> "HARNESS"]
=============================================================================
