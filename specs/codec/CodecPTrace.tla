----------------------------- MODULE CodecPTrace -----------------------------
(* Replays an ndjson trace of evaluations of the real padding / commonprefix / prng code     *)
(* through the CodecP monitor.  Deterministic: one state per event; the clauses failed by    *)
(* each event are collected and written to VERDICT_FILE.                                     *)
EXTENDS CodecP, TraceLib

VARIABLES l, viol

tvars == <<l, viol>>

TInit == PInit /\ l = 1 /\ viol = <<>>

\* Clauses failed by event l-1.  At most MaxViol records per trace file are kept (the state is
\* fingerprinted at every step; a defect that fails thousands of vectors must not make that quadratic).
MaxViol == 200
Recorded ==
    IF l > 1 /\ Violated # {} /\ Len(viol) < MaxViol
    THEN Append(viol, [run |-> Trace[l-1].run, seq |-> Trace[l-1].seq, names |-> Violated, l |-> l - 1])
    ELSE viol

Quiet == bad' = {} /\ UNCHANGED <<last, rd, src>>

Apply(e) ==
    CASE e.ev = "reset"    -> PReset
      [] e.ev = "pad"      -> PPad(e.x, e.res, e.out)
      [] e.ev = "unpadrt"  -> PUnpadRT(e.res, e.out)
      [] e.ev = "unpad"    -> PUnpad(e.x, e.res, e.out)
      [] e.ev = "cp"       -> PCommon(e.strs, e.pres, e.pre, e.tres, e.trim)
      [] e.ev = "prngbegin" -> PPrngBegin
      [] e.ev = "prngnew"  -> PPrngNew(e.id, e.seed)
      [] e.ev = "prngread" -> PPrngRead(e.id, e.n, e.res, e.got)
      [] e.ev = "prngsrc"  -> PPrngSrc(e.id, e.seed, e.res, e.words)
      [] e.ev \in {"note", "end", "leak"} -> Quiet
      [] OTHER             -> bad' = {"Unexplained"} /\ UNCHANGED <<last, rd, src>>

TStep ==
    /\ l <= Len(Trace)
    /\ viol' = Recorded
    /\ Apply(Trace[l])
    /\ l' = l + 1

TFinish ==
    /\ l = Len(Trace) + 1
    /\ viol' = Recorded
    /\ WriteVerdict(viol', Len(Trace))
    /\ l' = l + 1
    /\ UNCHANGED pvars

TNext == TStep \/ TFinish
TSpec == TInit /\ [][TNext]_<<pvars, tvars>>
=============================================================================
