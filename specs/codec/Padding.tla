------------------------------- MODULE Padding -------------------------------
(* Implementation-shaped model of padding.PadInPlace / UnpadInPlace (padding/padding.go)     *)
(* and, at the same time, the enumerator of the input box: every initial state is one input  *)
(* vector; the model evaluates the code's algorithm on it and fires the CodecP events, so    *)
(* `ModelSafe` says "the algorithm satisfies C19 on the whole box".  The same vectors are    *)
(* written to VEC_FILE (see fam_codec.py) and evaluated by the real functions.               *)
(*                                                                                          *)
(* FixF12 = FALSE models the pinned code: UnpadInPlace indexes data[len-1] without a length  *)
(* check (panic on empty input) and rejects paddingLen >= len-1, which refuses the padded    *)
(* empty message (len 32, trailer 31).                                                      *)
EXTENDS CodecP, SequencesExt

CONSTANTS
    MaxLen,      \* PadInPlace: input lengths 0..MaxLen
    ULens,       \* UnpadInPlace: input lengths
    Trailers,    \* UnpadInPlace: values of the last byte
    FixF12

VARIABLES vec, phase, res
xvars == <<vec, phase, res>>

Align == 32
Alphabet == <<0, 97, 128, 195, 255, 31, 32, 1>>
Byte(i, pat) == Alphabet[((i * 5 + pat * 3) % Len(Alphabet)) + 1]
Bytes(n, pat) == [i \in 1..n |-> Byte(i, pat)]

Need(n) == LET dl == n + 1 IN dl + ((Align - (dl % Align)) % Align) - n   \* bytes appended by PadInPlace
SlackKinds == {"none", "one", "needm1", "need", "needp7"}
Slack(n, k) ==
    CASE k = "none" -> 0 [] k = "one" -> 1 [] k = "needm1" -> Need(n) - 1
      [] k = "need" -> Need(n) [] k = "needp7" -> Need(n) + 7

PadVecs   == {[k |-> "pad", x |-> Bytes(n, p), slack |-> Slack(n, s)] : n \in 0..MaxLen, p \in 0..1, s \in SlackKinds}
UnpadVecs == {[k |-> "unpad", x |-> (IF n = 0 THEN <<>> ELSE Bytes(n - 1, 1) \o <<t>>), slack |-> 3] : n \in ULens, t \in Trailers}
AllVecs   == PadVecs \cup UnpadVecs

-----------------------------------------------------------------------------
(* the code *)

\* PadInPlace on a slice with contents x and `slack` spare bytes of capacity holding garbage (0xEE).
ImplPad(x, slack) ==
    LET dataLen == Len(x) + 1
        dlm == dataLen % Align
        paddingLen == IF dlm # 0 THEN Align - dlm ELSE 0
        nlen == dataLen + paddingLen
        buf == x \o [i \in 1..slack |-> 238]
    IN IF Len(x) + slack >= nlen
       THEN \* extend in place, zero the old region, write the trailer
            [i \in 1..nlen |-> IF i <= Len(x) THEN buf[i] ELSE IF i < nlen THEN 0 ELSE paddingLen]
       ELSE \* fresh zeroed buffer, copy, write the trailer
            [i \in 1..nlen |-> IF i <= Len(x) THEN x[i] ELSE IF i < nlen THEN 0 ELSE paddingLen]

ImplUnpad(d) ==
    IF Len(d) = 0
    THEN (IF FixF12 THEN [res |-> "err", out |-> <<>>] ELSE [res |-> "panic", out |-> <<>>])   \* data[-1]
    ELSE LET paddingLen == d[Len(d)]
             tooLong == IF FixF12 THEN paddingLen > Len(d) - 1 ELSE paddingLen >= Len(d) - 1
         IN IF tooLong \/ paddingLen >= Align
            THEN [res |-> "err", out |-> <<>>]
            ELSE [res |-> "ok", out |-> SubSeq(d, 1, Len(d) - paddingLen - 1)]

-----------------------------------------------------------------------------
Init == PInit /\ vec \in AllVecs /\ phase = "new" /\ res = <<>>

PadStep ==
    /\ vec.k = "pad" /\ phase = "new"
    /\ res' = ImplPad(vec.x, vec.slack)
    /\ PPad(vec.x, "ok", res')
    /\ phase' = "padded" /\ UNCHANGED vec

RoundTripStep ==
    /\ phase = "padded"
    /\ LET r == ImplUnpad(res) IN PUnpadRT(r.res, r.out)
    /\ phase' = "done" /\ UNCHANGED <<vec, res>>

UnpadStep ==
    /\ vec.k = "unpad" /\ phase = "new"
    /\ LET r == ImplUnpad(vec.x) IN PUnpad(vec.x, r.res, r.out)
    /\ phase' = "done" /\ UNCHANGED <<vec, res>>

Next == PadStep \/ RoundTripStep \/ UnpadStep

ModelSafe == bad = {}
=============================================================================
