---------------------------- MODULE CommonPrefix ----------------------------
(* Implementation-shaped model of commonprefix.Prefix / TrimPrefix                           *)
(* (commonprefix/commonprefix.go) and enumerator of its input box: every initial state is    *)
(* one argument list (byte strings over a small alphabet that contains ASCII, UTF-8 lead and *)
(* continuation bytes and bytes that are invalid UTF-8).                                     *)
(*                                                                                          *)
(* FixF13 = FALSE models the pinned code: the prefix is grown by `string(short[i])`, which   *)
(* converts the BYTE to a RUNE and yields its UTF-8 encoding -- two bytes for every byte     *)
(* >= 0x80 -- so the candidate stops matching at the first high byte.                        *)
EXTENDS CodecP, SequencesExt

CONSTANTS
    Alpha2, Len2,     \* pairs: all strings over Alpha2 up to length Len2
    Alpha3, Len3,     \* triples: all strings over Alpha3 up to length Len3
    FixF13

VARIABLES vec, phase
xvars == <<vec, phase>>

Strs(A, n) == UNION {[1..k -> A] : k \in 0..n}

Vecs ==
    {<<>>}
    \cup {<<s>> : s \in Strs(Alpha2, Len2)}
    \cup {<<s, t>> : s \in Strs(Alpha2, Len2), t \in Strs(Alpha2, Len2)}
    \cup {<<s, t, u>> : s \in Strs(Alpha3, Len3), t \in Strs(Alpha3, Len3), u \in Strs(Alpha3, Len3)}
AllVecs == {[k |-> "cp", strs |-> v] : v \in Vecs}

-----------------------------------------------------------------------------
(* the code *)

\* string(b) for a byte b: the UTF-8 encoding of the rune U+00b
RuneStr(b) == IF FixF13 \/ b < 128 THEN <<b>> ELSE <<192 + (b \div 64), 128 + (b % 64)>>

HasPrefix(s, p) == IsPrefixOf(p, s)

\* "find word with minimum length": the LAST of the shortest (len(short) >= len(s))
Shortest(strs) ==
    LET f[i \in 1..Len(strs)] == IF i = 1 THEN strs[1]
                                 ELSE IF Len(f[i-1]) >= Len(strs[i]) THEN strs[i] ELSE f[i-1]
    IN f[Len(strs)]

ImplPrefix(strs) ==
    IF Len(strs) = 0 THEN <<>>
    ELSE LET short == Shortest(strs)
             \* g[i] = <<prefix after i rounds, stopped?>>
             g[i \in 0..Len(short)] ==
                 IF i = 0 THEN [p |-> <<>>, stop |-> FALSE]
                 ELSE IF g[i-1].stop THEN g[i-1]
                 ELSE LET cand == g[i-1].p \o RuneStr(short[i]) IN
                      IF \A k \in 1..Len(strs) : HasPrefix(strs[k], cand)
                      THEN [p |-> cand, stop |-> FALSE]
                      ELSE [p |-> g[i-1].p, stop |-> TRUE]
         IN g[Len(short)].p

ImplTrim(strs) ==
    LET p == ImplPrefix(strs) IN
    IF p = <<>> THEN strs
    ELSE [k \in 1..Len(strs) |-> IF HasPrefix(strs[k], p) THEN Drop(strs[k], Len(p)) ELSE strs[k]]

-----------------------------------------------------------------------------
Init == PInit /\ vec \in AllVecs /\ phase = "new"

Eval ==
    /\ phase = "new"
    /\ PCommon(vec.strs, "ok", ImplPrefix(vec.strs), "ok", ImplTrim(vec.strs))
    /\ phase' = "done" /\ UNCHANGED vec

Next == Eval

ModelSafe == bad = {}
=============================================================================
