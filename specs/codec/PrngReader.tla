----------------------------- MODULE PrngReader -----------------------------
(* Implementation-shaped model of prng.randReader (prng/reader.go): the reader is the        *)
(* machine (word index, offset into an 8-byte buffer) over an abstract word stream.  ChaCha8 *)
(* itself is not modelled: `Word(i)` stands for the i-th Uint64 of the source.               *)
(*                                                                                          *)
(* Reader 1 is read in chunks chosen by the environment (every size in Sizes, including 0    *)
(* and sizes above 8); reader 2, built from the same seed, is read in one piece; the source  *)
(* reports its words.  TLC explores every sequence of chunk sizes with total <= N; CodecP    *)
(* compares the streams (PrngChunking) and, advisory, the little-endian layout.  The paths   *)
(* of the state graph are the chunkings replayed on the real reader.                         *)
EXTENDS CodecP

CONSTANTS
    N, Sizes,
    Hist, MaxReads   \* Hist = TRUE: remember the chunk sequence (at most MaxReads reads, no two
                     \* zero-length reads in a row), so that TLC enumerates every chunking, not
                     \* only every (position, size) pair

VARIABLES st, total, phase, hist
xvars == <<st, total, phase, hist>>

Seed == << <<1, 2>>, <<3>> >>

\* an arbitrary but fixed word stream: four 16-bit limbs per word
Word(i) == [j \in 1..4 |-> ((i * 4 + j) * 7919 + 13) % 65536]

MaxSize == CHOOSE m \in Sizes : \A k \in Sizes : k <= m
NWords == ((N + MaxSize) \div 8) + 2

-----------------------------------------------------------------------------
(* the code: Read(p) with len(p) = n, reader state s = [widx, off, buf] *)

RECURSIVE Fill(_, _, _)
Fill(s, remaining, out) ==
    IF remaining = 0 THEN [s |-> s, out |-> out]
    ELSE LET s1 == IF s.off = 0                       \* buffer exhausted: draw the next word
                   THEN [widx |-> s.widx + 1, off |-> 0, buf |-> WordBytes(Word(s.widx + 1))]
                   ELSE s
             c  == Min2(remaining, 8 - s1.off)        \* bytes copied in this round
         IN Fill([s1 EXCEPT !.off = (s1.off + c) % 8], remaining - c,
                 out \o SubSeq(s1.buf, s1.off + 1, s1.off + c))

ImplRead(s, n) == Fill(s, n, <<>>)

Fresh == [widx |-> 0, off |-> 0, buf |-> <<0, 0, 0, 0, 0, 0, 0, 0>>]

-----------------------------------------------------------------------------
Init ==
    /\ last = NoPad /\ bad = {}
    /\ rd = (1 :> [seed |-> Seed, bytes |-> <<>>]) @@ (2 :> [seed |-> Seed, bytes |-> <<>>])
    /\ src = <<>>
    /\ st = [r \in 1..2 |-> Fresh] /\ total = 0 /\ phase = "src" /\ hist = <<>>

SrcWords ==
    /\ phase = "src"
    /\ PPrngSrc(1, Seed, "ok", [i \in 1..NWords |-> Word(i)])
    /\ phase' = "ref" /\ UNCHANGED <<st, total, hist>>

RefRead ==
    /\ phase = "ref"
    /\ LET r == ImplRead(st[2], N + MaxSize) IN
       /\ PPrngRead(2, N + MaxSize, "ok", r.out)
       /\ st' = [st EXCEPT ![2] = r.s]
    /\ phase' = "chunks" /\ UNCHANGED <<total, hist>>

Read(n) ==
    /\ phase = "chunks" /\ total + n <= N /\ (n = 0 => total < N)
    /\ Hist => Len(hist) < MaxReads /\ (n = 0 => (IF hist = <<>> THEN TRUE ELSE hist[Len(hist)] # 0))
    /\ hist' = IF Hist THEN Append(hist, n) ELSE hist
    /\ LET r == ImplRead(st[1], n) IN
       /\ PPrngRead(1, n, "ok", r.out)
       /\ st' = [st EXCEPT ![1] = r.s]
    /\ total' = total + n /\ UNCHANGED phase

Next == SrcWords \/ RefRead \/ \E n \in Sizes : Read(n)

ModelSafe == bad = {}
Agree == st[1].widx * 8 >= total /\ (st[1].off = 0 \/ st[1].off = 8 - (st[1].widx * 8 - total))
=============================================================================
