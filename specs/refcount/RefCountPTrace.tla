--------------------------- MODULE RefCountPTrace ---------------------------
(* Replays an ndjson trace recorded from the real refcount code through the RefCountP        *)
(* monitor.  Deterministic: one state per event; the monitor's conditions are evaluated      *)
(* after every event, every failure is collected and written to VERDICT_FILE.                *)
(* Values in `cb`, `ret`, `cbenter`, `rel.tgt`, `quiet.tgt` are RAW values (what the code     *)
(* handed out), not generations; `leave.raw` tells the monitor which raw value a call returned.*)
EXTENDS RefCountP, TraceLib

VARIABLES l, viol, seen

tvars == <<l, viol, seen>>

TInit == PInit /\ l = 1 /\ viol = <<>> /\ seen = {}

Fresh == Violated \ seen
Recorded ==
    IF l > 1 /\ Fresh # {}
    THEN Append(viol, [run |-> Trace[l-1].run, seq |-> Trace[l-1].seq, names |-> Fresh, l |-> l - 1])
    ELSE viol

Apply(s, e) ==
    CASE e.ev = "reset"   -> P0
      [] e.ev = "cfg"     -> PCfg3(s, e.keep, IF "notgt" \in DOMAIN e THEN e.notgt ELSE FALSE, IF "notgterr" \in DOMAIN e THEN e.notgterr ELSE FALSE)
      [] e.ev = "call"    -> PCallOp(Dirty(s), e.id, e.op, e.cb, e.ref, e.k)
      [] e.ev = "rootcancel" -> PRootCancel(s)
      [] e.ev = "ret"     -> PRet(s, e.id, e.res, e.val, e.err)
      [] e.ev = "panic"   -> PPanic(s, e.id)
      [] e.ev = "enter"   -> PEnter(s, e.n)
      \* raw: the value the call returned (equal values across generations: RefCountP header); traces
      \* without it: the call's own number, or 0 for a zero-valued call
      [] e.ev = "leave"   -> PLeaveR(s, e.n, e.out, e.rel,
                                     IF "raw" \in DOMAIN e THEN e.raw
                                     ELSE IF "zero" \in DOMAIN e /\ e.zero THEN 0 ELSE e.n)
      [] e.ev = "cb"      -> PCbk(s, e.ref, e.res, e.val, e.err)
      [] e.ev = "rel"     -> PRel(s, e.n, e.tgt)
      [] e.ev = "relcall" -> PRelCall(Dirty(s), e.n, e.inside)
      [] e.ev = "relcb"   -> PRelCb(s, e.id)
      [] e.ev = "cbenter" -> PCbEnter(s, e.id, e.k, e.val)
      [] e.ev = "cbleave" -> PCbLeave(s, e.id, e.k, e.out)
      [] e.ev = "cancel"  -> PCancel(s, e.id)
      [] e.ev = "quiet"   -> PQuiet(s, e.tgt, e.tgterr, SeqToSet(e.act), SeqToSet(e.blk), SeqToSet(e.incb),
                                    SeqToSet(e.cbdone), SeqToSet(e.open))
      [] e.ev = "leak"    -> PLeak(s)
      [] e.ev \in {"relret", "note", "end"} -> s
      [] OTHER            -> Bad(s, {"Unexplained"})

TStep ==
    /\ l <= Len(Trace)
    /\ viol' = Recorded
    /\ seen' = IF Trace[l].ev = "reset" THEN {} ELSE seen \cup Violated
    /\ ps' = Apply(ps, Trace[l])
    /\ l' = l + 1

TFinish ==
    /\ l = Len(Trace) + 1
    /\ viol' = Recorded
    /\ WriteVerdict(viol', Len(Trace))
    /\ l' = l + 1
    /\ UNCHANGED <<pvars, seen>>

TNext == TStep \/ TFinish
TSpec == TInit /\ [][TNext]_<<pvars, tvars>>
=============================================================================
