------------------------------ MODULE RefCountP ------------------------------
(* Property monitor for refcount.RefCount (C08, C09, C10).                                   *)
(*                                                                                          *)
(* API-level state only.  Values are identified by the resolver call that returned them:     *)
(* call n returns the value n or the error n, with or without a release func.  The whole     *)
(* monitor state is ONE record `ps`; every observable event is a function  state -> state    *)
(* (PCallOp, PRet, PEnter, ...), so that the implementation-shaped spec RefCount.tla can      *)
(* fire several events inside one critical section (ps' = PRel(PCbk(PCallOp(ps, ..)))) and    *)
(* RefCountPTrace.tla can fire them from events recorded from the real code.  Conditions     *)
(* that failed are collected by name in ps.bad (sticky); state-level conditions are ordinary *)
(* predicates (Violated).                                                                    *)
(*                                                                                          *)
(* Readings of the statements (always the weaker one):                                       *)
(*  - "invalidated" (C08/C10): the value's released() handle was called, or SetContext /      *)
(*    ClearContext changed the context after the resolver call was entered.  `inv` is used    *)
(*    where invalidation PERMITS something (a release while references are held).  Where it   *)
(*    DEMANDS something before the next quiescent point (Access must not return the result of *)
(*    an invocation whose value was invalidated; the released callback must fire) only        *)
(*    `invd` counts: invalidations the library has certainly processed, i.e. context changes  *)
(*    and released() calls made from outside the RefCount's own lock.  A released() issued    *)
(*    from inside a reference callback is deferred by the library to a goroutine (anchored    *)
(*    mechanism "TryLock or goroutine"); it counts from the next quiescent point on.          *)
(*  - "a reference that was given that value": a held reference whose callback received       *)
(*    (true, value) at some time (set `ever`).  References with a nil callback are given      *)
(*    nothing and protect nothing in the monitor.                                             *)
(*  - "no later than shortly after": by the next quiescent point (no library step possible).  *)
(*  - C09 "a resolver call is in progress": any resolver call between enter and leave, even   *)
(*    one whose context is already cancelled (a superseded resolver that is slow to return    *)
(*    legitimately delays its successor).  "Its latest result": the result of the resolver    *)
(*    call entered last.                                                                      *)
(*  - references held: `SureHeld` under-approximates (a ResolveWithReleased reference is      *)
(*    released by the library itself once its value is invalidated), `PossiblyHeld`           *)
(*    over-approximates; each is used on the side where it makes the monitor weaker.          *)
(*  - C10 Access "the value that was current when Access last looked": a value returned by    *)
(*    the resolver, not yet released and not invalidated-and-processed when the current       *)
(*    look window (from the call / the previous callback return) started, or returned since.  *)
EXTENDS Integers, FiniteSets, Sequences, TLC

VARIABLE ps
pvars == <<ps>>

NoG == [r |-> FALSE, v |-> 0, e |-> 0]

P0 == [keep |-> FALSE, pctx |-> 0,
       rs |-> <<>>,      \* resolver call n -> "active" | "val" | "valr" | "err" | "errr"  (r: with release func)
       relc |-> <<>>,    \* resolver call n -> number of invocations of its release func
       inv |-> {}, invd |-> {},   \* invalidated calls / invalidated and certainly processed
       \* A context change takes effect in some critical section between the call's logged start and its
       \* logged return (pend: such calls in progress).  Resolver calls that exist at the start are
       \* invalidated by it; a resolver call that is ENTERED while one is in progress may belong to the old
       \* or to the new context -- the trace cannot tell (minv: "possibly invalidated"): nothing is
       \* demanded of it, and its release while held is not held against the code.
       minv |-> {}, pend |-> <<>>,
       due |-> {},       \* calls whose release func (if any) must have run by the next quiescent point
       refs |-> <<>>,    \* plain reference id -> [st, cb, g, ever]
       cons |-> <<>>,    \* consumer call id -> record (Wait, Resolve, ResolveWithReleased, Access)
       zero |-> {},      \* resolver calls whose value is the zero value of T (the target container cannot tell it from "empty")
       panicked |-> FALSE,
       \* the root context given to SetContext was cancelled by the client: the resolver call that is
       \* active then still has to deliver its result; once any further API call or released() follows
       \* (dirty) nothing can be said about liveness any more (later resolve goroutines see a cancelled
       \* context and may end without calling the resolver)
       rootc |-> [dead |-> FALSE, dirty |-> FALSE, n |-> 0],
       bad |-> {}]

PInit == ps = P0

Bad(s, names) == [s EXCEPT !.bad = @ \cup names]
If(c, names) == IF c THEN names ELSE {}

Calls(s) == 1..Len(s.rs)
IsVal(s, n) == n \in Calls(s) /\ s.rs[n] \in {"val", "valr"}
IsErr(s, n) == n \in Calls(s) /\ s.rs[n] \in {"err", "errr"}
HasRel(s, n) == n \in Calls(s) /\ s.rs[n] \in {"valr", "errr"}
Returned(s, n) == n \in Calls(s) /\ s.rs[n] # "active"
Active(s) == {n \in Calls(s) : s.rs[n] = "active"}

PlainHeld(s) == {r \in DOMAIN s.refs : s.refs[r].st = "held"}
ConsOpen(s) == {c \in DOMAIN s.cons : s.cons[c].st = "open"}
ConsOk(s) == {c \in DOMAIN s.cons : s.cons[c].st = "ok"}
PossiblyHeld(s) == PlainHeld(s) \cup ConsOpen(s) \cup ConsOk(s)
SureHeld(s) == PlainHeld(s) \cup ConsOpen(s)
               \cup {c \in ConsOk(s) : s.cons[c].kind # "resolvewr" \/ s.cons[c].val \notin (s.inv \cup s.minv)}

\* values Access may legitimately be looking at when a look window starts
Window(s) == {n \in Calls(s) : IsVal(s, n) /\ s.relc[n] = 0 /\ n \notin s.invd}

\* T1: the last reference was dropped: everything entered so far is due, except a value that
\* resolved without error under keep-unreferenced
LastDropped(s) ==
    IF PossiblyHeld(s) = {}
    THEN [s EXCEPT !.due = @ \cup {n \in Calls(s) : ~(s.keep /\ IsVal(s, n))}]
    ELSE s

\* the released callback of a ResolveWithReleased call must fire once its value was invalidated
\* (and the invalidation processed) while the caller still held the reference
Must(s) ==
    [s EXCEPT !.cons = [c \in DOMAIN s.cons |->
        IF s.cons[c].st = "ok" /\ s.cons[c].kind = "resolvewr" /\ s.cons[c].cb /\ s.cons[c].val \in s.invd
        THEN [s.cons[c] EXCEPT !.must = TRUE] ELSE s.cons[c]]]

NewCons(kind, cb) ==
    [kind |-> kind, st |-> "open", cb |-> cb, val |-> 0, relcb |-> 0, must |-> FALSE, canc |-> FALSE,
     k |-> 0, incb |-> FALSE, cbval |-> 0, stale |-> FALSE, lastout |-> "", win |-> {}]

-----------------------------------------------------------------------------
(* Events *)

PCfg(s, keep) == [s EXCEPT !.keep = keep]

\* A client call starts.  ref: the reference created (addref, consumers: = id) or released.
PCallOp(s, id, op, cb, ref, k) ==
    CASE op = "addref" ->
           Bad([s EXCEPT !.refs = (id :> [st |-> "held", cb |-> (cb # "nil"), g |-> NoG, ever |-> {}]) @@ @],
               If(id \in DOMAIN s.refs \/ id \in DOMAIN s.cons, {"Harness:id"}))
      [] op = "release" ->
           IF ref \in DOMAIN s.refs
           THEN LastDropped([s EXCEPT !.refs[ref].st = "dropped"])
           ELSE IF ref \in DOMAIN s.cons /\ s.cons[ref].st \in {"ok", "done"}
           THEN LastDropped([s EXCEPT !.cons[ref].st = "done"])
           ELSE Bad(s, {"Harness:release"})
      [] op \in {"setctx", "clearctx"} ->
           IF k # s.pctx
           \* from now on the existing calls may be invalidated (minv); they certainly are when the call
           \* has returned (PRet).  On the pinned code both events lie in one controller step.
           THEN [s EXCEPT !.pctx = k, !.minv = @ \cup Calls(s), !.pend = (id :> Calls(s)) @@ @]
           ELSE s
      [] op \in {"wait", "resolve", "resolvewr", "access"} ->
           Bad([s EXCEPT !.cons = (id :> [NewCons(op, cb = "cb") EXCEPT !.win = Window(s)]) @@ @],
               If(id \in DOMAIN s.refs \/ id \in DOMAIN s.cons, {"Harness:id"}))
      [] OTHER -> Bad(s, {"Harness:op"})

\* A client call returns.  res: "ok" | "nil" | "err" | "cberr" | "canceled" | other.
PRet(s, id, res, val, err) ==
    IF id \notin DOMAIN s.cons
    THEN IF id \in DOMAIN s.pend
         THEN LET pre == s.pend[id] IN
              Must([s EXCEPT !.inv = @ \cup pre, !.invd = @ \cup pre, !.due = @ \cup pre,
                             !.pend = [i \in (DOMAIN s.pend) \ {id} |-> s.pend[i]]])
         ELSE s
    ELSE LET c == s.cons[id] IN
    IF c.st # "open" THEN Bad(s, {"Harness:ret"})
    ELSE IF c.kind = "access"
    THEN LastDropped(Bad([s EXCEPT !.cons[id].st = "done"],
            If(c.incb, {"Harness:retincb"})
            \cup If(res = "nil" /\ ~(c.k >= 1 /\ c.lastout = "nil"), {"AccessBadResult"})
            \cup If(res = "cberr" /\ ~(c.k >= 1 /\ c.lastout = "err" /\ err = c.k), {"AccessBadResult"})
            \cup If(res \in {"nil", "cberr"} /\ c.k >= 1 /\ c.stale, {"AccessStaleResult"})
            \cup If(res = "err" /\ ~IsErr(s, err), {"AccessBadResult"})
            \cup If(res = "canceled" /\ ~c.canc, {"SpuriousCancel"})
            \cup If(res \notin {"nil", "cberr", "err", "canceled"}, {"AccessBadResult"})))
    ELSE IF res = "ok"
    THEN Must(Bad([s EXCEPT !.cons[id].st = "ok", !.cons[id].val = val],
            If(~IsVal(s, val), {"WaitBadValue"})))
    ELSE LastDropped(Bad([s EXCEPT !.cons[id].st = "done"],
            If(res = "err" /\ ~IsErr(s, err), {"WaitBadResult"})
            \cup If(res = "canceled" /\ ~c.canc, {"SpuriousCancel"})
            \cup If(res \notin {"err", "canceled"}, {"WaitBadResult"})))

PPanic(s, id) == Bad([s EXCEPT !.panicked = TRUE], {"Panic"})

\* The harness-owned resolver is entered for the n-th time / returns.
PEnter(s, n) ==
    Bad([s EXCEPT !.rs = Append(@, "active"), !.relc = Append(@, 0),
                  !.minv = IF DOMAIN s.pend # {} THEN @ \cup {n} ELSE @],
        If(n # Len(s.rs) + 1, {"Harness:enter"}))

PLeaveZ(s, n, out, rel, zero) ==
    IF n \notin Calls(s) \/ s.rs[n] # "active" THEN Bad(s, {"Harness:leave"})
    ELSE LET s2 == [s EXCEPT !.rs[n] = IF out = "val" THEN (IF rel THEN "valr" ELSE "val")
                                        ELSE (IF rel THEN "errr" ELSE "err"),
                             !.zero = IF zero THEN @ \cup {n} ELSE @]
         IN [s2 EXCEPT !.cons = [c \in DOMAIN s2.cons |->
                IF s2.cons[c].kind = "access" /\ s2.cons[c].st = "open" /\ out = "val" /\ n \notin s2.invd
                THEN [s2.cons[c] EXCEPT !.win = @ \cup {n}] ELSE s2.cons[c]]]

PLeave(s, n, out, rel) == PLeaveZ(s, n, out, rel, FALSE)

\* The callback of plain reference `ref` is invoked with (res, v, e).
PCbk(s, ref, res, v, e) ==
    IF ref \notin DOMAIN s.refs THEN Bad(s, {"Harness:cb"})
    ELSE LET n == IF v # 0 THEN v ELSE e IN
         Bad([s EXCEPT !.refs[ref].g = [r |-> res, v |-> v, e |-> e],
                       !.refs[ref].ever = @ \cup (IF res /\ n > 0 THEN {n} ELSE {})],
             If(res /\ ~((v > 0 /\ e = 0 /\ IsVal(s, v)) \/ (v = 0 /\ e > 0 /\ IsErr(s, e))), {"BadDelivery"})
             \cup If(res /\ n \in Calls(s) /\ s.relc[n] >= 1, {"ExposedAfterRel"}))

\* The release func returned by resolver call n runs; tgt = target.GetValue() read inside it.
PRel(s, n, tgt) ==
    IF ~HasRel(s, n) THEN Bad(s, {"Harness:rel"})
    ELSE Bad([s EXCEPT !.relc[n] = @ + 1],
             If(\E r \in PlainHeld(s) : n \in s.refs[r].ever /\ n \notin (s.inv \cup s.minv), {"RelWhileHeld"})
             \cup If(\E r \in PlainHeld(s) : s.refs[r].g.r /\ (s.refs[r].g.v = n \/ s.refs[r].g.e = n), {"RelUntold"})
             \cup If(tgt = n, {"RelExposed"}))

\* The released() handle given to resolver call n is called (inside: from a reference callback,
\* i.e. under the RefCount's own lock).
PRelCall(s, n, inside) ==
    IF n \notin Calls(s) THEN Bad(s, {"Harness:relcall"})
    ELSE Must([s EXCEPT !.inv = @ \cup {n}, !.due = @ \cup {n},
                        !.invd = IF inside THEN @ ELSE @ \cup {n}])

\* The released callback passed to ResolveWithReleased call id fires.
PRelCb(s, id) ==
    IF id \notin DOMAIN s.cons THEN Bad(s, {"Harness:relcb"})
    ELSE [s EXCEPT !.cons[id].relcb = @ + 1]

\* Access call id enters / leaves its k-th callback invocation.
PCbEnter(s, id, k, v) ==
    IF id \notin DOMAIN s.cons \/ s.cons[id].st # "open" THEN Bad(s, {"Harness:cbenter"})
    ELSE LET c == s.cons[id] IN
         Bad([s EXCEPT !.cons[id].k = k, !.cons[id].incb = TRUE, !.cons[id].cbval = v, !.cons[id].stale = FALSE],
             If(k # c.k + 1 \/ c.incb, {"Harness:cbenter"})
             \cup If(v \notin c.win, {"AccessWrongVal"}))

PCbLeave(s, id, k, out) ==
    IF id \notin DOMAIN s.cons \/ ~s.cons[id].incb \/ s.cons[id].k # k THEN Bad(s, {"Harness:cbleave"})
    ELSE [s EXCEPT !.cons[id].incb = FALSE, !.cons[id].lastout = out,
                   !.cons[id].stale = (s.cons[id].cbval \in s.invd),
                   !.cons[id].win = Window(s)]

\* The caller context of consumer call id is cancelled.
PCancel(s, id) ==
    IF id \notin DOMAIN s.cons THEN Bad(s, {"Harness:cancel"})
    ELSE [s EXCEPT !.cons[id].canc = TRUE]

\* Goroutines left over at the end of an execution: expected after a panic (the execution is
\* abandoned with the RefCount mutex possibly held), a harness problem otherwise.
PLeak(s) == IF s.panicked THEN s ELSE Bad(s, {"Harness:leak"})

-----------------------------------------------------------------------------
(* Quiescent point: no library step is possible (nothing parked at a library hook).          *)
(* tgt / tgterr: contents of the target containers; blk: consumer calls blocked inside the    *)
(* library; incb: Access calls inside their callback, cbdone: those whose callback context is *)
(* done; open: AddRef/Release/SetContext calls that have not returned.                        *)

\* the result of the resolver call entered last is what the containers and every held
\* reference with a callback were last told
Delivered(s, tgt, tgterr) ==
    LET N == Len(s.rs) IN
    /\ N >= 1 /\ Returned(s, N) /\ N \notin s.inv
    /\ IsVal(s, N) => (tgt = N \/ (N \in s.zero /\ tgt = 0)) /\ tgterr = 0
    /\ IsErr(s, N) => tgterr = N /\ tgt = 0
    /\ \A r \in PlainHeld(s) : s.refs[r].cb =>
          s.refs[r].g = [r |-> TRUE, v |-> IF IsVal(s, N) THEN N ELSE 0, e |-> IF IsErr(s, N) THEN N ELSE 0]

QuietBad(s, tgt, tgterr, act, blk, incb, cbdone, open) ==
    If(act # Active(s), {"Harness:act"})
    \cup If(~(blk \subseteq ConsOpen(s)) \/ ~(incb \subseteq ConsOpen(s)), {"Harness:blk"})
    \* C08
    \cup If(\E n \in s.due : Returned(s, n) /\ HasRel(s, n) /\ s.relc[n] = 0, {"Leak"})
    \cup If(tgt \in Calls(s) /\ s.relc[tgt] >= 1, {"ExposedAfterRel"})
    \* C09
    \cup If(s.pctx # 0 /\ SureHeld(s) # {} /\ Active(s) = {} /\ ~Delivered(s, tgt, tgterr), {"NotResolved"})
    \cup If(\E n \in s.inv : \/ tgt = n \/ tgterr = n
                             \/ \E r \in PlainHeld(s) : s.refs[r].g.r /\ (s.refs[r].g.v = n \/ s.refs[r].g.e = n),
            {"StaleKept"})
    \cup If(open # {}, {"ApiBlocked"})
    \* C10
    \cup If(\E c \in blk \cap ConsOpen(s) : s.cons[c].kind # "access" /\ (s.cons[c].canc \/ Delivered(s, tgt, tgterr)), {"WaitStuck"})
    \cup If(\E c \in blk \cap ConsOpen(s) : s.cons[c].kind = "access" /\ (s.cons[c].canc \/ Delivered(s, tgt, tgterr)), {"AccessIdle"})
    \cup If(\E c \in (incb \cap ConsOpen(s)) \ cbdone : s.cons[c].cbval \in s.inv \/ s.cons[c].canc, {"AccessNotCancelled"})
    \cup If(\E c \in DOMAIN s.cons : s.cons[c].must /\ s.cons[c].relcb = 0, {"RelCbMissing"})

\* n: the latest resolver call in flight when the root context was cancelled (0: none)
PRootCancel(s) ==
    \* (a call already superseded -- last reference dropped or context replaced while it ran, i.e. due --
    \* will be discarded on return and is not "the" in-flight resolution)
    LET A == Active(s) \ s.due IN
    [s EXCEPT !.rootc = [dead |-> TRUE, dirty |-> FALSE,
                         n |-> IF A = {} THEN 0 ELSE CHOOSE n \in A : \A m \in A : m <= n]]
Dirty(s) == IF s.rootc.dead THEN [s EXCEPT !.rootc.dirty = TRUE] ELSE s

PQuiet(s, tgt, tgterr, act, blk, incb, cbdone, open) ==
    \* by a quiescent point every deferred released() has been processed
    LET s2 == Must([s EXCEPT !.invd = s.inv])
        qb == QuietBad(s2, tgt, tgterr, act, blk, incb, cbdone, open)
    IN
    \* After a root-context cancellation later resolve goroutines see a cancelled context and may end
    \* without calling the resolver, so liveness is no longer judged -- except for the call that was in
    \* flight: unless it was invalidated (released()) or an API call followed, its result must have been
    \* stored and delivered by now.
    LET harnessOnly == {n \in qb : Len(n) >= 8 /\ SubSeq(n, 1, 8) = "Harness:"}
        n == s.rootc.n
        dropped == ~s.rootc.dirty /\ n # 0 /\ Returned(s2, n) /\ n \notin s2.inv /\ s2.pctx # 0
                   /\ SureHeld(s2) # {} /\ Active(s2) = {} /\ ~Delivered(s2, tgt, tgterr)
    IN Bad(s2, IF s.rootc.dead THEN harnessOnly \cup If(dropped, {"NotResolved"}) ELSE qb)

-----------------------------------------------------------------------------
(* The properties *)

RelOnce == \A n \in Calls(ps) : ps.relc[n] <= 1
NoOverlap == Cardinality(Active(ps)) <= 1
\* a value returned by Wait / Resolve / ResolveWithReleased is not released while the caller
\* holds the reference, unless it was invalidated
HeldNotRel == \A c \in ConsOk(ps) : ps.cons[c].val \in Calls(ps) /\ ps.relc[ps.cons[c].val] >= 1 => ps.cons[c].val \in (ps.inv \cup ps.minv)
RelCbOnce == \A c \in DOMAIN ps.cons : ps.cons[c].relcb <= 1

C08Names == {"RelTwice", "RelWhileHeld", "RelUntold", "RelExposed", "ExposedAfterRel", "Leak"}
C09Names == {"Overlap", "NotResolved", "StaleKept", "BadDelivery", "Panic", "ApiBlocked"}
C10Names == {"HeldRel", "RelCbTwice", "RelCbMissing", "AccessWrongVal", "AccessNotCancelled", "AccessIdle",
             "AccessStaleResult", "AccessBadResult", "SpuriousCancel", "WaitBadValue", "WaitBadResult", "WaitStuck"}

Violated ==
    ps.bad
    \cup If(~RelOnce, {"RelTwice"})
    \cup If(~NoOverlap, {"Overlap"})
    \cup If(~HeldNotRel, {"HeldRel"})
    \cup If(~RelCbOnce, {"RelCbTwice"})

Safe_C08 == Violated \cap C08Names = {}
Safe_C09 == Violated \cap C09Names = {}
Safe_C10 == Violated \cap C10Names = {}
NoHarnessError == \A b \in ps.bad : b \in C08Names \cup C09Names \cup C10Names
=============================================================================
