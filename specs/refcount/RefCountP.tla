------------------------------ MODULE RefCountP ------------------------------
(* Property monitor for refcount.RefCount (C08, C09, C10).                                   *)
(*                                                                                          *)
(* API-level state only.  Values are identified by the resolver call that returned them:     *)
(* call n returns the value n or the error n, with or without a release func.  The whole     *)
(* monitor state is ONE record `ps`; every observable event is a function  state -> state    *)
(* (PCallOp, PRet, PEnter, ...), so that the implementation-shaped spec RefCount.tla can      *)
(* fire several events inside one critical section (ps' = PRel(PCbk(PCallOp(ps, ..)))) and    *)
(* RefCountPTrace.tla can fire them from events recorded from the real code.  Conditions     *)
(* that failed are collected by name in ps.bad (sticky); state-level conditions are ordinary *)
(* predicates (Violated).                                                                    *)
(*                                                                                          *)
(* Readings of the statements (always the weaker one):                                       *)
(*  - "invalidated" (C08/C10): the value's released() handle was called, or SetContext /      *)
(*    ClearContext changed the context after the resolver call was entered.  `inv` is used    *)
(*    where invalidation PERMITS something (a release while references are held).  Where it   *)
(*    DEMANDS something before the next quiescent point (Access must not return the result of *)
(*    an invocation whose value was invalidated; the released callback must fire) only        *)
(*    `invd` counts: invalidations the library has certainly processed, i.e. context changes  *)
(*    and released() calls made from outside the RefCount's own lock.  A released() issued    *)
(*    from inside a reference callback is deferred by the library to a goroutine (anchored    *)
(*    mechanism "TryLock or goroutine"); it counts from the next quiescent point on.          *)
(*  - "a reference that was given that value": a held reference whose callback received       *)
(*    (true, value) at some time (set `ever`).  References with a nil callback are given      *)
(*    nothing and protect nothing in the monitor.                                             *)
(*  - "no later than shortly after": by the next quiescent point (no library step possible).  *)
(*  - C09 "a resolver call is in progress": any resolver call between enter and leave, even   *)
(*    one whose context is already cancelled (a superseded resolver that is slow to return    *)
(*    legitimately delays its successor).  "Its latest result": the result of the resolver    *)
(*    call entered last.                                                                      *)
(*  - references held: `SureHeld` under-approximates (a ResolveWithReleased reference is      *)
(*    released by the library itself once its value is invalidated), `PossiblyHeld`           *)
(*    over-approximates; each is used on the side where it makes the monitor weaker.          *)
(*  - C10 Access "the value that was current when Access last looked": a value returned by    *)
(*    the resolver, not yet released and not invalidated-and-processed when the current       *)
(*    look window (from the call / the previous callback return) started, or returned since.  *)
(*                                                                                          *)
(* Equal values (T comparable).  A GENERATION is a resolver call n; its VALUE is what the     *)
(* trace can observe: the raw value raw[n] told on the `leave` event (0: the zero value of T). *)
(* Two generations may carry equal raw values (a resolver handing out a singleton / a cached   *)
(* object).  Release funcs, released() handles, resolver enter/leave and errors identify their *)
(* generation exactly; every observed VALUE (reference callbacks, Wait/Resolve returns, Access *)
(* callback argument, target container contents) only identifies the SET of generations that  *)
(* carry it and can have been meant (Cand).  Rule for every consumer of such an observation:   *)
(*   PERMISSION  -- granted if some candidate permits it (favourable choice);                  *)
(*   OBLIGATION  -- asserted only if every candidate implies it (a singleton set in particular).*)
(* A candidate under which an obligation is already broken is struck off (the remaining        *)
(* candidates carry on); a condition is reported when no candidate is left.  Where candidates  *)
(* are struck off because of another condition, that condition belongs to the same property   *)
(* (C08: gl / ever; C10: cand), so a report never rests on a violation of a different property.*)
(* Observations are judged independently of each other (two references told in one critical   *)
(* section are not correlated): weaker, never stronger.  Per observation:                     *)
(*  cb(ref,true,v,nil)  gc = generations with raw v returned so far.  BadDelivery: gc empty.   *)
(*                      gl = those of gc not yet released (C08 candidates); ExposedAfterRel:   *)
(*                      gc non-empty, gl empty.  `ever` (certainly given) grows only by a      *)
(*                      singleton gl.  RelUntold at rel(n): last told value has gl = {n}; if n *)
(*                      is one of several it is struck off gl.  StaleKept: gc all invalidated. *)
(*                      Delivered (as an obligation: NotResolved): last told raw[N] with N in gc.*)
(*  ret ok v (Wait..)   cand = generations with raw v returned so far; WaitBadValue: empty.    *)
(*                      A candidate released while the reference is held and not invalidated   *)
(*                      is struck off; HeldRel when none is left.  must (released callback     *)
(*                      owed): every candidate is invalidated-and-processed; at a quiescent    *)
(*                      point candidates that are invalidated while the callback has not fired *)
(*                      are struck off (RelCbMissing when none is left).  SureHeld: no         *)
(*                      candidate invalidated.                                                 *)
(*  cbenter v (Access)  cbc = generations of the look window (`win`: published before the      *)
(*                      callback was entered) with raw v; AccessWrongVal: empty.  The          *)
(*                      invocation is stale (its result must not be returned) / its context    *)
(*                      must be cancelled only if EVERY generation in cbc is invalidated.  An  *)
(*                      equal replacement published after cbenter is not in cbc: returning the *)
(*                      result of that invocation is AccessStaleResult (the ABA case).         *)
(*  tgt at rel(n)       RelExposed only if n is the only not-yet-released generation with that *)
(*                      raw value (the container may hold an equal value of another one).      *)
(*  tgt at quiet        ExposedAfterRel: every generation with that raw value is released;     *)
(*                      StaleKept: every one is invalidated; Delivered: tgt = raw[N].          *)
(*  Delivered as a PREMISE (WaitStuck / AccessIdle: a consumer is blocked although ...) needs  *)
(*  the unambiguous reading: N is the only candidate of tgt and of every last-told value.      *)
EXTENDS Integers, FiniteSets, Sequences, TLC

VARIABLE ps
pvars == <<ps>>

NoG == [r |-> FALSE, v |-> 0, e |-> 0]

P0 == [keep |-> FALSE, pctx |-> 0,
       rs |-> <<>>,      \* resolver call n -> "active" | "val" | "valr" | "err" | "errr"  (r: with release func)
       relc |-> <<>>,    \* resolver call n -> number of invocations of its release func
       raw |-> <<>>,     \* resolver call n -> the raw value it returned (its own number unless told otherwise; 0: zero value of T)
       inv |-> {}, invd |-> {},   \* invalidated calls / invalidated and certainly processed
       \* A context change takes effect in some critical section between the call's logged start and its
       \* logged return (pend: such calls in progress).  Resolver calls that exist at the start are
       \* invalidated by it; a resolver call that is ENTERED while one is in progress may belong to the old
       \* or to the new context -- the trace cannot tell (minv: "possibly invalidated"): nothing is
       \* demanded of it, and its release while held is not held against the code.
       minv |-> {}, pend |-> <<>>,
       due |-> {},       \* calls whose release func (if any) must have run by the next quiescent point
       \* g: what the callback was last told (v: RAW value); gc: the generations that v can stand for
       \* (returned by then); gl: those of gc not struck off for C08 (not released); ever: generations
       \* the reference was certainly given
       refs |-> <<>>,    \* plain reference id -> [st, cb, g, gc, gl, ever]
       cons |-> <<>>,    \* consumer call id -> record (Wait, Resolve, ResolveWithReleased, Access)
       zero |-> {},      \* resolver calls whose value is the zero value of T (the target container cannot tell it from "empty")
       notgt |-> FALSE, notgterr |-> FALSE,
       panicked |-> FALSE,
       \* the root context given to SetContext was cancelled by the client: the resolver call that is
       \* active then still has to deliver its result; once any further API call or released() follows
       \* (dirty) nothing can be said about liveness any more (later resolve goroutines see a cancelled
       \* context and may end without calling the resolver)
       rootc |-> [dead |-> FALSE, dirty |-> FALSE, n |-> 0],
       bad |-> {}]

PInit == ps = P0

Bad(s, names) == [s EXCEPT !.bad = @ \cup names]
If(c, names) == IF c THEN names ELSE {}

Calls(s) == 1..Len(s.rs)
IsVal(s, n) == n \in Calls(s) /\ s.rs[n] \in {"val", "valr"}
IsErr(s, n) == n \in Calls(s) /\ s.rs[n] \in {"err", "errr"}
HasRel(s, n) == n \in Calls(s) /\ s.rs[n] \in {"valr", "errr"}
Returned(s, n) == n \in Calls(s) /\ s.rs[n] # "active"
Active(s) == {n \in Calls(s) : s.rs[n] = "active"}

PlainHeld(s) == {r \in DOMAIN s.refs : s.refs[r].st = "held"}
ConsOpen(s) == {c \in DOMAIN s.cons : s.cons[c].st = "open"}
ConsOk(s) == {c \in DOMAIN s.cons : s.cons[c].st = "ok"}
PossiblyHeld(s) == PlainHeld(s) \cup ConsOpen(s) \cup ConsOk(s)
\* (a ResolveWithReleased reference certainly still exists only if NO generation its value can
\* stand for was invalidated)
SureHeld(s) == PlainHeld(s) \cup ConsOpen(s)
               \cup {c \in ConsOk(s) : s.cons[c].kind # "resolvewr" \/ s.cons[c].cand \cap (s.inv \cup s.minv) = {}}

\* the generations an observed raw value v can stand for: value-returning calls (returned so far)
\* that carry it.  v = 0 (zero value of T) only where the observation certainly is a resolved value.
Cand(s, v) == {n \in Calls(s) : IsVal(s, n) /\ s.raw[n] = v}
RawOf(s, n) == IF n \in Calls(s) THEN s.raw[n] ELSE n

\* values Access may legitimately be looking at when a look window starts
Window(s) == {n \in Calls(s) : IsVal(s, n) /\ s.relc[n] = 0 /\ n \notin s.invd}

\* T1: the last reference was dropped: everything entered so far is due, except a value that
\* resolved without error under keep-unreferenced
LastDropped(s) ==
    IF PossiblyHeld(s) = {}
    THEN [s EXCEPT !.due = @ \cup {n \in Calls(s) : ~(s.keep /\ IsVal(s, n))}]
    ELSE s

\* the released callback of a ResolveWithReleased call must fire once its value was invalidated
\* (and the invalidation processed) while the caller still held the reference: an obligation, so
\* every generation the returned value can stand for must be invalidated-and-processed
Must(s) ==
    [s EXCEPT !.cons = [c \in DOMAIN s.cons |->
        IF s.cons[c].st = "ok" /\ s.cons[c].kind = "resolvewr" /\ s.cons[c].cb
           /\ s.cons[c].cand # {} /\ s.cons[c].cand \subseteq s.invd
        THEN [s.cons[c] EXCEPT !.must = TRUE] ELSE s.cons[c]]]

\* "not released while the caller holds the reference, unless invalidated": a candidate generation
\* that has been released without having been invalidated is struck off; HeldRel when none is left
Refuted(s, n) == s.relc[n] >= 1 /\ n \notin (s.inv \cup s.minv)
Prune(s) ==
    LET hit == {c \in ConsOk(s) : s.cons[c].cand # {} /\ \A n \in s.cons[c].cand : Refuted(s, n)} IN
    Bad([s EXCEPT !.cons = [c \in DOMAIN s.cons |->
            IF c \in ConsOk(s) THEN [s.cons[c] EXCEPT !.cand = {n \in @ : ~Refuted(s, n)}] ELSE s.cons[c]]],
        If(hit # {}, {"HeldRel"}))

NewCons(kind, cb) ==
    \* val: raw value returned (Wait..), cand: generations it can still stand for; cbval: raw value the
    \* Access callback was entered with, cbc: generations of the look window it can stand for
    [kind |-> kind, st |-> "open", cb |-> cb, val |-> 0, cand |-> {}, relcb |-> 0, must |-> FALSE, canc |-> FALSE,
     k |-> 0, incb |-> FALSE, cbval |-> 0, cbc |-> {}, stale |-> FALSE, lastout |-> "", win |-> {},
     \* cancleave: the caller's context was already cancelled when the last callback invocation returned
     cancleave |-> FALSE]

-----------------------------------------------------------------------------
(* Events *)

\* notgt / notgterr: the RefCount was built without a target / an error-target container (both optional)
PCfg3(s, keep, notgt, notgterr) == [s EXCEPT !.keep = keep, !.notgt = notgt, !.notgterr = notgterr]
PCfg(s, keep) == PCfg3(s, keep, FALSE, FALSE)

\* A client call starts.  ref: the reference created (addref, consumers: = id) or released.
PCallOp(s, id, op, cb, ref, k) ==
    CASE op = "addref" ->
           Bad([s EXCEPT !.refs = (id :> [st |-> "held", cb |-> (cb # "nil"), g |-> NoG, gc |-> {}, gl |-> {}, ever |-> {}]) @@ @],
               If(id \in DOMAIN s.refs \/ id \in DOMAIN s.cons, {"Harness:id"}))
      [] op = "release" ->
           IF ref \in DOMAIN s.refs
           THEN LastDropped([s EXCEPT !.refs[ref].st = "dropped"])
           ELSE IF ref \in DOMAIN s.cons /\ s.cons[ref].st \in {"ok", "done"}
           THEN LastDropped([s EXCEPT !.cons[ref].st = "done"])
           ELSE Bad(s, {"Harness:release"})
      [] op \in {"setctx", "clearctx"} ->
           IF k # s.pctx
           \* from now on the existing calls may be invalidated (minv); they certainly are when the call
           \* has returned (PRet).  On the pinned code both events lie in one controller step.
           THEN [s EXCEPT !.pctx = k, !.minv = @ \cup Calls(s), !.pend = (id :> Calls(s)) @@ @]
           ELSE s
      [] op \in {"wait", "resolve", "resolvewr", "access"} ->
           Bad([s EXCEPT !.cons = (id :> [NewCons(op, cb = "cb") EXCEPT !.win = Window(s)]) @@ @],
               If(id \in DOMAIN s.refs \/ id \in DOMAIN s.cons, {"Harness:id"}))
      [] OTHER -> Bad(s, {"Harness:op"})

\* A client call returns.  res: "ok" | "nil" | "err" | "cberr" | "canceled" | other.
PRet(s, id, res, val, err) ==
    IF id \notin DOMAIN s.cons
    THEN IF id \in DOMAIN s.pend
         THEN LET pre == s.pend[id] IN
              Must([s EXCEPT !.inv = @ \cup pre, !.invd = @ \cup pre, !.due = @ \cup pre,
                             !.pend = [i \in (DOMAIN s.pend) \ {id} |-> s.pend[i]]])
         ELSE s
    ELSE LET c == s.cons[id] IN
    IF c.st # "open" THEN Bad(s, {"Harness:ret"})
    ELSE IF c.kind = "access"
    THEN LastDropped(Bad([s EXCEPT !.cons[id].st = "done"],
            If(c.incb, {"Harness:retincb"})
            \cup If(res = "nil" /\ ~(c.k >= 1 /\ c.lastout = "nil"), {"AccessBadResult"})
            \cup If(res = "cberr" /\ ~(c.k >= 1 /\ c.lastout = "err" /\ err = c.k), {"AccessBadResult"})
            \cup If(res \in {"nil", "cberr"} /\ c.k >= 1 /\ c.stale, {"AccessStaleResult"})
            \cup If(res = "err" /\ ~IsErr(s, err), {"AccessBadResult"})
            \cup If(res = "canceled" /\ ~c.canc, {"SpuriousCancel"})
            \* "a cancelled caller context is returned as such": the cancellation was logged before the
            \* callback returned, so Access finds its context done when it next looks
            \cup If(res \in {"nil", "cberr"} /\ c.cancleave, {"AccessCancelLost"})
            \cup If(res \notin {"nil", "cberr", "err", "canceled"}, {"AccessBadResult"})))
    ELSE IF res = "ok"
    THEN \* val: raw value; it can stand for every value-returning generation carrying it (the statement
         \* does not forbid returning a value that was invalidated meanwhile)
         Must(Prune(Bad([s EXCEPT !.cons[id].st = "ok", !.cons[id].val = val, !.cons[id].cand = Cand(s, val)],
            If(Cand(s, val) = {}, {"WaitBadValue"}))))
    ELSE LastDropped(Bad([s EXCEPT !.cons[id].st = "done"],
            If(res = "err" /\ ~IsErr(s, err), {"WaitBadResult"})
            \cup If(res = "canceled" /\ ~c.canc, {"SpuriousCancel"})
            \cup If(res \notin {"err", "canceled"}, {"WaitBadResult"})))

PPanic(s, id) == Bad([s EXCEPT !.panicked = TRUE], {"Panic"})

\* The harness-owned resolver is entered for the n-th time / returns.
PEnter(s, n) ==
    Bad([s EXCEPT !.rs = Append(@, "active"), !.relc = Append(@, 0), !.raw = Append(@, n),
                  !.minv = IF DOMAIN s.pend # {} THEN @ \cup {n} ELSE @],
        If(n # Len(s.rs) + 1, {"Harness:enter"}))

\* raw: the value returned (meaningful for out = "val"): n itself, or the raw value of an earlier
\* generation (an equal value), or 0 (the zero value of T)
PLeaveR(s, n, out, rel, raw) ==
    IF n \notin Calls(s) \/ s.rs[n] # "active" THEN Bad(s, {"Harness:leave"})
    ELSE LET s2 == [s EXCEPT !.rs[n] = IF out = "val" THEN (IF rel THEN "valr" ELSE "val")
                                        ELSE (IF rel THEN "errr" ELSE "err"),
                             !.raw[n] = IF out = "val" THEN raw ELSE n,
                             !.zero = IF out = "val" /\ raw = 0 THEN @ \cup {n} ELSE @]
         IN [s2 EXCEPT !.cons = [c \in DOMAIN s2.cons |->
                IF s2.cons[c].kind = "access" /\ s2.cons[c].st = "open" /\ out = "val" /\ n \notin s2.invd
                THEN [s2.cons[c] EXCEPT !.win = @ \cup {n}] ELSE s2.cons[c]]]

PLeaveZ(s, n, out, rel, zero) == PLeaveR(s, n, out, rel, IF zero THEN 0 ELSE n)
PLeave(s, n, out, rel) == PLeaveR(s, n, out, rel, n)

\* The callback of plain reference `ref` is invoked with (res, v, e); v: RAW value.
PCbk(s, ref, res, v, e) ==
    IF ref \notin DOMAIN s.refs THEN Bad(s, {"Harness:cb"})
    ELSE LET isv == res /\ e = 0
             gc == IF isv THEN Cand(s, v) ELSE {}          \* generations the value can stand for
             gl == {n \in gc : s.relc[n] = 0}              \* ... favourable for C08: not released yet
             okerr == res /\ v = 0 /\ e > 0 /\ IsErr(s, e)
         IN
         \* `ever`: a singleton gl -- under every other candidate the delivery itself is ExposedAfterRel
         \* (same property, C08), so what is later held against the code for "given gl" is a C08 violation
         \* under every candidate.  An error identifies its generation.
         Bad([s EXCEPT !.refs[ref].g = [r |-> res, v |-> v, e |-> e], !.refs[ref].gc = gc, !.refs[ref].gl = gl,
                       !.refs[ref].ever = @ \cup (IF Cardinality(gl) = 1 THEN gl ELSE {})
                                            \cup (IF res /\ e > 0 THEN {e} ELSE {})],
             If(res /\ ~((isv /\ gc # {}) \/ okerr), {"BadDelivery"})
             \cup If(isv /\ gc # {} /\ gl = {}, {"ExposedAfterRel"})
             \cup If(res /\ e > 0 /\ e \in Calls(s) /\ s.relc[e] >= 1, {"ExposedAfterRel"}))

\* The release func returned by resolver call n runs; tgt = target.GetValue() (RAW) read inside it.
PRel(s, n, tgt) ==
    IF ~HasRel(s, n) THEN Bad(s, {"Harness:rel"})
    ELSE LET \* references whose last-told value can stand for n
             told == {r \in PlainHeld(s) : s.refs[r].g.r /\ s.refs[r].g.e = 0 /\ n \in s.refs[r].gl}
             \* the generations the container's value can stand for: n, or another one not yet released
             tc == IF tgt = 0 THEN {} ELSE {m \in Cand(s, tgt) : m = n \/ s.relc[m] = 0}
             s1 == [s EXCEPT !.relc[n] = @ + 1,
                             \* n was one of several the last-told value can stand for: it was another one
                             !.refs = [r \in DOMAIN s.refs |->
                                 IF r \in told /\ s.refs[r].gl # {n} THEN [s.refs[r] EXCEPT !.gl = @ \ {n}] ELSE s.refs[r]]]
         IN Prune(Bad(s1,
             If(\E r \in PlainHeld(s) : n \in s.refs[r].ever /\ n \notin (s.inv \cup s.minv), {"RelWhileHeld"})
             \cup If(\E r \in told : s.refs[r].gl = {n}, {"RelUntold"})
             \cup If(\E r \in PlainHeld(s) : s.refs[r].g.r /\ s.refs[r].g.e = n, {"RelUntold"})
             \cup If(tc = {n}, {"RelExposed"})))

\* The released() handle given to resolver call n is called (inside: from a reference callback,
\* i.e. under the RefCount's own lock).
PRelCall(s, n, inside) ==
    IF n \notin Calls(s) THEN Bad(s, {"Harness:relcall"})
    ELSE Must([s EXCEPT !.inv = @ \cup {n}, !.due = @ \cup {n},
                        !.invd = IF inside THEN @ ELSE @ \cup {n}])

\* The released callback passed to ResolveWithReleased call id fires.
PRelCb(s, id) ==
    IF id \notin DOMAIN s.cons THEN Bad(s, {"Harness:relcb"})
    ELSE [s EXCEPT !.cons[id].relcb = @ + 1]

\* Access call id enters / leaves its k-th callback invocation.
PCbEnter(s, id, k, v) ==
    IF id \notin DOMAIN s.cons \/ s.cons[id].st # "open" THEN Bad(s, {"Harness:cbenter"})
    ELSE LET c == s.cons[id]
             \* v: RAW value.  The generations Access can have been looking at: those of the look window
             \* (published before this callback was entered) that carry v
             cbc == {n \in c.win : RawOf(s, n) = v}
         IN
         Bad([s EXCEPT !.cons[id].k = k, !.cons[id].incb = TRUE, !.cons[id].cbval = v, !.cons[id].cbc = cbc,
                       !.cons[id].stale = FALSE],
             If(k # c.k + 1 \/ c.incb, {"Harness:cbenter"})
             \cup If(cbc = {}, {"AccessWrongVal"}))

PCbLeave(s, id, k, out) ==
    IF id \notin DOMAIN s.cons \/ ~s.cons[id].incb \/ s.cons[id].k # k THEN Bad(s, {"Harness:cbleave"})
    ELSE [s EXCEPT !.cons[id].incb = FALSE, !.cons[id].lastout = out,
                   \* its result must not be returned: an obligation, so EVERY generation the value it was
                   \* entered with can stand for must have been invalidated (and the invalidation processed)
                   !.cons[id].stale = (s.cons[id].cbc # {} /\ s.cons[id].cbc \subseteq s.invd),
                   !.cons[id].win = Window(s), !.cons[id].cancleave = s.cons[id].canc]

\* The caller context of consumer call id is cancelled.
PCancel(s, id) ==
    IF id \notin DOMAIN s.cons THEN Bad(s, {"Harness:cancel"})
    ELSE [s EXCEPT !.cons[id].canc = TRUE]

\* Goroutines left over at the end of an execution: expected after a panic (the execution is
\* abandoned with the RefCount mutex possibly held), a harness problem otherwise.
PLeak(s) == IF s.panicked THEN s ELSE Bad(s, {"Harness:leak"})

-----------------------------------------------------------------------------
(* Quiescent point: no library step is possible (nothing parked at a library hook).          *)
(* tgt / tgterr: contents of the target containers; blk: consumer calls blocked inside the    *)
(* library; incb: Access calls inside their callback, cbdone: those whose callback context is *)
(* done; open: AddRef/Release/SetContext calls that have not returned.                        *)

\* the result of the resolver call entered last is what the containers and every held
\* reference with a callback were last told.  tgt and the told values are RAW: as an obligation
\* (NotResolved when it fails) it is enough that they CAN stand for N (N in gc: N had returned when
\* the value was told -- nothing can be delivered before it exists).
Delivered(s, tgt, tgterr) ==
    LET N == Len(s.rs) IN
    /\ N >= 1 /\ Returned(s, N) /\ N \notin s.inv
    /\ IsVal(s, N) => (s.notgt \/ tgt = s.raw[N]) /\ (s.notgterr \/ tgterr = 0)          \* (a zero-valued N: raw = 0 = "empty")
    /\ IsErr(s, N) => (s.notgterr \/ tgterr = N) /\ (s.notgt \/ tgt = 0)
    /\ \A r \in PlainHeld(s) : s.refs[r].cb =>
          /\ s.refs[r].g.r
          /\ IsVal(s, N) => s.refs[r].g.e = 0 /\ s.refs[r].g.v = s.raw[N] /\ N \in s.refs[r].gc
          /\ IsErr(s, N) => s.refs[r].g.e = N /\ s.refs[r].g.v = 0

\* ... as a PREMISE (a consumer is blocked although the latest result was delivered): N must be the
\* only generation the observations can stand for
DeliveredSure(s, tgt, tgterr) ==
    LET N == Len(s.rs) IN
    /\ Delivered(s, tgt, tgterr)
    /\ IsVal(s, N) => /\ Cand(s, s.raw[N]) = {N}
                       /\ \A r \in PlainHeld(s) : s.refs[r].cb => s.refs[r].gc = {N}

\* generations the container's (RAW) value can stand for at a quiescent point
TgtCand(s, tgt) == IF tgt = 0 THEN {} ELSE Cand(s, tgt)

QuietBad(s, tgt, tgterr, act, blk, incb, cbdone, open) ==
    If(act # Active(s), {"Harness:act"})
    \cup If(~(blk \subseteq ConsOpen(s)) \/ ~(incb \subseteq ConsOpen(s)), {"Harness:blk"})
    \* C08
    \cup If(\E n \in s.due : Returned(s, n) /\ HasRel(s, n) /\ s.relc[n] = 0, {"Leak"})
    \cup If(TgtCand(s, tgt) # {} /\ \A n \in TgtCand(s, tgt) : s.relc[n] >= 1, {"ExposedAfterRel"})
    \* C09
    \cup If(s.pctx # 0 /\ SureHeld(s) # {} /\ Active(s) = {} /\ ~Delivered(s, tgt, tgterr), {"NotResolved"})
    \* (an obligation: every generation the kept value can stand for is invalidated; errors are exact)
    \cup If(\/ TgtCand(s, tgt) # {} /\ TgtCand(s, tgt) \subseteq s.inv
            \/ tgterr \in s.inv
            \/ \E r \in PlainHeld(s) : /\ s.refs[r].g.r
                                        /\ \/ s.refs[r].g.e \in s.inv
                                           \/ s.refs[r].g.e = 0 /\ s.refs[r].gc # {} /\ s.refs[r].gc \subseteq s.inv,
            {"StaleKept"})
    \cup If(open # {}, {"ApiBlocked"})
    \* C10
    \cup If(\E c \in blk \cap ConsOpen(s) : s.cons[c].kind # "access" /\ (s.cons[c].canc \/ DeliveredSure(s, tgt, tgterr)), {"WaitStuck"})
    \cup If(\E c \in blk \cap ConsOpen(s) : s.cons[c].kind = "access" /\ (s.cons[c].canc \/ DeliveredSure(s, tgt, tgterr)), {"AccessIdle"})
    \* (the callback context must be cancelled: every generation its value can stand for is invalidated)
    \cup If(\E c \in (incb \cap ConsOpen(s)) \ cbdone :
                (s.cons[c].cbc # {} /\ s.cons[c].cbc \subseteq s.inv) \/ s.cons[c].canc, {"AccessNotCancelled"})
    \cup If(\E c \in DOMAIN s.cons : s.cons[c].must /\ s.cons[c].relcb = 0, {"RelCbMissing"})

\* n: the latest resolver call in flight when the root context was cancelled (0: none)
PRootCancel(s) ==
    \* (a call already superseded -- last reference dropped or context replaced while it ran, i.e. due --
    \* will be discarded on return and is not "the" in-flight resolution)
    LET A == Active(s) \ s.due IN
    [s EXCEPT !.rootc = [dead |-> TRUE, dirty |-> FALSE,
                         n |-> IF A = {} THEN 0 ELSE CHOOSE n \in A : \A m \in A : m <= n]]
Dirty(s) == IF s.rootc.dead THEN [s EXCEPT !.rootc.dirty = TRUE] ELSE s

PQuiet(s, tgt, tgterr, act, blk, incb, cbdone, open) ==
    \* by a quiescent point every deferred released() has been processed
    LET s2 == Must([s EXCEPT !.invd = s.inv])
        qb == QuietBad(s2, tgt, tgterr, act, blk, incb, cbdone, open)
    IN
    \* After a root-context cancellation later resolve goroutines see a cancelled context and may end
    \* without calling the resolver, so liveness is no longer judged -- except for the call that was in
    \* flight: unless it was invalidated (released()) or an API call followed, its result must have been
    \* stored and delivered by now.
    LET harnessOnly == {n \in qb : Len(n) >= 8 /\ SubSeq(n, 1, 8) = "Harness:"}
        n == s.rootc.n
        dropped == ~s.rootc.dirty /\ n # 0 /\ Returned(s2, n) /\ n \notin s2.inv /\ s2.pctx # 0
                   /\ SureHeld(s2) # {} /\ Active(s2) = {} /\ ~Delivered(s2, tgt, tgterr)
        \* a ResolveWithReleased reference whose released callback has not fired by now (and is not owed
        \* under every candidate: RelCbMissing above) does not hold an invalidated generation: those
        \* candidates are struck off (not while liveness is not judged)
        s3 == IF s.rootc.dead THEN s2
              ELSE [s2 EXCEPT !.cons = [c \in DOMAIN s2.cons |->
                       IF s2.cons[c].st = "ok" /\ s2.cons[c].kind = "resolvewr" /\ s2.cons[c].cb
                          /\ s2.cons[c].relcb = 0 /\ ~s2.cons[c].must
                       THEN [s2.cons[c] EXCEPT !.cand = @ \ s2.invd] ELSE s2.cons[c]]]
    IN Bad(s3, IF s.rootc.dead THEN harnessOnly \cup If(dropped, {"NotResolved"}) ELSE qb)

-----------------------------------------------------------------------------
(* The properties *)

RelOnce == \A n \in Calls(ps) : ps.relc[n] <= 1
NoOverlap == Cardinality(Active(ps)) <= 1
\* (a value returned by Wait / Resolve / ResolveWithReleased is not released while the caller holds
\* the reference, unless it was invalidated: "HeldRel", judged by Prune at ret and rel events)
RelCbOnce == \A c \in DOMAIN ps.cons : ps.cons[c].relcb <= 1

C08Names == {"RelTwice", "RelWhileHeld", "RelUntold", "RelExposed", "ExposedAfterRel", "Leak"}
C09Names == {"Overlap", "NotResolved", "StaleKept", "BadDelivery", "Panic", "ApiBlocked"}
C10Names == {"HeldRel", "RelCbTwice", "RelCbMissing", "AccessWrongVal", "AccessNotCancelled", "AccessIdle",
             "AccessStaleResult", "AccessBadResult", "AccessCancelLost", "SpuriousCancel", "WaitBadValue", "WaitBadResult", "WaitStuck"}

Violated ==
    ps.bad
    \cup If(~RelOnce, {"RelTwice"})
    \cup If(~NoOverlap, {"Overlap"})
    \cup If(~RelCbOnce, {"RelCbTwice"})

Safe_C08 == Violated \cap C08Names = {}
Safe_C09 == Violated \cap C09Names = {}
Safe_C10 == Violated \cap C10Names = {}
NoHarnessError == \A b \in ps.bad : b \in C08Names \cup C09Names \cup C10Names
=============================================================================
