------------------------------ MODULE RefCount ------------------------------
(* Implementation-shaped specification of refcount.RefCount (refcount/refcount.go) and its    *)
(* consumers Wait/Resolve (promise.PromiseContainer), ResolveWithReleased (WaitWithReleased)   *)
(* and Access (private broadcast.Broadcast, watcher goroutine).                                *)
(*                                                                                          *)
(* One action per critical section under RefCount.mtx / per Broadcast.HoldLock section of a   *)
(* consumer / per goroutine start that the controller can schedule; client calls, resolver    *)
(* outcomes, released() calls, Access callback outcomes and cancellation are the environment. *)
(* The whole implementation state is one record `xs`; a critical section is a function on the *)
(* pair m = [x |-> implementation state, p |-> RefCountP monitor state] so that the monitor's *)
(* events (callbacks, release funcs, ...) are fired in the order the code produces them.      *)
(*                                                                                          *)
(* Granularity = the deterministic controller's (harness/drivers/refcount.go):                *)
(*  - a client call whose first action is a RefCount critical section performs that section   *)
(*    in the step that issues the call (Call);                                                *)
(*  - a resolve goroutine runs from its spawn to its select / into the resolver within the    *)
(*    step that spawned or woke it (Settle); select wake-ups are deterministic here because   *)
(*    no step both cancels a goroutine's context and closes the channel it waits on;          *)
(*  - the store section (ResStore), the async released goroutine (ARun), the WaitWithReleased *)
(*    release goroutine (WrGo), the Access watcher (Watch) and every later section of a       *)
(*    consumer call (AwaitCS, AccSnap, AccGo, AccCmp, ConsRel) are steps of their own.               *)
(*                                                                                          *)
(* The code is modelled as it is: FixF4 = FALSE is the pinned resolve() (a cancelled resolve  *)
(* goroutine closes its done channel without waiting for its predecessor), FixF5 = FALSE the  *)
(* pinned AddRef (calls a nil callback on a resolved container, panicking with the mutex      *)
(* held; the execution is dead afterwards).                                                   *)
(*                                                                                          *)
(* Values.  The implementation state holds GENERATIONS (value / cval / sv / tgt = the number   *)
(* of the resolver call that produced the value): a ghost identity.  What the code can see is  *)
(* the RAW value ps.raw[n]; the monitor is given raw values only (RawOf at every event), and   *)
(* the one place where the code compares two values (Access's reference callback) compares     *)
(* raw values.  With SameCall = k > 0 resolver call k returns the raw value of the latest      *)
(* earlier call that returned a value (an equal value: singleton / cached object), so that the *)
(* monitor's reading of ambiguous observations is model checked against every interleaving.    *)
(* The behaviours of the implementation part xs do not depend on SameCall (only the monitor     *)
(* component ps of a state does): between two resolved states of the container every reference *)
(* is told "unresolved" (clearResolvedState), so no comparison in the pinned code is decided by *)
(* two resolved values being equal -- action labels and schedules are those of the distinct-    *)
(* values model, and the driver replays them unchanged with the scenario field `samecall`.     *)
(* (`zerocall`, the zero value of T, exists in the driver and the monitor only.)                *)
EXTENDS RefCountP

CONSTANTS
    Prog,      \* Prog[p]: sequence of [op, cb, k, c]
    Keep,      \* keepUnref
    Outs,      \* resolver outcomes offered: subset of {"val","valnr","err","errrel"}
    RelOut,    \* outside released() calls offered per handle
    CbOuts,    \* Access callback outcomes offered: subset of {"nil","err"}
    MaxRes,    \* bound: resolver calls
    MaxG,      \* bound: resolve goroutines
    SameCall,  \* 0, or the resolver call that returns a value equal to the previous generation's
    FixF4, FixF5

Procs == 1..Len(Prog)

VARIABLE xs
vars == <<xs, ps>>

NoProm == [set |-> FALSE, v |-> 0, e |-> 0]
NoPend == [res |-> "", val |-> 0, err |-> 0]
NoCC == [id |-> 0, ctxc |-> FALSE, wch |-> "none", prom |-> NoProm, pend |-> NoPend,
         cval |-> 0, cerr |-> 0, cresd |-> FALSE, chg |-> FALSE, sv |-> 0, se |-> 0, sr |-> FALSE, k |-> 0, cbc |-> FALSE, lastout |-> ""]

X0 == [ctx |-> 0, refs |-> {}, kind |-> <<>>, fired |-> {}, relsw |-> {}, wr |-> <<>>,
       nonce |-> 0, resolved |-> FALSE, value |-> 0, verr |-> 0, vrel |-> 0, rcur |-> 0, waitg |-> 0,
       tgt |-> 0, tgterr |-> 0,
       gs |-> <<>>,      \* resolve goroutines: [nonce, waitOn, pc, canc, call]
       cg |-> <<>>,      \* resolver call n -> goroutine
       cout |-> <<>>,    \* resolver call n -> outcome it returned with
       rout |-> <<>>,    \* resolver call n -> outside released() calls made
       ar |-> <<>>,      \* async released goroutines: [nonce, pc]
       wg |-> <<>>,      \* WaitWithReleased release goroutines: [ref, pc]
       aw |-> <<>>,      \* Access watcher goroutines: [p, k, pc]
       pc |-> [p \in Procs |-> "idle"], ip |-> [p \in Procs |-> 1],
       cc |-> [p \in Procs |-> NoCC],
       got |-> [p \in Procs |-> <<>>],   \* program index -> reference obtained there
       dead |-> FALSE]

Init == ps = PCfg(P0, Keep) /\ xs = X0

RECURSIVE AscSeq(_)
AscSeq(S) == IF S = {} THEN <<>>
              ELSE LET a == CHOOSE a \in S : \A b \in S : a <= b IN <<a>> \o AscSeq(S \ {a})

Owner(m, r) == CHOOSE p \in Procs : m.x.cc[p].id = r

\* the raw value resolver call n returns when it returns a value (s: monitor state)
RawFor(s, n) ==
    LET prev == {k \in 1..(n - 1) : IsVal(s, k)} IN
    IF n = SameCall /\ prev # {} THEN s.raw[CHOOSE k \in prev : \A j \in prev : j <= k] ELSE n

-----------------------------------------------------------------------------
(* Reference callbacks (run under RefCount.mtx) *)

\* broadcast on the PromiseContainer / private Broadcast of consumer client p
BcastP(m, p) ==
    LET m1 == IF m.x.cc[p].wch = "cur" THEN [m EXCEPT !.x.cc[p].wch = "closed"] ELSE m
        m2 == CASE m1.x.pc[p] = "wsel" -> [m1 EXCEPT !.x.pc[p] = "await"]
                [] m1.x.pc[p] = "asel" -> [m1 EXCEPT !.x.pc[p] = "asnap"]
                [] OTHER -> m1
        \* a watcher blocked in its select sees waitCh fire: cancels the callback context, exits
        hit == {i \in 1..Len(m2.x.aw) : m2.x.aw[i].p = p /\ m2.x.aw[i].pc = "wsel"}
    IN IF hit = {} THEN m2
       ELSE [m2 EXCEPT !.x.aw = [i \in 1..Len(m2.x.aw) |-> IF i \in hit THEN [m2.x.aw[i] EXCEPT !.pc = "done"] ELSE m2.x.aw[i]],
                       !.x.cc[p].cbc = TRUE]

\* AddRefPromise callback (Wait / Resolve)
WaitCb(m, r, res, v, e) ==
    LET p == Owner(m, r)
        changed == res \/ m.x.cc[p].prom.set      \* SetResult always broadcasts, SetPromise(nil) only on change
        m1 == [m EXCEPT !.x.cc[p].prom = IF res THEN [set |-> TRUE, v |-> v, e |-> e] ELSE NoProm]
    IN IF changed THEN BcastP(m1, p) ELSE m1

\* WaitWithReleased callback
WrCb(m, r, res, v, e) ==
    LET w == m.x.wr[r] IN
    IF w.cres
    THEN IF (~res \/ m.x.nonce # w.cnonce) /\ ~w.once
         THEN [m EXCEPT !.x.wr[r].once = TRUE, !.x.wg = Append(@, [ref |-> r, pc |-> "spawned"])]
         ELSE m
    ELSE IF res
         THEN LET p == Owner(m, r) IN
              [m EXCEPT !.x.wr[r].cres = TRUE, !.x.wr[r].cnonce = m.x.nonce,
                        !.x.cc[p].prom = [set |-> TRUE, v |-> v, e |-> e]]
         ELSE m

\* Access callback
AccCb(m, r, res, v, e) ==
    LET p == Owner(m, r)
        c == m.x.cc[p]
    IN IF res # c.cresd \/ RawOf(m.p, v) # RawOf(m.p, c.cval) \/ e # c.cerr      \* nowVal != currVal: raw values
       THEN BcastP([m EXCEPT !.x.cc[p].cresd = res, !.x.cc[p].cval = v, !.x.cc[p].cerr = e, !.x.cc[p].chg = TRUE], p)
       ELSE m

RefCb(m, r, res, v, e) ==
    LET kd == m.x.kind[r] IN
    CASE kd \in {"nil", "mute"} -> m
      [] kd = "log" -> [m EXCEPT !.p = PCbk(@, r, res, RawOf(@, v), e)]
      [] kd = "rel" ->
           LET m1 == [m EXCEPT !.p = PCbk(@, r, res, RawOf(@, v), e)]
               n == IF v # 0 THEN v ELSE e
           IN IF res /\ r \notin m.x.fired
              THEN \* the callback calls released() of the result it was given: TryLock fails
                   [m1 EXCEPT !.x.fired = @ \cup {r}, !.p = PRelCall(@, n, TRUE),
                              !.x.ar = Append(@, [nonce |-> m.x.gs[m.x.cg[n]].nonce, pc |-> "spawned"])]
              ELSE m1
      [] kd = "wait" -> WaitCb(m, r, res, v, e)
      [] kd = "wr" -> WrCb(m, r, res, v, e)
      [] kd = "access" -> AccCb(m, r, res, v, e)

RECURSIVE FoldCbs(_, _, _, _, _)
FoldCbs(m, rs, res, v, e) ==
    IF rs = <<>> THEN m ELSE FoldCbs(RefCb(m, Head(rs), res, v, e), Tail(rs), res, v, e)

\* callRefCbsLocked (Go iterates the map in random order; the monitor does not depend on it)
CallRefCbs(m, res, v, e) == FoldCbs(m, AscSeq(m.x.refs), res, v, e)

-----------------------------------------------------------------------------
(* Building blocks of the critical sections *)

ClearResolved(m) ==
    LET m1 == IF m.x.resolved
              THEN CallRefCbs([m EXCEPT !.x.resolved = FALSE, !.x.verr = 0, !.x.value = 0, !.x.tgt = 0, !.x.tgterr = 0], FALSE, 0, 0)
              ELSE m
        m2 == IF m1.x.rcur # 0
              THEN [m1 EXCEPT !.x.gs[m1.x.rcur].canc = TRUE, !.x.rcur = 0]
              ELSE m1
    IN IF m2.x.vrel # 0
       THEN [m2 EXCEPT !.p = PRel(@, m2.x.vrel, RawOf(@, m2.x.tgt)), !.x.vrel = 0]
       ELSE m2

Shutdown(m) == ClearResolved([m EXCEPT !.x.nonce = @ + 1])

StartResolve(m) ==
    LET m1 == Shutdown(m) IN
    IF m1.x.ctx = 0 \/ m1.x.refs = {} THEN m1
    ELSE LET g == Len(m1.x.gs) + 1 IN
         [m1 EXCEPT !.x.gs = Append(@, [nonce |-> m1.x.nonce, waitOn |-> m1.x.waitg, pc |-> "wait", canc |-> FALSE, call |-> 0]),
                    !.x.waitg = g, !.x.rcur = g]

AddRefCS(m, r, kd) ==
    LET m1 == [m EXCEPT !.x.refs = @ \cup {r}, !.x.kind = (r :> kd) @@ @] IN
    IF Cardinality(m1.x.refs) = 1 /\ ~m1.x.resolved THEN StartResolve(m1)
    ELSE IF m1.x.resolved
    THEN IF kd = "nil"
         THEN IF FixF5 THEN m1 ELSE [m1 EXCEPT !.x.dead = TRUE, !.p = PPanic(@, r)]   \* nref.cb(...) with cb = nil
         ELSE RefCb(m1, r, TRUE, m1.x.value, m1.x.verr)
    ELSE m1

\* removeRef
RemoveRef(m, r) ==
    LET m1 == [m EXCEPT !.x.refs = @ \ {r}] IN
    IF r \in m.x.refs /\ m1.x.refs = {} /\ (~Keep \/ ~m1.x.resolved \/ m1.x.verr # 0)
    THEN Shutdown(m1) ELSE m1

\* Ref.Release: atomic swap, then removeRef (one step when nothing parks in between)
ReleaseRef(m, r) ==
    IF r \in m.x.relsw THEN m ELSE RemoveRef([m EXCEPT !.x.relsw = @ \cup {r}], r)

\* A consumer call of client p ends with result pend after releasing its reference.  Ref.Release
\* swaps the flag first and parks only then (before removeRef's lock); if the flag was already set
\* (the WaitWithReleased goroutine released the reference) it returns at once.
ToCrel(m, p, pend) ==
    LET id == m.x.cc[p].id IN
    IF id \in m.x.relsw
    THEN [m EXCEPT !.p = PRet(@, id, pend.res, pend.val, pend.err), !.x.pc[p] = "idle", !.x.ip[p] = @ + 1]
    ELSE [m EXCEPT !.x.relsw = @ \cup {id}, !.x.pc[p] = "crel", !.x.cc[p].pend = pend]

SetCtx(m, k) == IF m.x.ctx # k THEN StartResolve([m EXCEPT !.x.ctx = k]) ELSE m

-----------------------------------------------------------------------------
(* What runs on by itself after a step: resolve goroutines reach their select or the resolver, *)
(* woken ResolveWithReleased callers return.  Then the controller's quiescence observation.    *)

NoOut == [k |-> "", r |-> FALSE]

RECURSIVE SettleG(_, _)
SettleG(m, g) ==
    IF g > Len(m.x.gs) THEN m
    ELSE LET r == m.x.gs[g]
             predDone == r.waitOn = 0 \/ m.x.gs[r.waitOn].pc = "done"
         IN
         IF r.pc = "wait" /\ predDone
         THEN LET n == Len(m.p.rs) + 1 IN
              SettleG([m EXCEPT !.x.gs[g].pc = "run", !.x.gs[g].call = n, !.x.cg = Append(@, g),
                                !.x.cout = Append(@, NoOut), !.x.rout = Append(@, 0), !.p = PEnter(@, n)], g + 1)
         ELSE IF r.pc = "wait" /\ r.canc
         THEN \* F4: `defer close(doneCh)` runs although the predecessor may still be inside the resolver
              SettleG([m EXCEPT !.x.gs[g].pc = IF FixF4 THEN "cwait" ELSE "done"], g + 1)
         ELSE IF r.pc = "cwait" /\ predDone
         THEN SettleG([m EXCEPT !.x.gs[g].pc = "done"], g + 1)
         ELSE SettleG(m, g + 1)

RetOk(m, p, v) ==
    LET id == m.x.cc[p].id IN
    [m EXCEPT !.p = PRet(@, id, "ok", RawOf(@, v), 0), !.x.got[p] = (m.x.ip[p] :> id) @@ @,
              !.x.pc[p] = "idle", !.x.ip[p] = @ + 1,
              !.x.kind[id] = IF @ = "wait" THEN "mute" ELSE @]

RECURSIVE WakeP(_, _)
WakeP(m, p) ==
    IF p > Len(Prog) THEN m
    ELSE IF m.x.pc[p] = "psel" /\ m.x.cc[p].prom.set
    THEN LET pr == m.x.cc[p].prom IN
         IF pr.e = 0 THEN WakeP(RetOk(m, p, pr.v), p + 1)
         ELSE WakeP(ToCrel(m, p, [res |-> "err", val |-> 0, err |-> pr.e]), p + 1)
    ELSE WakeP(m, p + 1)

LibQuietM(m) ==
    /\ \A g \in 1..Len(m.x.gs) : m.x.gs[g].pc # "ret"
    /\ \A i \in 1..Len(m.x.ar) : m.x.ar[i].pc # "spawned"
    /\ \A i \in 1..Len(m.x.wg) : m.x.wg[i].pc # "spawned"
    /\ \A i \in 1..Len(m.x.aw) : m.x.aw[i].pc # "spawned"
    /\ \A p \in Procs : m.x.pc[p] \in {"idle", "wsel", "psel", "asel", "incb"}

BlkIds(m) == {m.x.cc[p].id : p \in {q \in Procs : m.x.pc[q] \in {"wsel", "psel", "asel"}}}
InCbIds(m) == {m.x.cc[p].id : p \in {q \in Procs : m.x.pc[q] = "incb"}}
CbDoneIds(m) == {m.x.cc[p].id : p \in {q \in Procs : m.x.pc[q] = "incb" /\ m.x.cc[q].cbc}}

Finish(m) ==
    LET m1 == WakeP(SettleG(m, 1), 1) IN
    IF LibQuietM(m1) /\ ~m1.x.dead
    THEN [m1 EXCEPT !.p = PQuiet(@, RawOf(@, m1.x.tgt), m1.x.tgterr, Active(m1.p), BlkIds(m1), InCbIds(m1), CbDoneIds(m1), {})]
    ELSE m1

Do(m) == LET r == Finish(m) IN xs' = r.x /\ ps' = r.p
M == [x |-> xs, p |-> ps]

-----------------------------------------------------------------------------
(* Environment: client p issues its next operation *)

Op(p) == Prog[p][xs.ip[p]]
Adv(m, p) == [m EXCEPT !.x.ip[p] = @ + 1]

DoCall(m, p) ==
    LET o == Prog[p][m.x.ip[p]]
        id == p * 100 + m.x.ip[p]      \* ids only need to be unique (the driver numbers calls globally)
        m0 == m
    IN
    CASE o.op = "addref" ->
           Adv(AddRefCS([m0 EXCEPT !.p = PCallOp(@, id, "addref", o.cb, id, 0), !.x.got[p] = (m.x.ip[p] :> id) @@ @], id, o.cb), p)
      [] o.op = "release" ->
           IF o.k \in DOMAIN m.x.got[p]
           THEN LET r == m.x.got[p][o.k] IN
                Adv(ReleaseRef([m0 EXCEPT !.p = PCallOp(@, id, "release", "", r, 0)], r), p)
           ELSE Adv(m, p)
      [] o.op = "setctx" ->
           LET m1 == SetCtx([m0 EXCEPT !.p = PCallOp(@, id, "setctx", "", 0, o.k)], o.k) IN
           Adv([m1 EXCEPT !.p = PRet(@, id, "ok", 0, 0)], p)
      [] o.op = "clearctx" ->
           LET m1 == SetCtx([m0 EXCEPT !.p = PCallOp(@, id, "clearctx", "", 0, 0)], 0) IN
           Adv([m1 EXCEPT !.p = PRet(@, id, "ok", 0, 0)], p)
      [] o.op \in {"wait", "resolve"} ->
           \* AddRefPromise, then park before PromiseContainer.Await's first section
           LET m1 == [m0 EXCEPT !.p = PCallOp(@, id, o.op, "", id, 0), !.x.cc[p] = [NoCC EXCEPT !.id = id]] IN
           [AddRefCS(m1, id, "wait") EXCEPT !.x.pc[p] = "await"]
      [] o.op = "resolvewr" ->
           \* WaitWithReleased, then Promise.Await (select on ctx.Done / done: no lock)
           LET m1 == [m0 EXCEPT !.p = PCallOp(@, id, "resolvewr", o.cb, id, 0), !.x.cc[p] = [NoCC EXCEPT !.id = id],
                                !.x.wr = (id :> [cres |-> FALSE, cnonce |-> 0, once |-> FALSE, cb |-> (o.cb = "cb")]) @@ @] IN
           [AddRefCS(m1, id, "wr") EXCEPT !.x.pc[p] = "psel"]
      [] o.op = "access" ->
           LET m1 == [m0 EXCEPT !.p = PCallOp(@, id, "access", "", id, 0), !.x.cc[p] = [NoCC EXCEPT !.id = id]] IN
           [AddRefCS(m1, id, "access") EXCEPT !.x.pc[p] = "asnap"]

Call(p) ==
    /\ ~xs.dead /\ xs.pc[p] = "idle" /\ xs.ip[p] <= Len(Prog[p])
    /\ Do(DoCall(M, p))

(* Environment: the resolver call n returns with outcome out *)
ResReturn(n, out) ==
    /\ ~xs.dead /\ n \in 1..Len(xs.cg) /\ xs.gs[xs.cg[n]].pc = "run" /\ out \in Outs
    /\ LET isv == out \in {"val", "valnr"}
           rel == out \in {"val", "errrel"}
       IN Do([M EXCEPT !.x.gs[xs.cg[n]].pc = "ret", !.x.cout[n] = [k |-> IF isv THEN "val" ELSE "err", r |-> rel],
                       !.p = PLeaveR(@, n, IF isv THEN "val" ELSE "err", rel, RawFor(@, n))])

(* resolve(): the store section (refcount.go: "assert we are still the resolver" ...) *)
ResStore(g) ==
    /\ ~xs.dead /\ g \in 1..Len(xs.gs) /\ xs.gs[g].pc = "ret"
    /\ LET n == xs.gs[g].call
           o == xs.cout[n]
           m == M
       IN IF m.x.nonce # m.x.gs[g].nonce
          THEN \* stale: release at once (deferred valRel, still under the mutex)
               Do([(IF o.r THEN [m EXCEPT !.p = PRel(@, n, RawOf(@, m.x.tgt))] ELSE m) EXCEPT !.x.gs[g].pc = "done"])
          ELSE LET v == IF o.k = "val" THEN n ELSE 0
                   e == IF o.k = "err" THEN n ELSE 0
                   m1 == [m EXCEPT !.x.resolved = TRUE, !.x.value = v, !.x.verr = e, !.x.vrel = IF o.r THEN n ELSE 0,
                                   !.x.tgterr = e, !.x.tgt = IF e = 0 THEN v ELSE @]
               IN Do([CallRefCbs(m1, TRUE, v, e) EXCEPT !.x.gs[g].pc = "done"])

(* Environment: released() handle of resolver call n called from outside (TryLock succeeds) *)
Released(n) ==
    /\ ~xs.dead /\ n \in 1..Len(xs.cg) /\ xs.rout[n] < RelOut
    /\ LET m == [M EXCEPT !.x.rout[n] = @ + 1, !.p = PRelCall(@, n, FALSE)] IN
       Do(IF m.x.nonce = m.x.gs[m.x.cg[n]].nonce THEN StartResolve(m) ELSE m)

(* released() from under the mutex: the spawned goroutine's section *)
ARun(i) ==
    /\ ~xs.dead /\ i \in 1..Len(xs.ar) /\ xs.ar[i].pc = "spawned"
    /\ LET m == [M EXCEPT !.x.ar[i].pc = "done"] IN
       Do(IF m.x.nonce = xs.ar[i].nonce THEN StartResolve(m) ELSE m)

(* WaitWithReleased: the release goroutine: (waits until `ref` is assigned: always the case at  *)
(* this granularity, the caller runs on to its return within the step of its AddRef section)  *)
(* ref.Release(), then released()                                                             *)
WrGo(i) ==
    /\ ~xs.dead /\ i \in 1..Len(xs.wg) /\ xs.wg[i].pc = "spawned"
    /\ LET r == xs.wg[i].ref
           m == ReleaseRef([M EXCEPT !.x.wg[i].pc = "done"], r)
       IN Do(IF xs.wr[r].cb THEN [m EXCEPT !.p = PRelCb(@, r)] ELSE m)

(* PromiseContainer.Await: the section that samples the promise and the wait channel *)
AwaitCS(p) ==
    /\ ~xs.dead /\ xs.pc[p] = "await"
    /\ LET pr == xs.cc[p].prom IN
       IF ~pr.set
       THEN Do([M EXCEPT !.x.cc[p].wch = "cur", !.x.pc[p] = "wsel"])
       ELSE IF pr.e = 0
       THEN Do(RetOk(M, p, pr.v))
       ELSE Do(ToCrel(M, p, [res |-> "err", val |-> 0, err |-> pr.e]))

(* the consumer's final Release (Wait/ResolveWithReleased error paths, Access's deferred Release) *)
ConsRel(p) ==
    /\ ~xs.dead /\ xs.pc[p] = "crel"
    /\ LET c == xs.cc[p]
           m == RemoveRef(M, c.id)
       IN Do([m EXCEPT !.p = PRet(@, c.id, c.pend.res, c.pend.val, c.pend.err),
                       !.x.pc[p] = "idle", !.x.ip[p] = @ + 1])

(* Access: the snapshot section; the caller is then parked right after it (Unlocked hook), so *)
(* that an invalidation can land after Access looked and before its callback is entered       *)
AccSnap(p) ==
    /\ ~xs.dead /\ xs.pc[p] = "asnap"
    /\ LET c == xs.cc[p] IN
       Do([M EXCEPT !.x.cc[p].chg = FALSE, !.x.cc[p].wch = "cur",
                    !.x.cc[p].sv = c.cval, !.x.cc[p].se = c.cerr, !.x.cc[p].sr = c.cresd, !.x.pc[p] = "asnap2"])

(* Access: act on the snapshot: return the resolver error, enter the callback, or wait *)
AccGo(p) ==
    /\ ~xs.dead /\ xs.pc[p] = "asnap2"
    /\ LET c == xs.cc[p]
           m == M
       IN IF c.se # 0
          THEN Do(ToCrel(m, p, [res |-> "err", val |-> 0, err |-> c.se]))
          ELSE IF c.sr
          THEN \* spawn the watcher, enter the callback
               Do([m EXCEPT !.x.aw = Append(@, [p |-> p, k |-> c.k + 1, pc |-> "spawned"]),
                            !.x.cc[p].k = c.k + 1, !.x.cc[p].cbc = FALSE, !.x.pc[p] = "incb",
                            !.p = PCbEnter(@, c.id, c.k + 1, RawOf(@, c.sv))])
          ELSE IF c.wch = "closed" THEN Do([m EXCEPT !.x.pc[p] = "asnap"])
          ELSE Do([m EXCEPT !.x.pc[p] = "asel"])

(* Access: the watcher goroutine reaches its select *)
Watch(i) ==
    /\ ~xs.dead /\ i \in 1..Len(xs.aw) /\ xs.aw[i].pc = "spawned"
    /\ LET w == xs.aw[i]
           c == xs.cc[w.p]
           live == xs.pc[w.p] = "incb" /\ c.k = w.k /\ ~c.cbc      \* neither ctx nor cbCtx is done
       IN IF ~live THEN Do([M EXCEPT !.x.aw[i].pc = "done"])
          ELSE IF c.wch = "closed" THEN Do([M EXCEPT !.x.aw[i].pc = "done", !.x.cc[w.p].cbc = TRUE])
          ELSE Do([M EXCEPT !.x.aw[i].pc = "wsel"])

(* Environment: the Access callback returns *)
CbRet(p, out) ==
    /\ ~xs.dead /\ xs.pc[p] = "incb" /\ out \in CbOuts
    /\ LET c == xs.cc[p]
           m == [M EXCEPT !.p = PCbLeave(@, c.id, c.k, out), !.x.cc[p].lastout = out, !.x.cc[p].cbc = TRUE,
                          !.x.aw = [i \in 1..Len(xs.aw) |-> IF xs.aw[i].p = p /\ xs.aw[i].pc = "wsel"
                                                             THEN [xs.aw[i] EXCEPT !.pc = "done"] ELSE xs.aw[i]]]
       IN IF c.ctxc
          THEN Do(ToCrel(m, p, [res |-> "canceled", val |-> 0, err |-> 0]))
          ELSE Do([m EXCEPT !.x.pc[p] = "acmp"])

(* Access: the nonce comparison section *)
AccCmp(p) ==
    /\ ~xs.dead /\ xs.pc[p] = "acmp"
    /\ LET c == xs.cc[p] IN
       IF ~c.chg
       THEN Do(ToCrel(M, p, IF c.lastout = "nil" THEN [res |-> "nil", val |-> 0, err |-> 0]
                            ELSE [res |-> "cberr", val |-> 0, err |-> c.k]))
       ELSE IF c.wch = "closed" THEN Do([M EXCEPT !.x.pc[p] = "asnap"])
       ELSE Do([M EXCEPT !.x.pc[p] = "asel"])

(* Environment: the caller context of p's consumer call is cancelled (only while the call is   *)
(* blocked inside the library or inside the Access callback, as the controller does)           *)
Cancel(p) ==
    /\ ~xs.dead /\ xs.pc[p] \in {"wsel", "psel", "asel", "incb"} /\ Op(p).c /\ ~xs.cc[p].ctxc
    /\ LET m == [M EXCEPT !.p = PCancel(@, xs.cc[p].id), !.x.cc[p].ctxc = TRUE] IN
       IF xs.pc[p] = "incb"
       THEN Do([m EXCEPT !.x.cc[p].cbc = TRUE,
                         !.x.aw = [i \in 1..Len(xs.aw) |-> IF xs.aw[i].p = p /\ xs.aw[i].pc = "wsel"
                                                            THEN [xs.aw[i] EXCEPT !.pc = "done"] ELSE xs.aw[i]]])
       ELSE Do(ToCrel(m, p, [res |-> "canceled", val |-> 0, err |-> 0]))

-----------------------------------------------------------------------------
Next ==
    \/ \E p \in Procs : Call(p) \/ AwaitCS(p) \/ ConsRel(p) \/ AccSnap(p) \/ AccGo(p) \/ AccCmp(p) \/ Cancel(p)
    \/ \E p \in Procs, out \in CbOuts : CbRet(p, out)
    \/ \E n \in 1..MaxRes, out \in Outs : ResReturn(n, out)
    \/ \E n \in 1..MaxRes : Released(n)
    \/ \E g \in 1..MaxG : ResStore(g)
    \/ \E i \in 1..(2 * MaxG) : ARun(i) \/ WrGo(i) \/ Watch(i)

Spec == Init /\ [][Next]_vars

Bound == Len(xs.gs) <= MaxG /\ Len(ps.rs) <= MaxRes

-----------------------------------------------------------------------------
(* Invariants *)

\* conditions that the pinned code is known to violate (reported as KNOWN at model level)
KnownNames == (IF FixF4 THEN {} ELSE {"Overlap"}) \cup (IF FixF5 THEN {} ELSE {"Panic"})

ModelSafe == Violated \subseteq KnownNames
Clean == Violated = {}          \* used to reproduce the counterexamples of the known defects
NoHarness == NoHarnessError

\* implementation invariants
Agree ==
    /\ xs.resolved => (xs.value # 0 \/ xs.verr # 0)
    /\ ~xs.resolved => xs.vrel = 0 /\ xs.value = 0 /\ xs.verr = 0
    /\ xs.tgt = xs.value
    /\ xs.rcur # 0 => ~xs.gs[xs.rcur].canc

\* with the F4 repair resolve goroutines finish in spawn order
DoneInOrder ==
    FixF4 => \A g \in 1..Len(xs.gs) : xs.gs[g].pc = "done" /\ xs.gs[g].waitOn # 0 => xs.gs[xs.gs[g].waitOn].pc = "done"
=============================================================================
