------------------------------ MODULE ConcQueue ------------------------------
(* Implementation-shaped specification of conc.ConcurrentQueue (conc/queue.go) on top of     *)
(* broadcast.Broadcast.  One action per critical section (Broadcast.HoldLock callback), per  *)
(* goroutine start and per select wake-up; producers, job durations, cancellation, the error *)
(* channel and the WatchState callback's answers are the environment.                        *)
(*                                                                                          *)
(* A scenario is                                                                             *)
(*   [lim, init |-> <<jobs>>, prods |-> << <<batch, ...>>, ... >>,                         *)
(*    nils |-> <<ids of the jobs whose func is nil>>,                                        *)
(*    wic |-> [on, errch \in {"none","err","nil","close"}, cancel],                           *)
(*    wsc |-> [on, script |-> <<"true"|"false"|"err", ...>>, cancel]]                         *)
(* Several scenarios are checked in one run: the first action Choose(k) picks one and runs   *)
(* the constructor (nothing else can run concurrently with it).                              *)
(*                                                                                          *)
(* The job queue is the sequential linkedlist (Push at the tail, Pop at the head); its       *)
(* length stands for jobQueueSize.  A worker goroutine is identified by the job it holds:    *)
(*   js[j]: new -> queued -> ready (a goroutine is about to invoke it) -> run -> left (the   *)
(*   function returned, the worker is about to take the lock) -> fin                         *)
(* A nil job (queue.go:159 `if job != nil`) is handed over, counted, pushed and popped like   *)
(* every other job; the worker that gets it skips the call and goes straight for the lock:   *)
(*   js[j]: new -> queued -> held (a worker goroutine holds it and is about to take the      *)
(*   lock; it occupies one unit of `running`) -> fin                                         *)
(* There is no user code in between, hence no Start/Fin and no enter/leave for it.           *)
EXTENDS ConcQueueP, Integers

CONSTANTS Scens, EagerWake

MaxJ == 6
Jobs == 1..MaxJ
MaxP == 2

VARIABLES
    sc,       \* chosen scenario (0: not yet)
    running,  \* ConcurrentQueue.running
    queue,    \* jobQueue (sequence of job ids)
    js,       \* job -> state
    ppc,      \* producer -> idle | cs
    pip,      \* producer -> index of its next / current batch
    wipc,     \* WaitIdle caller: idle | cs | sel | done
    wiwch,    \* its sampled wait channel: none | cur | closed
    wictx,    \* its context is cancelled
    errst,    \* its error channel: none | err | nil | closed | used
    wspc,     \* WatchState caller: idle | cs | sel | done
    wswch, wsctx,
    wsk,      \* number of callback invocations so far
    wirv,     \* what WaitIdle returned ("" while it has not): nil | canceled | E1
    wsrv      \* what WatchState returned ("" while it has not): nil | canceled | E1
              \* (wirv, wsrv are never read by an action: they only make the results part of the state,
              \*  so that a recorded return can be compared with them -- ConcQueueXTrace; the
              \*  schedule graph uses VIEW xvars, which leaves them out; the model check has 10 more
              \*  states in the quick set with them, NoRv is the view without)

xvars == <<sc, running, queue, js, ppc, pip, wipc, wiwch, wictx, errst, wspc, wswch, wsctx, wsk>>
rvars == <<wirv, wsrv>>
vars == <<xvars, rvars, pvars>>
NoRv == <<xvars, pvars>>

S == Scens[sc]
Limit == S.lim
Nils == SeqSet(S.nils)
\* what a goroutine that was given job j does first: invoke it, or (nil) go for the lock
Given(j, nils) == IF j \in nils THEN "held" ELSE "ready"
Prods == S.prods
NP == Len(Prods)
Unlimited == Limit <= 0

Min(a, b) == IF a < b THEN a ELSE b
Client(p) == IF p = 1 THEN "p1" ELSE "p2"

Init ==
    /\ PInit
    /\ sc = 0 /\ running = 0 /\ queue = <<>>
    /\ js = [j \in Jobs |-> "new"]
    /\ ppc = [p \in 1..MaxP |-> "idle"] /\ pip = [p \in 1..MaxP |-> 1]
    /\ wipc = "idle" /\ wiwch = "none" /\ wictx = FALSE /\ errst = "none"
    /\ wspc = "idle" /\ wswch = "none" /\ wsctx = FALSE /\ wsk = 0
    /\ wirv = "" /\ wsrv = ""

\* The start-or-push loop over the jobs handed over in one critical section (queue.go:47-56),
\* from index i on, with counter r and queue q: result [r, q, st] (st: the jobs started).
RECURSIVE EnqLoop(_, _, _, _)
EnqLoop(jobs, i, r, q) ==
    IF i > Len(jobs) THEN [r |-> r, q |-> q, st |-> {}]
    ELSE IF Unlimited \/ r < Limit
         THEN LET rest == EnqLoop(jobs, i + 1, r + 1, q) IN [rest EXCEPT !.st = @ \cup {jobs[i]}]   \* running++; go executeJob
         ELSE EnqLoop(jobs, i + 1, r, Append(q, jobs[i]))                                        \* jobQueue.Push

\* NewConcurrentQueue(limit, init...): the list is filled with init, then updateLocked pops and
\* starts from its head while the counter is below the limit (queue.go:32-41, 137-151): the first
\* n jobs are started, the rest stays queued.  Nothing can run concurrently with the constructor.
Choose(k) ==
    /\ sc = 0 /\ sc' = k
    /\ LET s == Scens[k]
           n == IF s.lim <= 0 THEN Len(s.init) ELSE Min(Len(s.init), s.lim)
       IN /\ running' = n
          /\ queue' = SubSeq(s.init, n + 1, Len(s.init))
          /\ js' = [j \in Jobs |-> IF \E i \in 1..n : s.init[i] = j THEN Given(j, SeqSet(s.nils))
                                   ELSE IF \E i \in (n+1)..Len(s.init) : s.init[i] = j THEN "queued" ELSE "new"]
          /\ PNew(s.lim, s.init, SeqSet(s.nils) \cap SeqSet(s.init))
    /\ UNCHANGED <<ppc, pip, wipc, wiwch, wictx, errst, wspc, wswch, wsctx, wsk, rvars>>

Silent ==
    /\ sc # 0
    /\ \/ wipc = "sel" /\ (wiwch = "closed" \/ wictx \/ errst \in {"err", "nil", "closed"})
       \/ wspc = "sel" /\ (wswch = "closed" \/ wsctx)
Gate == sc # 0 /\ ~(EagerWake /\ Silent)

Closed(ch) == IF ch = "cur" THEN "closed" ELSE ch
Broadcast == wiwch' = Closed(wiwch) /\ wswch' = Closed(wswch)

-----------------------------------------------------------------------------
(* producers *)

Batch(p) == Prods[p][pip[p]]

Call(p) ==
    /\ Gate /\ p <= NP /\ ppc[p] = "idle" /\ pip[p] <= Len(Prods[p])
    /\ ppc' = [ppc EXCEPT ![p] = "cs"]
    /\ PCallEnq(Client(p), Batch(p), SeqSet(Batch(p)) \cap Nils)
    /\ UNCHANGED <<sc, running, queue, js, pip, wipc, wiwch, wictx, errst, wspc, wswch, wsctx, wsk, rvars>>

\* queue.go:46-61
EnqCS(p) ==
    /\ Gate /\ p <= NP /\ ppc[p] = "cs"
    /\ LET b == Batch(p)
           res == EnqLoop(b, 1, running, queue)
       IN /\ running' = res.r
          /\ queue' = res.q
          /\ js' = [j \in Jobs |-> IF j \in res.st THEN Given(j, Nils)
                                   ELSE IF j \in SeqSet(b) THEN "queued" ELSE js[j]]
          /\ IF Len(b) # 0 THEN Broadcast ELSE UNCHANGED <<wiwch, wswch>>
          /\ PRetEnq(Client(p), Len(res.q), res.r)
    /\ ppc' = [ppc EXCEPT ![p] = "idle"]
    /\ pip' = [pip EXCEPT ![p] = @ + 1]
    /\ UNCHANGED <<sc, wipc, wictx, errst, wspc, wsctx, wsk, rvars>>

-----------------------------------------------------------------------------
(* jobs and worker goroutines *)

Start(j) ==
    /\ Gate /\ js[j] = "ready"
    /\ js' = [js EXCEPT ![j] = "run"]
    /\ PEnter(j)
    /\ UNCHANGED <<sc, running, queue, ppc, pip, wipc, wiwch, wictx, errst, wspc, wswch, wsctx, wsk, rvars>>

Fin(j) ==
    /\ Gate /\ js[j] = "run"
    /\ js' = [js EXCEPT ![j] = "left"]
    /\ PLeave(j)
    /\ UNCHANGED <<sc, running, queue, ppc, pip, wipc, wiwch, wictx, errst, wspc, wswch, wsctx, wsk, rvars>>

\* queue.go:163-171: the worker that is through with job j pops the next job (whatever it is: the
\* decision is jobOk, not the popped value), or retires and broadcasts
TakeNext(j) ==
    /\ IF queue # <<>>
       THEN /\ js' = [js EXCEPT ![j] = "fin", ![Head(queue)] = Given(Head(queue), Nils)]
            /\ queue' = Tail(queue)
            /\ UNCHANGED <<running, wiwch, wswch>>
       ELSE /\ js' = [js EXCEPT ![j] = "fin"]
            /\ running' = running - 1
            /\ Broadcast
            /\ UNCHANGED queue
    /\ UNCHANGED <<sc, ppc, pip, wipc, wictx, errst, wspc, wsctx, wsk, rvars, pvars>>

WorkerCS(j) == Gate /\ js[j] = "left" /\ TakeNext(j)

\* the same critical section of a worker that holds nil job j (it had nothing to call).  Workers
\* holding a nil job cannot be told apart from outside: every NilCS(j) is the controller move
\* "wcs:nil" (fam_conc.LABEL_RULES).
NilCS(j) == Gate /\ js[j] = "held" /\ TakeNext(j)

-----------------------------------------------------------------------------
(* WaitIdle *)

CallWI ==
    /\ Gate /\ S.wic.on /\ wipc = "idle"
    /\ wipc' = "cs"
    /\ PCallWI
    /\ UNCHANGED <<sc, running, queue, js, ppc, pip, wiwch, wictx, errst, wspc, wswch, wsctx, wsk, rvars>>

\* queue.go:73-81
WICS ==
    /\ Gate /\ wipc = "cs"
    /\ IF running = 0 /\ queue = <<>>
       THEN wipc' = "done" /\ PRetWI("nil") /\ wirv' = "nil" /\ UNCHANGED wiwch
       ELSE wipc' = "sel" /\ wiwch' = "cur" /\ UNCHANGED <<wirv, pvars>>
    /\ UNCHANGED <<sc, running, queue, js, ppc, pip, wictx, errst, wspc, wswch, wsctx, wsk, wsrv>>

WIWake ==
    /\ sc # 0 /\ wipc = "sel" /\ wiwch = "closed"
    /\ wipc' = "cs"
    /\ UNCHANGED <<sc, running, queue, js, ppc, pip, wiwch, wictx, errst, wspc, wswch, wsctx, wsk, rvars, pvars>>

WIWakeCtx ==
    /\ sc # 0 /\ wipc = "sel" /\ wictx
    /\ wipc' = "done" /\ PRetWI("canceled") /\ wirv' = "canceled"
    /\ UNCHANGED <<sc, running, queue, js, ppc, pip, wiwch, wictx, errst, wspc, wswch, wsctx, wsk, wsrv>>

\* queue.go:85-94: a received nil error is ignored (loop again), a closed channel counts as cancellation
WIWakeErr ==
    /\ sc # 0 /\ wipc = "sel" /\ errst \in {"err", "nil", "closed"}
    /\ CASE errst = "err"    -> wipc' = "done" /\ errst' = "used" /\ PRetWI("E1") /\ wirv' = "E1"
         [] errst = "nil"    -> wipc' = "cs" /\ errst' = "used" /\ UNCHANGED <<wirv, pvars>>
         [] errst = "closed" -> wipc' = "done" /\ UNCHANGED errst /\ PRetWI("canceled") /\ wirv' = "canceled"
    /\ UNCHANGED <<sc, running, queue, js, ppc, pip, wiwch, wictx, wspc, wswch, wsctx, wsk, wsrv>>

CancelWI ==
    /\ Gate /\ S.wic.on /\ S.wic.cancel /\ wipc \in {"cs", "sel"} /\ ~wictx
    /\ wictx' = TRUE
    /\ UNCHANGED <<sc, running, queue, js, ppc, pip, wipc, wiwch, errst, wspc, wswch, wsctx, wsk, rvars, pvars>>

FireErr ==
    /\ Gate /\ S.wic.on /\ S.wic.errch # "none" /\ wipc \in {"cs", "sel"} /\ errst = "none"
    /\ errst' = (IF S.wic.errch = "close" THEN "closed" ELSE S.wic.errch)
    /\ UNCHANGED <<sc, running, queue, js, ppc, pip, wipc, wiwch, wictx, wspc, wswch, wsctx, wsk, rvars, pvars>>

-----------------------------------------------------------------------------
(* WatchState *)

CallWS ==
    /\ Gate /\ S.wsc.on /\ wspc = "idle"
    /\ wspc' = "cs"
    /\ UNCHANGED <<sc, running, queue, js, ppc, pip, wipc, wiwch, wictx, errst, wswch, wsctx, wsk, rvars, pvars>>

Answer == IF wsk + 1 <= Len(S.wsc.script) THEN S.wsc.script[wsk + 1] ELSE "false"

\* queue.go:120-128: sample under the lock, then call the callback (same step: no lock in between)
WSCS ==
    /\ Gate /\ wspc = "cs"
    /\ wswch' = "cur"
    /\ wsk' = wsk + 1
    /\ PWatch(Len(queue), running)
    /\ wspc' = (IF Answer = "true" THEN "sel" ELSE "done")
    /\ wsrv' = (IF Answer = "true" THEN wsrv ELSE IF Answer = "err" THEN "E1" ELSE "nil")   \* queue.go:125-128: return err
    /\ UNCHANGED <<sc, running, queue, js, ppc, pip, wipc, wiwch, wictx, errst, wsctx, wirv>>

WSWake ==
    /\ sc # 0 /\ wspc = "sel" /\ wswch = "closed"
    /\ wspc' = "cs"
    /\ UNCHANGED <<sc, running, queue, js, ppc, pip, wipc, wiwch, wictx, errst, wswch, wsctx, wsk, rvars, pvars>>

WSWakeCtx ==
    /\ sc # 0 /\ wspc = "sel" /\ wsctx
    /\ wspc' = "done" /\ wsrv' = "canceled"
    /\ UNCHANGED <<sc, running, queue, js, ppc, pip, wipc, wiwch, wictx, errst, wswch, wsctx, wsk, wirv, pvars>>

CancelWS ==
    /\ Gate /\ S.wsc.on /\ S.wsc.cancel /\ wspc \in {"cs", "sel"} /\ ~wsctx
    /\ wsctx' = TRUE
    /\ UNCHANGED <<sc, running, queue, js, ppc, pip, wipc, wiwch, wictx, errst, wspc, wswch, wsk, rvars, pvars>>

-----------------------------------------------------------------------------
Next ==
    \/ \E k \in 1..Len(Scens) : Choose(k)
    \/ \E p \in 1..MaxP : Call(p) \/ EnqCS(p)
    \/ \E j \in Jobs : Start(j) \/ Fin(j) \/ WorkerCS(j) \/ NilCS(j)
    \/ CallWI \/ WICS \/ WIWake \/ WIWakeCtx \/ WIWakeErr \/ CancelWI \/ FireErr
    \/ CallWS \/ WSCS \/ WSWake \/ WSWakeCtx \/ CancelWS

Spec == Init /\ [][Next]_vars

-----------------------------------------------------------------------------
Ready == {j \in Jobs : js[j] = "ready"}

LibQuiet ==
    /\ sc # 0 /\ ~Silent
    /\ \A p \in 1..MaxP : ppc[p] = "idle"
    /\ wipc # "cs" /\ wspc # "cs"
    /\ \A j \in Jobs : js[j] \notin {"left", "held"}

AllDone ==
    /\ sc # 0
    /\ \A p \in 1..NP : ppc[p] = "idle" /\ pip[p] > Len(Prods[p])
    /\ \A j \in Jobs : js[j] \in {"new", "fin"}

TypeOK ==
    /\ running \in 0..MaxJ
    /\ wipc \in {"idle", "cs", "sel", "done"} /\ wspc \in {"idle", "cs", "sel", "done"}
    /\ \A j \in Jobs : js[j] \in {"new", "queued", "ready", "run", "left", "held", "fin"}
    /\ \A j \in Jobs : js[j] \in {"ready", "run", "left"} => (sc # 0 /\ j \notin Nils)
    /\ \A j \in Jobs : js[j] = "held" => (sc # 0 /\ j \in Nils)

\* implementation invariants
Counter == sc # 0 => running = Cardinality({j \in Jobs : js[j] \in {"ready", "run", "left", "held"}})
QueueAgree == sc # 0 => SeqSet(queue) = {j \in Jobs : js[j] = "queued"}
Full == (sc # 0 /\ queue # <<>>) => (~Unlimited /\ running = Limit)
Bounded == (sc # 0 /\ ~Unlimited) => running <= Limit
\* liveness as safety (model level only; C18 does not demand it): an idle queue wakes WaitIdle
WIIdleWakes == (LibQuiet /\ wipc = "sel") => ~(running = 0 /\ queue = <<>>)
\* ... and everything handed over has run once everything is done
DoneAllRan == AllDone => \A j \in enqd : runc[j] = (IF j \in Nils THEN 0 ELSE 1)
\* X-level reading of "idle means done" including nil jobs: in the state in which WaitIdle answers nil
\* (WICS) every job that was handed over has been taken by a worker and given up again -- a nil job is
\* finished once the worker that took it has been through its next critical section
IdleAllTaken == (sc # 0 /\ running = 0 /\ queue = <<>>) => \A j \in Jobs : js[j] \in {"new", "fin"}
\* the monitor was told about exactly the nil jobs handed over so far
NilAgree == sc # 0 => nilj = Nils \cap DOMAIN runc
QuietInv == LibQuiet => QuietOK(Ready)
ModelSafe == Safe_C18 /\ NoHarnessError
=============================================================================
