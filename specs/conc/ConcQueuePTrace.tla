--------------------------- MODULE ConcQueuePTrace ---------------------------
(* Replays an ndjson trace recorded from the real conc.ConcurrentQueue through ConcQueueP.   *)
(* Deterministic: one state per event; every failed condition is collected and written to    *)
(* VERDICT_FILE.                                                                            *)
EXTENDS ConcQueueP, TraceLib

VARIABLES l, viol, seen, vnames

tvars == <<l, viol, seen, vnames>>

TInit == PInit /\ l = 1 /\ viol = <<>> /\ seen = {} /\ vnames = {}

FreshV == Violated \ seen
\* Keep the verdict small when thousands of executions fail the same way (the sequence is part
\* of the state): the first MaxViol failures are recorded, later ones only if they show a
\* condition that has not been recorded yet.
MaxViol == 200
Keep == l > 1 /\ FreshV # {} /\ (Len(viol) < MaxViol \/ FreshV \ vnames # {})
Recorded ==
    IF Keep
    THEN Append(viol, [run |-> Trace[l-1].run, seq |-> Trace[l-1].seq, names |-> FreshV, l |-> l - 1])
    ELSE viol
NamesNow == IF Keep THEN vnames \cup FreshV ELSE vnames

\* ids of the nil funcs among the jobs of a new / call enq event (traces recorded before nil jobs
\* were part of the input space have no such field: no nil jobs)
NilsOf(e) == IF "nils" \in DOMAIN e THEN SeqToSet(e.nils) ELSE {}

Apply(e) ==
    CASE e.ev = "reset"   -> PReset
      [] e.ev = "new"     -> PNew(e.limit, e.jobs, NilsOf(e))
      [] e.ev = "call" /\ e.op = "enq"      -> PCallEnq(e.c, e.jobs, NilsOf(e))
      [] e.ev = "ret"  /\ e.op = "enq"      -> PRetEnq(e.c, e.q, e.r)
      [] e.ev = "call" /\ e.op = "waitidle" -> PCallWI
      [] e.ev = "ret"  /\ e.op = "waitidle" -> PRetWI(e.res)
      [] e.ev \in {"call", "ret"} /\ e.op = "watch" -> UNCHANGED pvars
      [] e.ev = "enter"   -> PEnter(e.job)
      [] e.ev = "leave"   -> PLeave(e.job)
      [] e.ev = "watch"   -> PWatch(e.q, e.r)
      [] e.ev = "quiet"   -> PQuiet(SeqToSet(e.ready))
      [] e.ev = "final"   -> PFinal
      [] e.ev \in {"cancel", "fire", "leak", "note", "end", "spin"} -> UNCHANGED pvars
      \* controller-level events of traces recorded with -logsteps (judged by ConcQueueXTrace.tla only)
      [] e.ev \in {"step", "scen", "teardown"} -> UNCHANGED pvars
      [] OTHER            -> /\ bad' = bad \cup {"Unexplained"}
                             /\ UNCHANGED <<limit, enqd, pend, pre, runc, active, fin, nilj, wi, wiSnap>>

TStep ==
    /\ l <= Len(Trace)
    /\ viol' = Recorded
    /\ vnames' = NamesNow
    /\ seen' = IF Trace[l].ev = "reset" THEN {} ELSE seen \cup Violated
    /\ Apply(Trace[l])
    /\ l' = l + 1

TFinish ==
    /\ l = Len(Trace) + 1
    /\ viol' = Recorded
    /\ vnames' = NamesNow
    /\ WriteVerdict(viol', Len(Trace))
    /\ l' = l + 1
    /\ UNCHANGED <<pvars, seen>>

TNext == TStep \/ TFinish
TSpec == TInit /\ [][TNext]_<<pvars, tvars>>
=============================================================================
