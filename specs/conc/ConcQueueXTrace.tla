-------------------------- MODULE ConcQueueXTrace --------------------------
(* X-level trace validation (advisory, DESIGN §2.5) for conc.ConcurrentQueue.                    *)
(*                                                                                              *)
(* Executions recorded from the real code with every controller step logged (-logsteps) are      *)
(* replayed through the actions of ConcQueue.tla itself; one TLC state per event.  One TLC run   *)
(* covers all scenarios of the constant Scens: the driver logs which one a run uses ("scen",     *)
(* k = index into Scens) and the replay takes Choose(k) (which includes the constructor).        *)
(* The free-running burst mode of the driver has no controller steps and is not validated here.  *)
(*                                                                                              *)
(*   step label               action of ConcQueue.tla that must be enabled                        *)
(*   call:pN / grant:pN       Call(N) / EnqCS(N)                                                  *)
(*   enter:jN fin:jN wcs:jN   Start(N) / Fin(N) / WorkerCS(N)                                     *)
(*   wcs:nil  wcs:nil#2 ...   NilCS(k): a worker that holds a nil job takes the lock.  Such       *)
(*                            workers cannot be told apart (the driver does not know which nil    *)
(*                            job a goroutine was given, and it makes no difference): the replay  *)
(*                            takes the held nil job with the smallest id.                        *)
(*   call:wi grant:wi         CallWI / WICS          cancel:wi  CancelWI       errch  FireErr     *)
(*   call:ws grant:ws         CallWS / WSCS          cancel:ws  CancelWS                          *)
(*                                                                                              *)
(* The select wake-ups that the real goroutines perform within the same controller step (X's     *)
(* `Silent` steps WIWake, WIWakeCtx, WIWakeErr, WSWake, WSWakeCtx) are taken eagerly after the    *)
(* labelled action by action composition (TLC option tlc2.tool.impl.Tool.cdot).  Where Go's      *)
(* select may take either of several ready cases (context cancelled and error channel fired      *)
(* before WaitIdle reached the select) the case is read off the trace: the return of the call    *)
(* logged within this step (or its absence) tells which one was taken.                           *)
(*                                                                                              *)
(* The API-level events logged between two steps are assertions on the spec's state after the    *)
(* step: new (limit, jobs handed over, which of them are nil), call/ret of Enqueue (the pending  *)
(* batch and which of its jobs are nil; the returned pair must be (Len(queue), running)),        *)
(* enter/leave (js), call/ret of WaitIdle and WatchState                                         *)
(* (pc and wirv / wsrv), watch (k-th callback and its pair), cancel, fire, quiet (LibQuiet and   *)
(* exactly the logged set of jobs about to start); and when the controller ran out of moves no   *)
(* labelled action may be enabled in the spec.  A mismatch is DRIFT (recorded, the rest of that  *)
(* run is skipped); it never is a verdict.                                                       *)
EXTENDS ConcQueue, TraceLib

VARIABLES l, drift, live, nst, nw
tv == <<l, drift, live, nst, nw>>

XReset ==
    /\ PReset
    /\ sc' = 0 /\ running' = 0 /\ queue' = <<>>
    /\ js' = [j \in Jobs |-> "new"]
    /\ ppc' = [p \in 1..MaxP |-> "idle"] /\ pip' = [p \in 1..MaxP |-> 1]
    /\ wipc' = "idle" /\ wiwch' = "none" /\ wictx' = FALSE /\ errst' = "none"
    /\ wspc' = "idle" /\ wswch' = "none" /\ wsctx' = FALSE /\ wsk' = 0
    /\ wirv' = "" /\ wsrv' = ""

TInit == Init /\ l = 1 /\ drift = <<>> /\ live = TRUE /\ nst = 0 /\ nw = 0

-----------------------------------------------------------------------------
(* labels *)
Pre(lbl, s) == Len(lbl) >= Len(s) /\ SubSeq(lbl, 1, Len(s)) = s
Kind(lbl) == IF Pre(lbl, "call:p") THEN "call"
             ELSE IF Pre(lbl, "grant:p") THEN "enqcs"
             ELSE IF Pre(lbl, "enter:j") THEN "start"
             ELSE IF Pre(lbl, "fin:j") THEN "fin"
             ELSE IF Pre(lbl, "wcs:j") THEN "wcs"
             ELSE IF Pre(lbl, "wcs:nil") THEN "nilcs"
             ELSE IF lbl \in {"call:wi", "grant:wi", "cancel:wi", "errch", "call:ws", "grant:ws", "cancel:ws"} THEN lbl
             ELSE "?"
Digit(c) == CASE c = "1" -> 1 [] c = "2" -> 2 [] c = "3" -> 3 [] c = "4" -> 4 [] c = "5" -> 5 [] c = "6" -> 6 [] OTHER -> 0
Num(lbl) == Digit(SubSeq(lbl, Len(lbl), Len(lbl)))
PIdx(c) == IF c = "p1" THEN 1 ELSE IF c = "p2" THEN 2 ELSE 0
Held == {j \in Jobs : js[j] = "held"}
MinHeld == CHOOSE j \in Held : \A k \in Held : j <= k
NilsOf(e) == IF "nils" \in DOMAIN e THEN SeqToSet(e.nils) ELSE {}

-----------------------------------------------------------------------------
(* the events logged within the current step: Trace[l+1] .. up to the next step *)
Boundary(e) == e.ev \in {"step", "reset", "teardown", "end"}
RECURSIVE WinEnd(_)
WinEnd(i) == IF i > Len(Trace) \/ Boundary(Trace[i]) THEN i ELSE WinEnd(i + 1)
Win == (l + 1)..(WinEnd(l + 1) - 1)
\* result of the call of `op` that returns within this step, "" if none does
RetAhead(op) == IF \E i \in Win : Trace[i].ev = "ret" /\ Trace[i].op = op
                THEN Trace[CHOOSE i \in Win : Trace[i].ev = "ret" /\ Trace[i].op = op].res ELSE ""

CanAct(k, n) ==
    /\ sc # 0
    /\ CASE k = "call"      -> n \in 1..MaxP /\ ENABLED Call(n)
         [] k = "enqcs"     -> n \in 1..MaxP /\ ENABLED EnqCS(n)
         [] k = "start"     -> n \in Jobs /\ ENABLED Start(n)
         [] k = "fin"       -> n \in Jobs /\ ENABLED Fin(n)
         [] k = "wcs"       -> n \in Jobs /\ ENABLED WorkerCS(n)
         [] k = "nilcs"     -> Held # {} /\ ENABLED NilCS(MinHeld)
         [] k = "call:wi"   -> ENABLED CallWI
         [] k = "grant:wi"  -> ENABLED WICS
         [] k = "cancel:wi" -> ENABLED CancelWI
         [] k = "errch"     -> ENABLED FireErr
         [] k = "call:ws"   -> ENABLED CallWS
         [] k = "grant:ws"  -> ENABLED WSCS
         [] k = "cancel:ws" -> ENABLED CancelWS
         [] OTHER -> FALSE

Act(k, n) ==
    /\ UNCHANGED <<l, drift, live, nw>> /\ nst' = nst + 1
    /\ CASE k = "call"      -> Call(n)
         [] k = "enqcs"     -> EnqCS(n)
         [] k = "start"     -> Start(n)
         [] k = "fin"       -> Fin(n)
         [] k = "wcs"       -> WorkerCS(n)
         [] k = "nilcs"     -> NilCS(MinHeld)
         [] k = "call:wi"   -> CallWI
         [] k = "grant:wi"  -> WICS
         [] k = "cancel:wi" -> CancelWI
         [] k = "errch"     -> FireErr
         [] k = "call:ws"   -> CallWS
         [] k = "grant:ws"  -> WSCS
         [] k = "cancel:ws" -> CancelWS

WISilent == wipc = "sel" /\ (wiwch = "closed" \/ wictx \/ errst \in {"err", "nil", "closed"})
WSSilent == wspc = "sel" /\ (wswch = "closed" \/ wsctx)

\* the woken WaitIdle select: the case Go took is the one that explains what is logged in this step
WIW == LET r == RetAhead("waitidle") IN
       IF r = "E1" /\ errst = "err" THEN WIWakeErr
       ELSE IF r = "canceled" /\ wictx THEN WIWakeCtx
       ELSE IF r = "canceled" /\ errst = "closed" THEN WIWakeErr
       ELSE IF r = "" /\ wiwch = "closed" THEN WIWake
       ELSE IF r = "" /\ errst = "nil" THEN WIWakeErr
       ELSE IF wiwch = "closed" THEN WIWake ELSE IF wictx THEN WIWakeCtx ELSE WIWakeErr
WSW == LET r == RetAhead("watch") IN
       IF r = "canceled" /\ wsctx THEN WSWakeCtx
       ELSE IF wswch = "closed" THEN WSWake ELSE WSWakeCtx

\* one eager step (deterministic), or nothing
W ==
    /\ UNCHANGED tv
    /\ IF sc = 0 \/ ~Silent THEN UNCHANGED vars
       ELSE IF WISilent THEN WIW ELSE WSW

Fin0 == UNCHANGED <<vars, drift, live, nst, nw>> /\ l' = l + 1

Drift(why) ==
    /\ drift' = Append(drift, [run |-> Trace[l].run, seq |-> Trace[l].seq, why |-> why])
    /\ live' = FALSE
    /\ l' = l + 1
    /\ UNCHANGED <<vars, nst, nw>>

Check(ok, why) == IF ok THEN Fin0 ELSE Drift(why)

\* a labelled action (a controller move) is possible
AnyMove ==
    /\ sc # 0
    /\ \/ \E p \in 1..MaxP : ENABLED (Call(p) \/ EnqCS(p))
       \/ \E j \in Jobs : ENABLED (Start(j) \/ Fin(j) \/ WorkerCS(j) \/ NilCS(j))
       \/ ENABLED (CallWI \/ WICS \/ CancelWI \/ FireErr \/ CallWS \/ WSCS \/ CancelWS)

TStep ==
    /\ l <= Len(Trace)
    /\ LET e == Trace[l] IN
       CASE e.ev = "reset" -> XReset /\ l' = l + 1 /\ live' = TRUE /\ nw' = 0 /\ UNCHANGED <<drift, nst>>
         [] ~live -> UNCHANGED <<vars, drift, live, nst, nw>> /\ l' = l + 1
         [] e.ev = "scen" ->
              IF sc = 0 /\ e.k \in 1..Len(Scens) THEN Choose(e.k) /\ l' = l + 1 /\ UNCHANGED <<drift, live, nst, nw>>
              ELSE Drift("scenario not among the constants of the spec")
         [] sc = 0 -> Drift("no scenario chosen")
         [] e.ev = "step" ->
              LET k == Kind(e.label) n == Num(e.label) IN
              IF Silent THEN Drift("spec not settled before step " \o e.label)
              ELSE IF ~CanAct(k, n) THEN Drift("step not enabled: " \o e.label)
              ELSE Act(k, n) \cdot W \cdot W \cdot W \cdot Fin0
         [] e.ev = "new" ->
              Check(limit = e.limit /\ enqd = SeqToSet(e.jobs) /\ S.init = e.jobs /\ NilsOf(e) = Nils \cap SeqToSet(e.jobs) /\ nilj = NilsOf(e),
                    "constructor not explained by the spec")
         [] e.ev = "call" /\ e.op = "enq" ->
              Check(PIdx(e.c) \in 1..MaxP /\ ppc[PIdx(e.c)] = "cs" /\ e.c \in DOMAIN pend /\ pend[e.c] = e.jobs
                    /\ NilsOf(e) = Nils \cap SeqToSet(e.jobs) /\ NilsOf(e) \subseteq nilj,
                    "Enqueue call not explained by the spec")
         [] e.ev = "ret" /\ e.op = "enq" ->
              Check(PIdx(e.c) \in 1..MaxP /\ ppc[PIdx(e.c)] = "idle" /\ e.c \in DOMAIN pend /\ pend[e.c] = <<>>
                    /\ e.q = Len(queue) /\ e.r = running, "Enqueue return not explained by the spec")
         [] e.ev = "enter" ->
              Check(e.job \in Jobs /\ js[e.job] = "run" /\ e.job \in DOMAIN runc /\ runc[e.job] = 1, "enter not explained by the spec")
         [] e.ev = "leave" ->
              Check(e.job \in Jobs /\ js[e.job] = "left" /\ e.job \in fin, "leave not explained by the spec")
         [] e.ev = "call" /\ e.op = "waitidle" -> Check(wipc = "cs" /\ wi = "open", "WaitIdle call not explained by the spec")
         [] e.ev = "ret" /\ e.op = "waitidle" ->
              Check(wipc = "done" /\ wirv = e.res /\ wi = "none", "WaitIdle return not explained by the spec")
         [] e.ev = "call" /\ e.op = "watch" -> Check(wspc = "cs", "WatchState call not explained by the spec")
         [] e.ev = "ret" /\ e.op = "watch" ->
              Check(wspc = "done" /\ wsrv = e.res, "WatchState return not explained by the spec")
         [] e.ev = "watch" ->
              IF wsk = nw + 1 /\ e.q = Len(queue) /\ e.r = running
              THEN nw' = nw + 1 /\ l' = l + 1 /\ UNCHANGED <<vars, drift, live, nst>>
              ELSE Drift("WatchState callback not explained by the spec")
         [] e.ev = "cancel" ->
              Check((e.who = "wi" /\ wictx) \/ (e.who = "ws" /\ wsctx), "cancel not explained by the spec")
         [] e.ev = "fire" -> Check(errst # "none" /\ S.wic.errch = e.what, "error channel event not explained by the spec")
         [] e.ev = "quiet" ->
              Check(LibQuiet /\ Ready = SeqToSet(e.ready), "quiescent observation differs")
         [] e.ev = "teardown" ->
              IF e.exhausted /\ (Silent \/ AnyMove)
              THEN Drift("controller ran out of moves but the spec has one")
              ELSE UNCHANGED <<vars, drift, nst, nw>> /\ live' = FALSE /\ l' = l + 1
         [] OTHER -> Fin0

TFinish ==
    /\ l = Len(Trace) + 1
    /\ JsonSerialize(IOEnv.VERDICT_FILE, [drift |-> drift, consumed |-> Len(Trace), total |-> Len(Trace), steps |-> nst])
    /\ l' = l + 1
    /\ UNCHANGED <<vars, drift, live, nst, nw>>

TNext == TStep \/ TFinish
=============================================================================
