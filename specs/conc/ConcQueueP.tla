----------------------------- MODULE ConcQueueP -----------------------------
(* Property monitor for conc.ConcurrentQueue (C18).                                          *)
(*                                                                                          *)
(* API-level state only: the limit, which jobs were handed to the queue (and by which call), *)
(* how often each job function was invoked, which jobs are inside their function, which have *)
(* returned, and what WaitIdle was promised.  Events:                                        *)
(*   new(limit, jobs, nils)  NewConcurrentQueue(limit, jobs...) returned; nils: the ids of   *)
(*                           those positions of the list that hold a nil func                *)
(*   call enq(c, jobs, nils) client c calls Enqueue(jobs...); nils as above                  *)
(*   ret  enq(c, q, r)       ... it returned (queued, running) = (q, r)                      *)
(*   enter(job) / leave(job) the job function is invoked / returns                           *)
(*   call waitidle / ret waitidle(res)                                                       *)
(*   watch(q, r)             the WatchState callback was called with (q, r)                  *)
(*   quiet(ready)            controller observation: no library-internal step is possible;   *)
(*                           ready = jobs whose function the library has invoked but whose   *)
(*                           body the controller has not let start yet                       *)
(*   final                   everything was allowed to finish                                *)
(*                                                                                          *)
(* Interpretation of the statement (weaker readings where it is ambiguous):                  *)
(*  I1 "executing" = between enter and leave of the job function.                            *)
(*  I2 "runs every enqueued job exactly once": never invoked twice (Twice); invoked once     *)
(*     everything has been allowed to finish (Lost at final), and a job that is neither      *)
(*     started nor about to start while nothing runs and the library cannot move is lost     *)
(*     for good (Lost at quiet).  No deadline is demanded while other jobs still run.        *)
(*  I3 "with n=1 runs them in enqueue order": enqueue order is only observable as real-time  *)
(*     order of Enqueue calls: j' precedes j if j' is earlier in the same Enqueue call (or   *)
(*     in the constructor's list), or the call carrying j' had returned before the call      *)
(*     carrying j started.  Overlapping Enqueue calls may be ordered either way.             *)
(*  I4 "queued>0 only if running equals the limit" is checked for limit > 0 only; for an     *)
(*     unlimited queue (limit <= 0) the pairs are left unconstrained (the literal reading    *)
(*     "running = 0" makes no sense and "queued = 0" is not what the statement says).        *)
(*  I5 "WaitIdle returns nil only when every job enqueued before it was called has           *)
(*     finished": jobs whose Enqueue (or the constructor) had returned before the WaitIdle   *)
(*     call started must have left their function.  Other results of WaitIdle, the result    *)
(*     of WatchState, and whether/when they return at all are not constrained by C18.        *)
(*  I6 nil jobs.  A nil func is a legal job (the worker skips the call); it has an id like   *)
(*     every other job but there is no user code, hence no enter/leave and nothing at the    *)
(*     API that tells when a worker has taken it.  The statement does not mention nil jobs;  *)
(*     the weaker reading is taken everywhere:                                               *)
(*     - "runs every enqueued job exactly once" (Twice, Lost) speaks about non-nil jobs      *)
(*       only; a nil job is never "lost" and nothing is demanded about it.  But a nil job    *)
(*       does not excuse anything either: a non-nil job behind it must still run (Lost at    *)
(*       quiet / final is evaluated over all non-nil jobs handed over).                      *)
(*     - "never more than n executing" counts jobs inside their function: a nil job never    *)
(*       counts (although it occupies a worker in the code for one critical section).        *)
(*     - "n=1 runs them in enqueue order" is order among the non-nil jobs; nil jobs are      *)
(*       transparent (a predecessor that is nil is never waited for).                        *)
(*     - "every job enqueued before it was called has finished": a nil job is finished once  *)
(*       a worker has taken it, which is not observable -- so a nil job in the snapshot is   *)
(*       counted as finished from the start (never the reason for IdleEarly).                *)
(*     - the pairs (queued, running) are judged exactly as before (Pair): they are numbers   *)
(*       returned by the API, whatever kind of job is behind them.  The monitor does not     *)
(*       relate the numbers to its own job sets (the statement does not).                    *)
(*     An enter event of a job that was handed over as nil is a harness error.               *)
EXTENDS Naturals, FiniteSets, Sequences, TLC

VARIABLES
    limit,    \* maxConcurrency as passed to the constructor
    enqd,     \* jobs whose Enqueue call (or the constructor) has returned
    pend,     \* client -> jobs of its Enqueue call in flight (<<>> if none)
    pre,      \* job -> jobs that precede it in enqueue order (I3)
    runc,     \* job -> number of invocations
    active,   \* jobs inside their function
    fin,      \* jobs that have returned
    nilj,     \* jobs that were handed over as nil funcs (I6)
    wi,       \* "none" | "open": a WaitIdle call is in flight
    wiSnap,   \* enqd at the time of the WaitIdle call
    bad

pvars == <<limit, enqd, pend, pre, runc, active, fin, nilj, wi, wiSnap, bad>>

PInit ==
    /\ limit = 0 /\ enqd = {} /\ pend = <<>> /\ pre = <<>> /\ runc = <<>>
    /\ active = {} /\ fin = {} /\ nilj = {} /\ wi = "none" /\ wiSnap = {} /\ bad = {}

PReset ==
    /\ limit' = 0 /\ enqd' = {} /\ pend' = <<>> /\ pre' = <<>> /\ runc' = <<>>
    /\ active' = {} /\ fin' = {} /\ nilj' = {} /\ wi' = "none" /\ wiSnap' = {} /\ bad' = {}

SeqSet(s) == {s[i] : i \in 1..Len(s)}
Earlier(s, i) == {s[k] : k \in 1..(i-1)}
Known == DOMAIN runc

\* jobs handed over in one call: each is preceded by base and by the earlier ones of the call
PreOf(jobs, base) == [j \in SeqSet(jobs) |-> base \cup Earlier(jobs, CHOOSE i \in 1..Len(jobs) : jobs[i] = j)]
Fresh(jobs) == /\ SeqSet(jobs) \cap Known = {}
               /\ Cardinality(SeqSet(jobs)) = Len(jobs)

\* nils: the set of ids (a subset of the ids in jobs) whose func is nil
PNew(lim, jobs, nils) ==
    /\ limit' = lim
    /\ enqd' = SeqSet(jobs)
    /\ pre' = PreOf(jobs, {})
    /\ runc' = [j \in SeqSet(jobs) |-> 0]
    /\ nilj' = nils
    /\ bad' = bad \cup (IF Fresh(jobs) /\ nils \subseteq SeqSet(jobs) THEN {} ELSE {"Harness"})
    /\ UNCHANGED <<pend, active, fin, wi, wiSnap>>

PCallEnq(c, jobs, nils) ==
    /\ pend' = (c :> jobs) @@ pend
    /\ pre' = PreOf(jobs, enqd) @@ pre
    /\ runc' = [j \in SeqSet(jobs) |-> 0] @@ runc
    /\ nilj' = nilj \cup nils
    /\ bad' = bad \cup (IF Fresh(jobs) /\ nils \subseteq SeqSet(jobs) /\ (c \notin DOMAIN pend \/ pend[c] = <<>>) THEN {} ELSE {"Harness"})
    /\ UNCHANGED <<limit, enqd, active, fin, wi, wiSnap>>

PairBad(q, r) == IF limit > 0 /\ q > 0 /\ r # limit THEN {"Pair"} ELSE {}

PRetEnq(c, q, r) ==
    IF c \notin DOMAIN pend
    THEN /\ bad' = bad \cup {"Harness"} /\ UNCHANGED <<limit, enqd, pend, pre, runc, active, fin, nilj, wi, wiSnap>>
    ELSE
    /\ enqd' = enqd \cup SeqSet(pend[c])
    /\ pend' = [pend EXCEPT ![c] = <<>>]
    /\ bad' = bad \cup PairBad(q, r)
    /\ UNCHANGED <<limit, pre, runc, active, fin, nilj, wi, wiSnap>>

\* (a nil job has no function that could be entered: I6)
PEnter(j) ==
    IF j \notin Known \/ j \in nilj
    THEN /\ bad' = bad \cup {"Harness"} /\ UNCHANGED <<limit, enqd, pend, pre, runc, active, fin, nilj, wi, wiSnap>>
    ELSE
    /\ runc' = [runc EXCEPT ![j] = @ + 1]
    /\ active' = active \cup {j}
    /\ bad' = bad
        \cup (IF runc[j] >= 1 THEN {"Twice"} ELSE {})
        \cup (IF limit > 0 /\ Cardinality(active \cup {j}) > limit THEN {"Limit"} ELSE {})
        \cup (IF limit = 1 /\ \E k \in pre[j] \ nilj : runc[k] = 0 THEN {"Order"} ELSE {})
    /\ UNCHANGED <<limit, enqd, pend, pre, fin, nilj, wi, wiSnap>>

PLeave(j) ==
    /\ active' = active \ {j}
    /\ fin' = fin \cup {j}
    /\ bad' = bad \cup (IF j \in active THEN {} ELSE {"Harness"})
    /\ UNCHANGED <<limit, enqd, pend, pre, runc, nilj, wi, wiSnap>>

PCallWI ==
    /\ wi' = "open" /\ wiSnap' = enqd
    /\ bad' = bad \cup (IF wi = "open" THEN {"Harness"} ELSE {})
    /\ UNCHANGED <<limit, enqd, pend, pre, runc, active, fin, nilj>>

PRetWI(res) ==
    /\ wi' = "none"
    /\ bad' = bad
        \cup (IF wi # "open" THEN {"Harness"} ELSE {})
        \cup (IF res = "nil" /\ ~((wiSnap \ nilj) \subseteq fin) THEN {"IdleEarly"} ELSE {})
    /\ UNCHANGED <<limit, enqd, pend, pre, runc, active, fin, nilj, wiSnap>>

PWatch(q, r) ==
    /\ bad' = bad \cup PairBad(q, r)
    /\ UNCHANGED <<limit, enqd, pend, pre, runc, active, fin, nilj, wi, wiSnap>>

\* No library step possible, nothing running or about to run: a (non-nil) job that was handed
\* over and has not been invoked can never run without further calls.
Unrun == {j \in enqd \ nilj : runc[j] = 0}
QuietBad(ready) ==
    IF active = {} /\ ready = {} /\ Unrun # {} THEN {"Lost"} ELSE {}
QuietOK(ready) == QuietBad(ready) = {}

PQuiet(ready) ==
    /\ bad' = bad \cup QuietBad(ready)
    /\ UNCHANGED <<limit, enqd, pend, pre, runc, active, fin, nilj, wi, wiSnap>>

PFinal ==
    /\ bad' = bad \cup (IF Unrun # {} THEN {"Lost"} ELSE {})
    /\ UNCHANGED <<limit, enqd, pend, pre, runc, active, fin, nilj, wi, wiSnap>>

-----------------------------------------------------------------------------
Safe_C18 == bad \ {"Harness", "Unexplained"} = {}
NoHarnessError == "Harness" \notin bad
Violated == bad

PropertyOf == [Limit |-> "C18", Twice |-> "C18", Lost |-> "C18", Order |-> "C18", Pair |-> "C18", IdleEarly |-> "C18",
               Harness |-> "HARNESS", Unexplained |-> "HARNESS"]
=============================================================================
