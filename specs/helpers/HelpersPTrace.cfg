INIT TInit
NEXT TNext
CHECK_DEADLOCK FALSE
