------------------------------ MODULE HelpersOps ------------------------------
(* Implementation-shaped model of the helpers that are used call after call on one object,   *)
(* and generator of their operation sequences: the state graph (one object kind per initial  *)
(* state, at most MaxOps calls) is dumped, an edge cover of it gives the call sequences the   *)
(* driver replays on the real objects (the calls travel in the scenario).                    *)
(*   enabled  an accumulator of type Enabled: acc = acc.Merge(y), acc.IsEnabled(d),          *)
(*            acc.Validate()                                                                 *)
(*   cbw      iowriter.CallbackWriter with a scripted callback (returns count k -- also a    *)
(*            short or an out-of-range one -- and error class 0 nil / 1 A / 2 B), and        *)
(*   cbwnil   the same without a callback                                                    *)
(*   result   result.Result[int] objects 1..2: NewResult / GetValue / Compare                *)
(*   scrub    a 4-byte buffer: fill with a pattern, Scrub(buf[lo:hi])                        *)
EXTENDS HelpersP

CONSTANTS MaxOps, Kinds, EnVals, Datas, Counts, Errs, ResVals, ResErrs, Pats

VARIABLES kind, st, n
xvars == <<kind, st, n>>

TF(b) == IF b THEN "t" ELSE "f"
ErrName(m) == CASE m = 1 -> "A" [] m = 2 -> "B" [] OTHER -> ""
BufLen == 4
Pattern(p) == [i \in 1..BufLen |-> ((i * p) % 251) + 1]          \* never 0

InitSt(kd) == CASE kd = "enabled" -> 0 [] kd = "result" -> <<>> [] kd = "scrub" -> Pattern(1) [] OTHER -> 0

Init == PInit /\ kind \in Kinds /\ st = InitSt(kind) /\ n = 0

More == n < MaxOps
Did == n' = n + 1 /\ UNCHANGED kind

-----------------------------------------------------------------------------
(* enabled.go *)
ImplIs(x, d) == CASE x = 0 -> d [] x = 1 -> TRUE [] x = 2 -> FALSE [] OTHER -> d

EMerge(y) ==
    /\ kind = "enabled" /\ More
    /\ LET r == IF y = 0 THEN st ELSE y IN
       /\ Fire([ev |-> "en", op |-> "merge", x |-> st, y |-> y, d |-> FALSE, r |-> "ok", rv |-> r])
       /\ st' = r
    /\ Did

EIs(d) ==
    /\ kind = "enabled" /\ More
    /\ Fire([ev |-> "en", op |-> "is", x |-> st, y |-> 0, d |-> d, r |-> TF(ImplIs(st, d)), rv |-> -1])
    /\ UNCHANGED st /\ Did

EValidate ==
    /\ kind = "enabled" /\ More
    /\ Fire([ev |-> "en", op |-> "validate", x |-> st, y |-> 0, d |-> FALSE, r |-> (IF st \in {0, 1, 2} THEN "ok" ELSE "err"), rv |-> -1])
    /\ UNCHANGED st /\ Did

-----------------------------------------------------------------------------
(* iowriter/callback.go: `return w.cb(p)`; without a callback `return 0, errors.New(...)` *)
Write(p, k, m) ==
    /\ kind = "cbw" /\ More
    /\ Fire([ev |-> "cbw", nilcb |-> FALSE, p |-> p, pafter |-> p, calls |-> 1, seen |-> <<p>>,
             cbn |-> k, cberr |-> ErrName(m), n |-> k, err |-> ErrName(m), res |-> "ok"])
    /\ UNCHANGED st /\ Did

WriteNil(p, k, m) ==
    /\ kind = "cbwnil" /\ More
    /\ Fire([ev |-> "cbw", nilcb |-> TRUE, p |-> p, pafter |-> p, calls |-> 0, seen |-> <<>>,
             cbn |-> k, cberr |-> ErrName(m), n |-> 0, err |-> "other", res |-> "ok"])
    /\ UNCHANGED st /\ Did

-----------------------------------------------------------------------------
(* result/result.go: st = id -> [v, e] *)
RNew(id, v, e) ==
    /\ kind = "result" /\ More
    /\ Fire([ev |-> "res", op |-> "new", id |-> id, j |-> 0, v |-> v, e |-> e, gv |-> 0, ge |-> 0, r |-> "ok"])
    /\ st' = (id :> [v |-> v, e |-> e]) @@ st
    /\ Did

RGet(id) ==
    /\ kind = "result" /\ More /\ id \in DOMAIN st
    /\ Fire([ev |-> "res", op |-> "get", id |-> id, j |-> 0, v |-> 0, e |-> 0, gv |-> st[id].v, ge |-> st[id].e, r |-> "ok"])
    /\ UNCHANGED st /\ Did

\* r.val == ot.val && r.err == ot.err  (error values are compared by identity)
RCmp(i, j) ==
    /\ kind = "result" /\ More /\ i \in DOMAIN st /\ j \in DOMAIN st
    /\ Fire([ev |-> "res", op |-> "cmp", id |-> i, j |-> j, v |-> 0, e |-> 0, gv |-> 0, ge |-> 0,
             r |-> TF(st[i].v = st[j].v /\ st[i].e = st[j].e)])
    /\ UNCHANGED st /\ Did

-----------------------------------------------------------------------------
(* scrub/scrub.go: st = the parent buffer *)
SFill(p) ==
    /\ kind = "scrub" /\ More /\ st # Pattern(p)
    /\ st' = Pattern(p) /\ bad' = {} /\ UNCHANGED objs
    /\ Did

SScrub(lo, hi) ==
    /\ kind = "scrub" /\ More /\ lo <= hi
    /\ LET after == [i \in 1..BufLen |-> IF i > lo /\ i <= hi THEN 0 ELSE st[i]] IN
       /\ Fire([ev |-> "scrub", before |-> st, lo |-> lo, hi |-> hi, after |-> after, res |-> "ok"])
       /\ st' = after
    /\ Did

-----------------------------------------------------------------------------
Next ==
    \/ \E y \in EnVals : EMerge(y)
    \/ \E d \in BOOLEAN : EIs(d)
    \/ EValidate
    \/ \E p \in Datas, k \in Counts, m \in Errs : Write(p, k, m) \/ WriteNil(p, k, m)
    \/ \E id \in 1..2, v \in ResVals, e \in ResErrs : RNew(id, v, e)
    \/ \E id \in 1..2 : RGet(id)
    \/ \E i \in 1..2, j \in 1..2 : RCmp(i, j)
    \/ \E p \in Pats : SFill(p)
    \/ \E lo \in 0..BufLen, hi \in 0..BufLen : SScrub(lo, hi)

ModelSafe == bad \subseteq Advisory
=============================================================================
