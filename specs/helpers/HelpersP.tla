------------------------------- MODULE HelpersP -------------------------------
(* Property monitor / reference models for check X02 (spec growth beyond the 20 listed      *)
(* properties): the small sequential helpers of /repo -- filter.StringFilter, the Enabled   *)
(* enum, iowriter.CallbackWriter, result.Result, scrub.Scrub, util_bufio.SplitOnNul and     *)
(* vmime.IsValidMimeType.                                                                   *)
(*                                                                                          *)
(* An event is ONE evaluation (or one call) of the real code, logged with its inputs and    *)
(* its result; the monitor recomputes from the inputs what the doc comments / proto         *)
(* comments allow and puts the names of the clauses that fail into `bad`.  Strings are      *)
(* sequences of small integers (byte values).  [weak] marks places where the comments are   *)
(* silent and the weaker reading was taken.                                                 *)
(*                                                                                          *)
(* H1 filter (filter.proto: "All of the non-zero rules must match for the filter to match.  *)
(*    An empty filter matches any."; the field comments; filter.go)                         *)
(*  F1 a nil filter and a filter with no rule set match every value       (FilterNil,       *)
(*     FilterReject).                                                                       *)
(*  F2 CheckMatch(v) is the conjunction of the rules that are set: empty (v = ""),          *)
(*     not_empty (v # ""), value (v = value), values (non-empty list: v is one of them),    *)
(*     re, has_prefix, has_suffix, contains.  A result `true` while a set rule fails is     *)
(*     FilterAccept:<rule>, a result `false` while every set rule holds is FilterReject.    *)
(*     [weak] re: "matches the value against a regular expression" is read as Go's regexp   *)
(*     does ("the value contains a match").  Where a full-match reading would differ (the   *)
(*     regexp finds a match but not one spanning the whole value) the re rule is left       *)
(*     undecided: the event is judged only if some other rule fails.  Regular expressions   *)
(*     are restricted to the fixed list ReSrc below, each with a TLA+ predicate.            *)
(*  F3 a regular expression that does not compile: Validate fails (FilterValidate:accepted) *)
(*     and CheckMatch returns false for every value (FilterInvalidRe; filter.go: "checked   *)
(*     in Validate but treat it as a fail").                                                *)
(*  F4 [weak] "Validate validates the string filter" does not say what else is invalid.     *)
(*     Demanded only: Validate succeeds on a nil filter and on a filter whose re is unset   *)
(*     or compiles AND that matches at least one of the probe values of the event (a filter *)
(*     that demonstrably matches something is valid under every reading)                    *)
(*     (FilterValidate:rejected).  Filters that match no probe are not judged.              *)
(*  F5 no call panics (FilterPanic).                                                        *)
(*  Not covered: the generated code of filter.pb.go (clone / equal / marshal).              *)
(*                                                                                          *)
(* H2 enabled (enabled.proto, enabled.go)                                                   *)
(*  E1 IsEnabled(d): DEFAULT -> d, ENABLE -> true, DISABLE -> false          (EnabledIs).   *)
(*  E2 Validate: nil iff the value is DEFAULT, ENABLE or DISABLE        (EnabledValidate).  *)
(*  E3 x.Merge(y) = y if y is not DEFAULT, else x                          (EnabledMerge).  *)
(*  [weak] for values outside the enum only E2 is judged (IsEnabled / Merge are silent).    *)
(*                                                                                          *)
(* H3 iowriter.CallbackWriter ("an io.Writer which calls a callback"; "Write calls the      *)
(*    callback function with the given byte slice.  It returns an error if the callback is  *)
(*    not defined.")                                                                        *)
(*  W1 a Write on a writer with a callback calls it exactly once (CbwCalls) with exactly    *)
(*     the bytes of p (CbwData; [weak] equal contents, not the same backing array) and does *)
(*     not modify p (io.Writer) (CbwData).                                                  *)
(*  W2 Write returns what the callback returned: the count (CbwCount) -- whatever it is,    *)
(*     short and out-of-range counts included -- and the very error value (CbwErr).         *)
(*     [reading] the comment does not spell out the return value; cb has Write's own        *)
(*     signature and the pinned test expects the callback's error and count back.           *)
(*  W3 without a callback Write returns a non-nil error and, being an io.Writer, a count in *)
(*     0..len(p); no panic (CbwNil).                                                        *)
(*                                                                                          *)
(* H4 tiny helpers                                                                          *)
(*  R1 result: GetValue returns the (value, error) the Result was constructed with          *)
(*     (ResultGet).  R2 Compare is true iff values and errors are equal (ResultCompare);    *)
(*     [weak] "equal" errors: both nil or the same error value -> equal; one nil, or two    *)
(*     errors with different messages -> different; two distinct error values with the same *)
(*     message -> not judged.  Compare(nil) is not exercised.                               *)
(*  S1 scrub: after Scrub(buf) every byte of buf is 0 (ScrubZero).  [weak] bytes outside    *)
(*     buf (beyond len, within cap) are recorded as ScrubOutside, which maps to no property.*)
(*  N1 bufio.SplitOnNul ("a bufio.SplitFunc that splits on NUL characters"): data with a    *)
(*     first NUL at index i -> (i+1, data[:i], nil); data without NUL and not at EOF ->     *)
(*     (0, nil, nil) ("need more data", the only way a SplitFunc can go on) (NulSplit).     *)
(*     [weak] data without NUL at EOF: both dropping it (0, nil, nil) and delivering it as  *)
(*     the final token are accepted; the code drops it -- recorded as NulTailDropped, which *)
(*     maps to no property.  N2 a bufio.Scanner using it yields exactly the NUL-terminated  *)
(*     segments in order (plus possibly the unterminated tail) and no error (NulScan).      *)
(*  M1 vmime.IsValidMimeType(s) iff s matches the exported, documented MimeTypeRe           *)
(*     `^[-\w.]+/[-\w.]+$`: exactly one "/", with a non-empty run of ASCII letters, digits, *)
(*     "_", "-", "." on each side, nothing else (no trailing newline) (MimeValid).          *)
(*     [reading] the comment says only "valid mime type"; the exported regular expression   *)
(*     is taken as its definition (RFC 6838 is not consulted).                              *)
EXTENDS Integers, Sequences, FiniteSets, TLC

VARIABLES
    objs,   \* result.Result objects of the current execution: id -> [v, e]
    bad     \* names of the clauses failed by the LAST event (an execution is a batch of
            \* independent evaluations, so `bad` is per event, not sticky)
pvars == <<objs, bad>>

PInit  == objs = <<>> /\ bad = {}
PReset == objs' = <<>> /\ bad' = {}

R(s, b) == [s |-> s, bad |-> b]

-----------------------------------------------------------------------------
(* string predicates over sequences of integers *)

IsPrefixOf(p, s) == Len(p) <= Len(s) /\ SubSeq(s, 1, Len(p)) = p
IsSuffixOf(p, s) == Len(p) <= Len(s) /\ SubSeq(s, Len(s) - Len(p) + 1, Len(s)) = p
Contains(s, p)   == \E i \in 0..(Len(s) - Len(p)) : SubSeq(s, i + 1, i + Len(p)) = p
Member(v, vs)    == \E k \in 1..Len(vs) : vs[k] = v
AllOf(v, c)      == \A i \in 1..Len(v) : v[i] = c

-----------------------------------------------------------------------------
(* H1: the fixed list of regular expressions (0 = re not set).  a = 97, b = 98.             *)

ReSrc == << "^a*$", "^(a|b)b$", "^.?$", "^ab", "b$", "ab", "b*", "a(", "[", "*" >>
ReIds == 0..Len(ReSrc)
ReValid(id) == id \in 1..7            \* "a(", "[" and "*" do not compile

\* the value contains a match (Go: regexp.MatchString)
ReSearch(id, v) ==
    CASE id = 1 -> AllOf(v, 97)
      [] id = 2 -> Len(v) = 2 /\ v[1] \in {97, 98} /\ v[2] = 98
      [] id = 3 -> Len(v) = 0 \/ (Len(v) = 1 /\ v[1] # 10)
      [] id = 4 -> IsPrefixOf(<<97, 98>>, v)
      [] id = 5 -> Len(v) >= 1 /\ v[Len(v)] = 98
      [] id = 6 -> Contains(v, <<97, 98>>)
      [] id = 7 -> TRUE
      [] OTHER  -> FALSE

\* the whole value is a match
ReFull(id, v) ==
    CASE id \in {1, 2, 3} -> ReSearch(id, v)
      [] id = 4 -> v = <<97, 98>>
      [] id = 5 -> v = <<98>>
      [] id = 6 -> v = <<97, 98>>
      [] id = 7 -> AllOf(v, 98)
      [] OTHER  -> FALSE

NoFilter == [empty |-> FALSE, not_empty |-> FALSE, value |-> <<>>, values |-> <<>>, re |-> 0,
             has_prefix |-> <<>>, has_suffix |-> <<>>, contains |-> <<>>]

\* the rules of c that are set and that value v definitely fails
Fails(c, v) ==
    (IF c.empty /\ v # <<>> THEN {"empty"} ELSE {})
    \cup (IF c.not_empty /\ v = <<>> THEN {"not_empty"} ELSE {})
    \cup (IF c.value # <<>> /\ v # c.value THEN {"value"} ELSE {})
    \cup (IF Len(c.values) > 0 /\ ~Member(v, c.values) THEN {"values"} ELSE {})
    \cup (IF c.re # 0 /\ ReValid(c.re) /\ ~ReSearch(c.re, v) THEN {"re"} ELSE {})
    \cup (IF c.has_prefix # <<>> /\ ~IsPrefixOf(c.has_prefix, v) THEN {"has_prefix"} ELSE {})
    \cup (IF c.has_suffix # <<>> /\ ~IsSuffixOf(c.has_suffix, v) THEN {"has_suffix"} ELSE {})
    \cup (IF c.contains # <<>> /\ ~Contains(v, c.contains) THEN {"contains"} ELSE {})

\* the two readings of "matches a regular expression" disagree on v
ReOpen(c, v) == c.re # 0 /\ ReValid(c.re) /\ ReSearch(c.re, v) /\ ~ReFull(c.re, v)

\* "y" must match, "n" must not match, "u" not decided by the statement
Expect(nilf, c, v) ==
    IF nilf THEN "y"
    ELSE IF c.re # 0 /\ ~ReValid(c.re) THEN "n"
    ELSE IF Fails(c, v) # {} THEN "n"
    ELSE IF ReOpen(c, v) THEN "u" ELSE "y"

\* one CheckMatch result g ("t" | "f" | "p" = panic) on value v
MatchBad(nilf, c, v, g) ==
    IF g = "p" THEN {"FilterPanic"}
    ELSE IF nilf THEN (IF g = "t" THEN {} ELSE {"FilterNil"})
    ELSE IF c.re # 0 /\ ~ReValid(c.re) THEN (IF g = "f" THEN {} ELSE {"FilterInvalidRe"})
    ELSE LET f == Fails(c, v) IN
         IF f # {} THEN (IF g = "f" THEN {} ELSE {"FilterAccept:" \o r : r \in f})
         ELSE IF ReOpen(c, v) \/ g = "t" THEN {} ELSE {"FilterReject"}

ValidateBad(nilf, c, vres, probes) ==
    IF vres = "panic" THEN {"FilterPanic"}
    ELSE IF ~nilf /\ c.re # 0 /\ ~ReValid(c.re)
         THEN (IF vres = "err" THEN {} ELSE {"FilterValidate:accepted"})
         ELSE IF vres = "err" /\ \E k \in 1..Len(probes) : Expect(nilf, c, probes[k]) = "y"
              THEN {"FilterValidate:rejected"} ELSE {}

\* e = [ev |-> "filter", nilf, cfg, vres, probes, got]: Validate and one CheckMatch per probe
FilterBad(e) ==
    IF Len(e.got) # Len(e.probes) \/ e.cfg.re \notin ReIds THEN {"Harness"}
    ELSE ValidateBad(e.nilf, e.cfg, e.vres, e.probes)
         \cup UNION {MatchBad(e.nilf, e.cfg, e.probes[k], e.got[k]) : k \in 1..Len(e.probes)}

-----------------------------------------------------------------------------
(* H2: enabled.Enabled (DEFAULT = 0, ENABLE = 1, DISABLE = 2)                               *)

InEnum(x) == x \in 0..2

\* e = [ev |-> "en", op, x, y, d, r, rv]: r is "t" | "f" (is), "ok" | "err" (validate), "ok" (merge), "p" = panic
EnabledBad(e) ==
    CASE e.op = "is" ->
           IF ~InEnum(e.x) THEN {}
           ELSE LET want == CASE e.x = 0 -> e.d [] e.x = 1 -> TRUE [] OTHER -> FALSE IN
                IF e.r \in {"t", "f"} /\ (e.r = "t") = want THEN {} ELSE {"EnabledIs"}
      [] e.op = "validate" ->
           IF (e.r = "ok" /\ InEnum(e.x)) \/ (e.r = "err" /\ ~InEnum(e.x)) THEN {} ELSE {"EnabledValidate"}
      [] e.op = "merge" ->
           IF ~InEnum(e.x) \/ ~InEnum(e.y) THEN {}
           ELSE IF e.r = "ok" /\ e.rv = (IF e.y = 0 THEN e.x ELSE e.y) THEN {} ELSE {"EnabledMerge"}
      [] OTHER -> {"Unexplained"}

-----------------------------------------------------------------------------
(* H3: iowriter.CallbackWriter.  Error classes: "" nil, "A" / "B" the harness's two error   *)
(* values (compared by identity in the driver), "other" anything else.                      *)

\* e = [ev |-> "cbw", nilcb, p, pafter, calls, seen, cbn, cberr, n, err, res]
CbwBad(e) ==
    IF e.nilcb
    THEN (IF e.res = "ok" /\ e.err # "" /\ e.n >= 0 /\ e.n <= Len(e.p) THEN {} ELSE {"CbwNil"})
    ELSE IF e.res # "ok" THEN {"CbwCalls:panic"}
    ELSE (IF e.calls = 1 THEN {} ELSE {"CbwCalls"})
         \cup (IF e.pafter = e.p /\ \A k \in 1..Len(e.seen) : e.seen[k] = e.p THEN {} ELSE {"CbwData"})
         \cup (IF e.calls = 1 /\ e.n # e.cbn THEN {"CbwCount"} ELSE {})
         \cup (IF e.calls = 1 /\ e.err # e.cberr THEN {"CbwErr"} ELSE {})

-----------------------------------------------------------------------------
(* H4: result.Result[int].  Error ids: 0 nil, 1 and 2 two error values with different       *)
(* messages, 3 a third error value with the same message as 1.                              *)

ErrRel(a, b) == IF a = b THEN "eq" ELSE IF {a, b} = {1, 3} THEN "open" ELSE "ne"

\* e = [ev |-> "res", op, id, j, v, e, gv, ge, r]
ResultStep(s, e) ==
    CASE e.op = "new" -> IF e.r = "ok" THEN R((e.id :> [v |-> e.v, e |-> e.e]) @@ s, {}) ELSE R(s, {"ResultGet:new"})
      [] e.op = "get" ->
           IF e.id \notin DOMAIN s THEN R(s, {"Harness"})
           ELSE R(s, IF e.r = "ok" /\ e.gv = s[e.id].v /\ e.ge = s[e.id].e THEN {} ELSE {"ResultGet"})
      [] e.op = "cmp" ->
           IF e.id \notin DOMAIN s \/ e.j \notin DOMAIN s THEN R(s, {"Harness"})
           ELSE LET a == s[e.id]  b == s[e.j]
                    rel == ErrRel(a.e, b.e)
                    want == IF a.v # b.v \/ rel = "ne" THEN "f" ELSE IF rel = "eq" THEN "t" ELSE "any"
                IN R(s, IF e.r \in {"t", "f"} /\ (want = "any" \/ e.r = want) THEN {} ELSE {"ResultCompare"})
      [] OTHER -> R(s, {"Unexplained"})

-----------------------------------------------------------------------------
(* H4: scrub.Scrub(parent[lo:hi]) -- `before` / `after` are the whole parent buffer          *)

\* e = [ev |-> "scrub", before, lo, hi, after, res]
ScrubBad(e) ==
    IF e.res # "ok" THEN {"ScrubZero:panic"}
    ELSE IF Len(e.after) # Len(e.before) \/ e.lo < 0 \/ e.hi < e.lo \/ e.hi > Len(e.before) THEN {"Harness"}
    ELSE (IF \A i \in (e.lo + 1)..e.hi : e.after[i] = 0 THEN {} ELSE {"ScrubZero"})
         \cup (IF \A i \in 1..Len(e.before) : (i <= e.lo \/ i > e.hi) => e.after[i] = e.before[i]
               THEN {} ELSE {"ScrubOutside"})

-----------------------------------------------------------------------------
(* H4: util_bufio.SplitOnNul *)

HasNul(d) == \E i \in 1..Len(d) : d[i] = 0
FirstNul(d) == CHOOSE i \in 1..Len(d) : d[i] = 0 /\ \A j \in 1..(i - 1) : d[j] # 0

\* e = [ev |-> "nul", data, eof, adv, tok, toknil, err, res]
NulBad(e) ==
    LET d == e.data
        more == e.adv = 0 /\ e.toknil /\ e.err = ""          \* (0, nil, nil)
    IN IF e.res # "ok" THEN {"NulSplit:panic"}
       ELSE IF HasNul(d)
            THEN LET i == FirstNul(d) IN
                 IF e.adv = i /\ ~e.toknil /\ e.tok = SubSeq(d, 1, i - 1) /\ e.err = "" THEN {} ELSE {"NulSplit"}
            ELSE IF ~e.eof THEN (IF more THEN {} ELSE {"NulSplit"})
            ELSE IF d = <<>> THEN (IF e.tok = <<>> THEN {} ELSE {"NulSplit"})
            ELSE IF more THEN {"NulTailDropped"}
            ELSE IF e.adv = Len(d) /\ e.tok = d /\ e.err = "" THEN {} ELSE {"NulSplit"}

\* the NUL-terminated segments of d and the unterminated tail
Segs(d) ==
    LET g[i \in 0..Len(d)] ==
          IF i = 0 THEN [done |-> <<>>, cur |-> <<>>]
          ELSE LET q == g[i-1] IN        \* (one reference: TLC does not memoise recursive function applications)
               IF d[i] = 0 THEN [done |-> Append(q.done, q.cur), cur |-> <<>>]
               ELSE [done |-> q.done, cur |-> Append(q.cur, d[i])]
    IN g[Len(d)]

\* e = [ev |-> "nulscan", data, toks, err, res]: a bufio.Scanner with SplitOnNul read `data` to the end
NulScanBad(e) ==
    LET s == Segs(e.data) IN
    IF e.res # "ok" THEN {"NulScan:panic"}
    ELSE IF e.err = "" /\ e.toks = s.done THEN (IF s.cur # <<>> THEN {"NulTailDropped"} ELSE {})
    ELSE IF e.err = "" /\ s.cur # <<>> /\ e.toks = Append(s.done, s.cur) THEN {}
    ELSE {"NulScan"}

-----------------------------------------------------------------------------
(* H4: vmime.IsValidMimeType *)

WordCh(c) == c \in 48..57 \/ c \in 65..90 \/ c \in 97..122 \/ c \in {95, 45, 46}    \* [-\w.]
MimeOK(s) == \E i \in 2..(Len(s) - 1) : s[i] = 47 /\ \A j \in 1..Len(s) : j # i => WordCh(s[j])

\* e = [ev |-> "mime", s, r]
MimeBad(e) == IF e.r \in {"t", "f"} /\ (e.r = "t") = MimeOK(e.s) THEN {} ELSE {"MimeValid"}

-----------------------------------------------------------------------------
(* one event *)

Step(s, e) ==
    CASE e.ev = "filter"  -> R(s, FilterBad(e))
      [] e.ev = "en"      -> R(s, EnabledBad(e))
      [] e.ev = "cbw"     -> R(s, CbwBad(e))
      [] e.ev = "res"     -> ResultStep(s, e)
      [] e.ev = "scrub"   -> R(s, ScrubBad(e))
      [] e.ev = "nul"     -> R(s, NulBad(e))
      [] e.ev = "nulscan" -> R(s, NulScanBad(e))
      [] e.ev = "mime"    -> R(s, MimeBad(e))
      [] e.ev = "begin"   -> R(<<>>, {})          \* a new group of result objects
      [] OTHER            -> R(s, {"Unexplained"})

\* the action used by the X specs and the trace spec
Fire(e) == LET r == Step(objs, e) IN objs' = r.s /\ bad' = r.bad

Violated == bad

Advisory == {"ScrubOutside", "NulTailDropped"}

\* name of violated condition (up to the first ':') -> property id
PropertyOf == [FilterNil |-> "X02", FilterAccept |-> "X02", FilterReject |-> "X02", FilterInvalidRe |-> "X02",
               FilterValidate |-> "X02", FilterPanic |-> "X02",
               EnabledIs |-> "X02", EnabledValidate |-> "X02", EnabledMerge |-> "X02",
               CbwCalls |-> "X02", CbwData |-> "X02", CbwCount |-> "X02", CbwErr |-> "X02", CbwNil |-> "X02",
               ResultGet |-> "X02", ResultCompare |-> "X02", ScrubZero |-> "X02",
               NulSplit |-> "X02", NulScan |-> "X02", MimeValid |-> "X02",
               ScrubOutside |-> "ADVISORY", NulTailDropped |-> "ADVISORY",
               Harness |-> "HARNESS", Unexplained |-> "HARNESS"]
=============================================================================
