---------------------------- MODULE HelpersPTrace ----------------------------
(* Replays an ndjson trace of evaluations of the real filter / enabled / iowriter / result / *)
(* scrub / bufio / vmime code through the HelpersP monitor.  Deterministic: one TLC state    *)
(* per event; the clauses failed by each event are collected and written to VERDICT_FILE.    *)
EXTENDS HelpersP, TraceLib

VARIABLES l, viol, advseen

tvars == <<l, viol, advseen>>

TInit == PInit /\ l = 1 /\ viol = <<>> /\ advseen = {}

\* Clauses failed by event l-1.  Advisory names (they map to no property) are recorded once per
\* trace file, so that they cannot use up the MaxViol records kept per file (the state is
\* fingerprinted at every step; a defect that fails thousands of vectors must not make that quadratic).
MaxViol == 200
Fresh == Violated \ advseen
Recorded ==
    IF l > 1 /\ Fresh # {} /\ Len(viol) < MaxViol
    THEN Append(viol, [run |-> Trace[l-1].run, seq |-> Trace[l-1].seq, names |-> Fresh, l |-> l - 1])
    ELSE viol

Apply(e) ==
    CASE e.ev = "reset" -> PReset
      [] e.ev \in {"note", "end", "leak"} -> bad' = {} /\ UNCHANGED objs
      [] OTHER -> Fire(e)

TStep ==
    /\ l <= Len(Trace)
    /\ viol' = Recorded
    /\ advseen' = advseen \cup (Violated \cap Advisory)
    /\ Apply(Trace[l])
    /\ l' = l + 1

TFinish ==
    /\ l = Len(Trace) + 1
    /\ viol' = Recorded
    /\ WriteVerdict(viol', Len(Trace))
    /\ l' = l + 1
    /\ UNCHANGED <<pvars, advseen>>

TNext == TStep \/ TFinish
TSpec == TInit /\ [][TNext]_<<pvars, tvars>>
=============================================================================
