------------------------------ MODULE HelpersVec ------------------------------
(* Enumerator of the input boxes of the pure helpers and, at the same time, an               *)
(* implementation-shaped model of them: every initial state is one input vector (a filter    *)
(* configuration with its probe values, a SplitOnNul input, a mime string, an Enabled call); *)
(* the model evaluates the code's algorithm on it and fires the HelpersP event, so           *)
(* `ModelSafe` says "the algorithm satisfies the statements of HelpersP on the whole box".   *)
(* The same vectors are written to VEC_FILE_* (see fam_helpers.py) and evaluated by the real *)
(* functions.                                                                               *)
(*                                                                                          *)
(* Filter configurations: box A = every combination of set / unset of the eight fields,      *)
(* each set field with one of a few values; box B = at most BK fields set, each over a       *)
(* richer domain (all strings over {a, b} up to a length, every regular expression of the    *)
(* fixed list, the invalid ones included); plus the nil filter.                              *)
EXTENDS HelpersP, SequencesExt

CONSTANTS
    ProbeAlpha, ProbeLen,      \* probe values: all strings over ProbeAlpha up to this length
    AStrs, AValues, ARes,      \* box A: non-zero choices of the string fields / values / re
    BStrs, BValues, BRes, BK,  \* box B: domains and the maximal number of fields set
    NulAlpha, NulLen,          \* SplitOnNul inputs: all strings over NulAlpha up to NulLen
    MimeAlpha, MimeLen,        \* mime strings
    EnVals                     \* Enabled values (some outside the enum)

VARIABLES kind, vec, phase
xvars == <<kind, vec, phase>>

Strs(A, n) == UNION {[1..k -> A] : k \in 0..n}

Probes == SetToSeq(Strs(ProbeAlpha, ProbeLen))

Opt(S, zero) == S \cup {zero}
BoxA == {[empty |-> e, not_empty |-> ne, value |-> v, values |-> vs, re |-> r,
          has_prefix |-> hp, has_suffix |-> hs, contains |-> ct] :
            e \in BOOLEAN, ne \in BOOLEAN, v \in Opt(AStrs, <<>>), vs \in Opt(AValues, <<>>), r \in Opt(ARes, 0),
            hp \in Opt(AStrs, <<>>), hs \in Opt(AStrs, <<>>), ct \in Opt(AStrs, <<>>)}

Fields == {"empty", "not_empty", "value", "values", "re", "has_prefix", "has_suffix", "contains"}
Dom(f) == CASE f \in {"empty", "not_empty"} -> {TRUE}
            [] f = "values" -> BValues
            [] f = "re" -> BRes
            [] OTHER -> BStrs
RECURSIVE AtMost(_)
AtMost(k) == IF k = 0 THEN {NoFilter}
             ELSE LET S == AtMost(k - 1) IN
                  S \cup UNION {UNION {{[c EXCEPT ![f] = x] : x \in Dom(f)} : f \in Fields} : c \in S}
BoxB == AtMost(BK)

FilterVecs == {[k |-> "filter", nilf |-> FALSE, cfg |-> c, probes |-> Probes] : c \in BoxA \cup BoxB}
              \cup {[k |-> "filter", nilf |-> TRUE, cfg |-> NoFilter, probes |-> Probes]}
NulVecs  == {[k |-> "nul", data |-> d, eof |-> b] : d \in Strs(NulAlpha, NulLen), b \in BOOLEAN}
MimeVecs == {[k |-> "mime", s |-> s] : s \in Strs(MimeAlpha, MimeLen)}
EnVecs   == {[k |-> "en", op |-> o, x |-> x, y |-> y, d |-> d] :
               o \in {"is", "validate", "merge"}, x \in EnVals, y \in EnVals, d \in BOOLEAN}

VecsOf(kd) == CASE kd = "filter" -> FilterVecs [] kd = "nul" -> NulVecs [] kd = "mime" -> MimeVecs [] kd = "en" -> EnVecs

-----------------------------------------------------------------------------
(* the code *)

\* filter.go CheckMatch: a chain of early returns
ImplCheckMatch(nilf, c, v) ==
    IF nilf THEN TRUE
    ELSE IF c.empty /\ v # <<>> THEN FALSE
    ELSE IF c.not_empty /\ v = <<>> THEN FALSE
    ELSE IF c.value # <<>> /\ v # c.value THEN FALSE
    ELSE IF Len(c.values) # 0 /\ ~Member(v, c.values) THEN FALSE
    ELSE IF c.re # 0 /\ ~ReValid(c.re) THEN FALSE                 \* regexp.Compile failed
    ELSE IF c.re # 0 /\ ~ReSearch(c.re, v) THEN FALSE             \* !rgx.MatchString(value)
    ELSE IF c.has_prefix # <<>> /\ ~IsPrefixOf(c.has_prefix, v) THEN FALSE
    ELSE IF c.has_suffix # <<>> /\ ~IsSuffixOf(c.has_suffix, v) THEN FALSE
    ELSE IF c.contains # <<>> /\ ~Contains(v, c.contains) THEN FALSE
    ELSE TRUE

\* Validate: only the regular expression is compiled (f.GetRe() of a nil filter is "")
ImplValidate(nilf, c) == IF ~nilf /\ c.re # 0 /\ ~ReValid(c.re) THEN "err" ELSE "ok"

TF(b) == IF b THEN "t" ELSE "f"

FilterEvent(v) ==
    [ev |-> "filter", nilf |-> v.nilf, cfg |-> v.cfg, vres |-> ImplValidate(v.nilf, v.cfg), probes |-> v.probes,
     got |-> [k \in 1..Len(v.probes) |-> TF(ImplCheckMatch(v.nilf, v.cfg, v.probes[k]))]]

\* bufio.go SplitOnNul: the first NUL ends a token, otherwise "need more data" -- at EOF too
NulEvent(v) ==
    LET d == v.data IN
    IF HasNul(d)
    THEN LET i == FirstNul(d) IN
         [ev |-> "nul", data |-> d, eof |-> v.eof, adv |-> i, tok |-> SubSeq(d, 1, i - 1), toknil |-> FALSE, err |-> "", res |-> "ok"]
    ELSE [ev |-> "nul", data |-> d, eof |-> v.eof, adv |-> 0, tok |-> <<>>, toknil |-> TRUE, err |-> "", res |-> "ok"]

\* a bufio.Scanner around it: the terminated segments; the tail is dropped with the split function as it is
ScanEvent(v) == [ev |-> "nulscan", data |-> v.data, toks |-> Segs(v.data).done, err |-> "", res |-> "ok"]

\* vmime.go: MimeTypeRe.MatchString
MimeEvent(v) == [ev |-> "mime", s |-> v.s, r |-> TF(MimeOK(v.s))]

\* enabled.go
ImplIs(x, d) == CASE x = 0 -> d [] x = 1 -> TRUE [] x = 2 -> FALSE [] OTHER -> d
EnEvent(v) ==
    CASE v.op = "is" -> [ev |-> "en", op |-> "is", x |-> v.x, y |-> v.y, d |-> v.d, r |-> TF(ImplIs(v.x, v.d)), rv |-> -1]
      [] v.op = "validate" -> [ev |-> "en", op |-> "validate", x |-> v.x, y |-> v.y, d |-> v.d,
                               r |-> (IF v.x \in {0, 1, 2} THEN "ok" ELSE "err"), rv |-> -1]
      [] v.op = "merge" -> [ev |-> "en", op |-> "merge", x |-> v.x, y |-> v.y, d |-> v.d, r |-> "ok",
                            rv |-> (IF v.y = 0 THEN v.x ELSE v.y)]

-----------------------------------------------------------------------------
Kinds == {"filter", "nul", "mime", "en"}

Init == PInit /\ kind \in Kinds /\ vec \in VecsOf(kind) /\ phase = "new"

Eval ==
    /\ phase = "new"
    /\ Fire(CASE kind = "filter" -> FilterEvent(vec) [] kind = "nul" -> NulEvent(vec)
              [] kind = "mime" -> MimeEvent(vec) [] kind = "en" -> EnEvent(vec))
    /\ phase' = (IF kind = "nul" /\ vec.eof THEN "scan" ELSE "done")
    /\ UNCHANGED <<kind, vec>>

Scan ==
    /\ phase = "scan"
    /\ Fire(ScanEvent(vec))
    /\ phase' = "done"
    /\ UNCHANGED <<kind, vec>>

Next == Eval \/ Scan

\* the algorithm violates no clause on the box (the advisory observations are expected: the code drops an
\* unterminated tail)
ModelSafe == bad \subseteq Advisory

\* every filter configuration of the box, counted by the number of fields set (reported in the evidence)
NSet(c) == Cardinality({f \in Fields : c[f] # NoFilter[f]})
=============================================================================
