----------------------------- MODULE CCallPTrace -----------------------------
(* Replays an ndjson trace recorded from the real ccall code through the CCallP monitor.     *)
(* Deterministic: one state per event; every failed condition is collected and written to    *)
(* VERDICT_FILE.                                                                            *)
EXTENDS CCallP, TraceLib

VARIABLES l, viol, seen, vnames

tvars == <<l, viol, seen, vnames>>

TInit == PInit /\ l = 1 /\ viol = <<>> /\ seen = {} /\ vnames = {}

Fresh == Violated \ seen
\* Keep the verdict small when thousands of executions fail the same way (the sequence is part
\* of the state): the first MaxViol failures are recorded, later ones only if they show a
\* condition that has not been recorded yet.
MaxViol == 200
Keep == l > 1 /\ Fresh # {} /\ (Len(viol) < MaxViol \/ Fresh \ vnames # {})
Recorded ==
    IF Keep
    THEN Append(viol, [run |-> Trace[l-1].run, seq |-> Trace[l-1].seq, names |-> Fresh, l |-> l - 1])
    ELSE viol
NamesNow == IF Keep THEN vnames \cup Fresh ELSE vnames

Apply(e) ==
    CASE e.ev = "reset"   -> PReset
      [] e.ev = "call"    -> PCall(e.kinds)
      [] e.ev = "enter"   -> PEnter(e.f, e.ctxdone)
      [] e.ev = "leave"   -> PLeave(e.f, e.out, e.ctxdone)
      [] e.ev = "cancel"  -> PCancel
      [] e.ev = "ret"     -> PRet(e.res)
      [] e.ev = "panic"   -> PPanic
      [] e.ev = "ctxobs"  -> PCtxObs(e.f, e.done)
      [] e.ev = "quiet"   -> PQuiet(e.blocked)
      [] e.ev = "final"   -> PFinal
      [] e.ev = "reuse"   -> PReuse(e.counts)
      [] e.ev = "spin" -> PSpin
      [] e.ev \in {"leak", "note", "end"} -> UNCHANGED pvars
      \* controller-level events of traces recorded with -logsteps (judged by CCallXTrace.tla only)
      [] e.ev \in {"step", "scen", "teardown"} -> UNCHANGED pvars
      [] OTHER            -> /\ bad' = bad \cup {"Unexplained"}
                             /\ UNCHANGED <<kinds, phase, calls, outs, cancelled>>

TStep ==
    /\ l <= Len(Trace)
    /\ viol' = Recorded
    /\ vnames' = NamesNow
    /\ seen' = IF Trace[l].ev = "reset" THEN {} ELSE seen \cup Violated
    /\ Apply(Trace[l])
    /\ l' = l + 1

TFinish ==
    /\ l = Len(Trace) + 1
    /\ viol' = Recorded
    /\ vnames' = NamesNow
    /\ WriteVerdict(viol', Len(Trace))
    /\ l' = l + 1
    /\ UNCHANGED <<pvars, seen>>

TNext == TStep \/ TFinish
TSpec == TInit /\ [][TNext]_<<pvars, tvars>>
=============================================================================
