---------------------------- MODULE CCallXTrace ----------------------------
(* X-level trace validation (advisory, DESIGN §2.5) for ccall.CallConcurrently.                 *)
(*                                                                                              *)
(* Executions recorded from the real code with every controller step logged (-logsteps) are      *)
(* replayed through the actions of CCall.tla itself; one TLC state per event.  One TLC run covers *)
(* all scenarios of the constant Scens: the driver logs which one a run uses ("scen", k = index   *)
(* into Scens) and the replay takes Choose(k).                                                    *)
(*                                                                                              *)
(*   step label      action of CCall.tla that must be enabled                                     *)
(*   call:c1         Call                                                                         *)
(*   grant:c1        StartCS | Unl | LoopCS  (whichever the caller's pc says)                     *)
(*   enter:fN        Enter(N)       fin:fN  Fin(N)       wcs:fN  WorkerCS(N)                      *)
(*   cancel          Cancel                                                                       *)
(*                                                                                              *)
(* The steps that the real goroutines perform within the same controller step (X's `Silent`      *)
(* steps: ImmRet, Ret1, WaitWake(f), Wake, WakeCtx) are taken eagerly after the labelled action  *)
(* by action composition (TLC option tlc2.tool.impl.Tool.cdot).  Where Go's select may take      *)
(* either branch (wait channel closed and context cancelled before the caller reached the        *)
(* select) the branch is read off the trace: a return is logged within this step iff the         *)
(* context branch was taken.                                                                     *)
(*                                                                                              *)
(* The API-level events logged between two steps are assertions on the spec's state after the    *)
(* step (call: the monitor's kinds; enter/leave: the function's state and outcome; cancel;       *)
(* ret: the caller is done and rv is the logged result; quiet: LibQuiet and the same "blocked     *)
(* inside the library"), the context flags of enter/leave (which X passes to the monitor from     *)
(* the state *before* the action) are checked against subc when the step is taken, and when the   *)
(* controller ran out of moves no labelled action may be enabled in the spec.  A mismatch is      *)
(* DRIFT (recorded, the rest of that run is skipped); it never is a verdict.                      *)
EXTENDS CCall, TraceLib

VARIABLES l, drift, live, nst
tv == <<l, drift, live, nst>>

XReset ==
    /\ PReset
    /\ sc' = 0 /\ pc' = "idle" /\ imm' = "" /\ running' = 0 /\ started' = 0 /\ exitErr' = "nil"
    /\ wch' = "none" /\ ctxc' = FALSE /\ subc' = FALSE
    /\ w' = [f \in 1..MaxN |-> "none"]
    /\ rv' = ""

TInit == Init /\ l = 1 /\ drift = <<>> /\ live = TRUE /\ nst = 0

-----------------------------------------------------------------------------
(* labels *)
Pre(lbl, s) == Len(lbl) >= Len(s) /\ SubSeq(lbl, 1, Len(s)) = s
Kind(lbl) == IF lbl = "call:c1" THEN "call"
             ELSE IF lbl = "grant:c1" THEN "grant"
             ELSE IF lbl = "cancel" THEN "cancel"
             ELSE IF Pre(lbl, "enter:f") THEN "enter"
             ELSE IF Pre(lbl, "fin:f") THEN "fin"
             ELSE IF Pre(lbl, "wcs:f") THEN "wcs" ELSE "?"
Digit(c) == CASE c = "1" -> 1 [] c = "2" -> 2 [] c = "3" -> 3 [] c = "4" -> 4 [] OTHER -> 0
FnOf(lbl) == Digit(SubSeq(lbl, Len(lbl), Len(lbl)))

-----------------------------------------------------------------------------
(* the events logged within the current step: Trace[l+1] .. up to the next step *)
Boundary(e) == e.ev \in {"step", "reset", "teardown", "end"}
RECURSIVE WinEnd(_)
WinEnd(i) == IF i > Len(Trace) \/ Boundary(Trace[i]) THEN i ELSE WinEnd(i + 1)
Win == (l + 1)..(WinEnd(l + 1) - 1)
RetAhead == \E i \in Win : Trace[i].ev = "ret"

CanAct(k, f) ==
    /\ sc # 0
    /\ CASE k = "call"   -> ENABLED Call
         [] k = "grant"  -> ENABLED (StartCS \/ Unl \/ LoopCS)
         [] k = "cancel" -> ENABLED Cancel
         [] k = "enter"  -> f \in 1..MaxN /\ ENABLED Enter(f)
         [] k = "fin"    -> f \in 1..MaxN /\ ENABLED Fin(f)
         [] k = "wcs"    -> f \in 1..MaxN /\ ENABLED WorkerCS(f)
         [] OTHER -> FALSE

\* X hands subc to the monitor at Enter / Fin: the logged flag must be the spec's subc now
FlagsOK(k, f) ==
    CASE k = "enter" -> \E i \in Win : Trace[i].ev = "enter" /\ Trace[i].f = f /\ Trace[i].ctxdone = subc
      [] k = "fin"   -> \E i \in Win : Trace[i].ev = "leave" /\ Trace[i].f = f /\ Trace[i].ctxdone = subc
                                       /\ Trace[i].out = Fns[f].out
      [] OTHER -> TRUE

Act(k, f) ==
    /\ UNCHANGED <<l, drift, live>> /\ nst' = nst + 1
    /\ CASE k = "call"   -> Call
         [] k = "grant"  -> StartCS \/ Unl \/ LoopCS
         [] k = "cancel" -> Cancel
         [] k = "enter"  -> Enter(f)
         [] k = "fin"    -> Fin(f)
         [] k = "wcs"    -> WorkerCS(f)

\* one eager step (deterministic), or nothing
Woken(f) == f \in Real /\ w[f] = "run" /\ Fns[f].out = "wait" /\ subc
W ==
    /\ UNCHANGED tv
    /\ IF ~Silent THEN UNCHANGED vars
       ELSE IF pc = "imm" THEN ImmRet
       ELSE IF pc = "fn1" /\ w[1] = "left" THEN Ret1
       ELSE IF \E f \in 1..N : Woken(f)
            THEN WaitWake(CHOOSE f \in 1..N : Woken(f) /\ \A g \in 1..N : Woken(g) => f <= g)
       ELSE IF pc = "sel" /\ wch = "closed" /\ ctxc THEN (IF RetAhead THEN WakeCtx ELSE Wake)
       ELSE Wake \/ WakeCtx

Fin0 == UNCHANGED <<vars, drift, live, nst>> /\ l' = l + 1

Drift(why) ==
    /\ drift' = Append(drift, [run |-> Trace[l].run, seq |-> Trace[l].seq, why |-> why])
    /\ live' = FALSE
    /\ l' = l + 1
    /\ UNCHANGED <<vars, nst>>

Check(ok, why) == IF ok THEN Fin0 ELSE Drift(why)

\* a labelled action (a controller move) is possible
AnyMove ==
    /\ sc # 0
    /\ \/ ENABLED (Call \/ StartCS \/ Unl \/ LoopCS \/ Cancel)
       \/ \E f \in 1..MaxN : ENABLED (Enter(f) \/ Fin(f) \/ WorkerCS(f))

TStep ==
    /\ l <= Len(Trace)
    /\ LET e == Trace[l] IN
       CASE e.ev = "reset" -> XReset /\ l' = l + 1 /\ live' = TRUE /\ UNCHANGED <<drift, nst>>
         [] ~live -> UNCHANGED <<vars, drift, live, nst>> /\ l' = l + 1
         [] e.ev = "scen" ->
              IF sc = 0 /\ e.k \in 1..Len(Scens) THEN Choose(e.k) /\ l' = l + 1 /\ UNCHANGED <<drift, live, nst>>
              ELSE Drift("scenario not among the constants of the spec")
         [] e.ev = "step" ->
              LET k == Kind(e.label) f == FnOf(e.label) IN
              IF sc # 0 /\ Silent THEN Drift("spec not settled before step " \o e.label)
              ELSE IF ~CanAct(k, f) THEN Drift("step not enabled: " \o e.label)
              ELSE IF ~FlagsOK(k, f) THEN Drift("context flag / outcome logged in this step differs: " \o e.label)
              ELSE Act(k, f) \cdot W \cdot W \cdot W \cdot W \cdot W \cdot W \cdot Fin0
         [] e.ev = "call" ->
              Check(phase # "idle" /\ kinds = e.kinds, "call not explained by the spec")
         [] e.ev = "enter" ->
              Check(e.f \in Real /\ w[e.f] \in {"run", "left", "exited"} /\ calls[e.f] = 1, "enter not explained by the spec")
         [] e.ev = "leave" ->
              Check(e.f \in Real /\ w[e.f] \in {"left", "exited"} /\ outs[e.f] = e.out /\ (Fns[e.f].out = "wait" => e.ctxdone),
                    "leave not explained by the spec")
         [] e.ev = "cancel" -> Check(ctxc /\ subc /\ cancelled, "cancel not explained by the spec")
         [] e.ev = "ret" -> Check(pc = "done" /\ rv = e.res /\ phase = "returned", "return not explained by the spec")
         [] e.ev = "panic" -> Check(pc = "done" /\ rv = "panic", "panic not explained by the spec")
         [] e.ev = "quiet" ->
              Check(LibQuiet /\ (pc = "sel") = e.blocked, "quiescent observation differs")
         [] e.ev = "teardown" ->
              IF e.exhausted /\ (sc = 0 \/ Silent \/ AnyMove)
              THEN Drift("controller ran out of moves but the spec has one")
              ELSE UNCHANGED <<vars, drift, nst>> /\ live' = FALSE /\ l' = l + 1
         [] OTHER -> Fin0

TFinish ==
    /\ l = Len(Trace) + 1
    /\ JsonSerialize(IOEnv.VERDICT_FILE, [drift |-> drift, consumed |-> Len(Trace), total |-> Len(Trace), steps |-> nst])
    /\ l' = l + 1
    /\ UNCHANGED <<vars, drift, live, nst>>

TNext == TStep \/ TFinish
=============================================================================
